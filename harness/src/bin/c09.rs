//! C09 — the optimizer never changes a query's answer.
//!
//! For generated core queries (rendered to GQL from an abstract query) and for hand-built logical
//! plans over generated small graphs the harness
//!   (a) dumps the translated+bound logical plan and the plan `Optimizer::optimize` returns under each
//!       of the 8 switch combinations as Coq terms of `GV.Query.Plan.plan` (by matching on the public
//!       enums; anything outside the modelled core makes the case "unmodelled"),
//!   (b) lets Coq compare plan-after with `Opt.v` applied to plan-before (`chk_opts`),
//!   (c) ORACLE: executes the same plan through the real planner+executor under all 8 switch
//!       combinations x statistics fresh / stale / absent and requires identical row multisets
//!       (identical sequences under ORDER BY on a total key),
//!   (d) lets Coq compare the engine's rows with `sem G plan` (`chk_sem`) where the plan is modelled.
use grafeo_common::types::{EdgeId, NodeId, Value};
use grafeo_engine::GrafeoDB;
use grafeo_engine::query::optimizer::Optimizer;
use grafeo_engine::query::plan::*;
use grafeo_engine::query::{Executor, Planner, binder::Binder, gql_translator};
use gv_harness::*;
use std::sync::Arc;

// ------------------------------------------------------------------------------------------ Coq printing

fn cs(s: &str) -> String {
    assert!(!s.contains('"') && !s.contains('\\'), "string not printable: {s}");
    format!("\"{}\"%string", s)
}
fn cos(o: &Option<String>) -> String {
    match o {
        Some(s) => format!("(Some {})", cs(s)),
        None => "None".into(),
    }
}
fn cval(v: &Value) -> Option<String> {
    Some(match v {
        Value::Null => "VNull".into(),
        Value::Bool(b) => format!("(VBool {})", coq::b(*b)),
        Value::Int64(i) => format!("(VInt {})", coq::z(*i)),
        Value::String(s) => {
            if s.contains('"') || s.contains('\\') || !s.is_ascii() {
                return None;
            }
            format!("(VStr {})", cs(s))
        }
        _ => return None,
    })
}

thread_local! {
    /// set when an expression outside the modelled core was printed as `EOpaque`
    static OPAQUE_SEEN: std::cell::Cell<bool> = const { std::cell::Cell::new(false) };
}

/// The variables an expression mentions — the harness's own walk (independent of
/// `Optimizer::collect_variables`); subqueries have their own scope.
fn expr_var_list(e: &LogicalExpression, out: &mut Vec<String>) {
    use LogicalExpression as E;
    let mut add = |v: &String, out: &mut Vec<String>| {
        if !out.contains(v) {
            out.push(v.clone());
        }
    };
    match e {
        E::Literal(_) | E::Parameter(_) => {}
        E::Variable(v) => add(v, out),
        E::Property { variable, .. } => add(variable, out),
        E::Binary { left, right, .. } => {
            expr_var_list(left, out);
            expr_var_list(right, out);
        }
        E::Unary { operand, .. } => expr_var_list(operand, out),
        E::FunctionCall { args, .. } => args.iter().for_each(|a| expr_var_list(a, out)),
        E::List(items) => items.iter().for_each(|a| expr_var_list(a, out)),
        E::Map(pairs) => pairs.iter().for_each(|(_, a)| expr_var_list(a, out)),
        E::IndexAccess { base, index } => {
            expr_var_list(base, out);
            expr_var_list(index, out);
        }
        E::SliceAccess { base, start, end } => {
            expr_var_list(base, out);
            if let Some(s) = start {
                expr_var_list(s, out);
            }
            if let Some(x) = end {
                expr_var_list(x, out);
            }
        }
        E::Case { operand, when_clauses, else_clause } => {
            if let Some(o) = operand {
                expr_var_list(o, out);
            }
            for (c, r) in when_clauses {
                expr_var_list(c, out);
                expr_var_list(r, out);
            }
            if let Some(x) = else_clause {
                expr_var_list(x, out);
            }
        }
        E::Labels(v) | E::Type(v) | E::Id(v) => add(v, out),
        E::ListComprehension { list_expr, filter_expr, map_expr, .. } => {
            expr_var_list(list_expr, out);
            if let Some(f) = filter_expr {
                expr_var_list(f, out);
            }
            expr_var_list(map_expr, out);
        }
        E::ExistsSubquery(_) | E::CountSubquery(_) => {}
    }
}

/// An expression of the modelled core, or `EOpaque tag vars` for anything else (the rewrites only
/// look at the variables; rows of such a case are not compared with the semantics).
fn cexpr(e: &LogicalExpression) -> Option<String> {
    if let Some(s) = cexpr_core(e) {
        return Some(s);
    }
    let text = format!("{:?}", e);
    let mut h: u64 = 0xcbf29ce484222325;
    for b in text.bytes() {
        h = (h ^ b as u64).wrapping_mul(0x100000001b3);
    }
    let mut vars = vec![];
    expr_var_list(e, &mut vars);
    if vars.iter().any(|v| v.contains('"') || v.contains('\\')) {
        return None;
    }
    OPAQUE_SEEN.with(|c| c.set(true));
    Some(format!("(EOpaque {} {})", cs(&format!("x{:016x}", h)), coq::list(vars.iter().map(|v| cs(v)))))
}

fn cexpr_core(e: &LogicalExpression) -> Option<String> {
    Some(match e {
        LogicalExpression::Literal(v) => format!("(ELit {})", cval(v)?),
        LogicalExpression::Variable(x) => format!("(EVar {})", cs(x)),
        LogicalExpression::Property { variable, property } => format!("(EProp {} {})", cs(variable), cs(property)),
        LogicalExpression::Binary { left, op, right } => {
            let o = match op {
                BinaryOp::Eq => "OEq",
                BinaryOp::Ne => "ONe",
                BinaryOp::Lt => "OLt",
                BinaryOp::Le => "OLe",
                BinaryOp::Gt => "OGt",
                BinaryOp::Ge => "OGe",
                BinaryOp::And => "OAnd",
                BinaryOp::Or => "OOr",
                BinaryOp::Add => "OAdd",
                BinaryOp::Sub => "OSub",
                BinaryOp::Mul => "OMul",
                _ => return None,
            };
            format!("(EBin {} {} {})", o, cexpr(left)?, cexpr(right)?)
        }
        LogicalExpression::Unary { op, operand } => {
            let o = match op {
                UnaryOp::Not => "UNot",
                UnaryOp::IsNull => "UIsNull",
                UnaryOp::IsNotNull => "UIsNotNull",
                UnaryOp::Neg => "UNeg",
            };
            format!("(EUn {} {})", o, cexpr(operand)?)
        }
        LogicalExpression::FunctionCall { name, args, distinct: false } if name == "hasLabel" && args.len() == 2 => {
            match (&args[0], &args[1]) {
                (LogicalExpression::Variable(x), LogicalExpression::Literal(Value::String(l))) => {
                    format!("(EHasLabel {} {})", cs(x), cs(l))
                }
                _ => return None,
            }
        }
        _ => return None,
    })
}

fn citems<'a, I: Iterator<Item = (&'a LogicalExpression, &'a Option<String>)>>(it: I) -> Option<String> {
    let mut v = vec![];
    for (e, a) in it {
        v.push(format!("({}, {})", cexpr(e)?, cos(a)));
    }
    Some(coq::list(v))
}

fn cplan(op: &LogicalOperator) -> Option<String> {
    Some(match op {
        LogicalOperator::Empty => "PEmpty".into(),
        LogicalOperator::NodeScan(s) => match &s.input {
            None => format!("(PScan {} {})", cs(&s.variable), cos(&s.label)),
            Some(i) => format!("(PScanIn {} {} {})", cs(&s.variable), cos(&s.label), cplan(i)?),
        },
        LogicalOperator::Expand(e) => {
            // single hop without path alias, or a bounded variable-length expand (max <= 4: the
            // engine enumerates walks, not paths)
            let single = e.min_hops == 1 && e.max_hops == Some(1);
            let hops = match (single, e.max_hops, &e.path_alias) {
                (true, _, None) => "hop1".to_string(),
                (true, _, Some(_)) => return None,
                (false, Some(mx), pa) if mx <= 4 && e.min_hops <= 4 => {
                    format!("(mkHops {} (Some {}) {})", coq::nat(e.min_hops as usize), coq::nat(mx as usize), cos(pa))
                }
                _ => return None,
            };
            let d = match e.direction {
                ExpandDirection::Outgoing => "DOut",
                ExpandDirection::Incoming => "DIn",
                ExpandDirection::Both => "DBoth",
            };
            format!(
                "(PExpand {} {} {} {} {} {} {})",
                cs(&e.from_variable),
                cs(&e.to_variable),
                cos(&e.edge_variable),
                d,
                cos(&e.edge_type),
                hops,
                cplan(&e.input)?
            )
        }
        LogicalOperator::Filter(f) => format!("(PFilter {} {})", cexpr(&f.predicate)?, cplan(&f.input)?),
        LogicalOperator::Project(p) => format!(
            "(PProject {} {})",
            citems(p.projections.iter().map(|x| (&x.expression, &x.alias)))?,
            cplan(&p.input)?
        ),
        LogicalOperator::Return(r) => format!(
            "(PReturn {} {} {})",
            citems(r.items.iter().map(|x| (&x.expression, &x.alias)))?,
            coq::b(r.distinct),
            cplan(&r.input)?
        ),
        LogicalOperator::Join(j) => {
            let k = match j.join_type {
                JoinType::Inner => "JInner",
                JoinType::Cross => "JCross",
                JoinType::Left => "JLeft",
                _ => return None,
            };
            let mut cv = vec![];
            for c in &j.conditions {
                cv.push(format!("({}, {})", cexpr(&c.left)?, cexpr(&c.right)?));
            }
            format!("(PJoin {} {} {} {})", k, coq::list(cv), cplan(&j.left)?, cplan(&j.right)?)
        }
        LogicalOperator::LeftJoin(j) => {
            if j.condition.is_some() {
                return None;
            }
            format!("(PLeftJoin {} {})", cplan(&j.left)?, cplan(&j.right)?)
        }
        LogicalOperator::Aggregate(a) => {
            if a.having.is_some() {
                return None;
            }
            let mut gs = vec![];
            for g in &a.group_by {
                gs.push(cexpr(g)?);
            }
            let mut ags = vec![];
            for x in &a.aggregates {
                if x.distinct {
                    return None;
                }
                let f = match (x.function, &x.expression) {
                    (AggregateFunction::Count, None) => "ACountStar".to_string(),
                    (AggregateFunction::CountNonNull, Some(e)) => format!("(ACountNonNull {})", cexpr(e)?),
                    _ => return None,
                };
                ags.push(format!("({}, {})", f, cos(&x.alias)));
            }
            format!("(PAgg {} {} {})", coq::list(gs), coq::list(ags), cplan(&a.input)?)
        }
        LogicalOperator::Sort(s) => {
            let mut ks = vec![];
            for k in &s.keys {
                ks.push(format!("({}, {})", cexpr(&k.expression)?, coq::b(k.order == SortOrder::Descending)));
            }
            format!("(PSort {} {})", coq::list(ks), cplan(&s.input)?)
        }
        LogicalOperator::Skip(s) => {
            if s.count >= 4000 {
                return None;
            }
            format!("(PSkip {} {})", coq::nat(s.count), cplan(&s.input)?)
        }
        LogicalOperator::Limit(s) => {
            if s.count >= 4000 {
                return None;
            }
            format!("(PLimit {} {})", coq::nat(s.count), cplan(&s.input)?)
        }
        LogicalOperator::Distinct(d) => {
            if d.columns.is_some() {
                return None;
            }
            format!("(PDistinct {})", cplan(&d.input)?)
        }
        LogicalOperator::Union(u) => {
            if u.inputs.len() != 2 {
                return None;
            }
            format!("(PUnion {} {})", cplan(&u.inputs[0])?, cplan(&u.inputs[1])?)
        }
        _ => return None,
    })
}

// ------------------------------------------------------------------------------------------ graphs

#[derive(Clone)]
struct GNode {
    id: u64,
    labels: Vec<String>,
    props: Vec<(String, Value)>,
}
#[derive(Clone)]
struct GEdge {
    id: u64,
    src: u64,
    dst: u64,
    ty: String,
    props: Vec<(String, Value)>,
}
struct Fixture {
    db: GrafeoDB,
    nodes: Vec<GNode>,
    edges: Vec<GEdge>,
    /// optimizer whose estimator was filled before the last part of the data was inserted
    stale: Option<grafeo_core::statistics::Statistics>,
    desc: String,
}

const LABELS: [&str; 3] = ["A", "B", "C"];
const ETYPES: [&str; 2] = ["R", "S"];

fn props_coq(ps: &[(String, Value)]) -> String {
    coq::list(ps.iter().map(|(k, v)| format!("({}, {})", cs(k), cval(v).expect("fixture value"))))
}

impl Fixture {
    fn coq(&self) -> String {
        let ns = coq::list(self.nodes.iter().map(|n| {
            format!(
                "(mkNode {} {} {})",
                coq::zu(n.id),
                coq::list(n.labels.iter().map(|l| cs(l))),
                props_coq(&n.props)
            )
        }));
        let es = coq::list(self.edges.iter().map(|e| {
            format!(
                "(mkEdge {} {} {} {} {})",
                coq::zu(e.id),
                coq::zu(e.src),
                coq::zu(e.dst),
                cs(&e.ty),
                props_coq(&e.props)
            )
        }));
        format!("(mkGraph {} {})", ns, es)
    }

    fn add_node(&mut self, labels: &[&str], props: Vec<(String, Value)>) -> u64 {
        let id: NodeId = self.db.create_node(labels);
        for (k, v) in &props {
            self.db.set_node_property(id, k, v.clone());
        }
        self.nodes.push(GNode { id: id.0, labels: labels.iter().map(|s| s.to_string()).collect(), props });
        id.0
    }
    fn add_edge(&mut self, src: u64, dst: u64, ty: &str, props: Vec<(String, Value)>) {
        let id: EdgeId = self.db.create_edge(NodeId(src), NodeId(dst), ty);
        for (k, v) in &props {
            self.db.set_edge_property(id, k, v.clone());
        }
        self.edges.push(GEdge { id: id.0, src, dst, ty: ty.to_string(), props });
    }
}

/// Small graph: 0..10 nodes over labels A/B/C with int properties v, w (small range, sometimes
/// missing), a unique int u and a string s; 0..14 edges of types R/S with an int property ew
/// (self-loops and parallel edges included).  No explicit transactions (DESIGN §0 b).
fn gen_fixture(r: &mut Rng) -> Fixture {
    let mut f = Fixture { db: GrafeoDB::new_in_memory(), nodes: vec![], edges: vec![], stale: None, desc: String::new() };
    let nn = match r.below(8) {
        0 => r.below(3) as usize,
        _ => 3 + r.below(8) as usize,
    };
    let ne = if nn == 0 { 0 } else { r.below(15) as usize };
    // stale statistics are taken after about half of the data
    let cut_n = nn / 2;
    let cut_e = ne / 2;
    let mut ids = vec![];
    let gen_node = |f: &mut Fixture, r: &mut Rng, i: usize| -> u64 {
        let l1 = *r.pick(&LABELS);
        let mut labels = vec![l1];
        if r.chance(1, 8) {
            let l2 = *r.pick(&LABELS);
            if l2 != l1 {
                labels.push(l2);
            }
        }
        let mut props = vec![];
        if !r.chance(1, 7) {
            props.push(("v".to_string(), Value::Int64(r.range(0, 3))));
        }
        if !r.chance(1, 4) {
            props.push(("w".to_string(), Value::Int64(r.range(0, 3))));
        }
        props.push(("u".to_string(), Value::Int64(100 + i as i64)));
        if r.chance(1, 2) {
            props.push(("s".to_string(), Value::String((*r.pick(&["x", "y"])).into())));
        }
        f.add_node(&labels, props)
    };
    let gen_edge = |f: &mut Fixture, r: &mut Rng, ids: &[u64]| {
        let s = *r.pick(ids);
        let d = if r.chance(1, 8) { s } else { *r.pick(ids) };
        let ty = *r.pick(&ETYPES);
        let mut props = vec![];
        if !r.chance(1, 5) {
            props.push(("ew".to_string(), Value::Int64(r.range(0, 3))));
        }
        f.add_edge(s, d, ty, props);
    };
    for i in 0..cut_n {
        ids.push(gen_node(&mut f, r, i));
    }
    if !ids.is_empty() {
        for _ in 0..cut_e {
            gen_edge(&mut f, r, &ids);
        }
    }
    f.db.store().ensure_statistics_fresh();
    f.stale = Some(f.db.store().statistics());
    for i in cut_n..nn {
        ids.push(gen_node(&mut f, r, i));
    }
    if !ids.is_empty() {
        for _ in cut_e..ne {
            gen_edge(&mut f, r, &ids);
        }
    }
    f.desc = format!("graph {} nodes {} edges", f.nodes.len(), f.edges.len());
    f
}

/// The fixed graph of the corpus cases: A(v=0..3), B(v=0..2), C(v=1..3), a few R/S edges.
fn corpus_fixture() -> Fixture {
    let mut f = Fixture { db: GrafeoDB::new_in_memory(), nodes: vec![], edges: vec![], stale: None, desc: "corpus graph".into() };
    let mut a = vec![];
    let mut b = vec![];
    let mut c = vec![];
    let mut u = 100;
    for i in 0..4i64 {
        a.push(f.add_node(&["A"], vec![("v".into(), Value::Int64(i)), ("u".into(), Value::Int64(u))]));
        u += 1;
    }
    f.db.store().ensure_statistics_fresh();
    f.stale = Some(f.db.store().statistics());
    for i in 0..3i64 {
        b.push(f.add_node(&["B"], vec![("v".into(), Value::Int64(i)), ("u".into(), Value::Int64(u))]));
        u += 1;
    }
    for i in 0..3i64 {
        c.push(f.add_node(&["C"], vec![("v".into(), Value::Int64(i + 1)), ("u".into(), Value::Int64(u))]));
        u += 1;
    }
    f.add_edge(a[0], b[0], "R", vec![("ew".into(), Value::Int64(1))]);
    f.add_edge(a[0], b[1], "R", vec![("ew".into(), Value::Int64(2))]);
    f.add_edge(a[1], b[1], "R", vec![]);
    f.add_edge(a[2], b[2], "S", vec![("ew".into(), Value::Int64(3))]);
    f.add_edge(b[0], c[0], "S", vec![]);
    f.add_edge(a[1], c[0], "R", vec![("ew".into(), Value::Int64(2))]);
    f
}

// ------------------------------------------------------------------------------------------ running

#[derive(Clone, PartialEq)]
struct Outcome {
    /// Ok(rows) or Err(stage: message kind)
    rows: Result<Vec<Vec<Value>>, String>,
}

fn run_plan(db: &GrafeoDB, plan: &LogicalPlan, opt: &Optimizer) -> (Option<LogicalPlan>, Outcome) {
    let p = plan.clone();
    let r = catch(std::panic::AssertUnwindSafe(|| {
        let optimized = match opt.optimize(p) {
            Ok(o) => o,
            Err(e) => return (None, Err(format!("optimize: {e}"))),
        };
        let planner = Planner::new(Arc::clone(db.store()));
        let mut phys = match planner.plan(&optimized) {
            Ok(p) => p,
            Err(_) => return (Some(optimized), Err("plan-error".to_string())),
        };
        let ex = Executor::with_columns(phys.columns.clone());
        match ex.execute(phys.operator.as_mut()) {
            Ok(r) => (Some(optimized), Ok(r.rows)),
            Err(e) => {
                if std::env::var_os("GV_C09_DEBUG").is_some() {
                    eprintln!("exec-error: {e}");
                }
                (Some(optimized), Err("exec-error".to_string()))
            }
        }
    }));
    match r {
        Ok((o, rows)) => (o, Outcome { rows }),
        Err(m) => (None, Outcome { rows: Err(format!("panic: {m}")) }),
    }
}

thread_local! {
    /// LIMIT/SKIP without ORDER BY over a join tree that reordering may rebuild: which rows survive is
    /// not defined by the query, only how many — the oracle compares the number of rows
    static COUNT_ONLY: std::cell::Cell<bool> = const { std::cell::Cell::new(false) };
}

fn canon(o: &Outcome, ordered: bool) -> String {
    match &o.rows {
        Ok(rows) if COUNT_ONLY.with(|c| c.get()) => format!("{} rows (count only)", rows.len()),
        Ok(rows) => {
            let mut v: Vec<String> = rows.iter().map(|r| format!("{:?}", r)).collect();
            if !ordered {
                v.sort();
            }
            format!("{} rows {}", v.len(), v.join(" "))
        }
        Err(e) => format!("ERR {e}"),
    }
}

fn switches(base: Optimizer, m: u32) -> Optimizer {
    base.with_filter_pushdown(m & 1 != 0).with_join_reorder(m & 2 != 0).with_projection_pushdown(m & 4 != 0)
}

/// The whole treatment of one (graph, logical plan): dumps, correspondence terms, oracle.
fn treat(out: &mut Out, fx: &mut Fixture, kind: &str, text: &str, plan: &LogicalPlan, ordered: bool, sem_ok: bool, mut tags: Vec<String>) {
    OPAQUE_SEEN.with(|c| c.set(false));
    let before = cplan(&plan.root);
    let opaque = OPAQUE_SEEN.with(|c| c.get());
    if opaque {
        tags.push("opaque-expr".into());
    }
    let sem_ok = sem_ok && !opaque;
    // (c) oracle: 8 switch combinations x {fresh, stale, absent} statistics
    let mut afters: Vec<(u32, Option<String>)> = vec![];
    let mut reference: Option<(String, Outcome)> = None;
    let mut diffs: Vec<String> = vec![];
    let mut bad: Vec<u32> = vec![];
    for st in 0..3 {
        for m in 0..8u32 {
            let base = match st {
                0 => Optimizer::from_store(fx.db.store()),
                1 => match &fx.stale {
                    Some(stats) => Optimizer::new().with_cardinality_estimator(
                        grafeo_engine::query::optimizer::CardinalityEstimator::from_statistics(stats),
                    ),
                    None => Optimizer::new(),
                },
                _ => Optimizer::new(),
            };
            let opt = switches(base, m);
            let (optimized, outcome) = run_plan(&fx.db, plan, &opt);
            let c = canon(&outcome, ordered);
            if st == 0 {
                afters.push((m, optimized.as_ref().and_then(|o| cplan(&o.root))));
            }
            match &reference {
                None => reference = Some((c, outcome)),
                Some((rc, _)) => {
                    if *rc != c {
                        if !bad.contains(&m) {
                            bad.push(m);
                        }
                        if diffs.len() < 3 {
                            diffs.push(format!("switches={m} stats={} -> {}", ["fresh", "stale", "absent"][st], &c[..c.len().min(300)]));
                        }
                    }
                }
            }
        }
    }
    let (ref_canon, ref_outcome) = reference.unwrap();
    let modelled = before.is_some() && afters.iter().all(|(_, a)| a.is_some());
    let g = fx.coq();
    let mut case = Case { kind: kind.to_string(), input: format!("{} | {}", text, fx.desc), ..Default::default() };
    case.imp = ref_canon[..ref_canon.len().min(400)].to_string();
    // the plans are bound once (let pb := before in let p1 := .. in ..) and referred to by name
    let mut lets = String::new();
    let afters_coq = if modelled {
        let b = before.clone().unwrap();
        lets.push_str(&format!("let pb := {} in ", b));
        let mut names: Vec<(String, String)> = vec![(b, "pb".to_string())];
        let mut items = vec![];
        for (m, a) in &afters {
            let a = a.clone().unwrap();
            let name = match names.iter().find(|(t, _)| *t == a) {
                Some((_, n)) => n.clone(),
                None => {
                    let n = format!("p{}", names.len());
                    lets.push_str(&format!("let {} := {} in ", n, a));
                    names.push((a, n.clone()));
                    n
                }
            };
            items.push(format!("({}, {})", coq::nat(*m as usize), name));
        }
        Some(coq::list(items))
    } else {
        None
    };
    if let (Some(b), Some(a)) = (&before, &afters_coq) {
        case.coq = Some(format!("{}chk_opts pb {}", lets, a));
        case.show = Some(format!("show_opt true {}", b));
        let changed = afters.iter().any(|(_, x)| x.as_ref() != before.as_ref());
        case.nontrivial = changed;
        tags.push(if changed { "plan-changed".into() } else { "plan-unchanged".into() });
    } else {
        tags.push("unmodelled".into());
        case.kind = format!("{kind}-unmodelled");
    }
    if diffs.is_empty() {
        case.oracle = Oracle::Ok;
    } else {
        case.oracle = Oracle::Fail;
        case.msg = format!("reference (no rewrites, fresh statistics): {} ;; differing: {}", &ref_canon[..ref_canon.len().min(300)], diffs.join(" ;; "));
        if let (Some(b), Some(a)) = (&before, &afters_coq) {
            // the class is decided in Coq: `k_class_cfg` = 0 (not every differing switch combination is excused) | 1 | 2 | 4 | 5; checks/c09.py turns the
            // number into the finding id before the standard decision procedure runs
            case.kid = Some("C09-K?".into());
            let _ = b;
            case.kcoq = Some(format!(
                "{}k_class_cfg {} pb {} {}",
                lets,
                g,
                a,
                coq::list(bad.iter().map(|m| coq::nat(*m as usize)))
            ));
        }
        tags.push("oracle-fail".into());
    }
    if let Err(e) = &ref_outcome.rows {
        tags.push(format!("ref-{}", e.split(':').next().unwrap_or("err")));
    }
    case.tags = tags.clone();
    out.emit(&case);
    // (d) engine rows against sem (reference run = no rewrites)
    if let (true, Some(b), Ok(rows)) = (modelled && sem_ok, &before, &ref_outcome.rows) {
        let mut rs = vec![];
        for row in rows {
            let mut vs = vec![];
            for v in row {
                match cval(v) {
                    Some(s) => vs.push(s),
                    None => return,
                }
            }
            rs.push(coq::list(vs));
        }
        if rows.len() > 400 {
            return;
        }
        let mut c2 = Case { kind: format!("{kind}-sem"), input: format!("{} | {}", text, fx.desc), ..Default::default() };
        c2.coq = Some(format!("chk_sem {} {} {} {}", g, b, coq::b(ordered), coq::list(rs)));
        c2.show = Some(format!("show_sem {} {}", g, b));
        c2.imp = case.imp.clone();
        c2.nontrivial = rows.len() > 0;
        c2.oracle = Oracle::Na;
        c2.tags = vec![if rows.is_empty() { "sem-empty".into() } else { "sem-rows".into() }];
        out.emit(&c2);
    }
}

fn treat_gql(out: &mut Out, fx: &mut Fixture, q: &str, ordered: bool, sem_ok: bool, mut tags: Vec<String>) -> bool {
    let plan = match catch(|| gql_translator::translate(q)) {
        Ok(Ok(p)) => p,
        _ => {
            let mut c = Case { kind: "gql-rejected".into(), input: q.to_string(), ..Default::default() };
            c.tags = vec!["rejected-translate".into()];
            out.emit(&c);
            return false;
        }
    };
    let mut b = Binder::new();
    if b.bind(&plan).is_err() {
        let mut c = Case { kind: "gql-rejected".into(), input: q.to_string(), ..Default::default() };
        c.tags = vec!["rejected-bind".into()];
        out.emit(&c);
        return false;
    }
    tags.push("gql".into());
    treat(out, fx, "gql", q, &plan, ordered, sem_ok, tags);
    true
}

// ------------------------------------------------------------------------------------------ query generator

#[derive(Clone)]
struct NVar {
    name: String,
    /// false once the variable may be NULL (bound by OPTIONAL MATCH)
    total: bool,
}

struct QGen<'a> {
    r: &'a mut Rng,
    nodes: Vec<NVar>,
    edges: Vec<String>,
    ints: Vec<String>,
    next: usize,
    tags: Vec<String>,
    edge_atom: bool,
    joins: bool,
    two_hop: bool,
    var_len: bool,
}

impl<'a> QGen<'a> {
    fn fresh(&mut self, p: &str) -> String {
        self.next += 1;
        format!("{}{}", p, self.next)
    }
    fn label(&mut self) -> String {
        (*self.r.pick(&LABELS)).to_string()
    }
    fn pattern(&mut self, optional: bool) -> String {
        let a = self.fresh("n");
        let mut s = format!("({}:{})", a, self.label());
        self.nodes.push(NVar { name: a, total: !optional });
        let hops = match self.r.below(10) {
            0..=4 => 0,
            5..=8 => 1,
            _ => 2,
        };
        let mut single_run = 0;
        for _ in 0..hops {
            let b = self.fresh("n");
            let ev = if self.r.chance(1, 2) { Some(self.fresh("e")) } else { None };
            let ty = if self.r.chance(2, 3) { format!(":{}", self.r.pick(&ETYPES)) } else { String::new() };
            // a bounded variable-length hop (planned as VariableLengthExpandOperator; it breaks a chain)
            let range = if self.r.chance(1, 4) {
                let mn = 1 + self.r.below(2);
                let mx = mn + self.r.below(2);
                self.tags.push("var-length".into());
                self.var_len = true;
                // `*1..1` is planned as a single hop (min = 1, max = Some(1)) and so continues a chain
                if mn == 1 && mx == 1 {
                    single_run += 1;
                } else {
                    single_run = 0;
                }
                format!("*{}..{}", mn, mx)
            } else {
                single_run += 1;
                String::new()
            };
            if single_run >= 2 && !self.two_hop {
                // consecutive single-hop expands run through the factorized chain operator (C10's subject)
                self.two_hop = true;
                self.tags.push("two-hop".into());
            }
            let inner = match &ev {
                Some(e) => format!("[{}{}{}]", e, ty, range),
                None => {
                    if ty.is_empty() && range.is_empty() {
                        "[]".to_string()
                    } else {
                        format!("[{}{}]", ty, range)
                    }
                }
            };
            let lbl = if self.r.chance(1, 2) { format!(":{}", self.label()) } else { String::new() };
            let (l, rr) = match self.r.below(5) {
                0 => ("<-", "-"),
                1 => ("-", "-"),
                _ => ("-", "->"),
            };
            s.push_str(&format!("{}{}{}({}{})", l, inner, rr, b, lbl));
            self.nodes.push(NVar { name: b, total: !optional });
            if let Some(e) = ev {
                self.edges.push(e);
            }
            self.tags.push("expand".into());
        }
        s
    }
    fn cmp(&mut self) -> &'static str {
        *self.r.pick(&["=", "<>", "<", "<=", ">", ">="])
    }
    fn nprop(&mut self) -> &'static str {
        *self.r.pick(&["v", "v", "w", "u"])
    }
    fn atom(&mut self) -> String {
        let k = self.r.below(13);
        let pick_node = |s: &mut Self| s.nodes[s.r.below(s.nodes.len() as u64) as usize].name.clone();
        match k {
            0..=3 => {
                let x = pick_node(self);
                let p = self.nprop();
                let c = if p == "u" { self.r.range(100, 106) } else { self.r.range(0, 3) };
                format!("{}.{} {} {}", x, p, self.cmp(), c)
            }
            4..=6 if self.nodes.len() >= 2 => {
                let x = pick_node(self);
                let y = pick_node(self);
                self.tags.push("atom-two-vars".into());
                if self.r.chance(1, 3) {
                    format!("{}.{} + 1 {} {}.{}", x, self.nprop(), self.cmp(), y, self.nprop())
                } else {
                    format!("{}.{} {} {}.{}", x, self.nprop(), self.cmp(), y, self.nprop())
                }
            }
            7 if !self.edges.is_empty() => {
                let e = self.edges[self.r.below(self.edges.len() as u64) as usize].clone();
                self.tags.push("atom-edge".into());
                self.edge_atom = true;
                format!("{}.ew {} {}", e, self.cmp(), self.r.range(0, 3))
            }
            8 if !self.ints.is_empty() => {
                let k = self.ints[self.r.below(self.ints.len() as u64) as usize].clone();
                self.tags.push("atom-computed".into());
                format!("{} {} {}", k, self.cmp(), self.r.range(0, 4))
            }
            9 => {
                let x = pick_node(self);
                format!("{}.s = '{}'", x, self.r.pick(&["x", "y"]))
            }
            12 => {
                // expressions outside the modelled core (function calls, CASE): dumped as EOpaque (tag +
                // variables); plan correspondence and oracle, no row comparison with the semantics
                let x = pick_node(self);
                let y = pick_node(self);
                self.tags.push("atom-opaque".into());
                match self.r.below(4) {
                    0 => format!("coalesce({}.w, 0) {} {}", x, self.cmp(), self.r.range(0, 2)),
                    1 => format!("toString({}.v) = '{}'", x, self.r.range(0, 3)),
                    2 => format!("CASE WHEN {}.v > {}.w THEN true ELSE false END", x, y),
                    _ => format!("id({}) <> id({})", x, y),
                }
            }
            10 => {
                let x = pick_node(self);
                let y = pick_node(self);
                self.tags.push("atom-arith".into());
                format!("{}.{} * 2 {} {}.{} + {}", x, self.nprop(), self.cmp(), y, self.nprop(), self.r.range(0, 2))
            }
            _ => {
                let x = pick_node(self);
                format!("NOT ({}.{} {} {})", x, self.nprop(), self.cmp(), self.r.range(0, 3))
            }
        }
    }
    fn predicate(&mut self) -> String {
        let n = 1 + self.r.below(3);
        let mut s = self.atom();
        for _ in 1..n {
            let op = if self.r.chance(4, 5) { "AND" } else { "OR" };
            if op == "OR" {
                s = format!("({}) OR ({})", s, self.atom());
            } else {
                s = format!("{} AND {}", s, self.atom());
            }
            self.tags.push(format!("where-{}", op.to_lowercase()));
        }
        s
    }
}

/// Returns (GQL text, ordered on a total key?, rows comparable with sem?, tags)
fn gen_query(r: &mut Rng) -> (String, bool, bool, Vec<String>) {
    let mut g = QGen { r, nodes: vec![], edges: vec![], ints: vec![], next: 0, tags: vec![], edge_atom: false, joins: false, two_hop: false, var_len: false };
    let mut q = String::new();
    let mut sem_ok = true;
    let nclauses = match g.r.below(10) {
        0..=2 => 1,
        3..=7 => 2,
        _ => 3,
    };
    let mut any_optional = false;
    for ci in 0..nclauses {
        let optional = ci > 0 && g.r.chance(1, 5);
        if optional {
            q.push_str("OPTIONAL ");
            any_optional = true;
            g.tags.push("optional-match".into());
        }
        q.push_str("MATCH ");
        let np = if g.r.chance(1, 4) { 2 } else { 1 };
        let mut ps = vec![];
        for _ in 0..np {
            ps.push(g.pattern(optional));
        }
        if np == 2 {
            g.tags.push("comma-pattern".into());
            g.joins = true;
        }
        if ci > 0 {
            g.joins = true;
        }
        q.push_str(&ps.join(", "));
        q.push(' ');
    }
    g.tags.push(format!("match-clauses-{}", nclauses));
    if any_optional {
        // the engine's left join is compared only through the oracle
        sem_ok = false;
    }
    if g.r.chance(3, 4) {
        q.push_str(&format!("WHERE {} ", g.predicate()));
        g.tags.push("where".into());
    }
    // WITH
    let mut has_limit_below = false;
    if g.r.chance(1, 3) {
        g.tags.push("with".into());
        let mut items = vec![];
        let mut new_nodes = vec![];
        let mut new_ints = vec![];
        let olds = g.nodes.clone();
        for nv in &olds {
            match g.r.below(6) {
                0 => {} // dropped
                1 => {
                    let p = g.fresh("p");
                    items.push(format!("{} AS {}", nv.name, p));
                    new_nodes.push(NVar { name: p, total: nv.total });
                    g.tags.push("with-rename".into());
                }
                _ => {
                    items.push(nv.name.clone());
                    new_nodes.push(nv.clone());
                }
            }
        }
        if new_nodes.is_empty() {
            items.push(olds[0].name.clone());
            new_nodes.push(olds[0].clone());
        }
        if g.r.chance(1, 2) {
            let x = olds[g.r.below(olds.len() as u64) as usize].name.clone();
            let k = g.fresh("k");
            let e = match g.r.below(3) {
                0 => format!("{}.{} + 1", x, g.nprop()),
                1 => format!("{}.{}", x, g.nprop()),
                _ => format!("{}.{} * 2", x, g.nprop()),
            };
            if e.contains(' ') && g.joins {
                // before dfd360c (C11-K11) the projection computed NULL + 1 as NULL on the first row and as 0
                // on later rows of a join's output; compared with the semantics again since that repair
                g.tags.push("computed-arith-above-join".into());
            }
            items.push(format!("{} AS {}", e, k));
            new_ints.push(k);
            g.tags.push("with-computed".into());
        }
        let distinct = g.r.chance(1, 5);
        q.push_str(&format!("WITH {}{} ", if distinct { "DISTINCT " } else { "" }, items.join(", ")));
        if distinct {
            g.tags.push("with-distinct".into());
        }
        g.nodes = new_nodes;
        g.edges.clear();
        g.ints = new_ints;
        if g.r.chance(2, 3) {
            q.push_str(&format!("WHERE {} ", g.predicate()));
            g.tags.push("with-where".into());
        }
    }
    // RETURN
    let agg = g.r.chance(1, 6);
    let mut ordered = false;
    if agg {
        g.tags.push("count".into());
        let mut items = vec![];
        if g.r.chance(1, 2) {
            let x = g.nodes[g.r.below(g.nodes.len() as u64) as usize].name.clone();
            items.push(format!("{}.{}", x, g.r.pick(&["v", "w"])));
            g.tags.push("group-by".into());
        }
        {
            let x = g.nodes[g.r.below(g.nodes.len() as u64) as usize].name.clone();
            items.push(format!("count({}) AS c", x));
        }
        q.push_str(&format!("RETURN {}", items.join(", ")));
    } else {
        let mut items = vec![];
        for nv in g.nodes.clone() {
            if g.r.chance(3, 4) {
                items.push(format!("{}.{}", nv.name, g.r.pick(&["v", "w", "u", "u"])));
            }
        }
        for k in g.ints.clone() {
            if g.r.chance(3, 4) {
                items.push(k);
            }
        }
        if items.is_empty() {
            items.push(format!("{}.u", g.nodes[0].name));
        }
        let distinct = g.r.chance(1, 8);
        if distinct {
            g.tags.push("return-distinct".into());
        }
        q.push_str(&format!("RETURN {}{}", if distinct { "DISTINCT " } else { "" }, items.join(", ")));
        if g.r.chance(1, 4) {
            // ORDER BY the unique key of every node variable in scope: a total order on the rows
            // as far as the returned node columns go
            let keys: Vec<String> = g.nodes.iter().map(|n| format!("{}.u{}", n.name, if g.r.chance(1, 3) { " DESC" } else { "" })).collect();
            q.push_str(&format!(" ORDER BY {}", keys.join(", ")));
            g.tags.push("order-by".into());
            // total only when no row multiplicity comes from anything but the node tuple
            ordered = g.edges.is_empty() && g.ints.is_empty() && !any_optional && !q.contains("-[");
        }
    }
    if g.r.chance(1, 6) {
        q.push_str(&format!(" SKIP {}", g.r.below(3)));
        g.tags.push("skip".into());
        has_limit_below = true;
    }
    if g.r.chance(1, 5) {
        q.push_str(&format!(" LIMIT {}", g.r.below(5)));
        g.tags.push("limit".into());
        has_limit_below = true;
    }
    if has_limit_below {
        // SKIP/LIMIT are applied below the sort by the translator, on an input whose order the
        // engine does not define: only the oracle and the plan correspondence are checked
        sem_ok = false;
        ordered = false;
    }
    if g.edge_atom && g.joins {
        // x.p on an edge variable above a join is answered from a node by the engine (finding K4)
        sem_ok = false;
        g.tags.push("edge-atom-above-join".into());
    }
    if g.two_hop {
        sem_ok = false;
    }
    let tags = g.tags.clone();
    (q, ordered, sem_ok, tags)
}

// ------------------------------------------------------------------------------------------ hand-built plans

fn scan(x: &str, l: &str) -> LogicalOperator {
    LogicalOperator::NodeScan(NodeScanOp { variable: x.into(), label: Some(l.into()), input: None })
}
fn prop(x: &str, p: &str) -> LogicalExpression {
    LogicalExpression::Property { variable: x.into(), property: p.into() }
}
fn var(x: &str) -> LogicalExpression {
    LogicalExpression::Variable(x.into())
}
fn int(i: i64) -> LogicalExpression {
    LogicalExpression::Literal(Value::Int64(i))
}
fn bin(l: LogicalExpression, op: BinaryOp, r: LogicalExpression) -> LogicalExpression {
    LogicalExpression::Binary { left: Box::new(l), op, right: Box::new(r) }
}
fn filter(p: LogicalExpression, i: LogicalOperator) -> LogicalOperator {
    LogicalOperator::Filter(FilterOp { predicate: p, input: Box::new(i) })
}
fn join(k: JoinType, conds: Vec<(LogicalExpression, LogicalExpression)>, l: LogicalOperator, r: LogicalOperator) -> LogicalOperator {
    LogicalOperator::Join(JoinOp {
        left: Box::new(l),
        right: Box::new(r),
        join_type: k,
        conditions: conds.into_iter().map(|(a, b)| JoinCondition { left: a, right: b }).collect(),
    })
}
fn ret(items: Vec<(LogicalExpression, Option<&str>)>, i: LogicalOperator) -> LogicalOperator {
    LogicalOperator::Return(ReturnOp {
        items: items.into_iter().map(|(e, a)| ReturnItem { expression: e, alias: a.map(String::from) }).collect(),
        distinct: false,
        input: Box::new(i),
    })
}

/// Random plan over 2..4 labelled scans joined by Inner/Cross (rarely Left) joins with
/// Variable = Variable conditions (same-label scans make them satisfiable), filters on leaves,
/// on sub-trees and on top, sometimes a Project/Limit in between; Return of every variable's u.
fn gen_plan(r: &mut Rng) -> (LogicalPlan, String, Vec<String>) {
    let mut tags = vec!["plan".to_string()];
    let n = 2 + r.below(3) as usize;
    let names: Vec<String> = (0..n).map(|i| format!("x{}", i)).collect();
    let lab = *r.pick(&LABELS);
    let mut leaves: Vec<(Vec<String>, LogicalOperator)> = names
        .iter()
        .map(|x| {
            let l = if r.chance(2, 3) { lab } else { *r.pick(&LABELS) };
            let mut op = scan(x, l);
            if r.chance(1, 4) {
                op = filter(bin(prop(x, "v"), *r.pick(&[BinaryOp::Gt, BinaryOp::Le, BinaryOp::Ne]), int(r.range(0, 2))), op);
                tags.push("leaf-filter".into());
            }
            (vec![x.clone()], op)
        })
        .collect();
    while leaves.len() > 1 {
        let i = r.below(leaves.len() as u64) as usize;
        let (lv, lo) = leaves.remove(i);
        let j = r.below(leaves.len() as u64) as usize;
        let (rv, ro) = leaves.remove(j);
        let mut conds = vec![];
        let nc = r.below(3);
        for _ in 0..nc {
            let a = r.pick(&lv).clone();
            let b = r.pick(&rv).clone();
            match r.below(8) {
                0 => conds.push((var(&b), var(&a))), // written right-to-left
                1 => conds.push((prop(&a, "v"), prop(&b, "v"))),
                _ => conds.push((var(&a), var(&b))),
            }
        }
        let k = if conds.is_empty() {
            JoinType::Cross
        } else if r.chance(1, 10) {
            tags.push("left-join-type".into());
            JoinType::Left
        } else {
            JoinType::Inner
        };
        if !conds.is_empty() {
            tags.push("join-conditions".into());
        }
        let mut op = join(k, conds, lo, ro);
        let mut vs = lv.clone();
        vs.extend(rv.clone());
        if r.chance(1, 5) {
            let x = r.pick(&vs).clone();
            op = filter(bin(prop(&x, "w"), BinaryOp::Ge, int(r.range(0, 2))), op);
            tags.push("subtree-filter".into());
        }
        leaves.push((vs, op));
    }
    let (vs, mut op) = leaves.pop().unwrap();
    if r.chance(1, 2) {
        let x = r.pick(&vs).clone();
        let y = r.pick(&vs).clone();
        let p = if r.chance(1, 2) { bin(prop(&x, "v"), BinaryOp::Le, prop(&y, "w")) } else { bin(prop(&x, "v"), BinaryOp::Lt, int(2)) };
        op = filter(p, op);
        tags.push("top-filter".into());
    }
    if r.chance(1, 8) {
        op = LogicalOperator::Limit(LimitOp { count: 1 + r.below(3) as usize, input: Box::new(op) });
        tags.push("limit".into());
    }
    // an operator that stops a filter, with a filter above it
    if r.chance(1, 4) {
        op = match r.below(3) {
            0 => {
                tags.push("filter-above-limit".into());
                LogicalOperator::Limit(LimitOp { count: 1 + r.below(4) as usize, input: Box::new(op) })
            }
            1 => {
                tags.push("filter-above-skip".into());
                LogicalOperator::Skip(SkipOp { count: r.below(3) as usize, input: Box::new(op) })
            }
            _ => {
                tags.push("filter-above-distinct".into());
                LogicalOperator::Distinct(DistinctOp { input: Box::new(op), columns: None })
            }
        };
        let x = r.pick(&vs).clone();
        op = filter(bin(prop(&x, "v"), *r.pick(&[BinaryOp::Gt, BinaryOp::Le]), int(r.range(0, 1))), op);
    } else if r.chance(1, 6) {
        op = LogicalOperator::Distinct(DistinctOp { input: Box::new(op), columns: None });
        tags.push("distinct".into());
    }
    if r.chance(1, 8) {
        // count(*) of the whole thing
        tags.push("count".into());
        let agg = LogicalOperator::Aggregate(AggregateOp {
            group_by: vec![],
            aggregates: vec![AggregateExpr { function: AggregateFunction::Count, expression: None, distinct: false, alias: Some("c".into()), percentile: None }],
            input: Box::new(op),
            having: None,
        });
        let root = ret(vec![(var("c"), None)], agg);
        let text = format!("{:?}", root);
        return (LogicalPlan::new(root), text, tags);
    }
    let items: Vec<(LogicalExpression, Option<&str>)> = vs.iter().map(|x| (prop(x, "u"), None)).collect();
    let root = ret(items, op);
    let text = format!("{:?}", root);
    (LogicalPlan::new(root), text, tags)
}

// ------------------------------------------------------------------------------------------ corpus

fn corpus(out: &mut Out) {
    let mut fx = corpus_fixture();
    // C09-K1 (repaired by 7426671) and C09-K2 (repaired by a2be94c): the old witnesses are below and must pass
    let qs: Vec<(&str, bool, bool)> = vec![
        // C09-K3 (repaired by df57ccb, must pass now): push-down stacks the WHERE on the label filter of
        // the expand target; a property map under a WHERE; WHERE .. WITH .. WHERE
        ("MATCH (c:C) MATCH (a:A)-[:R]->(b:B) WHERE a.v = 1 RETURN a.u, b.u, c.u", false, true),
        ("MATCH (a:A {v: 1}) WHERE a.u > 0 RETURN a.v, a.u", false, true),
        ("MATCH (a:A {v: 1}) WHERE a.v >= 0 RETURN a.v, a.u", false, true),
        ("MATCH (a:A) WHERE a.v > 0 WITH a WHERE a.v < 3 RETURN a.v, a.u", false, true),
        ("MATCH (a:A)-[:R]->(b:B) WHERE b.v > 0 AND a.v = 0 RETURN a.u, b.u", false, true),
        ("MATCH (c:C) MATCH (a:A {v: 0})-[:R]->(b:B {v: 1}) WHERE a.u = 100 RETURN a.u, b.u, c.u", false, true),
        // RETURN DISTINCT (a DistinctOperator on the projected rows since 36a1196)
        ("MATCH (a:A) MATCH (b:B) WHERE a.v > 0 RETURN DISTINCT a.v", false, true),
        ("MATCH (a:A)-[:R]->(b) RETURN DISTINCT b.v", false, true),
        // variable-length expands: pushed through unless the predicate mentions target / edge / path
        ("MATCH (a:A)-[:R*1..2]->(b) WHERE a.v = 0 RETURN a.u, b.u", false, true),
        ("MATCH (a:A)-[r:R*1..2]->(b) MATCH (c:C) WHERE a.v < 2 AND b.v > 0 RETURN a.u, b.u, c.u", false, true),
        ("MATCH (a:A)-[*2..3]->(b) WHERE a.u = 100 RETURN a.u, b.u", false, true),
        ("MATCH p = (a:A)-[:R*1..2]->(b) WHERE a.v = 0 RETURN a.u, b.u", false, true),
        ("MATCH (a:A)-[r:R*1..2]->(b) WHERE r.ew > 1 RETURN a.u, b.u", false, true),
        ("MATCH (a:A)<-[*1..2]-(b) MATCH (c:C) WHERE b.v >= 0 AND c.v > 1 RETURN a.u, b.u, c.u", false, true),
        ("MATCH (c:C) MATCH (a:A)-[:R*1..2]->(b)-[:S]->(d) WHERE a.v = 0 RETURN a.u, b.u, c.u, d.u", false, true),
        // C09-K5: a hop of a two-hop chain without any match (no C node has an outgoing R edge; b2 has
        // no outgoing S edge) next to a join
        ("MATCH (a:C)-[:R]->(b)-[:S]->(c) MATCH (x:B) WHERE x.v <> 7 RETURN a.u, x.u", false, false),
        ("MATCH (a:A)-[:S]->(b)-[:S]->(c) MATCH (x:B) WHERE x.v <> 7 RETURN a.u, x.u", false, false),
        // C09-K4: an edge property above / below a join
        ("MATCH (a:A)-[r:R]->(b) MATCH (c:C) WHERE r.ew > 1 RETURN a.u, b.u, c.u", false, false),
        ("MATCH (a:A)-[r:R]->(b) WHERE r.ew > 1 RETURN a.u, b.u", false, true),
        ("MATCH (a:A), (b:B) MATCH (c:C) WHERE a.v = c.v RETURN a.v, b.v, c.v", false, true),
        ("MATCH (c:C) MATCH (a:A), (b:B) WHERE a.v = c.v RETURN a.v, b.v, c.v", false, true),
        ("MATCH (a:A) OPTIONAL MATCH (a)-[:R]->(b:B) MATCH (c:C) WHERE a.v = c.v RETURN a.v, c.v", false, false),
        ("MATCH (a:A) MATCH (b:B) WHERE a.v = b.v RETURN a.v, b.v", false, true),
        ("MATCH (a:A) MATCH (b:B) WHERE a.v = 1 RETURN a.v, b.v", false, true),
        ("MATCH (a:A) MATCH (b:B) WHERE b.v = 1 AND a.v > 0 RETURN a.v, b.v", false, true),
        ("MATCH (a:A)-[r:R]->(b) WHERE a.v = 0 RETURN a.v, b.v", false, true),
        ("MATCH (a:A)-[r:R]->(b) WHERE b.v = 1 AND r.ew > 0 RETURN a.v, b.v", false, true),
        ("MATCH (a:A) WITH a, a.v + 1 AS x WHERE x > 2 RETURN a.v, x", false, true),
        ("MATCH (a:A) WITH a, a.v + 1 AS x WHERE a.v > 2 RETURN a.v, x", false, true),
        ("MATCH (a:A) MATCH (b:B) WITH a AS b, b AS a WHERE a.v = 1 RETURN a.v, b.v", false, true),
        ("MATCH (a:A) MATCH (b:B) WHERE a.v > 0 RETURN a.v, b.v LIMIT 3", false, false),
        ("MATCH (a:A) MATCH (b:B) WHERE a.v > 0 RETURN count(a) AS c", false, true),
        ("MATCH (a:A) MATCH (b:B) WHERE a.v > 0 RETURN a.u, b.u ORDER BY a.u DESC, b.u", true, true),
    ];
    for (q, ordered, sem_ok) in qs {
        treat_gql(out, &mut fx, q, ordered, sem_ok, vec!["corpus".into()]);
    }
    // plan-level witnesses (no front end emits these shapes; the optimizer and the plan types are public)
    let v_eq = |a: &str, b: &str| (var(a), var(b));
    let plans: Vec<(&str, LogicalOperator)> = vec![
        // reorder fires: the filters inside and above the join tree are dropped
        (
            "filter above an Inner join with a usable condition",
            ret(
                vec![(prop("x", "u"), None), (prop("y", "u"), None)],
                filter(bin(prop("x", "v"), BinaryOp::Gt, int(1)), join(JoinType::Inner, vec![v_eq("x", "y")], scan("x", "A"), scan("y", "A"))),
            ),
        ),
        // Left join type: push into the optional side; reorder makes it Inner
        (
            "filter on the optional side of a Join{Left}",
            ret(
                vec![(prop("x", "u"), None), (prop("y", "u"), None)],
                filter(
                    LogicalExpression::Unary { op: UnaryOp::IsNull, operand: Box::new(prop("y", "v")) },
                    join(JoinType::Left, vec![v_eq("x", "y")], scan("x", "A"), filter(bin(prop("y", "v"), BinaryOp::Gt, int(1)), scan("y", "A"))),
                ),
            ),
        ),
        // Filter above a Return that renames
        (
            "filter over Return alias",
            filter(bin(var("k"), BinaryOp::Gt, int(1)), ret(vec![(prop("x", "v"), Some("k"))], scan("x", "A"))),
        ),
        // C09-K3 (repaired): three filters stacked directly on a scan; the push-down keeps the stack
        (
            "stacked filters",
            ret(
                vec![(prop("x", "u"), None)],
                filter(
                    bin(prop("x", "v"), BinaryOp::Ge, int(0)),
                    filter(bin(prop("x", "v"), BinaryOp::Lt, int(3)), filter(bin(prop("x", "v"), BinaryOp::Gt, int(0)), scan("x", "A"))),
                ),
            ),
        ),
        (
            "stacked filters above a cross join, pushed to different sides",
            ret(
                vec![(prop("x", "u"), None), (prop("y", "u"), None)],
                filter(
                    bin(prop("x", "v"), BinaryOp::Ge, int(2)),
                    filter(
                        bin(prop("y", "v"), BinaryOp::Lt, int(2)),
                        join(JoinType::Cross, vec![], filter(bin(prop("x", "v"), BinaryOp::Lt, int(3)), scan("x", "A")), scan("y", "B")),
                    ),
                ),
            ),
        ),
        // a sound reordering opportunity: three same-label scans, chain conditions, no filters
        (
            "chain of Inner joins",
            ret(
                vec![(prop("x", "u"), None), (prop("y", "u"), None), (prop("z", "u"), None)],
                join(
                    JoinType::Inner,
                    vec![v_eq("y", "z")],
                    join(JoinType::Inner, vec![v_eq("x", "y")], scan("x", "A"), scan("y", "A")),
                    scan("z", "A"),
                ),
            ),
        ),
    ];
    for (name, root) in plans {
        let text = format!("{name}: {:?}", root);
        treat(out, &mut fx, "plan", &text, &LogicalPlan::new(root), false, true, vec!["corpus".into(), "plan".into()]);
    }
}

fn main() {
    let a = parse_args();
    quiet_panics();
    if a.rest.first().map(|s| s.as_str()) == Some("probe") {
        // debugging aid: run the given GQL queries on the corpus graph, unoptimized and fully optimized
        let fx = corpus_fixture();
        for q in &a.rest[1..] {
            println!("== {q}");
            match gql_translator::translate(q) {
                Ok(plan) => {
                    for m in [0u32, 7] {
                        let (o, oc) = run_plan(&fx.db, &plan, &switches(Optimizer::from_store(fx.db.store()), m));
                        println!("  [{}] {}", m, canon(&oc, true));
                        if let Some(o) = o {
                            println!("      {}", cplan(&o.root).unwrap_or_else(|| format!("{:?}", o.root)));
                        }
                    }
                }
                Err(e) => println!("  translate: {e}"),
            }
        }
        return;
    }
    if a.rest.first().map(|s| s.as_str()) == Some("probeq") {
        // debugging aid: regenerate the graph on which the generated query a.rest[1] was run (same
        // --seed), print it, and run the remaining arguments as GQL queries on it
        let mut r = Rng::new(a.seed);
        for _ in 0..20000 {
            let mut fr = r.fork();
            let fx = gen_fixture(&mut fr);
            for _ in 0..4 {
                let q = if r.chance(1, 5) { gen_plan(&mut r).1 } else { gen_query(&mut r).0 };
                if q == a.rest[1] {
                    println!("{}", fx.coq());
                    for q in &a.rest[1..] {
                        println!("== {q}");
                        if let Ok(plan) = gql_translator::translate(q) {
                            for m in [0u32, 1, 7] {
                                let (o, oc) = run_plan(&fx.db, &plan, &switches(Optimizer::from_store(fx.db.store()), m));
                                println!("  [{}] {}", m, canon(&oc, true));
                                if let Some(o) = o {
                                    println!("      {}", cplan(&o.root).unwrap_or_else(|| format!("{:?}", o.root)));
                                }
                            }
                        }
                    }
                    return;
                }
            }
        }
        println!("not found");
        return;
    }
    let mut out = Out::create(a.out.as_deref());
    let mut r = Rng::new(a.seed);
    corpus(&mut out);
    let mut done = 0usize;
    let mut guard = 0usize;
    while done < a.cases && guard < a.cases * 4 {
        guard += 1;
        let mut fr = r.fork();
        let mut fx = gen_fixture(&mut fr);
        // several queries per graph
        for _ in 0..4 {
            if done >= a.cases {
                break;
            }
            if r.chance(1, 5) {
                let (plan, text, tags) = gen_plan(&mut r);
                // LIMIT/SKIP over a join: which rows survive depends on the engine's join output order
                let sem_ok = !tags.iter().any(|t| t.contains("limit") || t.contains("skip"));
                let count_only = !sem_ok && tags.iter().any(|t| t == "join-conditions");
                COUNT_ONLY.with(|c| c.set(count_only));
                let mut tags = tags;
                if count_only {
                    tags.push("oracle-count-only".into());
                }
                treat(&mut out, &mut fx, "plan", &text, &plan, false, sem_ok, tags);
                COUNT_ONLY.with(|c| c.set(false));
                done += 1;
            } else {
                let (q, ordered, sem_ok, tags) = gen_query(&mut r);
                if treat_gql(&mut out, &mut fx, &q, ordered, sem_ok, tags) {
                    done += 1;
                }
            }
        }
    }
    out.finish();
}
