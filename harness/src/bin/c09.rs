// temporary probe (replaced by the real harness)
use grafeo_common::types::Value;
use grafeo_engine::GrafeoDB;
use grafeo_engine::query::optimizer::Optimizer;
use grafeo_engine::query::plan::*;
use grafeo_engine::query::{binder::Binder, gql_translator, Executor, Planner};
use std::sync::Arc;

fn run(db: &GrafeoDB, plan: &LogicalPlan, opt: &Optimizer) -> Result<(String, Vec<Vec<Value>>), String> {
    let optimized = opt.optimize(plan.clone()).map_err(|e| format!("opt: {e}"))?;
    let dump = format!("{:?}", optimized.root);
    let planner = Planner::new(Arc::clone(db.store()));
    let mut phys = planner.plan(&optimized).map_err(|e| format!("plan: {e}"))?;
    let ex = Executor::with_columns(phys.columns.clone());
    let r = ex.execute(phys.operator.as_mut()).map_err(|e| format!("exec: {e}"))?;
    Ok((dump, r.rows))
}

fn show(db: &GrafeoDB, q: &str) {
    println!("== {q}");
    let plan = match gql_translator::translate(q) {
        Ok(p) => p,
        Err(e) => {
            println!("   translate ERR {e}");
            return;
        }
    };
    let mut b = Binder::new();
    if let Err(e) = b.bind(&plan) {
        println!("   bind ERR {e}");
        return;
    }
    println!("   plan  {:?}", plan.root);
    let mut base: Option<Vec<String>> = None;
    for m in 0..8u32 {
        let opt = Optimizer::from_store(db.store())
            .with_filter_pushdown(m & 1 != 0)
            .with_join_reorder(m & 2 != 0)
            .with_projection_pushdown(m & 4 != 0);
        match run(db, &plan, &opt) {
            Ok((dump, rows)) => {
                let mut rs: Vec<String> = rows.iter().map(|r| format!("{:?}", r)).collect();
                let seq = rs.clone();
                rs.sort();
                if m == 0 {
                    println!("   [0] {} rows: {}", seq.len(), seq.iter().take(8).cloned().collect::<Vec<_>>().join(" "));
                    base = Some(rs);
                } else if base.as_ref() != Some(&rs) {
                    println!("   [{}] DIFF {} rows: {}\n       plan {}", m, seq.len(), seq.iter().take(8).cloned().collect::<Vec<_>>().join(" "), dump);
                }
            }
            Err(e) => println!("   [{}] ERR {}", m, e),
        }
    }
    match db.session().execute(q) {
        Ok(r) => println!("   session: {} rows", r.rows.len()),
        Err(e) => println!("   session ERR {e}"),
    }
}

fn main() {
    let db = GrafeoDB::new_in_memory();
    let mut a = vec![];
    let mut bs = vec![];
    let mut cs = vec![];
    for i in 0..4i64 {
        let n = db.create_node(&["A"]);
        db.set_node_property(n, "v", Value::Int64(i));
        a.push(n);
    }
    for i in 0..3i64 {
        let n = db.create_node(&["B"]);
        db.set_node_property(n, "v", Value::Int64(i));
        bs.push(n);
    }
    for i in 0..3i64 {
        let n = db.create_node(&["C"]);
        db.set_node_property(n, "v", Value::Int64(i + 1));
        cs.push(n);
    }
    db.create_edge(a[0], bs[0], "R");
    db.create_edge(a[0], bs[1], "R");
    db.create_edge(a[1], bs[1], "R");
    db.create_edge(a[2], bs[2], "S");
    db.create_edge(bs[0], cs[0], "S");
    println!("epoch {:?}", db.store().current_epoch());
    show(&db, "MATCH (a:A) RETURN a.v");
    show(&db, "MATCH (a:A) WHERE a.v > 1 RETURN a.v");
    show(&db, "MATCH (a:A), (b:B) WHERE a.v = b.v RETURN a.v, b.v");
    show(&db, "MATCH (a:A) MATCH (b:B) WHERE a.v = b.v RETURN a.v, b.v");
    show(&db, "MATCH (a:A) MATCH (b:B) WHERE a.v = 1 RETURN a.v, b.v");
    show(&db, "MATCH (a:A) MATCH (b:B) WHERE b.v = 1 RETURN a.v, b.v");
    show(&db, "MATCH (a:A), (b:B) MATCH (c:C) WHERE a.v = c.v RETURN a.v, b.v, c.v");
    show(&db, "MATCH (c:C) MATCH (a:A), (b:B) WHERE a.v = c.v RETURN a.v, b.v, c.v");
    show(&db, "MATCH (a:A) OPTIONAL MATCH (a)-[:R]->(b) RETURN a.v, b.v");
    show(&db, "MATCH (a:A) OPTIONAL MATCH (a)-[:R]->(b:B) MATCH (c:C) WHERE a.v = c.v RETURN a.v, b.v, c.v");
    show(&db, "MATCH (a:A) OPTIONAL MATCH (x:B) MATCH (c:C) WHERE a.v = c.v RETURN a.v, c.v");
    show(&db, "MATCH (a:A)-[:R]->(b:B) WHERE a.v = 0 RETURN a.v, b.v");
    show(&db, "MATCH (a:A)-[r:R]->(b) WHERE b.v = 1 RETURN a.v, b.v");
    show(&db, "MATCH (a:A)-[:R]->(b)-[:S]->(c) RETURN a.v, b.v, c.v");
    show(&db, "MATCH (a:A) WITH a, a.v + 1 AS x WHERE x > 2 RETURN a.v, x");
    show(&db, "MATCH (a:A) WITH a, a.v + 1 AS x WHERE a.v > 2 RETURN a.v, x");
    show(&db, "MATCH (a:A) WITH a.v AS a WHERE a > 1 RETURN a");
    show(&db, "MATCH (a:A) MATCH (b:B) WITH a, b WHERE a.v = 1 RETURN a.v, b.v");
    show(&db, "MATCH (a:A) MATCH (b:B) WITH a AS b, b AS a WHERE a.v = 1 RETURN a.v, b.v");
    show(&db, "MATCH (a:A) MATCH (b:B) WITH a AS p, b AS q WHERE p.v = 1 RETURN p.v, q.v");
    show(&db, "MATCH (a:A) WITH DISTINCT a.v AS x RETURN x");
    show(&db, "MATCH (a:A) RETURN a.v AS x ORDER BY x DESC LIMIT 2");
    show(&db, "MATCH (a:A) MATCH (b:B) WHERE a.v > 0 RETURN a.v, b.v LIMIT 3");
    show(&db, "MATCH (a:A) MATCH (b:B) WHERE a.v > 0 RETURN count(a)");
    show(&db, "MATCH (a:A) MATCH (b:B) WHERE a.v > 0 RETURN count(a) AS c");
    show(&db, "MATCH (a:A) MATCH (b:B) WHERE a.v > 0 AND b.v < 2 RETURN a.v, b.v");
    show(&db, "MATCH (a:A) WHERE a.v > 0 MATCH (b:B) RETURN a.v, b.v");
}
