//! C19 — graph algorithms: builds generated directed multigraphs in a real `LpgStore` / `GrafeoDB`
//! through the public API, runs every public algorithm function of
//! `grafeo_adapters::plugins::algorithms` (and core's `ShortestPathOperator`) on them and emits
//! one case per output.  The `coq` term of a `cert` case is the Coq certificate checker of
//! GV.Algo.Run applied to the graph and the implementation's output: it IS the decision
//! (false => the output violates the algorithm's specification on that graph).  The harness also
//! computes independent brute-force answers (`oracle`), which decide the kinds that have no Coq
//! certificate (triangles, k-core, bridges, articulation points, PageRank, agreement) and
//! cross-check the Coq certificates elsewhere.
use grafeo_adapters::plugins::algorithms as alg;
use grafeo_adapters::plugins::algorithms::GraphAlgorithm;
use grafeo_adapters::plugins::Parameters;
use grafeo_common::types::{EdgeId, LogicalType, NodeId, Value};
use grafeo_core::execution::DataChunk;
use grafeo_core::execution::chunk::DataChunkBuilder;
use grafeo_core::execution::operators::{Operator, OperatorResult, ShortestPathOperator};
use grafeo_core::graph::Direction;
use grafeo_core::graph::lpg::LpgStore;
use grafeo_engine::GrafeoDB;
use gv_harness::*;
use std::collections::{BTreeMap, BTreeSet, HashMap};
use std::sync::Arc;

// ------------------------------------------------------------------------------------------
// graph specifications (what is built) and live graphs (what the store then contains)

#[derive(Clone, Debug, PartialEq)]
enum Raw {
    Missing,
    Int(i64),
    Float(i64),
    Str,
}
impl Raw {
    fn eff(&self) -> i64 {
        match self {
            Raw::Int(i) | Raw::Float(i) => *i,
            _ => 1,
        }
    }
    fn show(&self) -> String {
        match self {
            Raw::Missing => "_".into(),
            Raw::Int(i) => format!("{}", i),
            Raw::Float(i) => format!("f{}", i),
            Raw::Str => "s".into(),
        }
    }
    fn parse(s: &str) -> Raw {
        if s == "_" {
            Raw::Missing
        } else if s == "s" {
            Raw::Str
        } else if let Some(r) = s.strip_prefix('f') {
            Raw::Float(r.parse().unwrap())
        } else {
            Raw::Int(s.parse().unwrap())
        }
    }
    fn value(&self) -> Option<Value> {
        match self {
            Raw::Missing => None,
            Raw::Int(i) => Some(Value::Int64(*i)),
            Raw::Float(i) => Some(Value::Float64(*i as f64)),
            Raw::Str => Some(Value::String("heavy".into())),
        }
    }
}

#[derive(Clone, Debug)]
struct ESpec {
    s: usize,
    d: usize,
    w: Raw,
}

/// `n` nodes are created, then the edges in order, then `del_edges` (indices into `edges`) are
/// deleted, then `del_nodes` are detach-deleted (their edges first, then the node).
#[derive(Clone, Debug)]
struct GSpec {
    n: usize,
    edges: Vec<ESpec>,
    del_edges: Vec<usize>,
    del_nodes: Vec<usize>,
    via_db: bool,
}

impl GSpec {
    fn show(&self) -> String {
        let es: Vec<String> = self.edges.iter().map(|e| format!("{}>{}:{}", e.s, e.d, e.w.show())).collect();
        let de: Vec<String> = self.del_edges.iter().map(|x| x.to_string()).collect();
        let dn: Vec<String> = self.del_nodes.iter().map(|x| x.to_string()).collect();
        format!("n={};e={};de={};dn={};db={}", self.n, es.join(","), de.join(","), dn.join(","), self.via_db as u8)
    }
    fn parse(s: &str) -> GSpec {
        let mut g = GSpec { n: 0, edges: vec![], del_edges: vec![], del_nodes: vec![], via_db: false };
        for part in s.trim().split(';') {
            let (k, v) = part.split_once('=').expect("k=v");
            match k {
                "n" => g.n = v.parse().unwrap(),
                "e" => {
                    for e in v.split(',').filter(|x| !x.is_empty()) {
                        let (sd, w) = e.split_once(':').unwrap();
                        let (s, d) = sd.split_once('>').unwrap();
                        g.edges.push(ESpec { s: s.parse().unwrap(), d: d.parse().unwrap(), w: Raw::parse(w) });
                    }
                }
                "de" => g.del_edges = v.split(',').filter(|x| !x.is_empty()).map(|x| x.parse().unwrap()).collect(),
                "dn" => g.del_nodes = v.split(',').filter(|x| !x.is_empty()).map(|x| x.parse().unwrap()).collect(),
                "db" => g.via_db = v == "1",
                _ => panic!("bad spec key {}", k),
            }
        }
        g
    }
}

enum Holder {
    Store(LpgStore),
    Db(GrafeoDB),
}
impl Holder {
    fn store(&self) -> &LpgStore {
        match self {
            Holder::Store(s) => s,
            Holder::Db(d) => d.store(),
        }
    }
    fn arc(&self) -> Option<Arc<LpgStore>> {
        match self {
            Holder::Store(_) => None,
            Holder::Db(d) => Some(d.store().clone()),
        }
    }
}

#[derive(Clone, Debug)]
struct LiveE {
    s: u64,
    d: u64,
    id: u64,
    raw: Raw,
}
#[derive(Clone, Debug)]
struct Live {
    nodes: Vec<u64>,
    edges: Vec<LiveE>,
}

const WPROP: &str = "w";

fn build(spec: &GSpec) -> (Holder, Live) {
    let h = if spec.via_db { Holder::Db(GrafeoDB::new_in_memory()) } else { Holder::Store(LpgStore::new()) };
    let mut nids = vec![];
    for _ in 0..spec.n {
        let id = match &h {
            Holder::Store(s) => s.create_node(&["N"]),
            Holder::Db(d) => d.create_node(&["N"]),
        };
        nids.push(id);
    }
    let mut eids = vec![];
    for e in &spec.edges {
        let (s, d) = (nids[e.s], nids[e.d]);
        let id = match &h {
            Holder::Store(st) => st.create_edge(s, d, "E"),
            Holder::Db(db) => db.create_edge(s, d, "E"),
        };
        if let Some(v) = e.w.value() {
            match &h {
                Holder::Store(st) => st.set_edge_property(id, WPROP, v),
                Holder::Db(db) => db.set_edge_property(id, WPROP, v),
            }
        }
        eids.push(id);
    }
    let mut edead = vec![false; spec.edges.len()];
    let mut ndead = vec![false; spec.n];
    for &i in &spec.del_edges {
        if i < eids.len() && !edead[i] {
            edead[i] = true;
            match &h {
                Holder::Store(st) => {
                    st.delete_edge(eids[i]);
                }
                Holder::Db(db) => {
                    db.delete_edge(eids[i]);
                }
            }
        }
    }
    for &i in &spec.del_nodes {
        if i < spec.n && !ndead[i] {
            ndead[i] = true;
            for (k, e) in spec.edges.iter().enumerate() {
                if e.s == i || e.d == i {
                    edead[k] = true;
                }
            }
            // detach delete: edges first, then the node (store API; GrafeoDB::delete_node has no detach form)
            h.store().delete_node_edges(nids[i]);
            match &h {
                Holder::Store(st) => {
                    st.delete_node(nids[i]);
                }
                Holder::Db(db) => {
                    db.delete_node(nids[i]);
                }
            }
        }
    }
    let live = Live {
        nodes: (0..spec.n).filter(|&i| !ndead[i]).map(|i| nids[i].as_u64()).collect(),
        edges: spec
            .edges
            .iter()
            .enumerate()
            .filter(|(k, _)| !edead[*k])
            .map(|(k, e)| LiveE { s: nids[e.s].as_u64(), d: nids[e.d].as_u64(), id: eids[k].as_u64(), raw: e.w.clone() })
            .collect(),
    };
    // list the edges in the order in which the algorithms enumerate them (node_ids(), then edges_from(node, Outgoing))
    let mut live = live;
    let mut ordered: Vec<LiveE> = vec![];
    {
        let st = h.store();
        for n in st.node_ids() {
            for (_, e) in st.edges_from(n, Direction::Outgoing) {
                if let Some(le) = live.edges.iter().find(|x| x.id == e.as_u64()) {
                    ordered.push(le.clone());
                }
            }
        }
    }
    if ordered.len() == live.edges.len() {
        live.edges = ordered;
    }
    (h, live)
}

/// The store's own view of the graph (node_ids + outgoing adjacency); must equal `Live`.
fn store_view_matches(st: &LpgStore, l: &Live) -> bool {
    let ids: Vec<u64> = st.node_ids().iter().map(|n| n.as_u64()).collect();
    let mut a = l.nodes.clone();
    a.sort();
    if ids != a {
        return false;
    }
    let mut se: Vec<(u64, u64, u64)> = vec![];
    for &n in &ids {
        for (t, e) in st.edges_from(NodeId::new(n), Direction::Outgoing) {
            se.push((n, t.as_u64(), e.as_u64()));
        }
    }
    se.sort();
    let mut le: Vec<(u64, u64, u64)> = l.edges.iter().map(|e| (e.s, e.d, e.id)).collect();
    le.sort();
    se == le
}

// ------------------------------------------------------------------------------------------
// integer view used by the harness-side oracles

#[derive(Clone)]
struct IG {
    nodes: Vec<u64>,
    /// (src, dst, id, weight)
    edges: Vec<(u64, u64, u64, i64)>,
}
impl IG {
    fn of(l: &Live, unit: bool) -> IG {
        IG { nodes: l.nodes.clone(), edges: l.edges.iter().map(|e| (e.s, e.d, e.id, if unit { 1 } else { e.raw.eff() })).collect() }
    }
    fn has_node(&self, v: u64) -> bool {
        self.nodes.contains(&v)
    }
    /// Bellman-Ford over exact integers: (dist map, pred map, Some(witness) when a negative cycle is reachable)
    fn bf(&self, s: u64) -> (BTreeMap<u64, i64>, BTreeMap<u64, u64>, Option<(Vec<u64>, Vec<u64>)>) {
        let mut d: BTreeMap<u64, i64> = BTreeMap::new();
        let mut p: BTreeMap<u64, u64> = BTreeMap::new();
        d.insert(s, 0);
        let n = self.nodes.len();
        let mut last = None;
        for round in 0..=n {
            last = None;
            for &(u, v, _, w) in &self.edges {
                if let Some(&du) = d.get(&u) {
                    if d.get(&v).map_or(true, |&dv| du + w < dv) {
                        d.insert(v, du + w);
                        p.insert(v, u);
                        last = Some(v);
                    }
                }
            }
            if last.is_none() {
                break;
            }
            let _ = round;
        }
        if let Some(mut x) = last {
            // a relaxation in round n+1: follow predecessors n times to land on the cycle
            for _ in 0..n {
                x = p[&x];
            }
            let mut cyc = vec![x];
            let mut y = p[&x];
            while y != x {
                cyc.push(y);
                y = p[&y];
            }
            cyc.push(x);
            cyc.reverse();
            // a walk from s to x by plain BFS
            let pre = self.bfs_path(s, x).unwrap_or_else(|| vec![s]);
            return (d, p, Some((pre, cyc)));
        }
        (d, p, None)
    }
    fn bfs_path(&self, s: u64, t: u64) -> Option<Vec<u64>> {
        let mut prev: BTreeMap<u64, u64> = BTreeMap::new();
        let mut seen = BTreeSet::new();
        seen.insert(s);
        let mut q = std::collections::VecDeque::new();
        q.push_back(s);
        while let Some(u) = q.pop_front() {
            if u == t {
                let mut path = vec![t];
                let mut c = t;
                while c != s {
                    c = prev[&c];
                    path.push(c);
                }
                path.reverse();
                return Some(path);
            }
            for &(a, b, _, _) in &self.edges {
                if a == u && seen.insert(b) {
                    prev.insert(b, u);
                    q.push_back(b);
                }
            }
        }
        None
    }
    fn reach(&self, s: u64) -> BTreeSet<u64> {
        let mut seen = BTreeSet::new();
        seen.insert(s);
        let mut st = vec![s];
        while let Some(u) = st.pop() {
            for &(a, b, _, _) in &self.edges {
                if a == u && seen.insert(b) {
                    st.push(b);
                }
            }
        }
        seen
    }
    /// undirected simple adjacency (distinct neighbours; a self-loop makes a node its own neighbour)
    fn uadj(&self) -> BTreeMap<u64, BTreeSet<u64>> {
        let mut m: BTreeMap<u64, BTreeSet<u64>> = self.nodes.iter().map(|&n| (n, BTreeSet::new())).collect();
        for &(a, b, _, _) in &self.edges {
            m.get_mut(&a).unwrap().insert(b);
            m.get_mut(&b).unwrap().insert(a);
        }
        m
    }
    fn ucomp_without(&self, skip_node: Option<u64>, skip_pair: Option<(u64, u64)>) -> usize {
        // number of connected components of the undirected view without a node / without all edges between a pair
        let adj = self.uadj();
        let mut seen = BTreeSet::new();
        let mut c = 0;
        for &s in &self.nodes {
            if Some(s) == skip_node || seen.contains(&s) {
                continue;
            }
            c += 1;
            seen.insert(s);
            let mut st = vec![s];
            while let Some(u) = st.pop() {
                for &v in &adj[&u] {
                    if Some(v) == skip_node {
                        continue;
                    }
                    if let Some((a, b)) = skip_pair {
                        if (u == a && v == b) || (u == b && v == a) {
                            continue;
                        }
                    }
                    if seen.insert(v) {
                        st.push(v);
                    }
                }
            }
        }
        c
    }
    fn ucomp_labels(&self) -> BTreeMap<u64, u64> {
        let adj = self.uadj();
        let mut lab = BTreeMap::new();
        for &s in &self.nodes {
            if lab.contains_key(&s) {
                continue;
            }
            lab.insert(s, s);
            let mut st = vec![s];
            while let Some(u) = st.pop() {
                for &v in &adj[&u] {
                    if !lab.contains_key(&v) {
                        lab.insert(v, s);
                        st.push(v);
                    }
                }
            }
        }
        lab
    }
    /// minimum spanning forest weight (correct Kruskal over every edge) restricted to `comp` (None = whole graph)
    fn msf_weight(&self, comp: Option<&BTreeSet<u64>>) -> (i64, usize) {
        let mut es: Vec<&(u64, u64, u64, i64)> =
            self.edges.iter().filter(|e| e.0 != e.1 && comp.map_or(true, |c| c.contains(&e.0) && c.contains(&e.1))).collect();
        es.sort_by_key(|e| e.3);
        let mut parent: BTreeMap<u64, u64> = self.nodes.iter().map(|&n| (n, n)).collect();
        fn find(p: &mut BTreeMap<u64, u64>, x: u64) -> u64 {
            let mut r = x;
            while p[&r] != r {
                r = p[&r];
            }
            p.insert(x, r);
            r
        }
        let (mut w, mut k) = (0, 0);
        for e in es {
            let (a, b) = (find(&mut parent, e.0), find(&mut parent, e.1));
            if a != b {
                parent.insert(a, b);
                w += e.3;
                k += 1;
            }
        }
        (w, k)
    }
    /// minimum s-t cut by enumeration of all node subsets (capacities = weights)
    fn min_cut(&self, s: u64, t: u64) -> i64 {
        let others: Vec<u64> = self.nodes.iter().copied().filter(|&v| v != s && v != t).collect();
        let mut best = i64::MAX;
        for mask in 0u32..(1u32 << others.len()) {
            let mut side: BTreeSet<u64> = BTreeSet::new();
            side.insert(s);
            for (i, &v) in others.iter().enumerate() {
                if mask >> i & 1 == 1 {
                    side.insert(v);
                }
            }
            let c: i64 = self.edges.iter().filter(|e| side.contains(&e.0) && !side.contains(&e.1)).map(|e| e.3).sum();
            best = best.min(c);
        }
        best
    }
}

// ------------------------------------------------------------------------------------------
// Coq term printers

fn zid(v: u64) -> String {
    format!("{}", v)
}
fn zlist(xs: &[u64]) -> String {
    coq::list(xs.iter().map(|&x| zid(x)))
}
fn zi(v: i64) -> String {
    coq::z(v)
}
/// `(mkg [nodes] [(s,d,id,Some w); ...])`; `unit` => every weight is 1 (weight_property = None)
fn gterm(l: &Live, unit: bool) -> String {
    let es = coq::list(l.edges.iter().map(|e| {
        let w = if unit {
            "(@None Z)".to_string()
        } else {
            match e.raw {
                Raw::Int(i) | Raw::Float(i) => format!("Some {}", zi(i)),
                _ => "(@None Z)".to_string(),
            }
        };
        format!("({},{},{},{})", e.s, e.d, e.id, w)
    }));
    format!("(mkg {} {})", zlist(&l.nodes), es)
}
fn f_int(x: f64) -> Option<i64> {
    if x.is_finite() && x == x.trunc() && x.abs() < 9.0e15 { Some(x as i64) } else { None }
}
/// a distance map as `[(node, d); ...]` sorted by node; None when some value is not an exact integer
fn dmap_term(m: &BTreeMap<u64, f64>) -> Option<String> {
    let mut v = vec![];
    for (&k, &x) in m {
        v.push(format!("({},{})", k, zi(f_int(x)?)));
    }
    Some(coq::list(v))
}
fn umap_term(m: &BTreeMap<u64, u64>) -> String {
    coq::list(m.iter().map(|(k, v)| format!("({},{})", k, v)))
}
fn paths_term(ps: &[Vec<u64>]) -> String {
    coq::list(ps.iter().map(|p| zlist(p)))
}
fn nid(v: u64) -> NodeId {
    NodeId::new(v)
}
fn to_btree_f(m: &grafeo_common::utils::hash::FxHashMap<NodeId, f64>) -> BTreeMap<u64, f64> {
    m.iter().map(|(k, v)| (k.as_u64(), *v)).collect()
}
fn to_btree_n(m: &grafeo_common::utils::hash::FxHashMap<NodeId, NodeId>) -> BTreeMap<u64, u64> {
    m.iter().map(|(k, v)| (k.as_u64(), v.as_u64())).collect()
}
fn to_btree_u(m: &grafeo_common::utils::hash::FxHashMap<NodeId, u64>) -> BTreeMap<u64, u64> {
    m.iter().map(|(k, v)| (k.as_u64(), *v)).collect()
}
fn ids(v: &[NodeId]) -> Vec<u64> {
    v.iter().map(|n| n.as_u64()).collect()
}

/// chase a predecessor map from `t` back to `s` with a step bound (the implementation's own
/// `path_to` loops for ever on a predecessor cycle)
fn chase(pred: &BTreeMap<u64, u64>, s: u64, t: u64, bound: usize) -> Option<Vec<u64>> {
    let mut path = vec![t];
    let mut c = t;
    let mut k = 0;
    while c != s {
        c = *pred.get(&c)?;
        path.push(c);
        k += 1;
        if k > bound {
            return None;
        }
    }
    path.reverse();
    Some(path)
}

// ------------------------------------------------------------------------------------------
// case emission

struct Ctx<'a> {
    out: &'a mut Out,
    spec: String,
    tags: Vec<String>,
    nt: bool,
}
impl<'a> Ctx<'a> {
    /// a certificate case: `coq` decides; `shadow` = the harness's own verdict (cross-check)
    fn cert(&mut self, kind: &str, inp: String, coq_term: String, shadow: Option<bool>, imp: String, k: Option<(&str, String)>) {
        let mut c = Case {
            kind: kind.into(),
            input: format!("{} | {}", self.spec, inp),
            coq: Some(coq_term),
            oracle: match shadow {
                Some(true) => Oracle::Ok,
                Some(false) => Oracle::Fail,
                None => Oracle::Na,
            },
            nontrivial: self.nt,
            imp,
            tags: self.tags.clone(),
            ..Default::default()
        };
        c.msg = "cert".into();
        if let Some((kid, kcoq)) = k {
            c.kid = Some(kid.into());
            c.kcoq = Some(kcoq);
        }
        self.out.emit(&c);
    }
    /// a correspondence case: the transcribed model's output must equal the implementation's
    fn corr(&mut self, kind: &str, inp: String, coq_term: String, show: Option<String>, imp: String) {
        let c = Case {
            kind: kind.into(),
            input: format!("{} | {}", self.spec, inp),
            coq: Some(coq_term),
            show,
            oracle: Oracle::Na,
            nontrivial: self.nt,
            imp,
            tags: self.tags.clone(),
            msg: "corr".into(),
            ..Default::default()
        };
        self.out.emit(&c);
    }
    /// a case decided by the harness (brute force / float checks)
    fn brute(&mut self, kind: &str, inp: String, ok: bool, why: String, imp: String, k: Option<(&str, String)>) {
        let mut c = Case {
            kind: kind.into(),
            input: format!("{} | {}", self.spec, inp),
            coq: None,
            oracle: if ok { Oracle::Ok } else { Oracle::Fail },
            nontrivial: self.nt,
            imp,
            tags: self.tags.clone(),
            msg: if ok { "brute".into() } else { format!("brute: {}", why) },
            ..Default::default()
        };
        if let Some((kid, kcoq)) = k {
            c.kid = Some(kid.into());
            c.kcoq = Some(kcoq);
        }
        self.out.emit(&c);
    }
}

// ------------------------------------------------------------------------------------------
// the algorithms

struct Sssp {
    d: BTreeMap<u64, f64>,
    pred: BTreeMap<u64, u64>,
}

fn paths_of(pred: &BTreeMap<u64, u64>, d: &BTreeMap<u64, f64>, s: u64, n: usize) -> Option<Vec<Vec<u64>>> {
    let mut ps = vec![];
    for (&v, _) in d {
        ps.push(chase(pred, s, v, n + 1)?);
    }
    Some(ps)
}

fn shadow_dist_ok(ig: &IG, s: u64, d: &BTreeMap<u64, f64>) -> bool {
    let (td, _, neg) = ig.bf(s);
    if neg.is_some() {
        return false;
    }
    if td.len() != d.len() {
        return false;
    }
    td.iter().all(|(k, &v)| d.get(k).and_then(|x| f_int(*x)) == Some(v))
}

fn run_sssp_family(cx: &mut Ctx, st: &LpgStore, l: &Live, unit: bool, sources: &[u64], pairs: &[(u64, u64)], nonneg: bool, rng: &mut Rng) {
    let ig = IG::of(l, unit);
    let g = gterm(l, unit);
    let wp: Option<&str> = if unit { None } else { Some(WPROP) };
    let n = l.nodes.len();
    let mut dij: HashMap<u64, Sssp> = HashMap::new();
    for &s in sources {
        // ---- Dijkstra (non-negative weights only)
        if nonneg {
            let r = alg::dijkstra(st, nid(s), wp);
            let d = to_btree_f(&r.distances);
            let pred = to_btree_n(&r.predecessors);
            let shadow = shadow_dist_ok(&ig, s, &d);
            let paths = paths_of(&pred, &d, s, n);
            // the implementation's own path reconstruction must agree with the chase
            let mut pt_ok = true;
            if let Some(ps) = &paths {
                for p in ps {
                    let t = *p.last().unwrap();
                    let got = r.path_to(nid(s), nid(t)).map(|x| ids(&x));
                    if got.as_ref() != Some(p) {
                        pt_ok = false;
                    }
                }
                for &v in &l.nodes {
                    if !d.contains_key(&v) && r.path_to(nid(s), nid(v)).is_some() {
                        pt_ok = false;
                    }
                    if r.distance_to(nid(v)) != d.get(&v).copied() {
                        pt_ok = false;
                    }
                }
            }
            if let Some(dt) = dmap_term(&d) {
                cx.corr("model-dijkstra", format!("s={} unit={}", s, unit), format!("chk_dijkstra {} {} {}", g, s, dt), Some(format!("show_dijkstra {} {}", g, s)), format!("d={:?}", d));
            }
            match (dmap_term(&d), &paths) {
                (Some(dt), Some(ps)) => {
                    cx.cert("dijkstra", format!("s={} unit={}", s, unit), format!("c_sssp {} {} {} {} && c_pred {} {} {} {}", g, s, dt, paths_term(ps), g, s, dt, umap_term(&pred)), Some(shadow && pt_ok), format!("d={:?} pred={:?} path_to_ok={}", d, pred, pt_ok), None);
                }
                _ => cx.brute("dijkstra", format!("s={} unit={}", s, unit), false, "non-integral distance or predecessor chain does not reach the source".into(), format!("d={:?} pred={:?}", d, pred), None),
            }
            if !pt_ok {
                cx.brute("dijkstra-path_to", format!("s={} unit={}", s, unit), false, "DijkstraResult::path_to/distance_to disagree with the predecessor map".into(), format!("d={:?} pred={:?}", d, pred), None);
            }
            dij.insert(s, Sssp { d, pred });
        }
        // ---- Bellman-Ford
        {
            let r = alg::bellman_ford(st, nid(s), wp);
            let d = to_btree_f(&r.distances);
            let pred = to_btree_n(&r.predecessors);
            let (td, _, neg) = ig.bf(s);
            let flag = r.has_negative_cycle;
            if let Some(dt) = dmap_term(&d) {
                cx.corr("model-bellman_ford", format!("s={} unit={}", s, unit), format!("chk_bf {} {} {} {} {}", g, s, dt, umap_term(&pred), coq::b(flag)), Some(format!("show_bf {} {}", g, s)), format!("d={:?} pred={:?} flag={}", d, pred, flag));
            }
            if flag {
                let (wit, shadow) = match &neg {
                    Some((pre, cyc)) => (format!("({}, {})", zlist(pre), zlist(cyc)), true),
                    None => ("([], [])".to_string(), false),
                };
                cx.cert("bellman_ford", format!("s={} unit={}", s, unit), format!("c_bf {} {} [] [] true {}", g, s, wit), Some(shadow), format!("negative cycle flagged; d={:?}", d), None);
            } else {
                let paths = paths_of(&pred, &d, s, n);
                let shadow = neg.is_none() && td.len() == d.len() && td.iter().all(|(k, &v)| d.get(k).and_then(|x| f_int(*x)) == Some(v));
                let mut pt_ok = true;
                if let Some(ps) = &paths {
                    for p in ps {
                        let t = *p.last().unwrap();
                        if r.path_to(nid(t)).map(|x| ids(&x)).as_ref() != Some(p) {
                            pt_ok = false;
                        }
                    }
                }
                match (dmap_term(&d), &paths) {
                    (Some(dt), Some(ps)) => cx.cert("bellman_ford", format!("s={} unit={}", s, unit), format!("c_bf {} {} {} {} false ([], []) && c_pred {} {} {} {}", g, s, dt, paths_term(ps), g, s, dt, umap_term(&pred)), Some(shadow && pt_ok), format!("d={:?} pred={:?} path_to_ok={}", d, pred, pt_ok), None),
                    _ => cx.brute("bellman_ford", format!("s={} unit={}", s, unit), false, "non-integral distance or predecessor chain does not reach the source (path_to would not terminate)".into(), format!("d={:?} pred={:?}", d, pred), None),
                }
                // agreement with Dijkstra
                if let Some(dj) = dij.get(&s) {
                    let ok = dj.d == d;
                    cx.brute("agree-dijkstra-bf", format!("s={} unit={}", s, unit), ok, "Dijkstra and Bellman-Ford distances differ".into(), format!("dijkstra={:?} bf={:?}", dj.d, d), None);
                }
            }
        }
        // ---- plugin wrapper (registry path) for Dijkstra
        if nonneg && rng.chance(1, 3) {
            let mut p = Parameters::new();
            p.set_int("source", s as i64);
            if !unit {
                p.set_string("weight", WPROP);
            }
            let res = alg::DijkstraAlgorithm.execute(st, &p);
            let ok = match (&res, dij.get(&s)) {
                (Ok(r), Some(dj)) => {
                    let mut m: BTreeMap<u64, f64> = BTreeMap::new();
                    for row in &r.rows {
                        if let (Value::Int64(k), Value::Float64(x)) = (&row[0], &row[1]) {
                            m.insert(*k as u64, *x);
                        }
                    }
                    m == dj.d && r.rows.len() == dj.d.len()
                }
                _ => false,
            };
            cx.brute("wrapper-dijkstra", format!("s={} unit={}", s, unit), ok, "DijkstraAlgorithm::execute differs from dijkstra()".into(), String::new(), None);
        }
    }
    // ---- single pair: dijkstra_path, A* (three heuristics)
    if nonneg {
        for (pi, &(s, t)) in pairs.iter().enumerate() {
            let full = alg::dijkstra(st, nid(s), wp);
            let d = to_btree_f(&full.distances);
            let pred = to_btree_n(&full.predecessors);
            let (Some(dt), Some(ps)) = (dmap_term(&d), paths_of(&pred, &d, s, n)) else { continue };
            let (td, _, _) = ig.bf(s);
            let truth = td.get(&t).copied();
            // exact distances to t (for admissible heuristics)
            let to_t: BTreeMap<u64, i64> = l.nodes.iter().filter_map(|&v| ig.bf(v).0.get(&t).map(|&x| (v, x))).collect();
            let mut answers: Vec<(&str, Option<(f64, Vec<NodeId>)>)> = vec![];
            answers.push(("dijkstra_path", alg::dijkstra_path(st, nid(s), nid(t), wp)));
            answers.push(("astar-h0", alg::astar(st, nid(s), nid(t), wp, |_| 0.0)));
            if pi % 3 == 0 {
            let tt = to_t.clone();
            answers.push(("astar-hexact", alg::astar(st, nid(s), nid(t), wp, move |v| tt.get(&v.as_u64()).map_or(1.0e6, |&x| x as f64))));
            let tt = to_t.clone();
            // admissible but inconsistent: exact on even ids, 0 on odd ids
            answers.push(("astar-hincons", alg::astar(st, nid(s), nid(t), wp, move |v| if v.as_u64() % 2 == 0 { tt.get(&v.as_u64()).map_or(0.0, |&x| x as f64) } else { 0.0 })));
            }
            for (name, a) in answers {
                let (term, shadow, imp) = match &a {
                    None => ("None".to_string(), truth.is_none(), "None".to_string()),
                    Some((x, p)) => match f_int(*x) {
                        Some(xi) => (format!("(Some ({}, {}))", zi(xi), zlist(&ids(p))), truth == Some(xi), format!("({}, {:?})", x, ids(p))),
                        None => ("(Some (-1, []))".to_string(), false, format!("({}, {:?})", x, ids(p))),
                    },
                };
                cx.cert(name, format!("s={} t={} unit={}", s, t, unit), format!("c_pair {} {} {} {} {} {}", g, s, t, dt, paths_term(&ps), term), Some(shadow), imp, None);
            }
        }
    }
}

fn neg_cycle_anywhere(ig: &IG) -> Option<Vec<u64>> {
    for &s in &ig.nodes {
        if let (_, _, Some((_, cyc))) = ig.bf(s) {
            return Some(cyc);
        }
    }
    None
}

fn run_floyd(cx: &mut Ctx, st: &LpgStore, l: &Live, unit: bool, dijk_ok: bool) {
    let ig = IG::of(l, unit);
    let g = gterm(l, unit);
    let wp: Option<&str> = if unit { None } else { Some(WPROP) };
    let r = alg::floyd_warshall(st, wp);
    let fw_nodes = ids(r.nodes());
    let neg = neg_cycle_anywhere(&ig);
    if r.has_negative_cycle() {
        let (wit, shadow) = match &neg {
            Some(c) => (zlist(c), true),
            None => ("[]".into(), false),
        };
        cx.cert("floyd_warshall", format!("unit={}", unit), format!("c_fw {} [] true {}", g, wit), Some(shadow), "negative cycle flagged".into(), None);
        return;
    }
    let mut rows = vec![];
    let mut shadow = neg.is_none() && {
        let mut a = fw_nodes.clone();
        a.sort();
        let mut b = l.nodes.clone();
        b.sort();
        a == b
    };
    let mut integral = true;
    let mut impd = String::new();
    for &s in &l.nodes {
        let mut d: BTreeMap<u64, f64> = BTreeMap::new();
        let mut ps = vec![];
        for &t in &l.nodes {
            if let Some(x) = r.distance(nid(s), nid(t)) {
                d.insert(t, x);
                match r.path(nid(s), nid(t)) {
                    Some(p) => ps.push(ids(&p)),
                    None => shadow = false,
                }
            } else if r.path(nid(s), nid(t)).is_some() {
                shadow = false;
            }
        }
        let (td, _, _) = ig.bf(s);
        if !(td.len() == d.len() && td.iter().all(|(k, &v)| d.get(k).and_then(|x| f_int(*x)) == Some(v))) {
            shadow = false;
        }
        impd.push_str(&format!("{}:{:?} ", s, d));
        match dmap_term(&d) {
            Some(dt) => rows.push(format!("({}, {}, {})", s, dt, paths_term(&ps))),
            None => integral = false,
        }
        // agreement with Dijkstra where it applies
        if dijk_ok {
            let dj = to_btree_f(&alg::dijkstra(st, nid(s), wp).distances);
            if dj != d {
                cx.brute("agree-dijkstra-fw", format!("s={} unit={}", s, unit), false, "Dijkstra and Floyd-Warshall distances differ".into(), format!("dijkstra={:?} fw={:?}", dj, d), None);
            }
        }
    }
    if integral {
        cx.cert("floyd_warshall", format!("unit={}", unit), format!("c_fw {} {} false []", g, coq::list(rows)), Some(shadow), impd, None);
    } else {
        cx.brute("floyd_warshall", format!("unit={}", unit), false, "non-integral distance".into(), impd, None);
    }
}

fn run_traversal(cx: &mut Ctx, st: &LpgStore, l: &Live, sources: &[u64]) {
    let ig = IG::of(l, true);
    let g = gterm(l, true);
    for &s in sources {
        let truth: Vec<u64> = ig.reach(s).into_iter().collect();
        let b = ids(&alg::bfs(st, nid(s)));
        let mut bs = b.clone();
        bs.sort();
        cx.cert("bfs", format!("s={}", s), format!("c_reach {} {} {}", g, s, zlist(&b)), Some(bs == truth && b.first() == Some(&s)), format!("{:?}", b), None);
        cx.corr("model-reach", format!("s={}", s), format!("chk_reach {} {} {} && chk_reach {} {} {}", g, s, zlist(&b), g, s, zlist(&ids(&alg::dfs(st, nid(s))))), None, String::new());
        let d = ids(&alg::dfs(st, nid(s)));
        let mut ds = d.clone();
        ds.sort();
        let mut dr = d.clone();
        dr.reverse();
        cx.cert("dfs", format!("s={}", s), format!("c_reach {} {} {}", g, s, zlist(&dr)), Some(ds == truth && d.last() == Some(&s)), format!("{:?}", d), None);
        // layers: layer i = nodes at hop distance i
        let layers: Vec<Vec<u64>> = alg::bfs_layers(st, nid(s)).iter().map(|x| ids(x)).collect();
        let (td, tp, _) = ig.bf(s);
        let mut shadow = true;
        let mut cnt = 0;
        for (i, ly) in layers.iter().enumerate() {
            for v in ly {
                cnt += 1;
                if td.get(v) != Some(&(i as i64)) {
                    shadow = false;
                }
            }
            if ly.is_empty() {
                shadow = false;
            }
        }
        if cnt != td.len() {
            shadow = false;
        }
        let df: BTreeMap<u64, f64> = td.iter().map(|(k, v)| (*k, *v as f64)).collect();
        let ps = paths_of(&tp, &df, s, l.nodes.len()).unwrap_or_default();
        cx.cert("bfs_layers", format!("s={}", s), format!("c_layers {} {} {} {} {}", g, s, coq::list(layers.iter().map(|x| zlist(x))), dmap_term(&df).unwrap(), paths_term(&ps)), Some(shadow), format!("{:?}", layers), None);
    }
    let a = ids(&alg::dfs_all(st));
    let mut as_ = a.clone();
    as_.sort();
    let mut ns = l.nodes.clone();
    ns.sort();
    cx.cert("dfs_all", String::new(), format!("c_perm {} {}", g, zlist(&a)), Some(as_ == ns && a.len() == ns.len()), format!("{:?}", a), None);
}

fn same_partition(a: &BTreeMap<u64, u64>, b: &BTreeMap<u64, u64>) -> bool {
    if a.len() != b.len() {
        return false;
    }
    let ks: Vec<u64> = a.keys().copied().collect();
    for &x in &ks {
        if !b.contains_key(&x) {
            return false;
        }
        for &y in &ks {
            if (a[&x] == a[&y]) != (b[&x] == b[&y]) {
                return false;
            }
        }
    }
    true
}

fn run_components(cx: &mut Ctx, st: &LpgStore, l: &Live) {
    let ig = IG::of(l, true);
    let g = gterm(l, true);
    // weakly connected
    let cc = to_btree_u(&alg::connected_components(st));
    let cnt = alg::connected_component_count(st);
    let truth = ig.ucomp_labels();
    let tc = truth.values().collect::<BTreeSet<_>>().len();
    cx.cert("connected_components", String::new(), format!("c_wcc {} {} {}", g, umap_term(&cc), cnt), Some(same_partition(&cc, &truth) && cnt == tc), format!("{:?} count={}", cc, cnt), None);
    // strongly connected
    let sc = to_btree_u(&alg::strongly_connected_components(st));
    let scnt = alg::strongly_connected_component_count(st);
    let reach: BTreeMap<u64, BTreeSet<u64>> = l.nodes.iter().map(|&v| (v, ig.reach(v))).collect();
    let mut tl: BTreeMap<u64, u64> = BTreeMap::new();
    for &u in &l.nodes {
        let rep = l.nodes.iter().copied().filter(|v| reach[&u].contains(v) && reach[v].contains(&u)).min().unwrap();
        tl.insert(u, rep);
    }
    let tsc = tl.values().collect::<BTreeSet<_>>().len();
    cx.cert("strongly_connected_components", String::new(), format!("c_scc {} {} {}", g, umap_term(&sc), scnt), Some(same_partition(&sc, &tl) && scnt == tsc), format!("{:?} count={}", sc, scnt), None);
    // topological sort / is_dag
    let cyclic = ig.edges.iter().any(|e| reach[&e.1].contains(&e.0));
    let ts = alg::topological_sort(st).map(|v| ids(&v));
    let dag = alg::is_dag(st);
    let (term, shadow) = match &ts {
        None => ("None".to_string(), cyclic && !dag),
        Some(o) => {
            let pos: BTreeMap<u64, usize> = o.iter().enumerate().map(|(i, v)| (*v, i)).collect();
            let mut so = o.clone();
            so.sort();
            let mut ns = l.nodes.clone();
            ns.sort();
            let ok = so == ns && ig.edges.iter().all(|e| pos.get(&e.0) < pos.get(&e.1)) && dag && !cyclic;
            (format!("(Some {})", zlist(o)), ok)
        }
    };
    cx.cert("topological_sort", String::new(), format!("c_topo {} {} {}", g, term, coq::b(dag)), Some(shadow), format!("{:?} is_dag={}", ts, dag), None);
}

fn run_mst(cx: &mut Ctx, st: &LpgStore, l: &Live, unit: bool, starts: &[Option<u64>]) {
    let ig = IG::of(l, unit);
    let g = gterm(l, unit);
    let wp: Option<&str> = if unit { None } else { Some(WPROP) };
    let et = |edges: &Vec<(NodeId, NodeId, EdgeId, f64)>| -> Option<String> {
        let mut v = vec![];
        for (a, b, e, w) in edges {
            v.push(format!("({},{},{},{})", a.as_u64(), b.as_u64(), e.as_u64(), zi(f_int(*w)?)));
        }
        Some(coq::list(v))
    };
    let shadow_forest = |edges: &Vec<(NodeId, NodeId, EdgeId, f64)>, comp: Option<&BTreeSet<u64>>| -> bool {
        // real edges, acyclic, right number, minimum weight
        let mut parent: BTreeMap<u64, u64> = l.nodes.iter().map(|&n| (n, n)).collect();
        fn find(p: &BTreeMap<u64, u64>, mut x: u64) -> u64 {
            while p[&x] != x {
                x = p[&x];
            }
            x
        }
        let mut w = 0;
        for (a, b, e, x) in edges {
            let Some(le) = ig.edges.iter().find(|q| q.2 == e.as_u64()) else { return false };
            let (a, b) = (a.as_u64(), b.as_u64());
            if !((le.0 == a && le.1 == b) || (le.0 == b && le.1 == a)) || Some(le.3) != f_int(*x) {
                return false;
            }
            if !parent.contains_key(&a) || !parent.contains_key(&b) {
                return false;
            }
            let (ra, rb) = (find(&parent, a), find(&parent, b));
            if ra == rb {
                return false;
            }
            parent.insert(ra, rb);
            w += le.3;
        }
        let (tw, tk) = ig.msf_weight(comp);
        tk == edges.len() && tw == w
    };
    // Kruskal
    let kr = alg::kruskal(st, wp);
    let sh = shadow_forest(&kr.edges, None) && f_int(kr.total_weight) == Some(ig.msf_weight(None).0);
    match (et(&kr.edges), f_int(kr.total_weight)) {
        (Some(t), Some(tw)) => cx.cert("kruskal", format!("unit={}", unit), format!("c_msf {} {} {}", g, t, zi(tw)), Some(sh), format!("{:?} total={}", kr.edges.iter().map(|e| (e.0.as_u64(), e.1.as_u64(), e.2.as_u64(), e.3)).collect::<Vec<_>>(), kr.total_weight), None),
        _ => cx.brute("kruskal", format!("unit={}", unit), false, "non-integral weight".into(), String::new(), None),
    }
    if let Some(tw) = f_int(kr.total_weight) {
        let idl: Vec<u64> = kr.edges.iter().map(|e| e.2.as_u64()).collect();
        cx.corr("model-kruskal", format!("unit={}", unit), format!("chk_kruskal {} {} {}", g, zlist(&idl), zi(tw)), Some(format!("show_kruskal {}", g)), format!("{:?}", idl));
    }
    let connected = ig.ucomp_without(None, None) <= 1;
    for &s0 in starts {
        let pr = alg::prim(st, wp, s0.map(nid));
        let start = s0.or_else(|| {
            let mut a = l.nodes.clone();
            a.sort();
            a.first().copied()
        });
        let Some(start) = start else {
            let ok = pr.edges.is_empty() && pr.total_weight == 0.0;
            cx.brute("prim", "empty graph".into(), ok, "non-empty result on the empty graph".into(), String::new(), None);
            continue;
        };
        let labels = ig.ucomp_labels();
        let comp: BTreeSet<u64> = l.nodes.iter().copied().filter(|v| labels[v] == labels[&start]).collect();
        let sh = shadow_forest(&pr.edges, Some(&comp)) && f_int(pr.total_weight) == Some(ig.msf_weight(Some(&comp)).0);
        match (et(&pr.edges), f_int(pr.total_weight)) {
            (Some(t), Some(tw)) => cx.cert("prim", format!("start={:?} unit={}", s0, unit), format!("c_prim {} {} {} {}", g, start, t, zi(tw)), Some(sh), format!("{:?} total={}", pr.edges.iter().map(|e| (e.0.as_u64(), e.1.as_u64(), e.2.as_u64(), e.3)).collect::<Vec<_>>(), pr.total_weight), None),
            _ => cx.brute("prim", format!("start={:?} unit={}", s0, unit), false, "non-integral weight".into(), String::new(), None),
        }
        if connected {
            let ok = kr.total_weight == pr.total_weight;
            cx.brute("agree-kruskal-prim", format!("start={:?} unit={}", s0, unit), ok, "Kruskal and Prim weights differ on a connected graph".into(), format!("kruskal={} prim={}", kr.total_weight, pr.total_weight), None);
        }
    }
}

fn run_flow(cx: &mut Ctx, st: &LpgStore, l: &Live, unit: bool, pairs: &[(u64, u64)]) {
    let ig = IG::of(l, unit);
    let g = gterm(l, unit);
    let wp: Option<&str> = if unit { None } else { Some(WPROP) };
    for &(s, t) in pairs {
        let r = alg::max_flow(st, nid(s), nid(t), wp);
        let Some(r) = r else {
            cx.brute("max_flow", format!("s={} t={}", s, t), false, "None for existing source and sink".into(), String::new(), None);
            continue;
        };
        if s == t {
            let m = alg::min_cost_max_flow(st, nid(s), nid(t), wp, None);
            let ok = r.max_flow == 0.0 && r.flow_edges.is_empty() && m.map_or(false, |m| m.max_flow == 0.0 && m.flow_edges.is_empty() && m.total_cost == 0.0);
            cx.brute("max_flow-same-node", format!("s=t={}", s), ok, "source = sink must give the zero flow".into(), String::new(), None);
            continue;
        }
        let truth = ig.min_cut(s, t);
        let mut fl = vec![];
        let mut integral = true;
        for (a, b, f) in &r.flow_edges {
            match f_int(*f) {
                Some(x) => fl.push(format!("({},{},{})", a.as_u64(), b.as_u64(), zi(x))),
                None => integral = false,
            }
        }
        let imp = format!("max_flow={} flow={:?}", r.max_flow, r.flow_edges.iter().map(|e| (e.0.as_u64(), e.1.as_u64(), e.2)).collect::<Vec<_>>());
        match (integral, f_int(r.max_flow)) {
            (true, Some(v)) => cx.cert("max_flow", format!("s={} t={} unit={}", s, t, unit), format!("c_flow {} {} {} {} {}", g, s, t, coq::list(fl), zi(v)), Some(v == truth), imp, None),
            _ => cx.brute("max_flow", format!("s={} t={} unit={}", s, t, unit), false, "non-integral flow on integral capacities".into(), imp, None),
        }
        // min-cost max-flow: same flow value, feasible flow (cost optimality is not covered)
        let m = alg::min_cost_max_flow(st, nid(s), nid(t), wp, None);
        if let Some(m) = m {
            let mut fl = vec![];
            let mut integral = true;
            for (a, b, f, _) in &m.flow_edges {
                match f_int(*f) {
                    Some(x) => fl.push(format!("({},{},{})", a.as_u64(), b.as_u64(), zi(x))),
                    None => integral = false,
                }
            }
            let imp = format!("max_flow={} cost={} flow={:?}", m.max_flow, m.total_cost, m.flow_edges.iter().map(|e| (e.0.as_u64(), e.1.as_u64(), e.2)).collect::<Vec<_>>());
            match (integral, f_int(m.max_flow)) {
                (true, Some(v)) => cx.cert("min_cost_max_flow", format!("s={} t={} unit={}", s, t, unit), format!("c_flow {} {} {} {} {}", g, s, t, coq::list(fl), zi(v)), Some(v == truth), imp, None),
                _ => cx.brute("min_cost_max_flow", format!("s={} t={} unit={}", s, t, unit), false, "non-integral flow on integral capacities".into(), imp, None),
            }
        } else {
            cx.brute("min_cost_max_flow", format!("s={} t={}", s, t), false, "None for existing source and sink".into(), String::new(), None);
        }
    }
}

fn run_structure(cx: &mut Ctx, st: &LpgStore, l: &Live) {
    let ig = IG::of(l, true);
    let g = gterm(l, true);
    let adj = ig.uadj();
    // triangles: three distinct, pairwise adjacent nodes
    let mut tri: BTreeMap<u64, u64> = l.nodes.iter().map(|&n| (n, 0)).collect();
    let mut total = 0u64;
    let ns = &l.nodes;
    for i in 0..ns.len() {
        for j in (i + 1)..ns.len() {
            for k in (j + 1)..ns.len() {
                let (a, b, c) = (ns[i], ns[j], ns[k]);
                if adj[&a].contains(&b) && adj[&b].contains(&c) && adj[&a].contains(&c) {
                    *tri.get_mut(&a).unwrap() += 1;
                    *tri.get_mut(&b).unwrap() += 1;
                    *tri.get_mut(&c).unwrap() += 1;
                    total += 1;
                }
            }
        }
    }
    let tc = to_btree_u(&alg::triangle_count(st));
    let tt = alg::total_triangles(st);
    let cc = alg::clustering_coefficient(st);
    let ok = tc == tri && tt == total;
    // decided in Coq: per-node counts and the total against the executable specification (tri_cert)
    cx.cert("triangles", String::new(), format!("c_tri {} {} {}", g, umap_term(&tc), tt), Some(ok), format!("triangle_count={:?} total_triangles={}", tc, tt), None);
    // the combined result must repeat the two functions' answers
    let lc = to_btree_f(&alg::local_clustering_coefficient(st));
    let same = to_btree_u(&cc.triangle_counts) == tc && cc.total_triangles == tt && to_btree_f(&cc.coefficients) == lc;
    cx.brute("clustering-consistent", String::new(), same, "clustering_coefficient() differs from triangle_count()/total_triangles()/local_clustering_coefficient()".into(), format!("clustering.total={} counts={:?}", cc.total_triangles, to_btree_u(&cc.triangle_counts)), None);
    // local clustering coefficient = triangles / C(deg,2) over distinct neighbours other than the node itself
    let mut lok = lc.len() == ns.len();
    for &v in ns {
        let k = adj[&v].iter().filter(|&&x| x != v).count() as u64;
        let want = if k < 2 { 0.0 } else { tri[&v] as f64 / ((k * (k - 1) / 2) as f64) };
        if lc.get(&v).map_or(true, |x| x.to_bits() != want.to_bits() && !(*x == 0.0 && want == 0.0)) {
            lok = false;
        }
    }
    let lct = coq::list(lc.iter().map(|(k, x)| format!("({},{})", k, coq::zu(x.to_bits()))));
    cx.cert("local_clustering", String::new(), format!("c_lcc {} {}", g, lct), Some(lok), format!("{:?}", lc), None);
    // k-core: core(v) = max k such that v lies in a subgraph whose every node has >= k distinct neighbours inside it
    // (a self-loop makes a node its own neighbour, as in the implementation's adjacency sets)
    let mut core: BTreeMap<u64, usize> = BTreeMap::new();
    for k in 0..=ns.len() + 1 {
        let mut alive: BTreeSet<u64> = ns.iter().copied().collect();
        loop {
            let drop: Vec<u64> = alive.iter().copied().filter(|v| adj[v].iter().filter(|x| alive.contains(x)).count() < k).collect();
            if drop.is_empty() {
                break;
            }
            for v in drop {
                alive.remove(&v);
            }
        }
        for v in alive {
            core.insert(v, k);
        }
    }
    let kc = alg::kcore_decomposition(st);
    let got: BTreeMap<u64, usize> = kc.core_numbers.iter().map(|(k, v)| (k.as_u64(), *v)).collect();
    let maxc = core.values().copied().max().unwrap_or(0);
    let k2u = ids(&alg::k_core(st, 2));
    let mut k2 = k2u.clone();
    k2.sort();
    let want2: Vec<u64> = core.iter().filter(|(_, c)| **c >= 2).map(|(v, _)| *v).collect();
    let ok = got == core && kc.max_core == maxc && k2 == want2;
    let ct = coq::list(got.iter().map(|(k, v)| format!("({},{})", k, v)));
    cx.cert("kcore", String::new(), format!("c_kcore {} {} {} {}", g, ct, kc.max_core, zlist(&k2u)), Some(ok), format!("core_numbers={:?} max_core={} k_core(2)={:?}", got, kc.max_core, k2), None);
    // bridges: adjacent pairs whose removal (all edges between them) increases the number of components
    let base = ig.ucomp_without(None, None);
    let mut want: BTreeSet<(u64, u64)> = BTreeSet::new();
    for (&a, nb) in &adj {
        for &b in nb {
            if a < b && ig.ucomp_without(None, Some((a, b))) > base {
                want.insert((a, b));
            }
        }
    }
    let br = alg::bridges(st);
    let got: BTreeSet<(u64, u64)> = br.iter().map(|(a, b)| (a.as_u64().min(b.as_u64()), a.as_u64().max(b.as_u64()))).collect();
    let brt = coq::list(br.iter().map(|(a, b)| format!("({},{})", a.as_u64(), b.as_u64())));
    cx.cert("bridges", String::new(), format!("c_bridges {} {}", g, brt), Some(got == want && br.len() == want.len()), format!("{:?}", br.iter().map(|(a, b)| (a.as_u64(), b.as_u64())).collect::<Vec<_>>()), None);
    // articulation points: nodes whose removal increases the number of components among the others
    let mut wa: BTreeSet<u64> = BTreeSet::new();
    for &v in ns {
        let isolated = adj[&v].iter().all(|&x| x == v);
        let without = ig.ucomp_without(Some(v), None);
        let expect_without = if isolated { base - 1 } else { base };
        if without > expect_without {
            wa.insert(v);
        }
    }
    let ap: BTreeSet<u64> = alg::articulation_points(st).iter().map(|n| n.as_u64()).collect();
    let apl: Vec<u64> = ap.iter().copied().collect();
    cx.cert("articulation_points", String::new(), format!("c_artic {} {}", g, zlist(&apl)), Some(ap == wa), format!("{:?}", ap), None);
    // degree centrality
    let dc = alg::degree_centrality(st);
    let mut dok = true;
    for &v in ns {
        let o = ig.edges.iter().filter(|e| e.0 == v).count();
        let i = ig.edges.iter().filter(|e| e.1 == v).count();
        if dc.out_degree.get(&nid(v)).copied() != Some(o) || dc.in_degree.get(&nid(v)).copied() != Some(i) || dc.total_degree.get(&nid(v)).copied() != Some(o + i) {
            dok = false;
        }
    }
    cx.brute("degree_centrality", String::new(), dok, "degree differs from the edge count".into(), String::new(), None);
}

fn run_pagerank(cx: &mut Ctx, st: &LpgStore, l: &Live, rng: &mut Rng) {
    let damping = *rng.pick(&[0.85, 0.5, 0.0, 1.0, 0.99]);
    let iters = *rng.pick(&[0usize, 1, 2, 20, 100]);
    let pr = alg::pagerank(st, damping, iters, 1e-10);
    let sum: f64 = pr.values().sum();
    let ok = if l.nodes.is_empty() { pr.is_empty() } else { pr.len() == l.nodes.len() && (sum - 1.0).abs() < 1e-9 && pr.values().all(|&x| x >= 0.0 && x.is_finite()) };
    // decided in Coq on the exact values of the bit patterns (pr_cert): finite, non-negative, exact sum within 1e-9 of 1
    let prt = coq::list(to_btree_f(&pr).iter().map(|(k, x)| format!("({},{})", k, coq::zu(x.to_bits()))));
    cx.cert("pagerank", format!("damping={} iters={}", damping, iters), format!("c_pagerank {} {}", gterm(l, true), prt), Some(ok), format!("{:?}", to_btree_f(&pr)), None);
    // community detection: every node is labelled (no specification beyond that in C19)
    let lp = alg::label_propagation(st, 20);
    let lv = alg::louvain(st, 1.0);
    let ok = lp.len() == l.nodes.len() && lv.communities.len() == l.nodes.len() && l.nodes.iter().all(|v| lp.contains_key(&nid(*v)) && lv.communities.contains_key(&nid(*v)));
    cx.brute("community-total", String::new(), ok, "a node has no community".into(), String::new(), None);
}

/// PageRank on graphs where binary64 arithmetic is exact (n and every non-zero out-degree a power of two,
/// dyadic damping, few iterations): the implementation's scores must denote exactly the rationals of the
/// Coq transcription (chk_pagerank), including the early exit on the tolerance.
fn pr_exact_ok(l: &Live) -> bool {
    let n = l.nodes.len();
    n > 0 && n.is_power_of_two() && n <= 8 && l.nodes.iter().all(|v| {
        let o = l.edges.iter().filter(|e| e.s == *v).count();
        o == 0 || (o.is_power_of_two() && o <= 8)
    })
}
fn run_pagerank_exact(cx: &mut Ctx, st: &LpgStore, l: &Live, rng: &mut Rng) {
    if !pr_exact_ok(l) {
        return;
    }
    let g = gterm(l, true);
    for _ in 0..2 {
        let damping = *rng.pick(&[0.5, 0.25, 0.75, 0.0, 1.0, 0.5]);
        let iters = *rng.pick(&[0usize, 1, 2, 3, 6]);
        let tol = *rng.pick(&[1e-10, 0.0, 0.125, 0.03125, 1.0]);
        let pr = alg::pagerank(st, damping, iters, tol);
        let prt = coq::list(to_btree_f(&pr).iter().map(|(k, x)| format!("({},{})", k, coq::zu(x.to_bits()))));
        let args = format!("{} {} {} {}", g, coq::zu(damping.to_bits()), coq::zu(tol.to_bits()), iters);
        cx.corr("model-pagerank", format!("damping={} iters={} tol={}", damping, iters, tol), format!("chk_pagerank {} {}", args, prt), Some(format!("show_pagerank {}", args)), format!("{:?}", to_btree_f(&pr)));
    }
}
/// graphs for the exact PageRank comparison: 1, 2, 4 or 8 nodes, out-degrees 0, 1, 2 or 4 (self-loops and parallel edges allowed)
fn gen_pr_spec(r: &mut Rng) -> GSpec {
    let n = *r.pick(&[1usize, 2, 4, 4, 8, 8]);
    let mut edges = vec![];
    for s in 0..n {
        let o = *r.pick(&[0usize, 1, 1, 2, 2, 4]);
        for _ in 0..o {
            edges.push(ESpec { s, d: r.below(n as u64) as usize, w: Raw::Missing });
        }
    }
    GSpec { n, edges, del_edges: vec![], del_nodes: vec![], via_db: r.chance(1, 4) }
}

// ---- core's ShortestPathOperator (hop counts)
struct PairOp {
    chunk: Option<DataChunk>,
}
impl Operator for PairOp {
    fn next(&mut self) -> OperatorResult {
        Ok(self.chunk.take())
    }
    fn reset(&mut self) {}
    fn name(&self) -> &'static str {
        "PairOp"
    }
}

fn run_operator(cx: &mut Ctx, arc: Arc<LpgStore>, l: &Live, pairs: &[(u64, u64)]) {
    if pairs.is_empty() {
        return;
    }
    let ig = IG::of(l, true);
    let g = gterm(l, true);
    let schema = vec![LogicalType::Node, LogicalType::Node];
    for all in [false, true] {
        let mut b = DataChunkBuilder::with_capacity(&schema, pairs.len());
        for (s, t) in pairs {
            b.column_mut(0).unwrap().push_node_id(nid(*s));
            b.column_mut(1).unwrap().push_node_id(nid(*t));
            b.advance_row();
        }
        let mut op = ShortestPathOperator::new(arc.clone(), Box::new(PairOp { chunk: Some(b.finish()) }), 0, 1, None, Direction::Outgoing).with_all_paths(all);
        let mut rows: Vec<(u64, u64, Option<i64>)> = vec![];
        while let Ok(Some(c)) = op.next() {
            for i in c.selected_indices() {
                let s = c.column(0).and_then(|v| v.get_node_id(i)).map(|n| n.as_u64()).unwrap_or(u64::MAX);
                let t = c.column(1).and_then(|v| v.get_node_id(i)).map(|n| n.as_u64()).unwrap_or(u64::MAX);
                let len = match c.column(2).and_then(|v| v.get_value(i)) {
                    Some(Value::Int64(x)) => Some(x),
                    _ => None,
                };
                rows.push((s, t, len));
            }
        }
        for &(s, t) in pairs {
            let mine: Vec<Option<i64>> = rows.iter().filter(|r| r.0 == s && r.1 == t).map(|r| r.2).collect();
            let (td, tp, _) = ig.bf(s);
            let truth = td.get(&t).copied();
            let df: BTreeMap<u64, f64> = td.iter().map(|(k, v)| (*k, *v as f64)).collect();
            let ps = paths_of(&tp, &df, s, l.nodes.len()).unwrap_or_default();
            // number of shortest walks (parallel edges count separately)
            let npaths = match truth {
                None => 0,
                Some(dd) => {
                    let mut cnt: BTreeMap<u64, u64> = BTreeMap::new();
                    cnt.insert(s, 1);
                    for step in 0..dd {
                        let mut nx: BTreeMap<u64, u64> = BTreeMap::new();
                        for (&u, &c) in &cnt {
                            for e in &ig.edges {
                                if e.0 == u && td.get(&e.1) == Some(&(step + 1)) {
                                    *nx.entry(e.1).or_insert(0) += c;
                                }
                            }
                        }
                        cnt = nx;
                    }
                    cnt.get(&t).copied().unwrap_or(0)
                }
            };
            // pairs may repeat in the input: compare per occurrence
            let occ = pairs.iter().filter(|p| **p == (s, t)).count();
            let ans = mine.first().cloned().flatten();
            let uniform = mine.iter().all(|x| *x == ans);
            let count_ok = if all { mine.len() == occ * (npaths.max(1) as usize) } else { mine.len() == occ };
            let term = match ans {
                Some(x) => format!("(Some {})", zi(x)),
                None => "None".into(),
            };
            cx.cert(if all { "op-all_shortest_paths" } else { "op-shortest_path" }, format!("s={} t={}", s, t), format!("c_hops {} {} {} {} {} {}", g, s, t, dmap_term(&df).unwrap(), paths_term(&ps), term), Some(ans == truth && uniform && count_ok), format!("rows={:?}", mine), None);
            if !(uniform && count_ok) {
                cx.brute("op-path-count", format!("s={} t={} all={}", s, t, all), false, format!("expected {} row(s) per input row", if all { npaths.max(1) } else { 1 }), format!("rows={:?}", mine), None);
            }
        }
    }
}

// ------------------------------------------------------------------------------------------
// generators

fn gen_weight(r: &mut Rng, profile: u64) -> Raw {
    // profile 0: non-negative with zeros and ties; 1: negative admitted; 2: all missing; 3: mixed representations
    match profile {
        0 => match r.below(10) {
            0 | 1 => Raw::Int(0),
            2 => Raw::Missing,
            3 => Raw::Float(r.range(0, 4)),
            _ => Raw::Int(r.range(1, 5)),
        },
        1 => match r.below(10) {
            0 => Raw::Int(0),
            1 | 2 | 3 => Raw::Int(r.range(-4, -1)),
            4 => Raw::Missing,
            _ => Raw::Int(r.range(1, 7)),
        },
        2 => Raw::Missing,
        _ => match r.below(6) {
            0 => Raw::Missing,
            1 => Raw::Str,
            2 => Raw::Float(r.range(0, 6)),
            3 => Raw::Int(2),
            _ => Raw::Int(r.range(0, 9)),
        },
    }
}

fn gen_spec(r: &mut Rng, profile: u64) -> GSpec {
    let n = match r.below(12) {
        0 => 0,
        1 => 1,
        2 => 2,
        3 | 4 => 3,
        5 | 6 => 4,
        7 => 5,
        8 => 6,
        _ => r.range(5, 10) as usize,
    };
    let m = if n == 0 {
        0
    } else {
        match r.below(8) {
            0 => 0,
            1 => r.below(3) as usize,
            2 | 3 => r.below(2 * n as u64 + 1) as usize,
            4 => (n * n).min(25),
            _ => r.below(26) as usize,
        }
    };
    let shape = r.below(8);
    let mut edges = vec![];
    for k in 0..m {
        let (s, d) = match shape {
            0 => {
                // DAG-ish: forward edges only
                let a = r.below(n as u64) as usize;
                let b = r.below(n as u64) as usize;
                (a.min(b), a.max(b))
            }
            1 => {
                // two parts
                let half = (n / 2).max(1);
                if r.chance(1, 2) { (r.below(half as u64) as usize, r.below(half as u64) as usize) } else { (half.min(n - 1) + r.below((n - half.min(n - 1)) as u64) as usize, half.min(n - 1) + r.below((n - half.min(n - 1)) as u64) as usize) }
            }
            2 => (k % n, (k + 1) % n), // ring(s) with parallel edges when m > n
            3 => {
                // symmetric pairs: every second edge is the reverse of the previous one
                if k % 2 == 1 {
                    let p: &ESpec = &edges[k - 1];
                    (p.d, p.s)
                } else {
                    (r.below(n as u64) as usize, r.below(n as u64) as usize)
                }
            }
            _ => (r.below(n as u64) as usize, r.below(n as u64) as usize),
        };
        let (s, d) = if shape == 0 && s == d && n > 1 { (s, (s + 1) % n) } else { (s, d) };
        let (s, d) = if shape == 0 && s > d { (d, s) } else { (s, d) };
        let mut w = gen_weight(r, profile);
        if shape == 3 && k % 2 == 1 && r.chance(3, 4) {
            w = edges[k - 1].w.clone();
        }
        // parallel edge with another weight now and then
        edges.push(ESpec { s, d, w });
        if r.chance(1, 12) && edges.len() < 25 {
            let w2 = gen_weight(r, profile);
            edges.push(ESpec { s, d, w: w2 });
        }
    }
    edges.truncate(25);
    let mut del_edges = vec![];
    let mut del_nodes = vec![];
    if r.chance(1, 6) && !edges.is_empty() {
        for _ in 0..1 + r.below(3) {
            del_edges.push(r.below(edges.len() as u64) as usize);
        }
    }
    if r.chance(1, 7) && n > 0 {
        for _ in 0..1 + r.below(2) {
            del_nodes.push(r.below(n as u64) as usize);
        }
    }
    GSpec { n, edges, del_edges, del_nodes, via_db: r.chance(1, 4) }
}

fn tags_of(l: &Live, spec: &GSpec, profile: u64) -> (Vec<String>, bool) {
    let ig = IG::of(l, false);
    let mut t = vec![format!("profile{}", profile), format!("n{}", l.nodes.len()), format!("m{}", match l.edges.len() { 0 => "0".to_string(), 1..=3 => "1-3".into(), 4..=8 => "4-8".into(), 9..=15 => "9-15".into(), _ => "16-25".into() })];
    let selfloop = l.edges.iter().any(|e| e.s == e.d);
    let mut pairs = BTreeSet::new();
    let mut parallel = false;
    for e in &l.edges {
        if !pairs.insert((e.s, e.d)) {
            parallel = true;
        }
    }
    let cyclic = ig.edges.iter().any(|e| ig.reach(e.1).contains(&e.0));
    let disconnected = ig.ucomp_without(None, None) > 1;
    let isolated = l.nodes.iter().any(|v| !l.edges.iter().any(|e| e.s == *v || e.d == *v));
    let zero = l.edges.iter().any(|e| e.raw.eff() == 0);
    let neg = l.edges.iter().any(|e| e.raw.eff() < 0);
    let missing = l.edges.iter().any(|e| matches!(e.raw, Raw::Missing | Raw::Str));
    let unreachable = l.nodes.first().map_or(false, |s| ig.reach(*s).len() < l.nodes.len());
    for (b, name) in [(selfloop, "self-loop"), (parallel, "parallel"), (cyclic, "cycle"), (disconnected, "disconnected"), (isolated, "isolated"), (zero, "zero-weight"), (neg, "negative"), (missing, "missing-weight"), (unreachable, "unreachable"), (!spec.del_edges.is_empty(), "deleted-edges"), (!spec.del_nodes.is_empty(), "deleted-nodes"), (spec.via_db, "via-GrafeoDB")] {
        if b {
            t.push(name.into());
        }
    }
    let nt = l.nodes.len() >= 3 && l.edges.len() >= 3 && (cyclic || parallel || unreachable || zero);
    (t, nt)
}

fn run_graph(out: &mut Out, spec: &GSpec, profile: u64, rng: &mut Rng, thorough: bool) {
    let (h, l) = build(spec);
    let st = h.store();
    let (tags, nt) = tags_of(&l, spec, profile);
    let mut cx = Ctx { out, spec: spec.show(), tags, nt };
    // the graph the algorithms see is the graph that was built (C19 is about the algorithms, not the store)
    let view = store_view_matches(st, &l);
    cx.brute("store-view", String::new(), view, "node_ids()/edges_from() do not show the graph that was built through the API".into(), String::new(), None);
    if !view {
        return;
    }
    let neg = l.edges.iter().any(|e| e.raw.eff() < 0);
    let n = l.nodes.len();
    // sources / pairs
    let mut sources: Vec<u64> = if n <= 4 || thorough { l.nodes.clone() } else { (0..2).map(|_| *rng.pick(&l.nodes)).collect() };
    sources.dedup();
    let mut pairs: Vec<(u64, u64)> = vec![];
    if n > 0 {
        if n <= 3 {
            for &a in &l.nodes {
                for &b in &l.nodes {
                    pairs.push((a, b));
                }
            }
        } else {
            // first -> last node always (hand-written graphs put their source and sink there), then random pairs
            pairs.push((l.nodes[0], l.nodes[n - 1]));
            for _ in 0..(if thorough { 3 } else { 1 }) {
                pairs.push((*rng.pick(&l.nodes), *rng.pick(&l.nodes)));
            }
        }
    }
    // absent source: every algorithm must return the empty answer
    {
        let ghost = 1_000_000u64;
        let ok = alg::dijkstra(st, nid(ghost), Some(WPROP)).distances.is_empty()
            && alg::bellman_ford(st, nid(ghost), Some(WPROP)).distances.is_empty()
            && alg::bfs(st, nid(ghost)).is_empty()
            && alg::dfs(st, nid(ghost)).is_empty()
            && alg::bfs_layers(st, nid(ghost)).is_empty()
            && alg::dijkstra_path(st, nid(ghost), nid(ghost), None).is_none()
            && alg::astar(st, nid(ghost), nid(ghost), None, |_| 0.0).is_none()
            && alg::max_flow(st, nid(ghost), nid(ghost), None).is_none()
            && alg::prim(st, None, Some(nid(ghost))).edges.is_empty();
        cx.brute("absent-source", String::new(), ok, "non-empty answer for a node that does not exist".into(), String::new(), None);
    }
    // weighted run
    run_sssp_family(&mut cx, st, &l, false, &sources, &pairs, !neg, rng);
    run_floyd(&mut cx, st, &l, false, !neg);
    // unit-weight run (weight_property = None) on a subset
    if rng.chance(1, 2) {
        let s1: Vec<u64> = sources.iter().copied().take(1).collect();
        let p1: Vec<(u64, u64)> = pairs.iter().copied().take(1).collect();
        run_sssp_family(&mut cx, st, &l, true, &s1, &p1, true, rng);
        if rng.chance(1, 2) {
            run_floyd(&mut cx, st, &l, true, true);
        }
    }
    run_traversal(&mut cx, st, &l, &sources);
    run_components(&mut cx, st, &l);
    let mut starts: Vec<Option<u64>> = vec![None];
    if n > 0 {
        starts.push(Some(*rng.pick(&l.nodes)));
        if n <= 3 {
            starts = std::iter::once(None).chain(l.nodes.iter().map(|v| Some(*v))).collect();
        }
    }
    run_mst(&mut cx, st, &l, false, &starts);
    if rng.chance(1, 3) {
        run_mst(&mut cx, st, &l, true, &starts[..1]);
    }
    if !neg {
        let fp: Vec<(u64, u64)> = pairs.iter().copied().take(if n <= 3 { 9 } else { 2 }).collect();
        run_flow(&mut cx, st, &l, false, &fp);
        if rng.chance(1, 3) {
            run_flow(&mut cx, st, &l, true, &fp[..fp.len().min(1)]);
        }
    }
    run_structure(&mut cx, st, &l);
    run_pagerank(&mut cx, st, &l, rng);
    run_pagerank_exact(&mut cx, st, &l, rng);
    if let Some(arc) = h.arc() {
        let mut op_pairs: Vec<(u64, u64)> = pairs.iter().copied().take(3).collect();
        op_pairs.dedup();
        run_operator(&mut cx, arc, &l, &op_pairs);
    }
}

/// hand-written graphs: boundary shapes and the witnesses of the listed findings
const CORPUS: &[(&str, u64)] = &[
    ("n=0;e=;de=;dn=;db=0", 0),
    ("n=1;e=;de=;dn=;db=0", 0),
    ("n=1;e=0>0:0;de=;dn=;db=0", 0),
    ("n=2;e=0>1:3;de=;dn=;db=0", 0),
    ("n=2;e=0>1:5,0>1:2;de=;dn=;db=0", 0),
    ("n=2;e=0>1:5,1>0:2;de=;dn=;db=0", 0),
    ("n=2;e=0>1:1;de=;dn=;db=1", 0),
    ("n=3;e=0>1:1,1>2:1,2>0:1;de=;dn=;db=0", 0),
    ("n=3;e=0>1:1,1>0:1,1>2:1,2>1:1,0>2:1,2>0:1;de=;dn=;db=1", 0),
    ("n=3;e=0>1:0,1>0:0,1>2:2;de=;dn=;db=0", 0),
    ("n=3;e=0>1:2,1>2:-3,2>0:2,0>2:4;de=;dn=;db=0", 1),
    ("n=3;e=0>1:1,1>2:-3,2>1:1;de=;dn=;db=0", 1),
    ("n=4;e=1>2:-1,2>1:-1,0>3:1;de=;dn=;db=0", 1),
    ("n=4;e=0>1:4,0>2:1,2>1:2,1>3:1,2>3:5;de=;dn=;db=1", 0),
    ("n=4;e=0>1:1,1>2:1,2>3:1,3>1:1,0>0:1;de=;dn=;db=1", 0),
    ("n=4;e=0>1:1,1>2:1,2>0:1,2>3:1;de=2;dn=;db=1", 0),
    ("n=5;e=0>1:1,1>2:1,2>0:1,2>3:1,3>4:2;de=;dn=3;db=1", 0),
    ("n=4;e=0>1:_,1>2:s,2>3:f2,0>3:9;de=;dn=;db=0", 3),
    ("n=4;e=0>1:3,0>2:3,1>3:2,2>3:2,1>2:1;de=;dn=;db=1", 0),
    ("n=6;e=0>1:1,1>2:1,2>0:1,3>4:1,4>5:1,5>3:1,2>3:1;de=;dn=;db=0", 0),
    // reverse chains: Bellman-Ford needs all n-1 rounds (edges are enumerated by ascending source id)
    ("n=5;e=4>3:1,3>2:1,2>1:1,1>0:1;de=;dn=;db=0", 0),
    ("n=5;e=4>3:-1,3>2:2,2>1:-1,1>0:0;de=;dn=;db=0", 1),
    // a negative cycle that only the last round reaches
    ("n=5;e=4>3:1,3>2:1,2>1:1,1>0:1,0>1:-2;de=;dn=;db=0", 1),
    // max flow that has to undo flow along 1>2 (residual back edge)
    ("n=4;e=0>1:1,0>2:1,1>2:1,1>3:1,2>3:1;de=;dn=;db=0", 0),
    ("n=4;e=0>1:2,1>0:1,1>2:2,2>1:3,2>3:2,0>3:_;de=;dn=;db=1", 0),
    // Edmonds-Karp must cancel flow: the only shortest augmenting path 0-1-2-7 blocks both 0-3-4-2-7 and 0-1-5-6-7;
    // the second augmentation runs backwards through 2>1 (max flow 2; without the reverse residual update: 1)
    ("n=8;e=0>1:1,1>2:1,2>7:1,0>3:1,3>4:1,4>2:1,1>5:1,5>6:1,6>7:1;de=;dn=;db=0", 0),
    // union-find by rank: a rank-1 tree {4,5} joins a rank-2 tree {0,1,2,3} through its non-root member 5,
    // then 4>1 must be recognised as closing a cycle, and 6>0 must still be accepted
    ("n=7;e=0>1:1,2>3:1,1>3:2,4>5:3,5>0:4,4>1:5,6>0:6;de=;dn=;db=0", 0),
    ("n=7;e=1>0:1,3>2:1,3>1:2,5>4:3,0>5:4,1>4:5,0>6:6;de=;dn=;db=1", 0),
    // witnesses of the findings K2..K5
    ("n=2;e=1>0:1;de=;dn=;db=0", 0),
    ("n=2;e=0>0:1,1>0:4;de=;dn=;db=0", 0),
    ("n=4;e=0>1:1,1>0:1,1>2:1,2>1:1,0>2:1,2>0:1,2>3:1,3>2:1;de=;dn=;db=0", 0),
    // PageRank with exact binary64 arithmetic: dangling node, self-loop, parallel edges (n = 4)
    ("n=4;e=0>1:_,0>2:_,1>2:_,2>0:_,2>2:_;de=;dn=;db=0", 2),
    ("n=2;e=0>1:_;de=;dn=;db=0", 2),
    // two triangles sharing a node (articulation point that is no bridge end), plus a pendant edge
    ("n=6;e=0>1:1,1>2:1,2>0:1,2>3:1,3>4:1,4>2:1,4>5:1;de=;dn=;db=0", 0),
    // K4 with a doubled edge and a self-loop: core numbers 3 (the self-loop node 4), 4 triangles
    ("n=4;e=0>1:1,0>2:1,0>3:1,1>2:1,1>3:1,2>3:1,3>2:1,0>0:1;de=;dn=;db=0", 0),
    // two bridges, an articulation chain, a triangle
    ("n=6;e=0>1:1,1>2:1,2>0:1,2>3:1,3>4:1,4>5:1,5>4:1;de=;dn=;db=0", 0),
];

fn main() {
    quiet_panics();
    let a = parse_args();
    let mut out = Out::create(a.out.as_deref());
    let mut rng = Rng::new(a.seed);
    let thorough = a.tier == "thorough";
    // --graph "<spec>" [--profile p]: run one graph (replay)
    let mut single: Option<(GSpec, u64)> = None;
    let mut i = 0;
    while i < a.rest.len() {
        if a.rest[i] == "--graph" {
            single = Some((GSpec::parse(&a.rest[i + 1]), 0));
            i += 2;
        } else {
            i += 1;
        }
    }
    if let Some((g, p)) = single {
        run_graph(&mut out, &g, p, &mut rng, true);
        out.finish();
        return;
    }
    for (s, p) in CORPUS {
        let g = GSpec::parse(s);
        run_graph(&mut out, &g, *p, &mut rng, true);
    }
    // graphs on which PageRank's float arithmetic is exact (model = implementation, bit for bit)
    for _ in 0..(a.cases / 3).max(8) {
        let g = gen_pr_spec(&mut rng);
        let mut r2 = rng.fork();
        let res = catch(std::panic::AssertUnwindSafe(|| {
            let (h, l) = build(&g);
            let st = h.store();
            let (mut tags, nt) = tags_of(&l, &g, 2);
            tags.push("pagerank-exact".into());
            let mut cx = Ctx { out: &mut out, spec: g.show(), tags, nt };
            if store_view_matches(st, &l) {
                run_pagerank_exact(&mut cx, st, &l, &mut r2);
                run_pagerank(&mut cx, st, &l, &mut r2);
            }
        }));
        if let Err(m) = res {
            out.emit(&Case { kind: "panic".into(), input: g.show(), oracle: Oracle::Fail, msg: format!("panic: {}", m), nontrivial: true, ..Default::default() });
        }
    }
    for k in 0..a.cases {
        let profile = match k % 8 {
            0 | 1 | 2 => 0,
            3 | 4 => 1,
            5 => 2,
            _ => 3,
        };
        let g = gen_spec(&mut rng, profile);
        let mut r2 = rng.fork();
        let res = catch(std::panic::AssertUnwindSafe(|| run_graph(&mut out, &g, profile, &mut r2, thorough)));
        if let Err(m) = res {
            out.emit(&Case { kind: "panic".into(), input: g.show(), oracle: Oracle::Fail, msg: format!("panic: {}", m), nontrivial: true, ..Default::default() });
        }
    }
    out.finish();
}
