//! C05 / C06 / C07 — WAL, recovery, snapshots.  `--prop C05|C06|C07` selects the case streams.
//! Every case carries the Coq term comparing the implementation's observations with the model
//! (GV.Wal.Run) and the property oracle evaluated on the implementation itself.
use grafeo_adapters::storage::wal::{DurabilityMode as WMode, WalConfig, WalManager, WalRecord, WalRecovery};
use grafeo_common::types::{EdgeId, EpochId, NodeId, PropertyKey, Timestamp, TxId, Value};
use grafeo_engine::config::DurabilityMode as EMode;
use grafeo_engine::{Config, GrafeoDB};
use gv_harness::*;
use std::collections::BTreeMap;
use std::path::{Path, PathBuf};

// ------------------------------------------------------------------------------------------
// fsync observation: this binary defines `fsync` itself, so every `File::sync_all` of the linked
// crates lands here; the size the file has at that moment is recorded per path and the real
// system call is made.  (No hook in /repo is needed; sync_data/fdatasync is not used by the WAL.)
// ------------------------------------------------------------------------------------------
static FSYNCED: std::sync::Mutex<Option<std::collections::HashMap<PathBuf, u64>>> = std::sync::Mutex::new(None);
static FSYNC_CALLS: std::sync::atomic::AtomicU64 = std::sync::atomic::AtomicU64::new(0);
unsafe extern "C" {
    fn syscall(num: std::os::raw::c_long, ...) -> std::os::raw::c_long;
}
#[cfg(target_arch = "x86_64")]
const SYS_FSYNC: std::os::raw::c_long = 74;
#[cfg(target_arch = "aarch64")]
const SYS_FSYNC: std::os::raw::c_long = 82;
#[unsafe(no_mangle)]
pub extern "C" fn fsync(fd: std::os::raw::c_int) -> std::os::raw::c_int {
    FSYNC_CALLS.fetch_add(1, std::sync::atomic::Ordering::SeqCst);
    if let Ok(p) = std::fs::read_link(format!("/proc/self/fd/{}", fd)) {
        if let Ok(m) = std::fs::metadata(&p) {
            if let Ok(mut g) = FSYNCED.lock() {
                g.get_or_insert_with(Default::default).insert(p, m.len());
            }
        }
    }
    let r = unsafe { syscall(SYS_FSYNC, fd as std::os::raw::c_long) };
    if r < 0 { -1 } else { 0 }
}
/// size of the file when it was last fsynced (0 = never)
fn fsynced_size(p: &Path) -> u64 {
    let key = std::fs::canonicalize(p).unwrap_or_else(|_| p.to_path_buf());
    FSYNCED.lock().ok().and_then(|g| g.as_ref().and_then(|m| m.get(&key).copied())).unwrap_or(0)
}
fn log_synced(wal: &Path) -> Vec<(u64, u64)> {
    log_lens(wal).into_iter().map(|(s, _)| (s, fsynced_size(&wal.join(format!("wal_{:08}.log", s))))).collect()
}

// ------------------------------------------------------------------------------------------
// Coq term printers
// ------------------------------------------------------------------------------------------
fn zs(v: u64) -> String {
    format!("{}", v)
}
/// a byte string as `(pk len [w0; w1; ..])`: seven bytes per 63-bit literal, little endian
/// (a plain `list Z` literal costs Coq's elaborator ~0.6 ms per byte)
fn bts(b: &[u8]) -> String {
    let mut s = format!("(pk {} [", b.len());
    for (i, ch) in b.chunks(7).enumerate() {
        let mut v: u64 = 0;
        for (j, x) in ch.iter().enumerate() {
            v |= (*x as u64) << (8 * j);
        }
        if i > 0 {
            s.push_str("; ");
        }
        s.push_str(&v.to_string());
    }
    s.push_str("]%uint63)");
    s
}
fn strs(s: &str) -> String {
    bts(s.as_bytes())
}
fn val_bytes(v: &Value) -> Vec<u8> {
    bincode::serde::encode_to_vec(v, bincode::config::standard()).expect("encode value")
}
fn val_term(v: &Value) -> String {
    bts(&val_bytes(v))
}
fn props_term(ps: &[(String, Value)]) -> String {
    coq::list(ps.iter().map(|(k, v)| format!("({}, {})", strs(k), val_term(v))))
}
fn labels_term(ls: &[String]) -> String {
    coq::list(ls.iter().map(|l| strs(l)))
}
fn rec_term(r: &WalRecord) -> String {
    match r {
        WalRecord::CreateNode { id, labels } => format!("(CreateNode {} {})", zs(id.as_u64()), labels_term(labels)),
        WalRecord::DeleteNode { id } => format!("(DeleteNode {})", zs(id.as_u64())),
        WalRecord::CreateEdge { id, src, dst, edge_type } => {
            format!("(CreateEdge {} {} {} {})", zs(id.as_u64()), zs(src.as_u64()), zs(dst.as_u64()), strs(edge_type))
        }
        WalRecord::DeleteEdge { id } => format!("(DeleteEdge {})", zs(id.as_u64())),
        WalRecord::SetNodeProperty { id, key, value } => {
            format!("(SetNodeProperty {} {} {})", zs(id.as_u64()), strs(key), val_term(value))
        }
        WalRecord::SetEdgeProperty { id, key, value } => {
            format!("(SetEdgeProperty {} {} {})", zs(id.as_u64()), strs(key), val_term(value))
        }
        WalRecord::AddNodeLabel { id, label } => format!("(AddNodeLabel {} {})", zs(id.as_u64()), strs(label)),
        WalRecord::RemoveNodeLabel { id, label } => format!("(RemoveNodeLabel {} {})", zs(id.as_u64()), strs(label)),
        WalRecord::TxCommit { tx_id } => format!("(TxCommit {})", zs(tx_id.as_u64())),
        WalRecord::TxAbort { tx_id } => format!("(TxAbort {})", zs(tx_id.as_u64())),
        WalRecord::Checkpoint { tx_id } => format!("(Checkpoint {})", zs(tx_id.as_u64())),
    }
}
fn rec_short(r: &WalRecord) -> String {
    match r {
        WalRecord::CreateNode { id, labels } => format!("CN{}{:?}", id.as_u64(), labels),
        WalRecord::DeleteNode { id } => format!("DN{}", id.as_u64()),
        WalRecord::CreateEdge { id, src, dst, edge_type } => format!("CE{}({}->{}:{})", id.as_u64(), src.as_u64(), dst.as_u64(), edge_type),
        WalRecord::DeleteEdge { id } => format!("DE{}", id.as_u64()),
        WalRecord::SetNodeProperty { id, key, .. } => format!("SN{}.{}", id.as_u64(), key),
        WalRecord::SetEdgeProperty { id, key, .. } => format!("SE{}.{}", id.as_u64(), key),
        WalRecord::AddNodeLabel { id, label } => format!("AL{}:{}", id.as_u64(), label),
        WalRecord::RemoveNodeLabel { id, label } => format!("RL{}:{}", id.as_u64(), label),
        WalRecord::TxCommit { tx_id } => format!("TC{}", tx_id.as_u64()),
        WalRecord::TxAbort { tx_id } => format!("TA{}", tx_id.as_u64()),
        WalRecord::Checkpoint { tx_id } => format!("CP{}", tx_id.as_u64()),
    }
}
fn enc_rec(r: &WalRecord) -> Vec<u8> {
    bincode::serde::encode_to_vec(r, bincode::config::standard()).expect("encode record")
}
fn dec_rec(b: &[u8]) -> Option<WalRecord> {
    bincode::serde::decode_from_slice::<WalRecord, _>(b, bincode::config::standard()).ok().map(|x| x.0)
}
fn is_data(r: &WalRecord) -> bool {
    !matches!(r, WalRecord::TxCommit { .. } | WalRecord::TxAbort { .. } | WalRecord::Checkpoint { .. })
}

/// The codec tables handed to the model: every value is computed with the real functions.
#[derive(Default, Clone)]
struct Tabs {
    enc: Vec<(String, Vec<u8>)>,
    dec: Vec<(Vec<u8>, String)>,
    crc: Vec<Vec<u8>>,
}
impl Tabs {
    fn add_rec(&mut self, r: &WalRecord) {
        let t = rec_term(r);
        if !self.enc.iter().any(|e| e.0 == t) {
            self.enc.push((t, enc_rec(r)));
        }
    }
    fn add_crc(&mut self, b: &[u8]) {
        if !self.enc.iter().any(|e| e.1 == b) && !self.crc.iter().any(|e| e == b) {
            self.crc.push(b.to_vec());
        }
    }
    fn add_dec(&mut self, b: &[u8], r: &WalRecord) {
        let t = rec_term(r);
        if self.enc.iter().any(|e| e.1 == b && e.0 == t) {
            return;
        }
        if !self.dec.iter().any(|e| e.0 == b) {
            self.dec.push((b.to_vec(), t));
        }
    }
    /// walks a file exactly as far as a reader can get, recording the checksum of every
    /// candidate payload and the decoding of every payload whose checksum matches
    fn walk(&mut self, bytes: &[u8]) {
        let mut pos = 0usize;
        loop {
            if bytes.len() - pos < 4 {
                return;
            }
            let len = u32::from_le_bytes(bytes[pos..pos + 4].try_into().unwrap()) as usize;
            if bytes.len() - pos - 4 < len {
                return;
            }
            let data = &bytes[pos + 4..pos + 4 + len];
            self.add_crc(data);
            if bytes.len() - pos - 4 - len < 4 {
                return;
            }
            let stored = u32::from_le_bytes(bytes[pos + 4 + len..pos + 8 + len].try_into().unwrap());
            if stored != crc32fast::hash(data) {
                return;
            }
            match dec_rec(data) {
                Some(r) => self.add_dec(data, &r),
                None => return,
            }
            pos += 8 + len;
        }
    }
    /// every entry also goes into the run-wide accumulator that is compared with the concrete
    /// codec model (Wal/Codec.v) at the end of the run
    fn term(&self) -> String {
        CODEC_ACC.with(|a| {
            let mut a = a.borrow_mut();
            for (t, b) in &self.enc {
                a.enc.insert((t.clone(), b.clone()));
            }
            for (b, t) in &self.dec {
                a.dec.insert((b.clone(), t.clone()));
            }
            for b in &self.crc {
                a.crc.insert(b.clone());
            }
        });
        format!(
            "(mkTabs {} {} {})",
            coq::list(self.enc.iter().map(|(t, b)| format!("({}, {}, {})", t, bts(b), crc32fast::hash(b)))),
            coq::list(self.dec.iter().map(|(b, t)| format!("({}, {})", bts(b), t))),
            coq::list(self.crc.iter().map(|b| format!("({}, {})", bts(b), crc32fast::hash(b))))
        )
    }
}

#[derive(Default)]
struct CodecAcc {
    enc: std::collections::BTreeSet<(String, Vec<u8>)>,
    dec: std::collections::BTreeSet<(Vec<u8>, String)>,
    crc: std::collections::BTreeSet<Vec<u8>>,
}
thread_local! {
    static CODEC_ACC: std::cell::RefCell<CodecAcc> = std::cell::RefCell::new(CodecAcc::default());
}
/// the accumulated table entries against the concrete codecs, a few dozen per case
fn emit_codec_tabs(out: &mut Out) {
    let acc = CODEC_ACC.with(|a| std::mem::take(&mut *a.borrow_mut()));
    let enc: Vec<(String, Vec<u8>)> = acc.enc.into_iter().collect();
    let dec: Vec<(Vec<u8>, String)> = acc.dec.into_iter().collect();
    let crc: Vec<Vec<u8>> = acc.crc.into_iter().collect();
    let mut emit = |t: Tabs, what: &str| {
        let n = t.enc.len() + t.dec.len() + t.crc.len();
        let tt = format!(
            "(mkTabs {} {} {})",
            coq::list(t.enc.iter().map(|(t, b)| format!("({}, {}, {})", t, bts(b), crc32fast::hash(b)))),
            coq::list(t.dec.iter().map(|(b, t)| format!("({}, {})", bts(b), t))),
            coq::list(t.crc.iter().map(|b| format!("({}, {})", bts(b), crc32fast::hash(b))))
        );
        out.emit(&Case {
            kind: "codec_tabs".into(),
            input: format!("{} {} table entries of this run (real bincode bytes / decodings / crc32fast values)", n, what),
            coq: Some(format!("chk_tabs {}", tt)),
            imp: format!("first: {}", t.enc.first().map(|e| format!("{} -> {:02x?}", e.0, e.1)).or_else(|| t.crc.first().map(|b| format!("crc32({:02x?}) = {}", b, crc32fast::hash(b)))).unwrap_or_default()),
            oracle: Oracle::Na,
            nontrivial: true,
            tags: vec![format!("codec:{}", what)],
            ..Default::default()
        });
    };
    for ch in enc.chunks(40) {
        emit(Tabs { enc: ch.to_vec(), ..Default::default() }, "encode");
    }
    for ch in dec.chunks(40) {
        emit(Tabs { dec: ch.to_vec(), ..Default::default() }, "decode");
    }
    for ch in crc.chunks(60) {
        emit(Tabs { crc: ch.to_vec(), ..Default::default() }, "crc");
    }
}
/// damaged record payloads straight into the decoder: real `decode_from_slice` against `dec_record_slice`
fn cases_codec_rec(r: &mut Rng, out: &mut Out, n: usize) {
    for i in 0..n {
        let mut tags = vec![];
        let rec = gen_record(r, &mut tags);
        let good = enc_rec(&rec);
        let (bytes, what): (Vec<u8>, &str) = match i % 8 {
            0 => (good.clone(), "intact"),
            1 => (good[..r.below(good.len() as u64 + 1) as usize].to_vec(), "truncated"),
            2 | 3 => (flip(&good, r.below(good.len() as u64) as usize, r.below(8) as u32), "bitflip"),
            4 => {
                let mut v = good.clone();
                v.extend((0..1 + r.below(3)).map(|_| r.next() as u8));
                (v, "trailing")
            }
            5 => {
                let mut v = good.clone();
                let p = r.below(v.len() as u64) as usize;
                v[p] = *r.pick(&[0u8, 1, 250, 251, 252, 253, 254, 255, 0x80, 0xc0]);
                (v, "byte-set")
            }
            6 => {
                // a non-minimal integer form in front (accepted by bincode)
                let mut v = vec![251u8, good[0], 0];
                v.extend(&good[1..]);
                (v, "non-minimal-tag")
            }
            _ => ((0..r.below(12)).map(|_| if r.chance(1, 2) { r.below(12) as u8 } else { r.next() as u8 }).collect(), "random"),
        };
        let d = dec_rec(&bytes);
        out.emit(&Case {
            kind: "codec_rec".into(),
            input: format!("{} payload of {} = {:02x?}", what, rec_short(&rec), bytes),
            coq: Some(format!("chk_dec {} {}", bts(&bytes), match &d { Some(x) => format!("(Some {})", rec_term(x)), None => "None".into() })),
            show: Some(format!("show_dec {}", bts(&bytes))),
            imp: match &d { Some(x) => rec_short(x), None => "DecodeError".into() },
            oracle: Oracle::Na,
            nontrivial: true,
            tags: vec![format!("payload:{}", what), if d.is_some() { "decodes".into() } else { "rejected".to_string() }],
            ..Default::default()
        });
    }
}

/// frame boundaries of a byte string consisting of intact frames (stops at the first defect)
fn frame_ends(bytes: &[u8]) -> Vec<usize> {
    let mut ends = vec![];
    let mut pos = 0usize;
    loop {
        if bytes.len() - pos < 4 {
            break;
        }
        let len = u32::from_le_bytes(bytes[pos..pos + 4].try_into().unwrap()) as usize;
        if bytes.len() - pos - 4 < len || bytes.len() - pos - 4 - len < 4 {
            break;
        }
        let data = &bytes[pos + 4..pos + 4 + len];
        let stored = u32::from_le_bytes(bytes[pos + 4 + len..pos + 8 + len].try_into().unwrap());
        if stored != crc32fast::hash(data) || dec_rec(data).is_none() {
            break;
        }
        pos += 8 + len;
        ends.push(pos);
    }
    ends
}

/// the commit-marker discipline, used by the oracle only: what a reader of the record
/// sequence `rs` may return
fn committed(rs: &[WalRecord]) -> Vec<String> {
    let mut pend: Vec<String> = vec![];
    let mut comm: Vec<String> = vec![];
    for r in rs {
        match r {
            WalRecord::TxCommit { .. } => {
                comm.append(&mut pend);
                comm.push(rec_term(r));
            }
            WalRecord::TxAbort { .. } => pend.clear(),
            WalRecord::Checkpoint { .. } => {
                pend.clear();
                comm.push(rec_term(r));
            }
            _ => pend.push(rec_term(r)),
        }
    }
    comm
}

// ------------------------------------------------------------------------------------------
// Generators
// ------------------------------------------------------------------------------------------
const LABELS: [&str; 6] = ["A", "B", "Person", "", "é", "L2"];
const KEYS: [&str; 5] = ["k", "name", "w", "", "ключ"];
const TYPES: [&str; 4] = ["R", "KNOWS", "", "t"];

fn gen_value(r: &mut Rng, depth: u32) -> (Value, &'static str) {
    let top = if depth >= 2 { 8 } else { 11 };
    match r.below(top) {
        0 => (Value::Null, "null"),
        1 => (Value::Bool(r.chance(1, 2)), "bool"),
        2 => {
            let v = match r.below(4) {
                0 => *r.pick(&[0i64, 1, -1, i64::MAX, i64::MIN, 250, 251, 65535, 65536, 1 << 32]),
                1 => r.range(-100, 100),
                _ => r.next() as i64,
            };
            (Value::Int64(v), "int")
        }
        3 => {
            let bits = match r.below(5) {
                0 => *r.pick(&[0x7ff8_0000_0000_0000u64, 0x7ff8_0000_0000_0001, 0xfff8_0000_dead_beef, 0x7ff0_0000_0000_0001]),
                1 => *r.pick(&[0u64, 0x8000_0000_0000_0000, 0x7ff0_0000_0000_0000, 0xfff0_0000_0000_0000, 1]),
                2 => (r.range(-50, 50) as f64 * 0.5).to_bits(),
                _ => r.next(),
            };
            (Value::Float64(f64::from_bits(bits)), if f64::from_bits(bits).is_nan() { "nan" } else { "float" })
        }
        4 => {
            let s = match r.below(5) {
                0 => String::new(),
                1 => "é∑".to_string(),
                2 => "x".repeat(*r.pick(&[1usize, 7, 40, 125, 130])),
                _ => format!("s{}", r.below(1000)),
            };
            let tag = if s.is_empty() { "empty-string" } else { "string" };
            (Value::String(s.as_str().into()), tag)
        }
        5 => {
            let n = r.below(5) as usize;
            let b: Vec<u8> = (0..n).map(|_| r.next() as u8).collect();
            (Value::Bytes(b.into()), "bytes")
        }
        6 => (Value::Timestamp(Timestamp::from_micros(*r.pick(&[0i64, 1, -1, i64::MAX, i64::MIN, 1_700_000_000_000_000]))), "timestamp"),
        7 => {
            let n = *r.pick(&[0usize, 0, 1, 3]);
            let v: Vec<f32> = (0..n)
                .map(|_| match r.below(3) {
                    0 => f32::from_bits(0x7fc0_0001),
                    1 => r.range(-4, 4) as f32 * 0.25,
                    _ => f32::from_bits(r.next() as u32),
                })
                .collect();
            (Value::Vector(v.into()), if n == 0 { "empty-vector" } else { "vector" })
        }
        8 | 9 => {
            let n = r.below(4) as usize;
            let v: Vec<Value> = (0..n).map(|_| gen_value(r, depth + 1).0).collect();
            (Value::List(v.into()), if depth > 0 { "nested" } else { "list" })
        }
        _ => {
            let n = r.below(3) as usize;
            let mut m = BTreeMap::new();
            for _ in 0..n {
                m.insert(PropertyKey::from(*r.pick(&KEYS)), gen_value(r, depth + 1).0);
            }
            (Value::Map(std::sync::Arc::new(m)), if depth > 0 { "nested" } else { "map" })
        }
    }
}
fn gen_labels(r: &mut Rng) -> Vec<String> {
    let n = *r.pick(&[0usize, 1, 1, 1, 2, 3]);
    (0..n).map(|_| r.pick(&LABELS).to_string()).collect()
}
fn gen_props(r: &mut Rng, tags: &mut Vec<String>) -> Vec<(String, Value)> {
    let n = *r.pick(&[0usize, 1, 1, 2, 3]);
    (0..n)
        .map(|_| {
            let (v, t) = gen_value(r, 0);
            tags.push(format!("val:{}", t));
            (r.pick(&KEYS).to_string(), v)
        })
        .collect()
}
fn gen_record(r: &mut Rng, tags: &mut Vec<String>) -> WalRecord {
    let id = r.below(6);
    match r.below(20) {
        0..=4 => WalRecord::CreateNode { id: NodeId::new(id), labels: gen_labels(r) },
        5 => WalRecord::DeleteNode { id: NodeId::new(id) },
        6 | 7 => WalRecord::CreateEdge { id: EdgeId::new(id), src: NodeId::new(r.below(6)), dst: NodeId::new(r.below(6)), edge_type: r.pick(&TYPES).to_string() },
        8 => WalRecord::DeleteEdge { id: EdgeId::new(id) },
        9..=11 => {
            let (v, t) = gen_value(r, 0);
            tags.push(format!("val:{}", t));
            WalRecord::SetNodeProperty { id: NodeId::new(id), key: r.pick(&KEYS).to_string(), value: v }
        }
        12 => {
            let (v, t) = gen_value(r, 0);
            tags.push(format!("val:{}", t));
            WalRecord::SetEdgeProperty { id: EdgeId::new(id), key: r.pick(&KEYS).to_string(), value: v }
        }
        13 => WalRecord::AddNodeLabel { id: NodeId::new(id), label: r.pick(&LABELS).to_string() },
        14 => WalRecord::RemoveNodeLabel { id: NodeId::new(id), label: r.pick(&LABELS).to_string() },
        15..=17 => WalRecord::TxCommit { tx_id: TxId::new(1 + r.below(5)) },
        18 => WalRecord::TxAbort { tx_id: TxId::new(1 + r.below(5)) },
        _ => WalRecord::Checkpoint { tx_id: TxId::new(1 + r.below(5)) },
    }
}

// ------------------------------------------------------------------------------------------
// Durability modes
// ------------------------------------------------------------------------------------------
#[derive(Clone, Copy, Debug)]
enum Mode {
    Sync,
    Batch { maxr: u64, delay0: bool },
    Adaptive,
    NoSync,
}
const NEVER_MS: u64 = 1_000_000_000;
impl Mode {
    fn random(r: &mut Rng) -> Mode {
        match r.below(6) {
            0 | 1 => Mode::Sync,
            2 => Mode::Batch { maxr: 1 + r.below(4), delay0: false },
            3 => Mode::Batch { maxr: 1000, delay0: r.chance(1, 2) },
            4 => Mode::Adaptive,
            _ => Mode::NoSync,
        }
    }
    fn wal(self) -> WMode {
        match self {
            Mode::Sync => WMode::Sync,
            Mode::Batch { maxr, delay0 } => WMode::Batch { max_delay_ms: if delay0 { 0 } else { NEVER_MS }, max_records: maxr },
            Mode::Adaptive => WMode::Adaptive { target_interval_ms: 100 },
            Mode::NoSync => WMode::NoSync,
        }
    }
    fn engine(self) -> EMode {
        match self {
            Mode::Sync => EMode::Sync,
            Mode::Batch { maxr, delay0 } => EMode::Batch { max_delay_ms: if delay0 { 0 } else { NEVER_MS }, max_records: maxr },
            Mode::Adaptive => EMode::Adaptive { target_interval_ms: 100 },
            Mode::NoSync => EMode::NoSync,
        }
    }
    fn term(self) -> String {
        match self {
            Mode::Sync => "MSync".into(),
            Mode::Batch { maxr, delay0 } => format!("(MBatch {} {})", maxr, coq::b(delay0)),
            Mode::Adaptive => "MAdaptive".into(),
            Mode::NoSync => "MNoSync".into(),
        }
    }
    fn tag(self) -> String {
        match self {
            Mode::Sync => "mode:sync".into(),
            Mode::Batch { delay0: true, .. } => "mode:batch-delay0".into(),
            Mode::Batch { .. } => "mode:batch-count".into(),
            Mode::Adaptive => "mode:adaptive".into(),
            Mode::NoSync => "mode:nosync".into(),
        }
    }
    /// does the mode flush (hand to the OS) every record?
    fn flushes(self) -> bool {
        matches!(self, Mode::Adaptive | Mode::NoSync)
    }
}
fn cfg_term(m: Mode, max: u64) -> String {
    format!("(mkCfg {} {})", m.term(), max)
}
const ENGINE_MAX: u64 = 64 * 1024 * 1024;

// ------------------------------------------------------------------------------------------
// Directories
// ------------------------------------------------------------------------------------------
struct Scratch {
    root: PathBuf,
    n: u64,
}
impl Scratch {
    fn new(prop: &str) -> Scratch {
        let base = std::env::var("GV_SCRATCH").map(PathBuf::from).unwrap_or_else(|_| std::env::current_dir().unwrap().join("scratch"));
        let root = base.join(prop.to_lowercase()).join(format!("p{}", std::process::id()));
        let _ = std::fs::remove_dir_all(&root);
        std::fs::create_dir_all(&root).expect("scratch dir");
        Scratch { root, n: 0 }
    }
    fn fresh(&mut self) -> PathBuf {
        self.n += 1;
        let p = self.root.join(format!("c{}", self.n));
        let _ = std::fs::remove_dir_all(&p);
        std::fs::create_dir_all(&p).expect("case dir");
        p
    }
    fn done(&self, p: &Path) {
        let _ = std::fs::remove_dir_all(p);
    }
}
impl Drop for Scratch {
    fn drop(&mut self) {
        let _ = std::fs::remove_dir_all(&self.root);
    }
}
fn seq_of(name: &str) -> Option<u64> {
    name.strip_prefix("wal_")?.strip_suffix(".log")?.parse().ok()
}
/// (seq, bytes) of every wal_*.log, ascending
fn read_logs(wal: &Path) -> Vec<(u64, Vec<u8>)> {
    let mut v = vec![];
    if let Ok(rd) = std::fs::read_dir(wal) {
        for e in rd.flatten() {
            if let Some(s) = e.file_name().to_str().and_then(seq_of) {
                v.push((s, std::fs::read(e.path()).unwrap_or_default()));
            }
        }
    }
    v.sort();
    v
}
fn log_lens(wal: &Path) -> Vec<(u64, u64)> {
    let mut v = vec![];
    if let Ok(rd) = std::fs::read_dir(wal) {
        for e in rd.flatten() {
            if let Some(s) = e.file_name().to_str().and_then(seq_of) {
                v.push((s, e.metadata().map(|m| m.len()).unwrap_or(0)));
            }
        }
    }
    v.sort();
    v
}
#[derive(serde::Deserialize, serde::Serialize)]
struct MetaMirror {
    epoch: EpochId,
    log_sequence: u64,
    timestamp_ms: u64,
    tx_id: TxId,
}
fn meta_term_of_bytes(b: Option<&[u8]>) -> String {
    match b {
        None => "MetaAbsent".into(),
        Some(b) => match bincode::serde::decode_from_slice::<MetaMirror, _>(b, bincode::config::standard()) {
            Ok((m, _)) => format!("(MetaOk (mkMeta {} {} {}))", m.epoch.as_u64(), m.log_sequence, m.tx_id.as_u64()),
            Err(_) => "MetaBad".into(),
        },
    }
}
fn meta_bytes_term(b: Option<&[u8]>) -> String {
    match b {
        None => "None".into(),
        Some(b) => format!("(Some {})", bts(b)),
    }
}
fn read_meta(wal: &Path) -> Option<Vec<u8>> {
    std::fs::read(wal.join("checkpoint.meta")).ok()
}
fn files_term(fs: &[(u64, Vec<u8>)]) -> String {
    coq::list(fs.iter().map(|(s, b)| format!("({}, {})", s, bts(b))))
}
fn zz_term(v: &[(u64, u64)]) -> String {
    coq::list(v.iter().map(|(a, b)| format!("({}, {})", a, b)))
}
fn copy_dir(src: &Path, dst: &Path) {
    std::fs::create_dir_all(dst).unwrap();
    for e in std::fs::read_dir(src).unwrap().flatten() {
        let p = e.path();
        let d = dst.join(e.file_name());
        if p.is_dir() {
            copy_dir(&p, &d);
        } else {
            std::fs::copy(&p, &d).unwrap();
        }
    }
}
fn write_image(root: &Path, files: &[(u64, Vec<u8>)], meta: Option<&[u8]>, tmp: bool) {
    let wal = root.join("wal");
    std::fs::create_dir_all(&wal).unwrap();
    for (s, b) in files {
        std::fs::write(wal.join(format!("wal_{:08}.log", s)), b).unwrap();
    }
    if let Some(m) = meta {
        std::fs::write(wal.join("checkpoint.meta"), m).unwrap();
    }
    if tmp {
        std::fs::write(wal.join("checkpoint.meta.tmp"), meta.unwrap_or(&[1, 2, 3])).unwrap();
    }
}

// ------------------------------------------------------------------------------------------
// Graph dumps
// ------------------------------------------------------------------------------------------
const ID_LIMIT: u64 = 40;
type DNode = (u64, Vec<String>, Vec<(String, Vec<u8>)>);
type DEdge = (u64, u64, u64, String, Vec<(String, Vec<u8>)>);
#[derive(Clone, PartialEq, Eq, Debug, Default)]
struct Dump {
    nodes: Vec<DNode>,
    edges: Vec<DEdge>,
}
thread_local! {
    /// ids beyond ID_LIMIT that a dump must look at as well (ids named by a decoded snapshot)
    static EXTRA_IDS: std::cell::RefCell<Vec<u64>> = const { std::cell::RefCell::new(Vec::new()) };
}
fn dump_at(db: &GrafeoDB, epoch: EpochId) -> Dump {
    let st = db.store();
    let mut d = Dump::default();
    let mut ids: Vec<u64> = (0..ID_LIMIT).collect();
    EXTRA_IDS.with(|e| ids.extend(e.borrow().iter().copied().filter(|i| *i >= ID_LIMIT)));
    ids.sort();
    ids.dedup();
    for i in ids {
        if let Some(n) = st.get_node_at_epoch(NodeId::new(i), epoch) {
            let mut ls: Vec<String> = n.labels.iter().map(|l| l.to_string()).collect();
            ls.sort();
            let ps: Vec<(String, Vec<u8>)> = n.properties.iter().map(|(k, v)| (k.as_str().to_string(), val_bytes(v))).collect();
            d.nodes.push((i, ls, ps));
        }
        if let Some(e) = st.get_edge_at_epoch(EdgeId::new(i), epoch) {
            let ps: Vec<(String, Vec<u8>)> = e.properties.iter().map(|(k, v)| (k.as_str().to_string(), val_bytes(v))).collect();
            d.edges.push((i, e.src.as_u64(), e.dst.as_u64(), e.edge_type.to_string(), ps));
        }
    }
    d
}
fn dump_cur(db: &GrafeoDB) -> Dump {
    dump_at(db, db.store().current_epoch())
}
fn dump_lat(db: &GrafeoDB) -> Dump {
    dump_at(db, EpochId::new(u64::MAX))
}
fn bprops_term(ps: &[(String, Vec<u8>)]) -> String {
    coq::list(ps.iter().map(|(k, v)| format!("({}, {})", strs(k), bts(v))))
}
fn dnode_term(n: &DNode) -> String {
    format!("({}, {}, {})", n.0, labels_term(&n.1), bprops_term(&n.2))
}
fn dedge_term(e: &DEdge) -> String {
    format!("({}, {}, {}, {}, {})", e.0, e.1, e.2, strs(&e.3), bprops_term(&e.4))
}
fn dump_term(d: &Dump) -> String {
    format!("({}, {})", coq::list(d.nodes.iter().map(dnode_term)), coq::list(d.edges.iter().map(dedge_term)))
}
fn dump_short(d: &Dump) -> String {
    format!(
        "N{:?} E{:?}",
        d.nodes.iter().map(|n| format!("{}{:?}+{}p", n.0, n.1, n.2.len())).collect::<Vec<_>>(),
        d.edges.iter().map(|e| format!("{}:{}->{}+{}p", e.0, e.1, e.2, e.4.len())).collect::<Vec<_>>()
    )
}

// ------------------------------------------------------------------------------------------
// (i) writer bytes: WalManager level
// ------------------------------------------------------------------------------------------
#[derive(Clone, Debug)]
enum WOp {
    Log(WalRecord),
    Sync,
    Rotate,
    Checkpoint(u64, u64),
    Reopen,
}
fn wop_term(o: &WOp) -> String {
    match o {
        WOp::Log(r) => format!("(WLog {})", rec_term(r)),
        WOp::Sync => "WSync".into(),
        WOp::Rotate => "WRotate".into(),
        WOp::Checkpoint(tx, ep) => format!("(WCheckpoint {} {})", tx, ep),
        WOp::Reopen => "WReopen".into(),
    }
}
fn wop_short(o: &WOp) -> String {
    match o {
        WOp::Log(r) => rec_short(r),
        WOp::Sync => "sync".into(),
        WOp::Rotate => "rotate".into(),
        WOp::Checkpoint(tx, ep) => format!("checkpoint({},{})", tx, ep),
        WOp::Reopen => "reopen".into(),
    }
}
struct WalRun {
    vis: Vec<Vec<(u64, u64)>>,
    syn: Vec<Vec<(u64, u64)>>,
    files: Vec<(u64, Vec<u8>)>,
    meta: Option<Vec<u8>>,
    tmp: bool,
    rec: Result<Vec<WalRecord>, String>,
    logged: Vec<WalRecord>,
}
fn run_wal(dir: &Path, mode: Mode, max: u64, ops: &[WOp]) -> WalRun {
    let wal_dir = dir.join("wal");
    let cfg = || WalConfig { durability: mode.wal(), max_log_size: max, compression: false };
    let mut wal = Some(WalManager::with_config(&wal_dir, cfg()).expect("open wal"));
    let mut vis = vec![];
    let mut syn = vec![];
    let mut logged = vec![];
    for o in ops {
        match o {
            WOp::Log(r) => {
                wal.as_ref().unwrap().log(r).expect("log");
                logged.push(r.clone());
            }
            WOp::Sync => wal.as_ref().unwrap().sync().expect("sync"),
            WOp::Rotate => wal.as_ref().unwrap().rotate().expect("rotate"),
            WOp::Checkpoint(tx, ep) => {
                wal.as_ref().unwrap().checkpoint(TxId::new(*tx), EpochId::new(*ep)).expect("checkpoint");
                logged.push(WalRecord::Checkpoint { tx_id: TxId::new(*tx) });
            }
            WOp::Reopen => {
                drop(wal.take());
                wal = Some(WalManager::with_config(&wal_dir, cfg()).expect("reopen wal"));
            }
        }
        vis.push(log_lens(&wal_dir));
        syn.push(log_synced(&wal_dir));
    }
    drop(wal.take());
    let files = read_logs(&wal_dir);
    let meta = read_meta(&wal_dir);
    let tmp = wal_dir.join("checkpoint.meta.tmp").exists();
    let rec = WalRecovery::new(&wal_dir).recover().map_err(|e| e.to_string());
    WalRun { vis, syn, files, meta, tmp, rec, logged }
}
fn rrecs_term(r: &Result<Vec<WalRecord>, String>) -> String {
    match r {
        Ok(v) => format!("(ROk {})", coq::list(v.iter().map(rec_term))),
        Err(_) => "RErr".into(),
    }
}
fn gen_wops(r: &mut Rng, tags: &mut Vec<String>, with_rotation: bool) -> Vec<WOp> {
    let n = 3 + r.below(18) as usize;
    let mut v = vec![];
    for _ in 0..n {
        let o = match r.below(40) {
            0..=29 => WOp::Log(gen_record(r, tags)),
            30..=32 => WOp::Sync,
            33 | 34 if with_rotation => WOp::Rotate,
            35 | 36 => WOp::Checkpoint(1 + r.below(5), *r.pick(&[0u64, 0, 1, 3, 100])),
            37 => WOp::Reopen,
            _ => WOp::Log(WalRecord::TxCommit { tx_id: TxId::new(1 + r.below(5)) }),
        };
        v.push(o);
    }
    v
}
fn case_wal(prop: &str, sc: &mut Scratch, mode: Mode, max: u64, ops: &[WOp], mut tags: Vec<String>, kind: &str) -> Case {
    let dir = sc.fresh();
    let run = run_wal(&dir, mode, max, ops);
    sc.done(&dir);
    let mut t = Tabs::default();
    for o in ops {
        match o {
            WOp::Log(r) => t.add_rec(r),
            WOp::Checkpoint(tx, _) => t.add_rec(&WalRecord::Checkpoint { tx_id: TxId::new(*tx) }),
            _ => {}
        }
    }
    for (_, b) in &run.files {
        t.walk(b);
    }
    let tt = t.term();
    let cfg = cfg_term(mode, max);
    let ops_t = coq::list(ops.iter().map(wop_term));
    let vis_t = coq::list(run.vis.iter().map(|v| zz_term(v)));
    let meta_t = meta_term_of_bytes(run.meta.as_deref());
    let coqt = format!(
        "chk_wal {} {} {} {} {} {} {} {} && chk_meta {} {} && chk_wal_syn {} {} {} {}",
        tt,
        cfg,
        ops_t,
        vis_t,
        files_term(&run.files),
        meta_t,
        coq::b(run.tmp),
        rrecs_term(&run.rec),
        meta_bytes_term(run.meta.as_deref()),
        meta_t,
        tt,
        cfg,
        ops_t,
        coq::list(run.syn.iter().map(|v| zz_term(v)))
    );
    let rotated = run.files.iter().any(|(s, _)| *s > 0);
    tags.push(mode.tag());
    tags.push(format!("files:{}", run.files.len().min(4)));
    if rotated {
        tags.push("rotated".into());
    }
    if ops.iter().any(|o| matches!(o, WOp::Checkpoint(..))) {
        tags.push("checkpoint".into());
    }
    if ops.iter().any(|o| matches!(o, WOp::Reopen)) {
        tags.push("wal-reopen".into());
    }
    let mut c = Case {
        kind: kind.into(),
        input: format!("mode={:?} max={} ops=[{}]", mode, max, ops.iter().map(wop_short).collect::<Vec<_>>().join(" ")),
        coq: Some(coqt),
        show: Some(format!("(wal_synced {} {} {}, recover (tcrc {}) (tdec {}) (wdrop (wrun (tcrc {}) (tenc {}) {} (wopen (tcrc {}) empty_disk) {})))", tt, cfg, ops_t, tt, tt, tt, tt, cfg, tt, ops_t)),
        imp: format!(
            "files={:?} meta={} recovered={}",
            run.files.iter().map(|(s, b)| (*s, b.len())).collect::<Vec<_>>(),
            meta_t,
            match &run.rec {
                Ok(v) => v.iter().map(rec_short).collect::<Vec<_>>().join(" "),
                Err(e) => format!("Err({})", e),
            }
        ),
        nontrivial: ops.iter().filter(|o| matches!(o, WOp::Log(r) if is_data(r))).count() >= 2 && ops.iter().any(|o| !matches!(o, WOp::Log(_))),
        tags,
        ..Default::default()
    };
    // oracle (WalManager level): recover() returns exactly what the commit markers cover.  For C05 a
    // difference after a rotation is finding C05-K4; for C06 only logs that were never rotated are judged
    // (a single file: nothing is torn here, so everything committed must come back)
    if prop == "C05" || (prop == "C06" && !rotated && !ops.iter().any(|o| matches!(o, WOp::Rotate))) {
        let want = committed(&run.logged);
        let got: Vec<String> = run.rec.as_ref().map(|v| v.iter().map(rec_term).collect()).unwrap_or_default();
        if run.rec.is_ok() && want == got {
            c.oracle = Oracle::Ok;
        } else {
            c.oracle = Oracle::Fail;
            c.msg = format!("recover() returns {} of the {} records the commit markers cover", got.len(), want.len());
            if prop == "C05" {
                c.kid = Some("C05-K4".into());
                // the class is decided on the operations (a skipped file may already have been deleted by
                // truncate_old_logs, so the files alone do not show it)
                c.kcoq = Some(format!("kc05_4_wal {} {} {} || kc05_4_ops {} {} {}", tt, files_term(&run.files), meta_t, tt, cfg, ops_t));
            }
        }
    }
    c
}

// ------------------------------------------------------------------------------------------
// (ii) recovery as a function of bytes: crash images of a directory
// ------------------------------------------------------------------------------------------
enum OpenObs {
    Err(String),
    Panic(String),
    Ok(Dump, u64, u64),
}
fn open_image(root: &Path) -> OpenObs {
    let p = root.to_path_buf();
    let r = catch(move || match GrafeoDB::open(&p) {
        Err(e) => OpenObs::Err(e.to_string()),
        Ok(db) => {
            let d = dump_lat(&db);
            let nn = db.create_node(&[]).as_u64();
            let ne = db.create_edge(NodeId::new(0), NodeId::new(0), "probe").as_u64();
            OpenObs::Ok(d, nn, ne)
        }
    });
    match r {
        Ok(o) => o,
        Err(m) => OpenObs::Panic(m),
    }
}
fn open_term(o: &OpenObs) -> String {
    match o {
        OpenObs::Err(_) => "OpenErr".into(),
        OpenObs::Panic(_) => "OpenPanic".into(),
        OpenObs::Ok(d, nn, ne) => format!("(OpenOk {} {} {})", dump_term(d), nn, ne),
    }
}
struct Image {
    files: Vec<(u64, Vec<u8>)>,
    meta: Option<Vec<u8>>,
    tmp: bool,
    what: String,
    tags: Vec<String>,
}
/// `prefixes`: the record lists a reader may legitimately return (one per prefix of the logged sequence)
fn case_image(sc: &mut Scratch, base_tabs: &Tabs, orig: &[(u64, Vec<u8>)], img: &Image, prefixes: &[Vec<String>], must_open: bool) -> Case {
    let dir = sc.fresh();
    write_image(&dir, &img.files, img.meta.as_deref(), img.tmp);
    let rec = {
        let w = dir.join("wal");
        match catch(move || WalRecovery::new(&w).recover().map_err(|e| e.to_string())) {
            Ok(r) => r,
            Err(m) => Err(format!("PANIC {}", m)),
        }
    };
    let opn = open_image(&dir);
    sc.done(&dir);
    let mut t = base_tabs.clone();
    for (_, b) in &img.files {
        t.walk(b);
    }
    let tt = t.term();
    let meta_t = meta_term_of_bytes(img.meta.as_deref());
    let ft = files_term(&img.files);
    let mut c = Case {
        kind: "recover_img".into(),
        input: format!("{} files={:?} meta={}", img.what, img.files.iter().map(|(s, b)| (*s, b.len())).collect::<Vec<_>>(), meta_t),
        coq: Some(format!("chk_img {} {} {} {} {} {} && chk_meta {} {}", tt, ft, meta_t, coq::b(img.tmp), rrecs_term(&rec), open_term(&opn), meta_bytes_term(img.meta.as_deref()), meta_t)),
        show: Some(format!("show_img {} {} {}", tt, ft, meta_t)),
        imp: format!(
            "recover={} open={}",
            match &rec {
                Ok(v) => v.iter().map(rec_short).collect::<Vec<_>>().join(" "),
                Err(e) => format!("Err({})", e),
            },
            match &opn {
                OpenObs::Err(e) => format!("Err({})", e),
                OpenObs::Panic(m) => format!("PANIC({})", m),
                OpenObs::Ok(d, nn, ne) => format!("{} next=({},{})", dump_short(d), nn, ne),
            }
        ),
        nontrivial: true,
        tags: img.tags.clone(),
        ..Default::default()
    };
    // oracle: the next open succeeds, and what is recovered is what some prefix of the
    // logged records commits (a torn or damaged record is never applied)
    let got: Option<Vec<String>> = rec.as_ref().ok().map(|v| v.iter().map(rec_term).collect());
    let opened = matches!(opn, OpenObs::Ok(..));
    if !must_open {
        c.oracle = if matches!(opn, OpenObs::Panic(_)) { Oracle::Fail } else { Oracle::Na };
        if c.oracle == Oracle::Fail {
            c.msg = "open panics".into();
        }
    } else if opened && got.as_ref().map_or(false, |g| prefixes.iter().any(|p| p == g)) {
        c.oracle = Oracle::Ok;
    } else {
        c.oracle = Oracle::Fail;
        c.msg = if !opened { "the next open does not succeed".into() } else { "the recovered records are not what any prefix of the logged records commits".into() };
        if opened && img.files.len() > 1 {
            c.kid = Some("C06-K3".into());
            c.kcoq = Some(format!("kc06_3 {} {} {} {}", tt, files_term(orig), ft, meta_t));
        }
    }
    c
}
fn flip(b: &[u8], byte: usize, bit: u32) -> Vec<u8> {
    let mut v = b.to_vec();
    v[byte] ^= 1 << bit;
    v
}
/// crash images and corruptions of one directory produced by a WalManager run
fn images_of(r: &mut Rng, sc: &mut Scratch, out: &mut Out, thorough: bool, budget: &mut usize) {
    let mut tags = vec![];
    let mode = Mode::random(r);
    let multi = r.chance(1, 3);
    let max = if multi { *r.pick(&[120u64, 200, 300]) } else { ENGINE_MAX };
    // a log with commit markers so that something is recoverable
    let n = 3 + r.below(if thorough { 6 } else { 9 }) as usize;
    let mut ops = vec![];
    for i in 0..n {
        ops.push(WOp::Log(gen_record(r, &mut tags)));
        if r.chance(1, 3) || i + 1 == n {
            ops.push(WOp::Log(WalRecord::TxCommit { tx_id: TxId::new(2) }));
        }
        if !multi && r.chance(1, 12) {
            ops.push(WOp::Checkpoint(2, 0));
        }
    }
    if r.chance(1, 2) {
        ops.push(WOp::Log(gen_record(r, &mut tags)));
    }
    let dir = sc.fresh();
    let run = run_wal(&dir, mode, max, &ops);
    sc.done(&dir);
    let mut t = Tabs::default();
    for x in &run.logged {
        t.add_rec(x);
    }
    let by_k: Vec<Vec<String>> = (0..=run.logged.len()).map(|k| committed(&run.logged[..k])).collect();
    let mut prefixes: Vec<Vec<String>> = by_k.clone();
    prefixes.dedup();
    let base_tags = vec![mode.tag(), format!("files:{}", run.files.len().min(4))];
    let last = run.files.len() - 1;
    let lastb = run.files[last].1.clone();
    let ends = frame_ends(&lastb);
    // `limit`: the damaged record is the limit-th of the log (single file): nothing from it on may be applied
    let mut emit_lim = |sc: &mut Scratch, img: Image, must_open: bool, budget: &mut usize, limit: Option<usize>| {
        if *budget == 0 {
            return;
        }
        *budget -= 1;
        let c = match limit {
            Some(k) => {
                let mut lim: Vec<Vec<String>> = by_k[..=k.min(by_k.len() - 1)].to_vec();
                lim.dedup();
                let mut c = case_image(sc, &t, &run.files, &img, &lim, must_open);
                if c.oracle == Oracle::Fail && c.kid.is_none() {
                    c.msg = format!("{} (record #{} of the log is damaged: it and everything behind it must not be applied)", c.msg, k);
                }
                c
            }
            None => case_image(sc, &t, &run.files, &img, &prefixes, must_open),
        };
        out.emit(&c);
    };
    let mk = |files: Vec<(u64, Vec<u8>)>, meta: Option<Vec<u8>>, tmp: bool, what: String, extra: &[&str]| {
        let mut tg = base_tags.clone();
        for e in extra {
            tg.push(e.to_string());
        }
        Image { files, meta, tmp, what, tags: tg }
    };
    // every byte length of the last file over its last three records (quick) / all (thorough)
    let from = if thorough || ends.len() <= 3 { 0 } else { ends[ends.len() - 4] };
    for cut in from..=lastb.len() {
        let mut fs = run.files.clone();
        fs[last].1.truncate(cut);
        let inside = !ends.contains(&cut) && cut != 0;
        let lose_meta = r.chance(1, 6);
        let tmp = r.chance(1, 4);
        let mut ex = vec![if inside { "cut:inside-record" } else { "cut:boundary" }];
        if lose_meta {
            ex.push("meta:lost-rename");
        }
        if tmp {
            ex.push("tmp:present");
        }
        // losing the rename is a legitimate crash state only if no file would then be read twice;
        // the prefix oracle covers it (min_sequence only drops files)
        emit_lim(sc, mk(fs, if lose_meta { None } else { run.meta.clone() }, tmp, format!("cut last file at {}/{}", cut, lastb.len()), &ex), !lose_meta || run.files.len() == 1, budget, None);
    }
    // a freshly rotated, still empty file
    {
        let mut fs = run.files.clone();
        fs.push((run.files[last].0 + 1, vec![]));
        emit_lim(sc, mk(fs, run.meta.clone(), false, "fresh empty rotated file".into(), &["rotated-empty"]), true, budget, None);
    }
    // a non-final file cut (rotation does not fsync the old file)
    if run.files.len() > 1 {
        for _ in 0..3 {
            let i = r.below(last as u64) as usize;
            let l = run.files[i].1.len();
            if l == 0 {
                continue;
            }
            let cut = r.below(l as u64) as usize;
            let mut fs = run.files.clone();
            fs[i].1.truncate(cut);
            emit_lim(sc, mk(fs, run.meta.clone(), false, format!("cut file #{} at {}/{}", i, cut, l), &["cut:non-final-file"]), true, budget, None);
        }
    }
    // single-bit flips
    let total: usize = run.files.iter().map(|f| f.1.len()).sum();
    let nflips = if thorough && total <= 260 { total * 8 } else { 24 };
    for k in 0..nflips {
        let (pos, bit) = if nflips == total * 8 { (k / 8, (k % 8) as u32) } else { (r.below(total as u64) as usize, r.below(8) as u32) };
        let mut fs = run.files.clone();
        let mut p = pos;
        let mut fi = 0;
        while p >= fs[fi].1.len() {
            p -= fs[fi].1.len();
            fi += 1;
        }
        // which field of which frame?
        let e = frame_ends(&run.files[fi].1);
        let start = e.iter().rev().find(|&&x| x <= p).copied().unwrap_or(0);
        let field = if p - start < 4 { "flip:length" } else if e.iter().any(|&x| x > p && x - p <= 4) { "flip:checksum" } else { "flip:body" };
        fs[fi].1 = flip(&fs[fi].1, p, bit);
        // a flip inside a body or a checksum field of record j of a single-file log: records j.. are out
        let limit = if run.files.len() == 1 && field != "flip:length" { Some(e.iter().filter(|&&x| x <= p).count()) } else { None };
        emit_lim(sc, mk(fs, run.meta.clone(), false, format!("flip bit {} of byte {} of file #{}", bit, p, fi), &[field]), true, budget, limit);
    }
    // crafted damage: valid checksum over an undecodable payload, trailing byte inside a payload,
    // huge length field, garbage metadata
    {
        let bad = vec![0xffu8, 0xff, 0xff, 0xff, 0x01];
        let mut fr = (bad.len() as u32).to_le_bytes().to_vec();
        fr.extend(&bad);
        fr.extend(crc32fast::hash(&bad).to_le_bytes());
        let mut fs = run.files.clone();
        let at = if ends.len() >= 2 { ends[ends.len() - 2] } else { 0 };
        let mut nb = lastb[..at].to_vec();
        nb.extend(&fr);
        nb.extend(&lastb[at..]);
        fs[last].1 = nb;
        emit_lim(sc, mk(fs, run.meta.clone(), false, "undecodable payload with a valid checksum".into(), &["crafted:undecodable"]), true, budget, None);
        if let Some(x) = run.logged.first() {
            let mut p = enc_rec(x);
            p.push(0);
            let mut fr = (p.len() as u32).to_le_bytes().to_vec();
            fr.extend(&p);
            fr.extend(crc32fast::hash(&p).to_le_bytes());
            let mut fs = run.files.clone();
            fs[last].1.extend(&fr);
            fs[last].1.extend(enc_frame(&WalRecord::TxCommit { tx_id: TxId::new(9) }));
            // not a crash image: correspondence only
            emit_lim(sc, mk(fs, run.meta.clone(), false, "payload with a trailing byte".into(), &["crafted:trailing-byte"]), false, budget, None);
        }
        let mut fs = run.files.clone();
        fs[last].1.extend([0x00, 0x00, 0x00, 0x10, 1, 2, 3]);
        emit_lim(sc, mk(fs, run.meta.clone(), false, "length field 2^28 behind the last record".into(), &["crafted:huge-length"]), true, budget, None);
        emit_lim(sc, mk(run.files.clone(), Some(vec![0xfd]), false, "undecodable checkpoint.meta".into(), &["crafted:bad-meta"]), false, budget, None);
        emit_lim(sc, mk(run.files.clone(), Some(vec![]), false, "empty checkpoint.meta".into(), &["crafted:bad-meta"]), false, budget, None);
    }
}
fn enc_frame(r: &WalRecord) -> Vec<u8> {
    let p = enc_rec(r);
    let mut fr = (p.len() as u32).to_le_bytes().to_vec();
    fr.extend(&p);
    fr.extend(crc32fast::hash(&p).to_le_bytes());
    fr
}

// ------------------------------------------------------------------------------------------
// (iii) histories of a GrafeoDB
// ------------------------------------------------------------------------------------------
#[derive(Clone, Debug)]
enum Op {
    CreateNode(Vec<String>),
    CreateNodeProps(Vec<String>, Vec<(String, Value)>),
    DeleteNode(u64),
    SetNodeProp(u64, String, Value),
    AddLabel(u64, String),
    RemoveLabel(u64, String),
    CreateEdge(u64, u64, String),
    CreateEdgeProps(u64, u64, String, Vec<(String, Value)>),
    DeleteEdge(u64),
    SetEdgeProp(u64, String, Value),
    RemoveNodeProp(u64, String),
    RemoveEdgeProp(u64, String),
    /// session.create_node_with_props (query = false) or `INSERT (:L {k: v})` through a query (query = true)
    SessNode(Vec<String>, Vec<(String, Value)>, bool),
    SessTxNode(Vec<String>),
    Checkpoint,
    Rotate,
    Sync,
}
fn op_term(o: &Op) -> String {
    match o {
        Op::CreateNode(l) => format!("(OCreateNode {})", labels_term(l)),
        Op::CreateNodeProps(l, p) => format!("(OCreateNodeProps {} {})", labels_term(l), props_term(p)),
        Op::DeleteNode(i) => format!("(ODeleteNode {})", i),
        Op::SetNodeProp(i, k, v) => format!("(OSetNodeProp {} {} {})", i, strs(k), val_term(v)),
        Op::AddLabel(i, l) => format!("(OAddLabel {} {})", i, strs(l)),
        Op::RemoveLabel(i, l) => format!("(ORemoveLabel {} {})", i, strs(l)),
        Op::CreateEdge(a, b, t) => format!("(OCreateEdge {} {} {})", a, b, strs(t)),
        Op::CreateEdgeProps(a, b, t, p) => format!("(OCreateEdgeProps {} {} {} {})", a, b, strs(t), props_term(p)),
        Op::DeleteEdge(i) => format!("(ODeleteEdge {})", i),
        Op::SetEdgeProp(i, k, v) => format!("(OSetEdgeProp {} {} {})", i, strs(k), val_term(v)),
        Op::RemoveNodeProp(i, k) => format!("(ORemoveNodeProp {} {})", i, strs(k)),
        Op::RemoveEdgeProp(i, k) => format!("(ORemoveEdgeProp {} {})", i, strs(k)),
        Op::SessNode(l, p, _) => format!("(OSessNode {} {})", labels_term(l), props_term(p)),
        Op::SessTxNode(l) => format!("(OSessTxNode {})", labels_term(l)),
        Op::Checkpoint => "OCheckpoint".into(),
        Op::Rotate => "ORotate".into(),
        Op::Sync => "OSync".into(),
    }
}
fn op_short(o: &Op) -> String {
    match o {
        Op::CreateNode(l) => format!("create_node{:?}", l),
        Op::CreateNodeProps(l, p) => format!("create_node_with_props{:?}+{}p", l, p.len()),
        Op::DeleteNode(i) => format!("delete_node({})", i),
        Op::SetNodeProp(i, k, _) => format!("set_node_property({},{:?})", i, k),
        Op::AddLabel(i, l) => format!("add_node_label({},{:?})", i, l),
        Op::RemoveLabel(i, l) => format!("remove_node_label({},{:?})", i, l),
        Op::CreateEdge(a, b, t) => format!("create_edge({},{},{:?})", a, b, t),
        Op::CreateEdgeProps(a, b, t, p) => format!("create_edge_with_props({},{},{:?})+{}p", a, b, t, p.len()),
        Op::DeleteEdge(i) => format!("delete_edge({})", i),
        Op::SetEdgeProp(i, k, _) => format!("set_edge_property({},{:?})", i, k),
        Op::RemoveNodeProp(i, k) => format!("remove_node_property({},{:?})", i, k),
        Op::RemoveEdgeProp(i, k) => format!("remove_edge_property({},{:?})", i, k),
        Op::SessNode(l, p, q) => format!("{}{:?}+{}p", if *q { "session.execute(INSERT)" } else { "session.create_node" }, l, p.len()),
        Op::SessTxNode(l) => format!("session{{begin;create_node{:?};commit}}", l),
        Op::Checkpoint => "wal_checkpoint()".into(),
        Op::Rotate => "wal().rotate()".into(),
        Op::Sync => "wal().sync()".into(),
    }
}
fn op_kind(o: &Op) -> &'static str {
    match o {
        Op::CreateNode(_) | Op::CreateNodeProps(..) => "op:create_node",
        Op::DeleteNode(_) => "op:delete_node",
        Op::SetNodeProp(..) => "op:set_node_property",
        Op::AddLabel(..) | Op::RemoveLabel(..) => "op:label",
        Op::CreateEdge(..) | Op::CreateEdgeProps(..) => "op:create_edge",
        Op::DeleteEdge(_) => "op:delete_edge",
        Op::SetEdgeProp(..) => "op:set_edge_property",
        Op::RemoveNodeProp(..) | Op::RemoveEdgeProp(..) => "op:remove_property",
        Op::SessNode(..) | Op::SessTxNode(_) => "op:session",
        Op::Checkpoint => "op:checkpoint",
        Op::Rotate => "op:rotate",
        Op::Sync => "op:sync",
    }
}
fn refs(v: &[String]) -> Vec<&str> {
    v.iter().map(|s| s.as_str()).collect()
}
fn exec_op(db: &GrafeoDB, o: &Op) -> String {
    match o {
        Op::CreateNode(l) => format!("(OutId {})", db.create_node(&refs(l)).as_u64()),
        Op::CreateNodeProps(l, p) => format!("(OutId {})", db.create_node_with_props(&refs(l), p.iter().map(|(k, v)| (k.as_str(), v.clone()))).as_u64()),
        Op::DeleteNode(i) => format!("(OutBool {})", db.delete_node(NodeId::new(*i))),
        Op::SetNodeProp(i, k, v) => {
            db.set_node_property(NodeId::new(*i), k, v.clone());
            "OutUnit".into()
        }
        Op::AddLabel(i, l) => format!("(OutBool {})", db.add_node_label(NodeId::new(*i), l)),
        Op::RemoveLabel(i, l) => format!("(OutBool {})", db.remove_node_label(NodeId::new(*i), l)),
        Op::CreateEdge(a, b, t) => format!("(OutId {})", db.create_edge(NodeId::new(*a), NodeId::new(*b), t).as_u64()),
        Op::CreateEdgeProps(a, b, t, p) => {
            format!("(OutId {})", db.create_edge_with_props(NodeId::new(*a), NodeId::new(*b), t, p.iter().map(|(k, v)| (k.as_str(), v.clone()))).as_u64())
        }
        Op::DeleteEdge(i) => format!("(OutBool {})", db.delete_edge(EdgeId::new(*i))),
        Op::SetEdgeProp(i, k, v) => {
            db.set_edge_property(EdgeId::new(*i), k, v.clone());
            "OutUnit".into()
        }
        Op::RemoveNodeProp(i, k) => format!("(OutBool {})", db.remove_node_property(NodeId::new(*i), k)),
        Op::RemoveEdgeProp(i, k) => format!("(OutBool {})", db.remove_edge_property(EdgeId::new(*i), k)),
        Op::SessNode(l, p, q) => {
            let s = db.session();
            if *q {
                // INSERT (:L {k: <int>}) — labels and keys of query-driven inserts are plain identifiers
                let before: Vec<u64> = dump_lat(db).nodes.iter().map(|n| n.0).collect();
                let pr = p.iter().map(|(k, v)| format!("{}: {}", k, match v { Value::Int64(i) => *i, _ => 0 })).collect::<Vec<_>>().join(", ");
                let q = format!("INSERT (:{} {{{}}})", l[0], pr);
                s.execute(&q).unwrap_or_else(|e| panic!("query {} failed: {}", q, e));
                let after: Vec<u64> = dump_lat(db).nodes.iter().map(|n| n.0).collect();
                let new: Vec<u64> = after.into_iter().filter(|i| !before.contains(i)).collect();
                format!("(OutId {})", new.first().copied().unwrap_or(u64::MAX >> 1))
            } else {
                format!("(OutId {})", s.create_node_with_props(&refs(l), p.iter().map(|(k, v)| (k.as_str(), v.clone()))).as_u64())
            }
        }
        Op::SessTxNode(l) => {
            let mut s = db.session();
            s.begin_tx().expect("begin");
            let id = s.create_node(&refs(l));
            s.commit().expect("commit");
            format!("(OutId {})", id.as_u64())
        }
        Op::Checkpoint => {
            db.wal_checkpoint().expect("checkpoint");
            "OutUnit".into()
        }
        Op::Rotate => {
            db.wal().expect("wal").rotate().expect("rotate");
            "OutUnit".into()
        }
        Op::Sync => {
            db.wal().expect("wal").sync().expect("sync");
            "OutUnit".into()
        }
    }
}
/// records an operation can log, for the codec tables (ids: the store allocates sequentially,
/// so the tables are completed from the files afterwards by `Tabs::walk`)
#[derive(Clone, Debug)]
enum End {
    Close,
    /// crash: cut the last log file; the length is chosen when the file exists
    Crash(CutSpec),
}
#[derive(Clone, Copy, Debug)]
enum CutSpec {
    /// keep everything that reached the file (process killed after a flush)
    Full,
    /// cut inside the k-th record from the end (0 = last)
    Inside(usize),
    /// cut at the boundary before the k-th record from the end
    Boundary(usize),
    /// cut at exactly this length
    At(usize),
    /// cut n bytes (1..=3) into the 4-byte length prefix of the k-th record from the end
    LenPrefix(usize, usize),
}
struct SessObs {
    outs: Vec<String>,
    cur: Dump,
    lat: Dump,
    /// latest dump after each prefix of the session's operations (index 0 = at open)
    dumps: Vec<Dump>,
    /// cumulative WalManager::record_count() after each operation
    rcs: Vec<u64>,
    files: Vec<(u64, Vec<u8>)>,
    /// files before the cuts of a crash (= files for a clean close)
    orig: Vec<(u64, Vec<u8>)>,
    meta: Option<Vec<u8>>,
    cuts: Vec<(u64, u64)>,
    /// bytes of the last file that had reached the file system before the final flush
    vis_before_flush: u64,
    /// length of the last file at the last moment the harness knows an fsync covered it
    synced_est: u64,
    re: Result<(Dump, Dump), String>,
    re_panic: bool,
}
fn open_db(path: &Path, mode: Mode) -> Result<GrafeoDB, String> {
    let p = path.to_path_buf();
    match catch(move || GrafeoDB::with_config(Config::persistent(p).with_wal_durability(mode.engine())).map_err(|e| e.to_string())) {
        Ok(r) => r,
        Err(m) => Err(format!("PANIC {}", m)),
    }
}
fn last_len(wal: &Path) -> u64 {
    log_lens(wal).last().map(|x| x.1).unwrap_or(0)
}
fn run_history(sc: &mut Scratch, mode: Mode, sessions: &[(Vec<Op>, End)]) -> (Vec<SessObs>, PathBuf) {
    let root = sc.fresh();
    let mut dir = root.join("db0");
    let mut obs = vec![];
    let mut db = match open_db(&dir, mode) {
        Ok(d) => d,
        Err(e) => panic!("fresh open failed: {}", e),
    };
    for (k, (ops, end)) in sessions.iter().enumerate() {
        let wal = dir.join("wal");
        let mut synced_est = last_len(&wal);
        let mut outs = vec![];
        let mut dumps = vec![dump_lat(&db)];
        let mut rcs = vec![];
        for o in ops {
            outs.push(exec_op(&db, o));
            dumps.push(dump_lat(&db));
            rcs.push(db.wal().map(|w| w.record_count()).unwrap_or(0));
            // in Sync/Batch modes the process flushes exactly when it fsyncs; an explicit
            // sync()/checkpoint fsyncs in every mode
            if !mode.flushes() || matches!(o, Op::Sync | Op::Checkpoint) {
                synced_est = last_len(&wal);
            }
        }
        let cur = dump_cur(&db);
        let lat = dump_lat(&db);
        let vis_before_flush = last_len(&wal);
        let mut cuts = vec![];
        let orig;
        match end {
            End::Close => {
                db.close().expect("close");
                drop(db);
                orig = read_logs(&wal);
            }
            End::Crash(spec) => {
                // what the process really fsynced of the last file (one crash per history: the directory
                // is the one every earlier session of this history wrote and closed)
                if let Some((seq, _)) = log_lens(&wal).last() {
                    synced_est = fsynced_size(&wal.join(format!("wal_{:08}.log", seq)));
                }
                db.wal().expect("wal").flush().expect("flush");
                let ndir = root.join(format!("db{}", k + 1));
                copy_dir(&dir, &ndir);
                drop(db); // closes into the old directory, which is abandoned
                dir = ndir;
                let nwal = dir.join("wal");
                orig = read_logs(&nwal);
                if let Some((seq, b)) = orig.last() {
                    let ends = frame_ends(b);
                    let bound = |j: usize| -> usize { if ends.len() > j { ends[ends.len() - 1 - j] } else { 0 } };
                    let len = match spec {
                        CutSpec::Full => b.len(),
                        CutSpec::At(n) => (*n).min(b.len()),
                        CutSpec::Boundary(j) => bound(*j),
                        CutSpec::LenPrefix(j, n) => {
                            // start of the j-th record from the end = end of the one before it
                            let start = if ends.len() > j + 1 { bound(*j + 1) } else { 0 };
                            start + (*n).clamp(1, 3)
                        }
                        CutSpec::Inside(j) => {
                            let hi = bound(*j);
                            let lo = if ends.len() > j + 1 { bound(*j + 1) } else { 0 };
                            if hi > lo + 1 { lo + 1 + (hi - lo - 1) / 2 } else { hi }
                        }
                    };
                    let len = len.max(synced_est as usize).min(b.len());
                    if len < b.len() {
                        let f = nwal.join(format!("wal_{:08}.log", seq));
                        std::fs::write(&f, &b[..len]).unwrap();
                    }
                    cuts.push((*seq, len as u64));
                }
            }
        }
        let wal = dir.join("wal");
        let files = read_logs(&wal);
        let meta = read_meta(&wal);
        let (re, re_panic) = match open_db(&dir, mode) {
            Ok(d) => {
                let r = (dump_cur(&d), dump_lat(&d));
                db = d;
                (Ok(r), false)
            }
            Err(e) => {
                let p = e.starts_with("PANIC");
                obs.push(SessObs { outs, cur, lat, dumps, rcs, files, orig, meta, cuts, vis_before_flush, synced_est, re: Err(e), re_panic: p });
                return (obs, root);
            }
        };
        obs.push(SessObs { outs, cur, lat, dumps, rcs, files, orig, meta, cuts, vis_before_flush, synced_est, re, re_panic });
    }
    drop(db);
    (obs, root)
}
fn end_term(e: &End, o: &SessObs) -> String {
    match e {
        End::Close => "EClose".into(),
        End::Crash(_) => format!("(ECrash {})", zz_term(&o.cuts)),
    }
}
fn sessions_term(ss: &[(Vec<Op>, End)], obs: &[SessObs]) -> String {
    coq::list(ss.iter().zip(obs).map(|((ops, e), o)| format!("({}, {})", coq::list(ops.iter().map(op_term)), end_term(e, o))))
}
fn sessobs_term(o: &SessObs) -> String {
    let re = match &o.re {
        Ok((c, l)) => format!("(ReOk {} {})", dump_term(c), dump_term(l)),
        Err(_) if o.re_panic => "RePanic".into(),
        Err(_) => "ReErr".into(),
    };
    format!(
        "(mkSO {} {} {} {} {} {})",
        coq::list(o.outs.iter().cloned()),
        dump_term(&o.cur),
        dump_term(&o.lat),
        files_term(&o.files),
        meta_term_of_bytes(o.meta.as_deref()),
        re
    )
}

// generators of histories -----------------------------------------------------------------
struct GenState {
    nodes: u64,
    edges: u64,
}
fn gen_logged_op(r: &mut Rng, g: &mut GenState, tags: &mut Vec<String>) -> Op {
    let nid = |r: &mut Rng, g: &GenState| if g.nodes == 0 || r.chance(1, 12) { r.below(g.nodes + 3) } else { r.below(g.nodes) };
    let eid = |r: &mut Rng, g: &GenState| if g.edges == 0 || r.chance(1, 10) { r.below(g.edges + 2) } else { r.below(g.edges) };
    match r.below(24) {
        0..=3 => {
            g.nodes += 1;
            Op::CreateNode(gen_labels(r))
        }
        4 | 5 => {
            g.nodes += 1;
            Op::CreateNodeProps(gen_labels(r), gen_props(r, tags))
        }
        6 | 7 => Op::DeleteNode(nid(r, g)),
        8..=11 => {
            let (v, t) = gen_value(r, 0);
            tags.push(format!("val:{}", t));
            Op::SetNodeProp(nid(r, g), r.pick(&KEYS).to_string(), v)
        }
        12 | 13 => Op::AddLabel(nid(r, g), r.pick(&LABELS).to_string()),
        14 => Op::RemoveLabel(nid(r, g), r.pick(&LABELS).to_string()),
        15..=17 => {
            g.edges += 1;
            Op::CreateEdge(nid(r, g), nid(r, g), r.pick(&TYPES).to_string())
        }
        18 => {
            g.edges += 1;
            Op::CreateEdgeProps(nid(r, g), nid(r, g), r.pick(&TYPES).to_string(), gen_props(r, tags))
        }
        19 | 20 => Op::DeleteEdge(eid(r, g)),
        21 | 22 => {
            let (v, t) = gen_value(r, 0);
            tags.push(format!("val:{}", t));
            Op::SetEdgeProp(eid(r, g), r.pick(&KEYS).to_string(), v)
        }
        _ => Op::Sync,
    }
}
/// which finding classes a generated C05 history may touch
#[derive(Clone, Copy, Default)]
struct Allow {
    cp: bool,
    rm: bool,
    sess: bool,
    rot: bool,
}
fn gen_session(r: &mut Rng, g: &mut GenState, a: Allow, tags: &mut Vec<String>) -> Vec<Op> {
    let n = 1 + r.below(9) as usize;
    let mut v = vec![];
    for _ in 0..n {
        let o = match r.below(20) {
            0 | 1 if a.cp => Op::Checkpoint,
            2 | 3 if a.rm => {
                if r.chance(1, 2) {
                    Op::RemoveNodeProp(r.below(g.nodes + 1), r.pick(&KEYS).to_string())
                } else {
                    Op::RemoveEdgeProp(r.below(g.edges + 1), r.pick(&KEYS).to_string())
                }
            }
            4 | 5 if a.sess => {
                g.nodes += 1;
                match r.below(3) {
                    0 => Op::SessNode(vec!["Q".into()], vec![("k".into(), Value::Int64(r.below(100) as i64))], true),
                    1 => Op::SessNode(gen_labels(r), gen_props(r, tags), false),
                    _ => Op::SessTxNode(gen_labels(r)),
                }
            }
            6 if a.rot => Op::Rotate,
            _ => gen_logged_op(r, g, tags),
        };
        v.push(o);
    }
    v
}
fn hist_short(ss: &[(Vec<Op>, End)], obs: &[SessObs]) -> String {
    ss.iter()
        .zip(obs)
        .map(|((ops, e), o)| {
            format!(
                "[{}] {}",
                ops.iter().map(op_short).collect::<Vec<_>>().join("; "),
                match e {
                    End::Close => "close+reopen".to_string(),
                    End::Crash(_) => format!("CRASH cuts={:?}+reopen", o.cuts),
                }
            )
        })
        .collect::<Vec<_>>()
        .join(" | ")
}
fn out_id(x: &str) -> u64 {
    x.trim_start_matches("(OutId ").trim_end_matches(')').parse().unwrap_or(0)
}
fn op_records(o: &Op, x: &str) -> Vec<WalRecord> {
    let sp = |v: &str| v.to_string();
    match o {
        Op::CreateNode(l) => vec![WalRecord::CreateNode { id: NodeId::new(out_id(x)), labels: l.clone() }],
        Op::CreateNodeProps(l, p) => {
            let id = NodeId::new(out_id(x));
            let mut v = vec![WalRecord::CreateNode { id, labels: l.clone() }];
            v.extend(p.iter().map(|(k, val)| WalRecord::SetNodeProperty { id, key: sp(k), value: val.clone() }));
            v
        }
        Op::DeleteNode(i) => vec![WalRecord::DeleteNode { id: NodeId::new(*i) }],
        Op::SetNodeProp(i, k, v) => vec![WalRecord::SetNodeProperty { id: NodeId::new(*i), key: sp(k), value: v.clone() }],
        Op::AddLabel(i, l) => vec![WalRecord::AddNodeLabel { id: NodeId::new(*i), label: sp(l) }],
        Op::RemoveLabel(i, l) => vec![WalRecord::RemoveNodeLabel { id: NodeId::new(*i), label: sp(l) }],
        Op::CreateEdge(a, b, t) => vec![WalRecord::CreateEdge { id: EdgeId::new(out_id(x)), src: NodeId::new(*a), dst: NodeId::new(*b), edge_type: sp(t) }],
        Op::CreateEdgeProps(a, b, t, p) => {
            let id = EdgeId::new(out_id(x));
            let mut v = vec![WalRecord::CreateEdge { id, src: NodeId::new(*a), dst: NodeId::new(*b), edge_type: sp(t) }];
            v.extend(p.iter().map(|(k, val)| WalRecord::SetEdgeProperty { id, key: sp(k), value: val.clone() }));
            v
        }
        Op::DeleteEdge(i) => vec![WalRecord::DeleteEdge { id: EdgeId::new(*i) }],
        Op::SetEdgeProp(i, k, v) => vec![WalRecord::SetEdgeProperty { id: EdgeId::new(*i), key: sp(k), value: v.clone() }],
        _ => vec![],
    }
}
/// one case per session of the history (the Coq term replays the history up to that session)
fn cases_history(prop: &str, sc: &mut Scratch, out: &mut Out, mode: Mode, ss: &[(Vec<Op>, End)], mut tags: Vec<String>, only_last: bool) {
    let (obs, root) = run_history(sc, mode, ss);
    sc.done(&root);
    let mut t = Tabs::default();
    for o in &obs {
        for (_, b) in o.files.iter().chain(o.orig.iter()) {
            t.walk(b);
        }
    }
    // every record found intact in a file goes into the encoder table as well
    let decs: Vec<(Vec<u8>, String)> = t.dec.drain(..).collect();
    for (b, term) in decs {
        if let Some(rr) = dec_rec(&b) {
            if enc_rec(&rr) == b {
                if !t.enc.iter().any(|e| e.0 == term) {
                    t.enc.push((term, b));
                }
                continue;
            }
        }
        t.dec.push((b, term));
    }
    // every record an operation of the history can have logged (a superset is harmless)
    for ((ops, _), o) in ss.iter().zip(&obs) {
        for (op, x) in ops.iter().zip(&o.outs) {
            for rr in op_records(op, x) {
                t.add_rec(&rr);
            }
        }
    }
    for tx in 1..14u64 {
        t.add_rec(&WalRecord::TxCommit { tx_id: TxId::new(tx) });
        t.add_rec(&WalRecord::Checkpoint { tx_id: TxId::new(tx) });
    }
    // delete_node logs a DeleteEdge for every incident edge: any of the history's edges can be one
    if ss.iter().any(|s| s.0.iter().any(|o| matches!(o, Op::DeleteNode(_)))) {
        let ne = ss.iter().flat_map(|s| s.0.iter()).filter(|o| matches!(o, Op::CreateEdge(..) | Op::CreateEdgeProps(..))).count() as u64;
        for e in 0..ne {
            t.add_rec(&WalRecord::DeleteEdge { id: EdgeId::new(e) });
        }
    }
    let tt = t.term();
    let cfg = cfg_term(mode, ENGINE_MAX);
    tags.push(mode.tag());
    for (ops, _) in ss {
        for o in ops {
            tags.push(op_kind(o).into());
        }
    }
    tags.sort();
    tags.dedup();
    for k in 0..obs.len() {
        if only_last && k + 1 != obs.len() {
            continue;
        }
        let o = &obs[k];
        let (ops, end) = &ss[k];
        let sst = sessions_term(&ss[..=k], &obs[..=k]);
        let obst = coq::list(obs[..=k].iter().map(sessobs_term));
        let mut coqt = format!("chk_db {} {} {} {}", tt, cfg, sst, obst);
        let mut c = Case {
            kind: "db_hist".into(),
            input: format!("mode={:?} {}", mode, hist_short(&ss[..=k], &obs[..=k])),
            show: Some(format!("show_db {} {} {}", tt, cfg, sst)),
            imp: format!(
                "outs={:?} before={} after={}",
                o.outs,
                dump_short(&o.lat),
                match &o.re {
                    Ok((_, l)) => dump_short(l),
                    Err(e) => format!("Err({})", e),
                }
            ),
            nontrivial: {
                let all: Vec<&Op> = ss[..=k].iter().flat_map(|s| s.0.iter()).collect();
                let mut kinds: Vec<&str> = all.iter().map(|o| op_kind(o)).collect();
                kinds.sort();
                kinds.dedup();
                kinds.len() >= 2
            },
            tags: tags.clone(),
            ..Default::default()
        };
        c.tags.push(format!("session:{}", (k + 1).min(4)));
        let after = o.re.as_ref().ok().map(|x| x.1.clone());
        // identifiers handed out by create_* must name nothing that exists at that moment
        let mut collision: Option<String> = None;
        for (i, (op, x)) in ops.iter().zip(&o.outs).enumerate() {
            let before = &o.dumps[i];
            match op {
                Op::CreateNode(_) | Op::CreateNodeProps(..) | Op::SessNode(..) | Op::SessTxNode(_) => {
                    let id = out_id(x);
                    if before.nodes.iter().any(|n| n.0 == id) {
                        collision = Some(format!("{} returned node id {} which already exists", op_short(op), id));
                    }
                }
                Op::CreateEdge(..) | Op::CreateEdgeProps(..) => {
                    let id = out_id(x);
                    if before.edges.iter().any(|e| e.0 == id) {
                        collision = Some(format!("{} returned edge id {} which already exists", op_short(op), id));
                    }
                }
                _ => {}
            }
        }
        match end {
            End::Close if collision.is_some() && prop == "C05" => {
                c.tags.push("end:close".into());
                c.oracle = Oracle::Fail;
                c.msg = collision.clone().unwrap();
            }
            End::Close => {
                c.tags.push("end:close".into());
                let same = after.as_ref() == Some(&o.lat);
                if same {
                    c.oracle = Oracle::Ok;
                } else {
                    c.oracle = Oracle::Fail;
                    c.msg = "the graph after close+reopen differs from the graph before close".into();
                    if prop == "C05" {
                        // events of this session
                        let mut rc_mark = 0u64;
                        let mut k1 = false;
                        for (i, op) in ops.iter().enumerate() {
                            if matches!(op, Op::Checkpoint) {
                                let before = if i == 0 { 0 } else { o.rcs[i - 1] };
                                if before > rc_mark {
                                    k1 = true;
                                }
                                rc_mark = o.rcs[i];
                            }
                        }
                        let k2 = ops.iter().zip(&o.outs).any(|(op, x)| matches!(op, Op::RemoveNodeProp(..) | Op::RemoveEdgeProp(..)) && x == "(OutBool true)");
                        let k3 = ops.iter().any(|op| matches!(op, Op::SessNode(..) | Op::SessTxNode(_)));
                        let k4 = ops.iter().any(|op| matches!(op, Op::Rotate));
                        // (K1, an explicit checkpoint over uncommitted records, was repaired by 14ec16a: it is no class any more)
                        let _ = k1;
                        let kid = if k4 { Some(("C05-K4", "kc05_4")) } else if k3 { Some(("C05-K3", "kc05_3")) } else if k2 { Some(("C05-K2", "kc05_2")) } else { None };
                        if let Some((id, f)) = kid {
                            c.kid = Some(id.into());
                            c.kcoq = Some(format!("{} {} {} {}", f, tt, cfg, sst));
                        }
                    } else if k > 0 {
                        // C06: a database that was recovered from a crash image
                        let prev = &obs[k - 1];
                        let dirty = prev.files.last().map_or(false, |(_, b)| frame_ends(b).last().copied().unwrap_or(0) != b.len());
                        let pm = meta_term_of_bytes(prev.meta.as_deref());
                        // (K2, appending behind a torn tail, was repaired by 3ca6f5b: what is left is K5,
                        // intact uncommitted records that the next close commits)
                        let _ = dirty;
                        c.kid = Some("C06-K5".into());
                        c.kcoq = Some(format!("kc06_5 {} {} {}", tt, files_term(&prev.files), pm));
                    }
                }
            }
            End::Crash(_) => {
                c.tags.push("end:crash".into());
                let (seq, cut) = o.cuts.last().copied().unwrap_or((0, 0));
                let lastb = o.orig.last().map(|x| x.1.clone()).unwrap_or_default();
                let ends = frame_ends(&lastb);
                let clean = ends.last().copied().unwrap_or(0) == lastb.len();
                c.tags.push(if (cut as usize) == lastb.len() {
                    "cut:full".into()
                } else if ends.contains(&(cut as usize)) || cut == 0 {
                    "cut:boundary".into()
                } else {
                    let start = ends.iter().rev().find(|&&x| x < cut as usize).copied().unwrap_or(0);
                    let off = cut as usize - start;
                    if off < 4 { format!("cut:length-prefix+{}", off) } else { "cut:inside-record".to_string() }
                });
                coqt = format!("({}) && chk_pre_synced {} {} {} {} {}", coqt, tt, cfg, sst, seq, o.synced_est);
                // s = number of leading operations whose records were covered by an fsync
                let total = *o.rcs.last().unwrap_or(&0) as usize;
                let mut s = 0usize;
                if clean && ends.len() >= total {
                    let f0 = ends.len() - total;
                    for (j, rc) in o.rcs.iter().enumerate() {
                        let idx = f0 + *rc as usize;
                        let off = if idx == 0 { 0 } else { ends[idx - 1] };
                        if off as u64 <= o.synced_est {
                            s = j + 1;
                        }
                    }
                }
                c.tags.push(if s > 0 { "synced-ops:>0".into() } else { "synced-ops:0".to_string() });
                match &after {
                    Some(r) if o.dumps.iter().skip(s).any(|d| d == r) => c.oracle = Oracle::Ok,
                    Some(r) if o.dumps.iter().any(|d| d == r) => {
                        c.oracle = Oracle::Fail;
                        c.msg = format!("the recovered graph is the one after {} operations of the session, but {} operations were covered by an fsync", o.dumps.iter().position(|d| d == r).unwrap(), s);
                        c.kid = Some("C06-K1".into());
                        c.kcoq = Some(format!("kc06_1 {} {} {}", tt, cfg, sst));
                    }
                    Some(_) => {
                        c.oracle = Oracle::Fail;
                        c.msg = "the recovered graph is not the graph after any prefix of the session's operations".into();
                    }
                    None => {
                        c.oracle = Oracle::Fail;
                        c.msg = "the open after the crash fails".into();
                    }
                }
                let _ = o.vis_before_flush;
            }
        }
        c.coq = Some(coqt);
        out.emit(&c);
    }
}

// ------------------------------------------------------------------------------------------
// (iv) snapshots
// ------------------------------------------------------------------------------------------
#[derive(serde::Serialize, serde::Deserialize)]
struct SnapMirror {
    version: u8,
    nodes: Vec<SnapNode>,
    edges: Vec<SnapEdge>,
}
#[derive(serde::Serialize, serde::Deserialize)]
struct SnapNode {
    id: NodeId,
    labels: Vec<String>,
    properties: Vec<(String, Value)>,
}
#[derive(serde::Serialize, serde::Deserialize)]
struct SnapEdge {
    id: EdgeId,
    src: NodeId,
    dst: NodeId,
    edge_type: String,
    properties: Vec<(String, Value)>,
}
fn snap_decode(b: &[u8]) -> Option<(SnapMirror, usize)> {
    bincode::serde::decode_from_slice::<SnapMirror, _>(b, bincode::config::standard()).ok()
}
fn snap_term(s: &SnapMirror) -> String {
    format!(
        "(mkSnap {} {} {})",
        s.version,
        coq::list(s.nodes.iter().map(|n| format!("({}, {}, {})", n.id.as_u64(), labels_term(&n.labels), props_term(&n.properties)))),
        coq::list(s.edges.iter().map(|e| format!("({}, {}, {}, {}, {})", e.id.as_u64(), e.src.as_u64(), e.dst.as_u64(), strs(&e.edge_type), props_term(&e.properties))))
    )
}
enum CopyObs {
    Err(String),
    Panic(String),
    /// the process died (allocation failure = abort); only observable from outside the process
    Abort(String),
    Ok(Dump, Dump, u64, u64),
}
fn observe_copy(db: &GrafeoDB) -> CopyObs {
    let cur = dump_cur(db);
    let lat = dump_lat(db);
    let nn = db.create_node(&[]).as_u64();
    let ne = db.create_edge(NodeId::new(0), NodeId::new(0), "probe").as_u64();
    CopyObs::Ok(cur, lat, nn, ne)
}
fn copy_term(o: &CopyObs) -> String {
    match o {
        CopyObs::Err(_) => "CErr".into(),
        CopyObs::Panic(_) => "CPanic".into(),
        CopyObs::Abort(_) => "CAbort".into(),
        CopyObs::Ok(c, l, nn, ne) => format!("(COk {} {} {} {})", dump_term(c), dump_term(l), nn, ne),
    }
}
fn copy_short(o: &CopyObs) -> String {
    match o {
        CopyObs::Err(e) => format!("Err({})", e),
        CopyObs::Panic(m) => format!("PANIC({})", m),
        CopyObs::Abort(m) => format!("PROCESS ABORTED({})", m),
        CopyObs::Ok(_, l, nn, ne) => format!("{} next=({},{})", dump_short(l), nn, ne),
    }
}
fn import_obs(b: &[u8]) -> CopyObs {
    let v = b.to_vec();
    // the implementation first; the harness decodes the bytes itself (to learn which ids a dump must
    // look at) only after import_snapshot has accepted them
    match catch(move || GrafeoDB::import_snapshot(&v).map_err(|e| e.to_string())) {
        Ok(Ok(db)) => {
            EXTRA_IDS.with(|e| {
                let mut e = e.borrow_mut();
                e.clear();
                if let Some((s, _)) = snap_decode(b) {
                    e.extend(s.nodes.iter().map(|n| n.id.as_u64()));
                    e.extend(s.edges.iter().map(|x| x.id.as_u64()));
                }
            });
            match catch(std::panic::AssertUnwindSafe(|| observe_copy(&db))) {
                Ok(o) => o,
                Err(m) => CopyObs::Panic(m),
            }
        }
        Ok(Err(e)) => CopyObs::Err(e),
        Err(m) => CopyObs::Panic(m),
    }
}
fn build_mem(ops: &[Op]) -> GrafeoDB {
    let db = GrafeoDB::new_in_memory();
    for o in ops {
        if !matches!(o, Op::Checkpoint | Op::Rotate | Op::Sync) {
            let _ = exec_op(&db, o);
        }
    }
    db
}
fn case_snap(sc: &mut Scratch, ops: &[Op], mut tags: Vec<String>) -> (Case, Vec<u8>) {
    let ops: Vec<Op> = ops.iter().filter(|o| !matches!(o, Op::Checkpoint | Op::Rotate | Op::Sync)).cloned().collect();
    let db = build_mem(&ops);
    let before = dump_lat(&db);
    let b1 = db.export_snapshot().expect("export");
    let b2 = db.export_snapshot().expect("export");
    let sn = snap_decode(&b1).expect("own snapshot decodes").0;
    let imp = import_obs(&b1);
    let mem = match catch(std::panic::AssertUnwindSafe(|| db.to_memory().map(|m| observe_copy(&m)).map_err(|e| e.to_string()))) {
        Ok(Ok(o)) => o,
        Ok(Err(e)) => CopyObs::Err(e),
        Err(m) => CopyObs::Panic(m),
    };
    let dir = sc.fresh();
    let target = dir.join("saved");
    let mut t = Tabs::default();
    let target2 = dir.join("saved2");
    let mut oim = CopyObs::Err("save failed".into());
    let sav = match catch(std::panic::AssertUnwindSafe(|| db.save(&target).map_err(|e| e.to_string()))) {
        Ok(Ok(())) => {
            for (_, b) in read_logs(&target.join("wal")) {
                t.walk(&b);
            }
            // open_in_memory on an untouched copy of the saved directory
            copy_dir(&target, &target2);
            let tp2 = target2.clone();
            oim = match catch(move || GrafeoDB::open_in_memory(&tp2).map(|d| observe_copy(&d)).map_err(|e| e.to_string())) {
                Ok(Ok(o)) => o,
                Ok(Err(e)) => CopyObs::Err(e),
                Err(m) => CopyObs::Panic(m),
            };
            let tp = target.clone();
            match catch(move || GrafeoDB::open(&tp).map(|d| observe_copy(&d)).map_err(|e| e.to_string())) {
                Ok(Ok(o)) => o,
                Ok(Err(e)) => CopyObs::Err(e),
                Err(m) => CopyObs::Panic(m),
            }
        }
        Ok(Err(e)) => CopyObs::Err(e),
        Err(m) => CopyObs::Panic(m),
    };
    sc.done(&dir);
    let decs: Vec<(Vec<u8>, String)> = t.dec.drain(..).collect();
    for (b, term) in decs {
        t.enc.push((term, b));
    }
    for tx in 1..4u64 {
        t.add_rec(&WalRecord::TxCommit { tx_id: TxId::new(tx) });
        t.add_rec(&WalRecord::Checkpoint { tx_id: TxId::new(tx) });
    }
    let src_cur = dump_cur(&db);
    let src_lat = dump_lat(&db);
    let ops_t = coq::list(ops.iter().map(op_term));
    for o in &ops {
        tags.push(op_kind(o).into());
    }
    tags.sort();
    tags.dedup();
    let deleted = ops.iter().any(|o| matches!(o, Op::DeleteNode(_) | Op::DeleteEdge(_)));
    if deleted {
        tags.push("has-deletes".into());
    }
    let mut c = Case {
        kind: "snap".into(),
        input: format!("[{}]", ops.iter().map(op_short).collect::<Vec<_>>().join("; ")),
        coq: Some(format!(
            "chk_export_bytes {} {} && chk_snap {} {} {} {} {} {} {} {} {} {}",
            snap_term(&sn),
            bts(&b1),
            t.term(),
            cfg_term(Mode::Batch { maxr: 1000, delay0: false }, ENGINE_MAX),
            ops_t,
            dump_term(&src_cur),
            dump_term(&src_lat),
            snap_term(&sn),
            copy_term(&imp),
            copy_term(&mem),
            copy_term(&sav),
            copy_term(&oim)
        )),
        show: Some(format!("(snapshot_of (fst (run_store {})), dump (fst (run_store {})) latest)", ops_t, ops_t)),
        imp: format!("source={} snapshot={}n/{}e import={} to_memory={} save+open={} open_in_memory={}", dump_short(&src_lat), sn.nodes.len(), sn.edges.len(), copy_short(&imp), copy_short(&mem), copy_short(&sav), copy_short(&oim)),
        nontrivial: src_lat.nodes.len() + src_lat.edges.len() >= 2,
        tags,
        ..Default::default()
    };
    let same = |o: &CopyObs| matches!(o, CopyObs::Ok(_, l, _, _) if *l == src_lat);
    let fresh_ids = |o: &CopyObs| match o {
        CopyObs::Ok(_, l, nn, ne) => l.nodes.iter().all(|n| n.0 < *nn) && l.edges.iter().all(|e| e.0 < *ne),
        _ => false,
    };
    if b1 != b2 {
        c.oracle = Oracle::Fail;
        c.msg = "two exports of the same database differ".into();
    } else if before != src_lat {
        c.oracle = Oracle::Fail;
        c.msg = "export/to_memory/save changed the source".into();
    } else if same(&imp) && same(&mem) && same(&sav) && same(&oim) && fresh_ids(&imp) && fresh_ids(&mem) && fresh_ids(&sav) && fresh_ids(&oim) {
        c.oracle = Oracle::Ok;
    } else {
        c.oracle = Oracle::Fail;
        c.msg = "a copy (import of the export / to_memory / save+open / open_in_memory of the saved directory) differs from the source".into();
        c.kid = Some("C07-K1".into());
        c.kcoq = Some(format!("kc07_1 {}", ops_t));
    }
    (c, b1)
}
/// What one `import_snapshot` call does, observed from outside: the call runs in a child process
/// (`c05 --import-child`, bytes on stdin) because a byte string with a huge length prefix makes
/// the decoder allocate until the process is aborted, which no `catch_unwind` can see.
struct ImportObs {
    /// Coq term of the observation (cobs)
    term: String,
    short: String,
    /// Coq term of what the real decoder made of the bytes: option (snapshot * nat)
    dt: String,
    kind: char, // 'O'k 'E'rr 'P'anic 'A'bort
    decoded: bool,
    version: u64,
    consumed: usize,
    max_id: bool,
    /// (nodes, edges) in the imported database; distinct ids named by the snapshot
    built: (usize, usize),
    named: (usize, usize),
}
fn import_child_main() {
    use std::io::Read as _;
    use std::io::Write as _;
    let mut bytes = vec![];
    std::io::stdin().read_to_end(&mut bytes).expect("stdin");
    quiet_panics();
    // the implementation first; its observation is flushed before the harness decodes the bytes
    // itself (the harness decoder has no limit either and may be the one that is aborted)
    let obs = import_obs(&bytes);
    let (kind, built) = match &obs {
        CopyObs::Ok(_, l, _, _) => ('O', (l.nodes.len(), l.edges.len())),
        CopyObs::Err(_) => ('E', (0, 0)),
        CopyObs::Panic(_) => ('P', (0, 0)),
        CopyObs::Abort(_) => ('A', (0, 0)),
    };
    println!("{} {} {}", kind, built.0, built.1);
    println!("{}", copy_term(&obs));
    println!("{}", copy_short(&obs).replace('\n', " "));
    let _ = std::io::stdout().flush();
    let dec = snap_decode(&bytes);
    let dt = match &dec {
        Some((s, n)) => format!("(Some ({}, ({})%nat))", snap_term(s), n),
        None => "None".into(),
    };
    let (decoded, version, consumed, max_id, named) = match &dec {
        Some((sn, n)) => {
            let mut ids: Vec<u64> = sn.nodes.iter().map(|n| n.id.as_u64()).collect();
            ids.sort();
            ids.dedup();
            let mut eids: Vec<u64> = sn.edges.iter().map(|e| e.id.as_u64()).collect();
            eids.sort();
            eids.dedup();
            let mx = sn.nodes.iter().any(|n| n.id.as_u64() == u64::MAX) || sn.edges.iter().any(|e| e.id.as_u64() == u64::MAX);
            (true, sn.version as u64, *n, mx, (ids.len(), eids.len()))
        }
        None => (false, 0, 0, false, (0, 0)),
    };
    println!("{}", dt);
    println!("{} {} {} {} {} {}", decoded, version, consumed, max_id, named.0, named.1);
}
fn import_outside(bytes: &[u8]) -> ImportObs {
    use std::io::Write as _;
    use std::process::{Command, Stdio};
    let exe = std::env::current_exe().expect("current_exe");
    let mut ch = Command::new(exe).arg("--import-child").stdin(Stdio::piped()).stdout(Stdio::piped()).stderr(Stdio::piped()).spawn().expect("spawn import child");
    {
        let mut si = ch.stdin.take().expect("child stdin");
        let _ = si.write_all(bytes);
    }
    let out = ch.wait_with_output().expect("child output");
    let so = String::from_utf8_lossy(&out.stdout).to_string();
    let lines: Vec<&str> = so.lines().collect();
    if lines.len() < 3 {
        // the process died inside import_snapshot
        let se = String::from_utf8_lossy(&out.stderr);
        let first = se.lines().next().unwrap_or("").to_string();
        let o = CopyObs::Abort(format!("{:?}: {}", out.status, first));
        return ImportObs { term: copy_term(&o), short: copy_short(&o), dt: "None".into(), kind: 'A', decoded: false, version: 0, consumed: 0, max_id: false, built: (0, 0), named: (0, 0) };
    }
    let k: Vec<&str> = lines[0].split(' ').collect();
    let mut r = ImportObs {
        term: lines[1].to_string(),
        short: lines[2].to_string(),
        dt: "None".into(),
        kind: k[0].chars().next().unwrap_or('A'),
        decoded: false,
        version: 0,
        consumed: 0,
        max_id: false,
        built: (k[1].parse().unwrap_or(0), k[2].parse().unwrap_or(0)),
        named: (0, 0),
    };
    // (if the child died after the observation it was the harness's own unlimited decoder: the bytes do not decode)
    if lines.len() >= 5 {
        let f: Vec<&str> = lines[4].split(' ').collect();
        r.dt = lines[3].to_string();
        r.decoded = f[0] == "true";
        r.version = f[1].parse().unwrap_or(0);
        r.consumed = f[2].parse().unwrap_or(0);
        r.max_id = f[3] == "true";
        r.named = (f[4].parse().unwrap_or(0), f[5].parse().unwrap_or(0));
    }
    r
}
/// the same observation made in this process: only for byte strings without a 32/64-bit length
/// marker (0xfc, 0xfd), which cannot announce more than 65535 elements
fn import_inside(bytes: &[u8]) -> ImportObs {
    let obs = import_obs(bytes);
    let (kind, built) = match &obs {
        CopyObs::Ok(_, l, _, _) => ('O', (l.nodes.len(), l.edges.len())),
        CopyObs::Err(_) => ('E', (0, 0)),
        CopyObs::Panic(_) => ('P', (0, 0)),
        CopyObs::Abort(_) => ('A', (0, 0)),
    };
    let dec = snap_decode(bytes);
    let dt = match &dec {
        Some((s, n)) => format!("(Some ({}, ({})%nat))", snap_term(s), n),
        None => "None".into(),
    };
    let (decoded, version, consumed, max_id, named) = match &dec {
        Some((sn, n)) => {
            let mut ids: Vec<u64> = sn.nodes.iter().map(|n| n.id.as_u64()).collect();
            ids.sort();
            ids.dedup();
            let mut eids: Vec<u64> = sn.edges.iter().map(|e| e.id.as_u64()).collect();
            eids.sort();
            eids.dedup();
            let mx = sn.nodes.iter().any(|n| n.id.as_u64() == u64::MAX) || sn.edges.iter().any(|e| e.id.as_u64() == u64::MAX);
            (true, sn.version as u64, *n, mx, (ids.len(), eids.len()))
        }
        None => (false, 0, 0, false, (0, 0)),
    };
    ImportObs { term: copy_term(&obs), short: copy_short(&obs), dt, kind, decoded, version, consumed, max_id, built, named }
}
fn case_import(bytes: &[u8], what: &str, mut tags: Vec<String>, valid_len: usize) -> Case {
    let outside = bytes.iter().any(|b| *b == 0xfc || *b == 0xfd);
    tags.push(if outside { "import:child-process".into() } else { "import:in-process".to_string() });
    let o = if outside { import_outside(bytes) } else { import_inside(bytes) };
    let mut c = Case {
        kind: "snap_bytes".into(),
        input: format!("{} ({} bytes) = {:02x?}", what, bytes.len(), &bytes[..bytes.len().min(48)]),
        coq: Some(format!("chk_import_bytes {} {} {}", bts(bytes), o.dt, o.term)),
        imp: o.short.clone(),
        nontrivial: true,
        tags,
        ..Default::default()
    };
    match o.kind {
        'A' => {
            c.oracle = Oracle::Fail;
            c.msg = format!("import_snapshot takes the whole process down: {}", o.short);
            c.kid = Some("C07-K4".into());
            c.kcoq = Some(format!("kc07_4 {}", bts(bytes)));
            c.tags.push("outcome:abort".into());
        }
        'P' => {
            c.oracle = Oracle::Fail;
            c.msg = format!("import_snapshot panics: {}", o.short);
            if o.decoded && o.max_id {
                c.kid = Some("C07-K3".into());
                c.kcoq = Some(format!("kc07_3 {}", bts(bytes)));
            }
            c.tags.push("outcome:panic".into());
        }
        'O' if o.decoded && o.consumed < bytes.len() => {
            c.oracle = Oracle::Fail;
            c.msg = format!("import accepts {} bytes of which only {} are a snapshot", bytes.len(), o.consumed);
            c.kid = Some("C07-K2".into());
            c.kcoq = Some(format!("kc07_2 {}", bts(bytes)));
            c.tags.push("outcome:ok".into());
        }
        'O' if !o.decoded => {
            c.oracle = Oracle::Fail;
            c.msg = "import accepts bytes that do not decode as a snapshot".into();
        }
        'O' if o.version != 1 => {
            c.oracle = Oracle::Fail;
            c.msg = format!("import accepts a snapshot of version {}", o.version);
        }
        'O' if o.built != o.named => {
            c.oracle = Oracle::Fail;
            c.msg = format!("import built {} nodes / {} edges from a snapshot naming {} / {}", o.built.0, o.built.1, o.named.0, o.named.1);
        }
        'O' => {
            c.oracle = Oracle::Ok;
            c.tags.push("outcome:ok".into());
        }
        _ => {
            c.oracle = Oracle::Ok;
            c.tags.push("outcome:error".into());
        }
    }
    let _ = valid_len;
    c
}
fn cases_snap_bytes(r: &mut Rng, out: &mut Out, b: &[u8], thorough: bool) {
    for n in 0..b.len() {
        out.emit(&case_import(&b[..n], &format!("truncation to {}", n), vec!["bytes:truncated".into()], b.len()));
    }
    out.emit(&case_import(b, "valid snapshot", vec!["bytes:valid".into()], b.len()));
    let nflips = if thorough && b.len() <= 200 { b.len() * 8 } else if thorough { 600 } else { 96 };
    for k in 0..nflips {
        let (pos, bit) = if nflips == b.len() * 8 { (k / 8, (k % 8) as u32) } else { (r.below(b.len() as u64) as usize, r.below(8) as u32) };
        out.emit(&case_import(&flip(b, pos, bit), &format!("flip bit {} of byte {}", bit, pos), vec!["bytes:bitflip".into()], b.len()));
    }
    for junk in [vec![0u8], vec![0xff], vec![1, 2, 3, 4, 5, 6, 7, 8, 9]] {
        let mut v = b.to_vec();
        v.extend(&junk);
        out.emit(&case_import(&v, &format!("valid snapshot + {} trailing byte(s)", junk.len()), vec!["bytes:trailing".into()], b.len()));
    }
    for ver in [0u8, 2, 255] {
        let mut v = b.to_vec();
        v[0] = ver;
        out.emit(&case_import(&v, &format!("version byte {}", ver), vec!["bytes:version".into()], b.len()));
    }
    for _ in 0..(if thorough { 200 } else { 40 }) {
        let n = r.below(24) as usize;
        let v: Vec<u8> = (0..n).map(|_| if r.chance(1, 3) { 1 } else { r.next() as u8 }).collect();
        out.emit(&case_import(&v, "random bytes", vec!["bytes:random".into()], 0));
    }
}

// ------------------------------------------------------------------------------------------
// streams
// ------------------------------------------------------------------------------------------
fn l(v: &[&str]) -> Vec<String> {
    v.iter().map(|s| s.to_string()).collect()
}
fn int(v: i64) -> Value {
    Value::Int64(v)
}
fn corpus_c05(sc: &mut Scratch, out: &mut Out) {
    let t = |x: &str| vec!["corpus".to_string(), x.to_string()];
    // clean: several cycles, every logged operation kind, a harmless checkpoint right after open
    let clean = vec![
        (
            vec![
                Op::CreateNodeProps(l(&["Person", "A"]), vec![("name".into(), Value::String("Alix".into())), ("k".into(), Value::Float64(f64::NAN))]),
                Op::CreateNode(l(&["B"])),
                Op::CreateEdgeProps(0, 1, "KNOWS".into(), vec![("w".into(), int(i64::MIN))]),
                Op::AddLabel(1, "L2".into()),
                Op::SetNodeProp(1, "".into(), Value::String("".into())),
            ],
            End::Close,
        ),
        (vec![Op::Checkpoint, Op::DeleteNode(0), Op::RemoveLabel(1, "B".into()), Op::CreateNode(l(&[])), Op::SetEdgeProp(0, "k".into(), Value::List(vec![int(1), Value::Null].into())), Op::Sync], End::Close),
        (vec![Op::DeleteEdge(0), Op::CreateEdge(2, 1, "t".into()), Op::CreateNode(l(&["A"]))], End::Close),
    ];
    cases_history("C05", sc, out, Mode::Sync, &clean, t("clean"), false);
    // K1: explicit checkpoint while records are pending
    cases_history("C05", sc, out, Mode::Sync, &[(vec![Op::CreateNode(l(&["A"])), Op::Checkpoint, Op::CreateNode(l(&["B"]))], End::Close)], t("witness:K1"), false);
    // K2: property removal is not logged
    cases_history("C05", sc, out, Mode::NoSync, &[(vec![Op::CreateNodeProps(l(&["A"]), vec![("k".into(), int(1))]), Op::RemoveNodeProp(0, "k".into())], End::Close)], t("witness:K2"), false);
    // K3: session mutations are not logged
    cases_history("C05", sc, out, Mode::Sync, &[(vec![Op::CreateNode(l(&["A"])), Op::SessNode(l(&["B"]), vec![], false)], End::Close)], t("witness:K3"), false);
    cases_history("C05", sc, out, Mode::Sync, &[(vec![Op::CreateNode(l(&["A"])), Op::SessNode(l(&["Q"]), vec![("k".into(), int(5))], true)], End::Close)], t("witness:K3"), false);
    cases_history("C05", sc, out, Mode::Sync, &[(vec![Op::CreateNode(l(&["A"])), Op::SessTxNode(l(&["B"]))], End::Close)], t("witness:K3"), false);
    // K4: rotation, then close
    cases_history("C05", sc, out, Mode::Sync, &[(vec![Op::CreateNode(l(&["A"]))], End::Close), (vec![Op::Rotate, Op::CreateNode(l(&["B"]))], End::Close)], t("witness:K4"), false);
}
fn corpus_c06(sc: &mut Scratch, out: &mut Out) {
    let t = |x: &str| vec!["corpus".to_string(), x.to_string()];
    // K1: fsynced but never committed
    cases_history("C06", sc, out, Mode::Sync, &[(vec![Op::CreateNode(l(&["A"])), Op::SetNodeProp(0, "k".into(), int(1)), Op::Sync], End::Crash(CutSpec::Full))], t("witness:K1"), false);
    // K2: torn tail, then more writes and a clean close
    cases_history(
        "C06",
        sc,
        out,
        Mode::NoSync,
        &[(vec![Op::CreateNode(l(&["A"]))], End::Close), (vec![Op::CreateNode(l(&["B"])), Op::CreateNode(l(&["Person"]))], End::Crash(CutSpec::Inside(0))), (vec![Op::CreateNode(l(&["L2"]))], End::Close)],
        t("witness:K2"),
        false,
    );
    // the witness of the repaired K2 proper: the torn record is the only uncommitted one (Coq: w06_2p)
    cases_history(
        "C06",
        sc,
        out,
        Mode::NoSync,
        &[(vec![Op::CreateNode(l(&["A"]))], End::Close), (vec![Op::CreateNode(l(&["B"]))], End::Crash(CutSpec::Inside(0))), (vec![Op::CreateNode(l(&["L2"]))], End::Close)],
        t("fixed:K2"),
        false,
    );
    // a crash that leaves 1, 2 or 3 bytes of a record's length prefix: the recovered database must
    // keep what is written to it afterwards (the stray bytes are cut off when the log is opened).
    //  (a) the only record of the session; (b) the first of two (an earlier record: everything
    //  behind it is cut away as well); (c) the last of two (the intact first one is class K5 material)
    for n in 1..=3usize {
        for mode in [Mode::NoSync, Mode::Sync] {
            cases_history(
                "C06",
                sc,
                out,
                mode,
                &[(vec![Op::CreateNode(l(&["A"]))], End::Close), (vec![Op::CreateNode(l(&["B"]))], End::Crash(CutSpec::LenPrefix(0, n))), (vec![Op::CreateNode(l(&["L2"])), Op::SetNodeProp(0, "k".into(), int(1))], End::Close)],
                t("cut:length-prefix-last"),
                false,
            );
        }
        cases_history(
            "C06",
            sc,
            out,
            Mode::NoSync,
            &[(vec![Op::CreateNode(l(&["A"]))], End::Close), (vec![Op::CreateNode(l(&["B"])), Op::CreateNode(l(&["Person"]))], End::Crash(CutSpec::LenPrefix(1, n))), (vec![Op::CreateNode(l(&["L2"]))], End::Close), (vec![Op::CreateNode(l(&["A", "B"]))], End::Close)],
            t("cut:length-prefix-earlier"),
            false,
        );
        cases_history(
            "C06",
            sc,
            out,
            Mode::NoSync,
            &[(vec![Op::CreateNode(l(&["A"]))], End::Close), (vec![Op::CreateNode(l(&["B"])), Op::CreateNode(l(&["Person"]))], End::Crash(CutSpec::LenPrefix(0, n))), (vec![Op::CreateNode(l(&["L2"]))], End::Close)],
            t("cut:length-prefix-last-of-two"),
            false,
        );
        // a fresh database that never closed: the very first record is torn in its length prefix
        cases_history("C06", sc, out, Mode::NoSync, &[(vec![Op::CreateNode(l(&["A"]))], End::Crash(CutSpec::LenPrefix(0, n))), (vec![Op::CreateNode(l(&["B"]))], End::Close)], t("cut:length-prefix-first-ever"), false);
    }
    // K5: intact uncommitted records are committed by the next close
    cases_history(
        "C06",
        sc,
        out,
        Mode::NoSync,
        &[(vec![Op::CreateNode(l(&["A"]))], End::Close), (vec![Op::CreateNode(l(&["B"])), Op::CreateNode(l(&["Person"]))], End::Crash(CutSpec::Full)), (vec![Op::CreateNode(l(&["L2"]))], End::Close)],
        t("witness:K5"),
        false,
    );
    // no crash damage at all: crash right after a clean close is harmless
    cases_history("C06", sc, out, Mode::Sync, &[(vec![Op::CreateNode(l(&["A"]))], End::Close), (vec![], End::Crash(CutSpec::Full)), (vec![Op::CreateNode(l(&["B"]))], End::Close)], t("clean"), false);
    // K3: a damaged record in a non-final file, later file still applied
    {
        let a = WalRecord::CreateNode { id: NodeId::new(0), labels: l(&["A"]) };
        let b = WalRecord::CreateNode { id: NodeId::new(1), labels: l(&["B"]) };
        let c = WalRecord::CreateNode { id: NodeId::new(2), labels: l(&["Person"]) };
        let tc = WalRecord::TxCommit { tx_id: TxId::new(2) };
        let mut f0 = enc_frame(&a);
        f0.extend(enc_frame(&b));
        let mut f1 = enc_frame(&c);
        f1.extend(enc_frame(&tc));
        let orig = vec![(0u64, f0.clone()), (1u64, f1.clone())];
        let logged = vec![a.clone(), b.clone(), c.clone(), tc.clone()];
        let mut tb = Tabs::default();
        for x in &logged {
            tb.add_rec(x);
        }
        let mut prefixes: Vec<Vec<String>> = (0..=logged.len()).map(|k| committed(&logged[..k])).collect();
        prefixes.dedup();
        let mut cut = f0.clone();
        cut.truncate(f0.len() - 3);
        let img = Image { files: vec![(0, cut), (1, f1.clone())], meta: None, tmp: false, what: "file #0 cut inside its last record, file #1 intact".into(), tags: t("witness:K3") };
        out.emit(&case_image(sc, &tb, &orig, &img, &prefixes, true));
        let img = Image { files: orig.clone(), meta: None, tmp: false, what: "both files intact".into(), tags: t("clean") };
        out.emit(&case_image(sc, &tb, &orig, &img, &prefixes, true));
    }
}
fn corpus_c07(sc: &mut Scratch, out: &mut Out, r: &mut Rng) {
    let t = |x: &str| vec!["corpus".to_string(), x.to_string()];
    // clean: deleted entities, sparse ids, every value kind
    let ops = vec![
        Op::CreateNodeProps(l(&["Person"]), vec![("name".into(), Value::String("".into())), ("f".into(), Value::Float64(f64::from_bits(0x7ff8_0000_0000_0001))), ("v".into(), Value::Vector(Vec::<f32>::new().into()))]),
        Op::CreateNode(l(&["A", "B"])),
        Op::CreateNode(l(&[])),
        Op::DeleteNode(1),
        Op::CreateEdgeProps(0, 2, "R".into(), vec![("m".into(), Value::List(vec![Value::List(vec![int(1)].into()), Value::Null].into()))]),
        Op::CreateEdge(2, 0, "".into()),
        Op::DeleteEdge(1),
    ];
    let (c, b) = case_snap(sc, &ops, t("clean"));
    out.emit(&c);
    cases_snap_bytes(r, out, &b, false);
    // a snapshot naming the largest id
    {
        let sm = SnapMirror { version: 1, nodes: vec![SnapNode { id: NodeId::new(u64::MAX), labels: l(&["A"]), properties: vec![] }], edges: vec![] };
        let bytes = bincode::serde::encode_to_vec(&sm, bincode::config::standard()).unwrap();
        out.emit(&case_import(&bytes, "snapshot with node id u64::MAX", t("id:max"), bytes.len()));
        let sm = SnapMirror { version: 1, nodes: vec![SnapNode { id: NodeId::new(u64::MAX - 1), labels: l(&["A"]), properties: vec![] }], edges: vec![] };
        let bytes = bincode::serde::encode_to_vec(&sm, bincode::config::standard()).unwrap();
        out.emit(&case_import(&bytes, "snapshot with node id u64::MAX-1", t("id:max-1"), bytes.len()));
    }
    // K4: a 13-byte string whose first label announces 2^63-1 bytes
    {
        let bytes: Vec<u8> = vec![1, 1, 0, 1, 253, 0xff, 0xff, 0xff, 0xff, 0xff, 0xff, 0xff, 0x7f];
        out.emit(&case_import(&bytes, "label length prefix 2^63-1", t("witness:K4"), 0));
        // and one that merely announces more than there is (4 GiB): an error, not an abort
        let bytes: Vec<u8> = vec![1, 1, 0, 1, 252, 0xff, 0xff, 0xff, 0xff];
        out.emit(&case_import(&bytes, "label length prefix 2^32-1", t("length:4GiB"), 0));
    }
    // K1: a node created after the first commit
    let (c, _) = case_snap(sc, &[Op::CreateNode(l(&["A"])), Op::SessTxNode(l(&["B"])), Op::SessNode(l(&["Person"]), vec![], false)], t("witness:K1"));
    out.emit(&c);
}
fn main() {
    if std::env::args().any(|x| x == "--import-child") {
        import_child_main();
        return;
    }
    let a = parse_args();
    quiet_panics();
    let mut prop = "C05".to_string();
    let mut it = a.rest.iter();
    while let Some(x) = it.next() {
        if x == "--prop" {
            prop = it.next().cloned().unwrap_or(prop);
        }
    }
    let thorough = a.tier == "thorough";
    let mut out = Out::create(a.out.as_deref());
    let mut rng = Rng::new(a.seed ^ (prop.as_bytes()[2] as u64) << 32);
    let mut sc = Scratch::new(&prop);
    match prop.as_str() {
        "C05" => {
            corpus_c05(&mut sc, &mut out);
            for i in 0..a.cases {
                let mut r = rng.fork();
                let mut tags = vec![];
                let mode = Mode::random(&mut r);
                let clean = i % 2 == 0;
                let al = if clean { Allow::default() } else { Allow { cp: r.chance(1, 2), rm: r.chance(1, 2), sess: r.chance(1, 3), rot: r.chance(1, 4) } };
                tags.push(if clean { "hist:clean-generator".to_string() } else { "hist:with-finding-events".to_string() });
                let ns = 1 + r.below(3) as usize;
                let mut g = GenState { nodes: 0, edges: 0 };
                let ss: Vec<(Vec<Op>, End)> = (0..ns).map(|_| (gen_session(&mut r, &mut g, al, &mut tags), End::Close)).collect();
                cases_history("C05", &mut sc, &mut out, mode, &ss, tags, false);
            }
            for _ in 0..a.cases / 2 {
                let mut r = rng.fork();
                let mut tags = vec![];
                let mode = Mode::random(&mut r);
                let max = *r.pick(&[100u64, 160, 300, 1000, ENGINE_MAX]);
                let ops = gen_wops(&mut r, &mut tags, true);
                let c = case_wal("C05", &mut sc, mode, max, &ops, tags, "wal_ops");
                out.emit(&c);
            }
        }
        "C06" => {
            corpus_c06(&mut sc, &mut out);
            // (i) writer bytes in every mode, with rotation
            for i in 0..a.cases / 2 {
                let mut r = rng.fork();
                let mut tags = vec![];
                let mode = Mode::random(&mut r);
                let mut max = *r.pick(&[64u64, 100, 160, 300, 9000, ENGINE_MAX]);
                let mut ops = gen_wops(&mut r, &mut tags, i != 0);
                if i == 0 {
                    max = ENGINE_MAX;
                    // one record longer than 64 KiB: the length prefix is a full u32
                    ops.insert(0, WOp::Log(WalRecord::SetNodeProperty { id: NodeId::new(2), key: "big".into(), value: Value::String("z".repeat(66_000).as_str().into()) }));
                    ops.insert(1, WOp::Log(WalRecord::TxCommit { tx_id: TxId::new(2) }));
                    tags.push("record>64KiB".into());
                }
                if r.chance(1, 10) {
                    // more than the BufWriter holds
                    for _ in 0..6 {
                        ops.push(WOp::Log(WalRecord::SetNodeProperty { id: NodeId::new(1), key: "k".into(), value: Value::String("y".repeat(1500 + r.below(2000) as usize).as_str().into()) }));
                    }
                    tags.push("bufwriter-overflow".into());
                }
                let c = case_wal("C06", &mut sc, mode, max, &ops, tags, "wal_ops");
                out.emit(&c);
            }
            // (ii) crash images
            let mut budget = if thorough { a.cases * 12 } else { a.cases * 2 };
            let mut rounds = 0;
            while budget > 0 && rounds < a.cases {
                let mut r = rng.fork();
                images_of(&mut r, &mut sc, &mut out, thorough, &mut budget);
                rounds += 1;
            }
            // (iii) crash, reopen, more writes, close, reopen
            for i in 0..a.cases / 2 {
                let mut r = rng.fork();
                let mut tags = vec![];
                let mode = Mode::random(&mut r);
                let al = Allow::default();
                let mut g = GenState { nodes: 0, edges: 0 };
                let pre = r.below(2) as usize;
                let mut ss: Vec<(Vec<Op>, End)> = (0..pre).map(|_| (gen_session(&mut r, &mut g, al, &mut tags), End::Close)).collect();
                let spec = match (i % 6, r.below(3) as usize) {
                    (5, j) => CutSpec::LenPrefix(j, 1 + r.below(3) as usize),
                    (0, _) => CutSpec::Full,
                    (1, j) => CutSpec::Inside(j),
                    (2, j) => CutSpec::Boundary(j),
                    (3, _) => CutSpec::At(r.below(400) as usize),
                    (_, j) => CutSpec::Inside(j),
                };
                ss.push((gen_session(&mut r, &mut g, al, &mut tags), End::Crash(spec)));
                // ids of the lost operations are handed out again: restart the id bookkeeping loosely
                for _ in 0..1 + r.below(2) {
                    // after a crash, uncommitted CreateEdge records can come back beside edges that reuse
                    // their ids (finding K5); the adjacency lists then hold an id twice and the order in which
                    // delete_node cascades over them is not modelled: no delete_node in these sessions
                    let sess: Vec<Op> = gen_session(&mut r, &mut g, al, &mut tags).into_iter().filter(|o| !matches!(o, Op::DeleteNode(_))).collect();
                    ss.push((sess, End::Close));
                }
                cases_history("C06", &mut sc, &mut out, mode, &ss, tags, false);
            }
        }
        _ => {
            corpus_c07(&mut sc, &mut out, &mut rng);
            let mut kept: Vec<Vec<u8>> = vec![];
            for i in 0..a.cases {
                let mut r = rng.fork();
                let mut tags = vec![];
                let clean = i % 3 != 0;
                let al = if clean { Allow { rm: true, ..Default::default() } } else { Allow { rm: true, sess: true, ..Default::default() } };
                tags.push(if clean { "hist:clean-generator".to_string() } else { "hist:with-session-ops".to_string() });
                let mut g = GenState { nodes: 0, edges: 0 };
                let mut ops = gen_session(&mut r, &mut g, al, &mut tags);
                ops.extend(gen_session(&mut r, &mut g, al, &mut tags));
                let (c, b) = case_snap(&mut sc, &ops, tags);
                out.emit(&c);
                if b.len() > 30 && b.len() < 260 && kept.len() < (if thorough { 4 } else { 2 }) && i % 7 == 3 {
                    kept.push(b);
                }
            }
            for b in kept {
                let mut r = rng.fork();
                cases_snap_bytes(&mut r, &mut out, &b, thorough);
            }
        }
    }
    if prop != "C07" {
        let mut r = rng.fork();
        cases_codec_rec(&mut r, &mut out, if thorough { a.cases * 2 } else { a.cases / 2 + 64 });
    }
    emit_codec_tabs(&mut out);
    out.finish();
}
