//! C12 — no query text can crash or hang the embedding process.
//!
//! Three kinds of cases are emitted:
//!  * correspondence of the five lexers with the cursor models of GV.Lex.Cursor (token classes and
//!    spans, or Panic), and of the filter arithmetic / index arithmetic with GV.Lex.Arith;
//!  * search/oracle: every generated string (and parameter map) goes through `parse`,
//!    `translate_*` and `Session::execute*` of all five front ends on an empty and a populated
//!    database.  The implementation runs in *worker child processes* of this very binary
//!    (`--worker`), so that a panic (caught), a hang (2 s watchdog, the worker is killed), a stack
//!    overflow (SIGABRT of the worker) and memory exhaustion (address-space limit of the worker)
//!    are all observable and none of them takes the harness down;
//!  * nesting-depth probes (`nest` cases): per language and nesting construct, the depth at which
//!    the worker aborts with a stack overflow is searched by doubling + bisection.
use grafeo_common::types::Value;
use grafeo_engine::GrafeoDB;
use gv_harness::*;
use std::collections::HashMap;
use std::io::{BufRead, BufReader, Write};
use std::process::{Child, ChildStdin, Command, Stdio};
use std::sync::mpsc;
use std::time::{Duration, Instant};

// ------------------------------------------------------------------------------------------
// languages
// ------------------------------------------------------------------------------------------

const LANGS: [&str; 5] = ["gql", "cypher", "sparql", "gremlin", "graphql"];

fn parse_only(lang: &str, q: &str) -> Result<(), String> {
    use grafeo_adapters::query as aq;
    match lang {
        "gql" => aq::gql::parse(q).map(|_| ()).map_err(|e| e.to_string()),
        "cypher" => aq::cypher::parse(q).map(|_| ()).map_err(|e| e.to_string()),
        "sparql" => aq::sparql::parse(q).map(|_| ()).map_err(|e| e.to_string()),
        "gremlin" => aq::gremlin::parse(q).map(|_| ()).map_err(|e| e.to_string()),
        "graphql" => aq::graphql::parse(q).map(|_| ()).map_err(|e| e.to_string()),
        _ => Err("unknown language".into()),
    }
}

fn translate_only(lang: &str, q: &str) -> Result<(), String> {
    use grafeo_engine::query as eq;
    match lang {
        "gql" => eq::translate_gql(q).map(|_| ()).map_err(|e| e.to_string()),
        "cypher" => eq::translate_cypher(q).map(|_| ()).map_err(|e| e.to_string()),
        "sparql" => eq::translate_sparql(q).map(|_| ()).map_err(|e| e.to_string()),
        "gremlin" => eq::translate_gremlin(q).map(|_| ()).map_err(|e| e.to_string()),
        "graphql" => {
            let a = eq::translate_graphql(q).map(|_| ()).map_err(|e| e.to_string());
            let _ = eq::translate_graphql_rdf(q, "http://e/").map(|_| ());
            a
        }
        _ => Err("unknown language".into()),
    }
}

fn populated() -> GrafeoDB {
    let db = GrafeoDB::new_in_memory();
    let mut ids = vec![];
    for i in 0..6i64 {
        let n = db.create_node(if i % 2 == 0 { &["Person"] } else { &["Person", "User"] });
        db.set_node_property(n, "name", Value::String(if i == 3 { "Zoë €𝄞".to_string() } else { format!("p{}", i) }.into()));
        db.set_node_property(n, "age", Value::Int64(20 + i));
        db.set_node_property(n, "big", Value::Int64(if i % 2 == 0 { i64::MAX } else { i64::MIN }));
        db.set_node_property(n, "zero", Value::Int64(0));
        db.set_node_property(n, "neg1", Value::Int64(-1));
        db.set_node_property(n, "f", Value::Float64(if i == 0 { f64::NAN } else if i == 1 { f64::INFINITY } else { 0.5 * i as f64 }));
        db.set_node_property(n, "l", Value::List(vec![Value::Int64(1), Value::Int64(2), Value::Int64(3)].into()));
        db.set_node_property(n, "s", Value::String("héllo".into()));
        if i == 4 {
            db.set_node_property(n, "nul", Value::Null);
        }
        ids.push(n);
    }
    for i in 0..5 {
        let e = db.create_edge(ids[i], ids[i + 1], if i % 2 == 0 { "KNOWS" } else { "LIKES" });
        db.set_edge_property(e, "w", Value::Int64(i64::MAX - i as i64));
    }
    // a self loop on a node of its own (a cycle through the path would make unbounded
    // variable-length patterns enumerate exponentially many walks: slow, not a hang)
    let lp = db.create_node(&["Loop"]);
    db.create_edge(lp, lp, "KNOWS");
    {
        use grafeo_core::graph::rdf::{Term, Triple};
        let st = db.rdf_store();
        let i = |s: &str| Term::iri(format!("http://e/{}", s));
        let xsd_int = "http://www.w3.org/2001/XMLSchema#integer";
        for t in [
            Triple::new(i("a"), i("p"), i("b")),
            Triple::new(i("b"), i("p"), i("c")),
            Triple::new(i("c"), i("p"), i("a")),
            Triple::new(i("a"), i("q"), Term::literal("x")),
            Triple::new(i("b"), i("q"), Term::lang_literal("Zoë", "en")),
            Triple::new(i("a"), i("n"), Term::typed_literal("9223372036854775807", xsd_int)),
            Triple::new(i("b"), i("n"), Term::typed_literal("-9223372036854775808", xsd_int)),
            Triple::new(i("c"), i("n"), Term::typed_literal("0", xsd_int)),
            Triple::new(Term::blank("z"), i("p"), i("a")),
        ] {
            st.insert(t);
        }
    }
    db
}

fn execute(lang: &str, pop: bool, q: &str, params: Option<HashMap<String, Value>>) -> Result<usize, String> {
    let db = if pop { populated() } else { GrafeoDB::new_in_memory() };
    let s = db.session();
    let r = match (lang, params) {
        ("gql", None) => s.execute(q),
        ("gql", Some(p)) => s.execute_with_params(q, p),
        ("cypher", None) => s.execute_cypher(q),
        ("cypher", Some(p)) => db.execute_cypher_with_params(q, p),
        ("sparql", None) => s.execute_sparql(q),
        ("sparql", Some(p)) => s.execute_sparql_with_params(q, p),
        ("gremlin", None) => s.execute_gremlin(q),
        ("gremlin", Some(p)) => s.execute_gremlin_with_params(q, p),
        ("graphql", None) => s.execute_graphql(q),
        ("graphql", Some(p)) => s.execute_graphql_with_params(q, p),
        _ => return Err("unknown language".into()),
    };
    match r {
        Ok(r) => {
            // walk the result so that lazily failing Display/Debug code runs too
            let mut n = 0usize;
            for row in &r.rows {
                for v in row {
                    n += format!("{:?}", v).len();
                }
            }
            Ok(r.rows.len() + (n & 0))
        }
        Err(e) => Err(e.to_string()),
    }
}

// ------------------------------------------------------------------------------------------
// parameter maps
// ------------------------------------------------------------------------------------------

/// Parameter maps are a function of a small index so that a job line stays short.
fn param_map(ix: u64) -> HashMap<String, Value> {
    let ints = [0, 1, -1, i64::MAX, i64::MIN, i64::MAX - 1, i64::MIN + 1, 1 << 53, 42];
    let vals: Vec<Value> = vec![
        Value::Int64(ints[(ix % 9) as usize]),
        Value::Int64(ints[((ix / 9) % 9) as usize]),
        Value::Null,
        Value::Bool(ix % 2 == 0),
        Value::Float64([0.0, -0.0, f64::NAN, f64::INFINITY, f64::MIN_POSITIVE, 1e308][(ix % 6) as usize]),
        Value::String(["", "a", "Zoë €𝄞", "\0", "'\"\\", "%_.*"][(ix % 6) as usize].into()),
        Value::List(vec![Value::Int64(ints[(ix % 9) as usize]), Value::Null, Value::String("é".into())].into()),
        Value::List(Vec::new().into()),
    ];
    let names = ["p", "q", "x", "name", "id", "min", "limit", "list"];
    let mut m = HashMap::new();
    for (k, n) in names.iter().enumerate() {
        m.insert(n.to_string(), vals[((ix as usize) + k * 3) % vals.len()].clone());
    }
    m
}

// ------------------------------------------------------------------------------------------
// worker (child process)
// ------------------------------------------------------------------------------------------

fn hex(s: &[u8]) -> String {
    let mut o = String::with_capacity(s.len() * 2);
    for b in s {
        o.push_str(&format!("{:02x}", b));
    }
    o
}
fn unhex(s: &str) -> Vec<u8> {
    (0..s.len() / 2).map(|i| u8::from_str_radix(&s[2 * i..2 * i + 2], 16).unwrap()).collect()
}

const ST_PARSE: u32 = 1;
const ST_TRANS: u32 = 2;
const ST_EXEC_E: u32 = 4;
const ST_EXEC_P: u32 = 8;
const ST_ALL: u32 = 15;
const STAGE_NAMES: [(u32, &str); 4] = [(ST_PARSE, "parse"), (ST_TRANS, "translate"), (ST_EXEC_E, "exec-empty"), (ST_EXEC_P, "exec-populated")];

/// job line: `<lang> <stage mask> <param index or -> <hex query>`; answer: one line
/// `R <stage>=<o|e|P:hexmsg> ...`
fn worker() {
    let stdin = std::io::stdin();
    let stdout = std::io::stdout();
    quiet_panics();
    for line in stdin.lock().lines() {
        let line = match line {
            Ok(l) => l,
            Err(_) => break,
        };
        let f: Vec<&str> = line.split(' ').collect();
        if f.len() != 4 {
            continue;
        }
        let lang = f[0].to_string();
        let mask: u32 = f[1].parse().unwrap_or(ST_ALL);
        let pix: Option<u64> = f[2].parse().ok();
        let q = String::from_utf8(unhex(f[3])).unwrap_or_default();
        let mut ans = String::from("R");
        for (bit, name) in STAGE_NAMES {
            if mask & bit == 0 {
                continue;
            }
            let (l2, q2) = (lang.clone(), q.clone());
            let r: Result<Result<(), String>, String> = catch(move || match bit {
                ST_PARSE => parse_only(&l2, &q2),
                ST_TRANS => translate_only(&l2, &q2),
                ST_EXEC_E => execute(&l2, false, &q2, pix.map(param_map)).map(|_| ()),
                _ => execute(&l2, true, &q2, pix.map(param_map)).map(|_| ()),
            });
            match r {
                Ok(Ok(())) => ans.push_str(&format!(" {}=o", name)),
                Ok(Err(_)) => ans.push_str(&format!(" {}=e", name)),
                Err(m) => ans.push_str(&format!(" {}=P:{}", name, hex(m.as_bytes()))),
            }
        }
        let mut o = stdout.lock();
        let _ = writeln!(o, "{}", ans);
        let _ = o.flush();
    }
}

#[derive(Clone, Debug, PartialEq)]
enum Outcome {
    /// every requested stage returned (Ok or Err)
    Returned,
    /// a stage panicked (caught): (stage, message)
    Panic(String, String),
    /// no answer although the worker has used the watchdog's CPU time on the job (or slept for the wall cap)
    Hang,
    /// the worker died (signal / abort): exit description
    Abort(String),
    /// not run: the run had already seen more than HANG_LIMIT hangs (it is a violation anyway; the
    /// remaining jobs are skipped so that the harness still finishes in time)
    Skipped,
}

struct Worker {
    child: Child,
    stdin: ChildStdin,
    rx: mpsc::Receiver<String>,
}

fn self_exe() -> String {
    std::env::current_exe().unwrap().to_string_lossy().to_string()
}

impl Worker {
    fn spawn() -> Worker {
        // address-space limit 4 GiB: a runaway allocation loop ends in an abort instead of
        // exhausting the machine
        let mut child = Command::new("sh")
            .arg("-c")
            .arg("ulimit -v 4194304; exec \"$0\" --worker")
            .arg(self_exe())
            .stdin(Stdio::piped())
            .stdout(Stdio::piped())
            .stderr(Stdio::null())
            .spawn()
            .expect("spawn worker");
        let stdin = child.stdin.take().unwrap();
        let stdout = child.stdout.take().unwrap();
        let (tx, rx) = mpsc::channel();
        std::thread::spawn(move || {
            let r = BufReader::new(stdout);
            for l in r.lines() {
                match l {
                    Ok(l) => {
                        if tx.send(l).is_err() {
                            break;
                        }
                    }
                    Err(_) => break,
                }
            }
        });
        Worker { child, stdin, rx }
    }
    fn kill(&mut self) {
        let _ = self.child.kill();
        let _ = self.child.wait();
    }
}

/// CPU time (user + system, all threads) of a process in clock ticks of 10 ms; 0 when it is gone
fn cpu_ticks(pid: u32) -> u64 {
    let Ok(t) = std::fs::read_to_string(format!("/proc/{}/stat", pid)) else { return 0 };
    let Some(i) = t.rfind(')') else { return 0 };
    let f: Vec<&str> = t[i + 1..].split_whitespace().collect();
    // after the command name: state(0) ppid pgrp session tty tpgid flags minflt cminflt majflt cmajflt utime(11) stime(12)
    let g = |k: usize| f.get(k).and_then(|x| x.parse::<u64>().ok()).unwrap_or(0);
    g(11) + g(12)
}

struct Pool {
    w: Option<Worker>,
    pub timeout: Duration,
    pub respawns: usize,
}

impl Pool {
    fn new() -> Pool {
        Pool { w: None, timeout: Duration::from_millis(2000), respawns: 0 }
    }
    fn run(&mut self, lang: &str, mask: u32, pix: Option<u64>, q: &str) -> (Outcome, f64) {
        if self.w.is_none() {
            self.w = Some(Worker::spawn());
            self.respawns += 1;
        }
        let t0 = Instant::now();
        let line = format!("{} {} {} {}\n", lang, mask, pix.map(|p| p.to_string()).unwrap_or("-".into()), hex(q.as_bytes()));
        let w = self.w.as_mut().unwrap();
        let sent = w.stdin.write_all(line.as_bytes()).and_then(|_| w.stdin.flush());
        let out = if sent.is_err() {
            Outcome::Abort("worker pipe closed".into())
        } else {
            // The watchdog measures the CPU time the worker has spent on this job (utime + stime of
            // /proc/<pid>/stat), not wall time: on a loaded machine a worker that is merely waiting for a
            // core is not a hang.  A wall-clock cap catches a worker that sleeps for ever.
            let pid = w.child.id();
            let cpu0 = cpu_ticks(pid);
            let cpu_limit = (self.timeout.as_millis() as u64) / 10; // ticks of 10 ms
            let wall_cap = Duration::from_secs(90).max(self.timeout * 20);
            let mut got: Result<String, bool> = Err(false); // Err(true) = worker gone
            loop {
                match w.rx.recv_timeout(Duration::from_millis(25)) {
                    Ok(l) => {
                        got = Ok(l);
                        break;
                    }
                    Err(mpsc::RecvTimeoutError::Timeout) => {
                        let used = cpu_ticks(pid).saturating_sub(cpu0);
                        if used >= cpu_limit || t0.elapsed() >= wall_cap {
                            break;
                        }
                    }
                    Err(mpsc::RecvTimeoutError::Disconnected) => {
                        got = Err(true);
                        break;
                    }
                }
            }
            match got {
                Ok(l) => {
                    let mut o = Outcome::Returned;
                    for part in l.split(' ').skip(1) {
                        if let Some((st, r)) = part.split_once('=') {
                            if let Some(m) = r.strip_prefix("P:") {
                                o = Outcome::Panic(st.to_string(), String::from_utf8_lossy(&unhex(m)).to_string());
                                break;
                            }
                        }
                    }
                    o
                }
                Err(false) => Outcome::Hang,
                Err(true) => {
                    let st = w.child.wait().map(|s| format!("{}", s)).unwrap_or("?".into());
                    Outcome::Abort(st)
                }
            }
        };
        if matches!(out, Outcome::Hang | Outcome::Abort(_)) {
            if let Some(mut w) = self.w.take() {
                w.kill();
            }
        }
        (out, t0.elapsed().as_secs_f64())
    }
    /// which stage is responsible for a hang/abort (re-runs the stages one by one)
    fn blame(&mut self, lang: &str, pix: Option<u64>, q: &str) -> String {
        for (bit, name) in STAGE_NAMES {
            let (o, _) = self.run(lang, bit, pix, q);
            if o != Outcome::Returned {
                return name.to_string();
            }
        }
        "?".into()
    }
}

impl Drop for Pool {
    fn drop(&mut self) {
        if let Some(mut w) = self.w.take() {
            w.kill();
        }
    }
}

include!("c12_seeds.in");
include!("c12_gen.in");
include!("c12_main.in");

fn main() {
    let a: Vec<String> = std::env::args().collect();
    if a.len() >= 2 && a[1] == "--worker" {
        worker();
        return;
    }
    if a.len() >= 2 && a[1] == "--explore" {
        explore(&a[2..]);
        return;
    }
    if a.len() >= 4 && a[1] == "--one" {
        // replay of one text: c12 --one <lang> <hex utf-8> [param index]
        let lang = LANGS.iter().find(|l| **l == a[2]).copied().unwrap_or("gql");
        let q = String::from_utf8_lossy(&unhex(&a[3])).to_string();
        let pix: Option<u64> = a.get(4).and_then(|s| s.parse().ok());
        quiet_panics();
        println!("text ({} bytes): {:?}", q.len(), q.chars().take(400).collect::<String>());
        println!("real lexer: {:?}", real_lex(lang, &q).map(|t| t.len()));
        let mut pool = Pool::new();
        pool.timeout = Duration::from_millis(6000);
        for (bit, name) in STAGE_NAMES {
            let (o, dt) = pool.run(lang, bit, pix, &q);
            println!("{:15} {:?} ({:.2}s)", name, o, dt);
        }
        return;
    }
    harness_main();
}
