// temporary probe (replaced by the real harness)
use grafeo_common::types::Value;
use grafeo_engine::GrafeoDB;
use gv_harness::*;

fn populated() -> GrafeoDB {
    let db = GrafeoDB::new_in_memory();
    let mut ids = vec![];
    for i in 0..6i64 {
        let n = db.create_node(&["Person"]);
        db.set_node_property(n, "name", Value::String(format!("p{}", i).into()));
        db.set_node_property(n, "age", Value::Int64(20 + i));
        db.set_node_property(n, "big", Value::Int64(if i % 2 == 0 { i64::MAX } else { i64::MIN }));
        db.set_node_property(n, "zero", Value::Int64(0));
        ids.push(n);
    }
    for i in 0..5 {
        db.create_edge(ids[i], ids[i + 1], "KNOWS");
    }
    db
}

fn run(lang: &str, q: &str) {
    let q1 = q.to_string();
    let l1 = lang.to_string();
    let r = catch(move || match l1.as_str() {
        "gql" => grafeo_adapters::query::gql::parse(&q1).map(|_| ()).map_err(|e| e.to_string()),
        "cypher" => grafeo_adapters::query::cypher::parse(&q1).map(|_| ()).map_err(|e| e.to_string()),
        "sparql" => grafeo_adapters::query::sparql::parse(&q1).map(|_| ()).map_err(|e| e.to_string()),
        "gremlin" => grafeo_adapters::query::gremlin::parse(&q1).map(|_| ()).map_err(|e| e.to_string()),
        "graphql" => grafeo_adapters::query::graphql::parse(&q1).map(|_| ()).map_err(|e| e.to_string()),
        _ => panic!("lang"),
    });
    println!("parse: {:?}", r);
    for pop in [false, true] {
        let q1 = q.to_string();
        let l1 = lang.to_string();
        let r = catch(move || {
            let db = if pop { populated() } else { GrafeoDB::new_in_memory() };
            let s = db.session();
            let r = match l1.as_str() {
                "gql" => s.execute(&q1),
                "cypher" => s.execute_cypher(&q1),
                "sparql" => s.execute_sparql(&q1),
                "gremlin" => s.execute_gremlin(&q1),
                "graphql" => s.execute_graphql(&q1),
                _ => panic!("lang"),
            };
            match r {
                Ok(r) => format!("Ok cols={:?} rows={:?}", r.columns, r.rows.iter().take(5).collect::<Vec<_>>()),
                Err(e) => format!("Err {}", e),
            }
        });
        println!("exec pop={}: {:?}", pop, r);
    }
}

fn main() {
    let a: Vec<String> = std::env::args().collect();
    if a.len() >= 4 && a[1] == "--probe" {
        run(&a[2], &a[3]);
        return;
    }
    if a.len() >= 5 && a[1] == "--nest" {
        // --nest lang kind depth
        let d: usize = a[4].parse().unwrap();
        let q = nest(&a[2], &a[3], d);
        let l = a[2].clone();
        let r = match l.as_str() {
            "gql" => grafeo_adapters::query::gql::parse(&q).map(|_| ()).map_err(|e| e.to_string()),
            "cypher" => grafeo_adapters::query::cypher::parse(&q).map(|_| ()).map_err(|e| e.to_string()),
            "sparql" => grafeo_adapters::query::sparql::parse(&q).map(|_| ()).map_err(|e| e.to_string()),
            "gremlin" => grafeo_adapters::query::gremlin::parse(&q).map(|_| ()).map_err(|e| e.to_string()),
            "graphql" => grafeo_adapters::query::graphql::parse(&q).map(|_| ()).map_err(|e| e.to_string()),
            _ => panic!("lang"),
        };
        println!("len={} parse: {:?}", q.len(), r.map_err(|e| e.chars().take(80).collect::<String>()));
    }
}

fn nest(lang: &str, kind: &str, d: usize) -> String {
    match (lang, kind) {
        ("gql", "paren") | ("cypher", "paren") => format!("MATCH (n) WHERE {}1{} = 1 RETURN n", "(".repeat(d), ")".repeat(d)),
        ("gql", "list") | ("cypher", "list") => format!("MATCH (n) RETURN {}1{}", "[".repeat(d), "]".repeat(d)),
        ("gql", "not") | ("cypher", "not") => format!("MATCH (n) WHERE {}true RETURN n", "NOT ".repeat(d)),
        ("gql", "chain") | ("cypher", "chain") => format!("MATCH (n) RETURN 1{}", "+1".repeat(d)),
        ("sparql", "paren") => format!("SELECT * WHERE {{ ?s ?p ?o FILTER({}1{} = 1) }}", "(".repeat(d), ")".repeat(d)),
        ("sparql", "group") => format!("SELECT * WHERE {} ?s ?p ?o {}", "{".repeat(d), "}".repeat(d)),
        ("sparql", "chain") => format!("SELECT * WHERE {{ ?s ?p ?o FILTER(1{} = 1) }}", "+1".repeat(d)),
        ("graphql", "sel") => format!("{}{}", "{ a ".repeat(d), "}".repeat(d)),
        ("graphql", "list") => format!("{{ a(x: {}1{}) }}", "[".repeat(d), "]".repeat(d)),
        ("gremlin", "to") => format!("g.V(){}{}", ".to(g.V()".repeat(d), ")".repeat(d)),
        _ => panic!("kind"),
    }
}
