//! C01 / C02 — histories of 2..4 sessions driven single-threaded through the real
//! `GrafeoDB::session()` API (direct calls and GQL / Cypher / SPARQL statement templates).
//!
//! Statements and scan-based reads are issued through a randomly chosen entry point (`Via`):
//! `Session::execute` (GQL), `execute_cypher`, `execute_with_params` (QueryProcessor path),
//! `execute_gremlin` (`g.V()`, `g.V().count()`), and — outside a transaction — the
//! `GrafeoDB::execute*` convenience calls.  The model has one op / read kind for all of them
//! (they hand the same (viewing epoch, transaction) to the planner); the one entry point that did
//! not before 752d5ee, `GrafeoDB::execute_cypher_with_params`, is a read kind of its own (`FreshLabelScan`).
//!
//! One case = one history.  Every step's output is canonicalised (sorted lists) and printed as a Coq
//! term of type `out` (coq/Mvcc/Model.v); the case's `coq` field is `chk_hist OPS OUTS`
//! (model == implementation on the whole history).  The check derives the evaluated terms
//! (`c01_report OPS OUTS`, `c02_report OPS OUTS DUMPS`: correspondence, failing positions with their
//! finding classes, class predicates) from the same two lists; `msg` carries the dump
//! ranges of the history (`dumps=[(start,len,base);...]`).
//!
//!   --prop c01|c02     which generator mix to use (default c01)
//!   --show             print every history with the implementation's outputs to stderr

use gv_harness::{catch, coq, parse_args, quiet_panics, Case, Oracle, Out, Rng};
use grafeo_common::types::{EdgeId, NodeId, PropertyKey, TxId, Value};
use grafeo_core::graph::rdf::{Term, Triple, TriplePattern};
use grafeo_engine::{GrafeoDB, Session};

// ------------------------------------------------------------------------------------------ ops

type Val = Option<i64>;

#[derive(Clone, Copy, Debug, PartialEq)]
enum Sel {
    Label(i64),
    Any,
}
#[derive(Clone, Copy, Debug, PartialEq)]
enum Dir {
    Out,
    In,
    Both,
}
type Pat = (Option<i64>, Option<i64>, Option<i64>);

/// Entry point through which a statement or a scan-based read is issued.  Not part of the model term:
/// every one of these entry points hands the same (viewing epoch, transaction) pair to the planner, and
/// the model has one `Read` / one write op per kind.  `Db*` = `GrafeoDB::execute*` (a temporary session),
/// used only when the acting session has no open transaction.
#[derive(Clone, Copy, Debug, PartialEq)]
enum Via {
    Gql,
    Cypher,
    Params,
    Gremlin,
    Db,
    DbCypher,
    DbParams,
}
type Tr = (i64, i64, i64);

#[derive(Clone, Debug, PartialEq)]
enum Kind {
    LabelScan(i64),
    AllScan,
    CountAll,
    CountLabel(i64),
    ProjProp(i64, i64),
    Expand(Sel, Dir, Option<i64>),
    GetNode(i64),
    GetEdge(i64),
    GetProp(i64, i64),
    Neigh(i64, Dir),
    Degree(i64),
    TripleQ(Pat),
    TripleApi(Pat),
    DbCounts,
    StoreLabel(i64),
    StoreProp(i64, i64),
    /// `GrafeoDB::execute_cypher_with_params("MATCH (n:L) RETURN n")` (planned with a private transaction manager before 752d5ee)
    FreshLabelScan(i64),
}

#[derive(Clone, Debug, PartialEq)]
enum Op {
    Begin(i64),
    Commit(i64),
    Rollback(i64),
    DropSession(i64),
    /// last field: through GQL `INSERT` (true) or `Session::create_node_with_props` (false)
    CreateNode(i64, Vec<i64>, Vec<(i64, Val)>, bool),
    DeleteNode(i64, Sel, i64, bool),
    CreateEdge(i64, i64, i64, i64),
    CreateEdgeQ(i64, Sel, Sel, i64, i64, i64),
    DeleteEdge(i64),
    SetProp(i64, Sel, i64, i64, Val),
    RemoveProp(i64, Sel, i64, i64),
    AddLabel(i64, Sel, i64, i64),
    RemoveLabel(i64, Sel, i64, i64),
    InsertTriple(i64, Tr),
    DeleteTriple(i64, Tr),
    DbDeleteNode(i64),
    DbSetProp(i64, i64, Val),
    DbRemoveProp(i64, i64),
    DbAddLabel(i64, i64),
    DbRemoveLabel(i64, i64),
    Read(i64, Kind),
}

fn z(v: i64) -> String {
    coq::z(v)
}
fn cval(v: &Val) -> String {
    match v {
        Some(x) => format!("(Some {})", z(*x)),
        None => "None".into(),
    }
}
fn copt(v: &Option<i64>) -> String {
    cval(v)
}
fn csel(s: &Sel) -> String {
    match s {
        Sel::Label(l) => format!("(SelLabel {})", z(*l)),
        Sel::Any => "SelAny".into(),
    }
}
fn cdir(d: &Dir) -> &'static str {
    match d {
        Dir::Out => "Out",
        Dir::In => "Inc",
        Dir::Both => "Both",
    }
}
fn cpat(p: &Pat) -> String {
    format!("({}, {}, {})", copt(&p.0), copt(&p.1), copt(&p.2))
}
fn ctr(t: &Tr) -> String {
    format!("({}, {}, {})", z(t.0), z(t.1), z(t.2))
}
fn ckvs(ps: &[(i64, Val)]) -> String {
    coq::list(ps.iter().map(|(k, v)| format!("({}, {})", z(*k), cval(v))))
}
fn czs(xs: &[i64]) -> String {
    coq::list(xs.iter().map(|x| z(*x)))
}

impl Kind {
    fn coq(&self) -> String {
        match self {
            Kind::LabelScan(l) => format!("(LabelScan {})", z(*l)),
            Kind::AllScan => "AllScan".into(),
            Kind::CountAll => "CountAll".into(),
            Kind::CountLabel(l) => format!("(CountLabel {})", z(*l)),
            Kind::ProjProp(l, k) => format!("(ProjProp {} {})", z(*l), z(*k)),
            Kind::Expand(m, d, t) => format!("(Expand {} {} {})", csel(m), cdir(d), copt(t)),
            Kind::GetNode(n) => format!("(GetNode {})", z(*n)),
            Kind::GetEdge(n) => format!("(GetEdge {})", z(*n)),
            Kind::GetProp(n, k) => format!("(GetProp {} {})", z(*n), z(*k)),
            Kind::Neigh(n, d) => format!("(Neigh {} {})", z(*n), cdir(d)),
            Kind::Degree(n) => format!("(Degree {})", z(*n)),
            Kind::TripleQ(p) => format!("(TripleQ {})", cpat(p)),
            Kind::TripleApi(p) => format!("(TripleApi {})", cpat(p)),
            Kind::DbCounts => "DbCounts".into(),
            Kind::StoreLabel(l) => format!("(StoreLabel {})", z(*l)),
            Kind::StoreProp(n, k) => format!("(StoreProp {} {})", z(*n), z(*k)),
            Kind::FreshLabelScan(l) => format!("(FreshLabelScan {})", z(*l)),
        }
    }
}

impl Op {
    fn coq(&self) -> String {
        match self {
            Op::Begin(s) => format!("Begin {}", z(*s)),
            Op::Commit(s) => format!("Commit {}", z(*s)),
            Op::Rollback(s) => format!("Rollback {}", z(*s)),
            Op::DropSession(s) => format!("DropSession {}", z(*s)),
            Op::CreateNode(s, ls, ps, _) => format!("CreateNode {} {} {}", z(*s), czs(ls), ckvs(ps)),
            Op::DeleteNode(s, m, id, d) => format!("DeleteNode {} {} {} {}", z(*s), csel(m), z(*id), coq::b(*d)),
            Op::CreateEdge(s, a, b, t) => format!("CreateEdge {} {} {} {}", z(*s), z(*a), z(*b), z(*t)),
            Op::CreateEdgeQ(s, ma, mb, a, b, t) => {
                format!("CreateEdgeQ {} {} {} {} {} {}", z(*s), csel(ma), csel(mb), z(*a), z(*b), z(*t))
            }
            Op::DeleteEdge(e) => format!("DeleteEdge {}", z(*e)),
            Op::SetProp(s, m, id, k, v) => format!("SetProp {} {} {} {} {}", z(*s), csel(m), z(*id), z(*k), cval(v)),
            Op::RemoveProp(s, m, id, k) => format!("RemoveProp {} {} {} {}", z(*s), csel(m), z(*id), z(*k)),
            Op::AddLabel(s, m, id, l) => format!("AddLabel {} {} {} {}", z(*s), csel(m), z(*id), z(*l)),
            Op::RemoveLabel(s, m, id, l) => format!("RemoveLabel {} {} {} {}", z(*s), csel(m), z(*id), z(*l)),
            Op::InsertTriple(s, t) => format!("InsertTriple {} {}", z(*s), ctr(t)),
            Op::DeleteTriple(s, t) => format!("DeleteTriple {} {}", z(*s), ctr(t)),
            Op::DbDeleteNode(n) => format!("DbDeleteNode {}", z(*n)),
            Op::DbSetProp(n, k, v) => format!("DbSetProp {} {} {}", z(*n), z(*k), cval(v)),
            Op::DbRemoveProp(n, k) => format!("DbRemoveProp {} {}", z(*n), z(*k)),
            Op::DbAddLabel(n, l) => format!("DbAddLabel {} {}", z(*n), z(*l)),
            Op::DbRemoveLabel(n, l) => format!("DbRemoveLabel {} {}", z(*n), z(*l)),
            Op::Read(s, k) => format!("Read {} {}", z(*s), k.coq()),
        }
    }
    /// session that performs the op (None for database-level calls)
    fn session(&self) -> Option<i64> {
        match self {
            Op::Begin(s) | Op::Commit(s) | Op::Rollback(s) | Op::DropSession(s) => Some(*s),
            Op::CreateNode(s, ..) | Op::DeleteNode(s, ..) | Op::CreateEdge(s, ..) | Op::CreateEdgeQ(s, ..) => Some(*s),
            Op::SetProp(s, ..) | Op::RemoveProp(s, ..) | Op::AddLabel(s, ..) | Op::RemoveLabel(s, ..) => Some(*s),
            Op::InsertTriple(s, _) | Op::DeleteTriple(s, _) | Op::Read(s, _) => Some(*s),
            _ => None,
        }
    }
    fn is_mutation(&self) -> bool {
        !matches!(self, Op::Begin(_) | Op::Commit(_) | Op::Rollback(_) | Op::DropSession(_) | Op::Read(..))
    }
    /// coarse kind of a mutation (for the C02 non-triviality rule)
    fn mkind(&self) -> &'static str {
        match self {
            Op::CreateNode(..) => "create_node",
            Op::DeleteNode(..) | Op::DbDeleteNode(_) => "delete_node",
            Op::CreateEdge(..) | Op::CreateEdgeQ(..) => "create_edge",
            Op::DeleteEdge(_) => "delete_edge",
            Op::SetProp(..) | Op::DbSetProp(..) => "set_prop",
            Op::RemoveProp(..) | Op::DbRemoveProp(..) => "remove_prop",
            Op::AddLabel(..) | Op::DbAddLabel(..) => "add_label",
            Op::RemoveLabel(..) | Op::DbRemoveLabel(..) => "remove_label",
            Op::InsertTriple(..) => "insert_triple",
            Op::DeleteTriple(..) => "delete_triple",
            _ => "other",
        }
    }
}

// -------------------------------------------------------------------------------------- outputs

#[derive(Clone, Debug, PartialEq)]
enum O {
    Unit,
    Err,
    Bool(bool),
    Id(i64),
    Ids(Vec<i64>),
    Count(i64),
    Vals(Vec<(i64, Val)>),
    Rows(Vec<(i64, i64, i64)>),
    Node(Option<(Vec<i64>, Vec<(i64, Val)>)>),
    Edge(Option<(i64, i64, i64)>),
    Val(Option<Val>),
    Pairs(Vec<(i64, i64)>),
    Deg(i64, i64),
    Triples(Vec<Tr>),
    Counts(i64, i64),
    /// something the model has no constructor for (unexpected error / panic / malformed row)
    Weird(String),
}

impl O {
    fn coq(&self) -> String {
        match self {
            O::Unit => "OUnit".into(),
            O::Err => "OErr".into(),
            O::Bool(b) => format!("OBool {}", coq::b(*b)),
            O::Id(x) => format!("OId {}", z(*x)),
            O::Ids(l) => format!("OIds {}", czs(l)),
            O::Count(x) => format!("OCount {}", z(*x)),
            O::Vals(l) => format!("OVals {}", ckvs(l)),
            O::Rows(l) => format!("ORows {}", coq::list(l.iter().map(ctr))),
            O::Node(None) => "ONode None".into(),
            O::Node(Some((ls, ps))) => format!("ONode (Some ({}, {}))", czs(ls), ckvs(ps)),
            O::Edge(None) => "OEdge None".into(),
            O::Edge(Some(t)) => format!("OEdge (Some {})", ctr(t)),
            O::Val(None) => "OVal None".into(),
            O::Val(Some(v)) => format!("OVal (Some {})", cval(v)),
            O::Pairs(l) => format!("OPairs {}", coq::list(l.iter().map(|(a, b)| format!("({}, {})", z(*a), z(*b))))),
            O::Deg(a, b) => format!("ODeg {} {}", z(*a), z(*b)),
            O::Triples(l) => format!("OTriples {}", coq::list(l.iter().map(ctr))),
            O::Counts(a, b) => format!("OCounts {} {}", z(*a), z(*b)),
            // never equal to a model output of the same step: the correspondence fails there
            O::Weird(_) => "OCounts (-1)%Z (-1)%Z".into(),
        }
    }
}

// ----------------------------------------------------------------------------- the implementation

fn lname(l: i64) -> String {
    format!("L{}", l)
}
fn kname(k: i64) -> String {
    format!("k{}", k)
}
fn tname(t: i64) -> String {
    format!("T{}", t)
}
fn iri(kind: char, n: i64) -> String {
    format!("http://e/{}{}", kind, n)
}
fn parse_tail(s: &str, prefix: &str) -> Option<i64> {
    s.strip_prefix(prefix)?.parse().ok()
}
fn val_of(v: &Value) -> Result<Val, String> {
    match v {
        Value::Int64(x) => Ok(Some(*x)),
        Value::Null => Ok(None),
        other => Err(format!("unexpected value {:?}", other)),
    }
}
fn to_value(v: &Val) -> Value {
    match v {
        Some(x) => Value::Int64(*x),
        None => Value::Null,
    }
}
fn vlit(v: &Val) -> String {
    match v {
        Some(x) => format!("{}", x),
        None => "NULL".into(),
    }
}
fn sel_pat(var: &str, m: &Sel) -> String {
    match m {
        Sel::Label(l) => format!("({}:{})", var, lname(*l)),
        Sel::Any => format!("({})", var),
    }
}

struct Impl {
    db: GrafeoDB,
    sessions: Vec<Session>,
    /// transaction id of each session's open transaction (ids are handed out 2, 3, ...)
    tx: Vec<Option<u64>>,
    next_tx: u64,
}

const OBSERVER: i64 = 9;

impl Impl {
    fn new(nsess: usize) -> Self {
        let db = GrafeoDB::new_in_memory();
        let sessions = (0..=nsess).map(|_| db.session()).collect();
        Impl { db, sessions, tx: vec![None; nsess + 1], next_tx: 2 }
    }
    /// index into `sessions`: the observer is the last one
    fn si(&self, s: i64) -> usize {
        if s == OBSERVER { self.sessions.len() - 1 } else { s as usize }
    }

    /// runs a GQL / Cypher statement through the chosen entry point
    fn run_q(&self, s: i64, via: Via, q: &str) -> Result<grafeo_engine::database::QueryResult, String> {
        let sess = &self.sessions[self.si(s)];
        let in_tx = self.tx[self.si(s)].is_some();
        let none = std::collections::HashMap::new;
        let r = match via {
            Via::Cypher => sess.execute_cypher(q),
            Via::Params => sess.execute_with_params(q, none()),
            Via::Db if !in_tx => self.db.execute(q),
            Via::DbCypher if !in_tx => self.db.execute_cypher(q),
            Via::DbParams if !in_tx => self.db.execute_with_params(q, none()),
            _ => sess.execute(q),
        };
        r.map_err(|e| format!("{} [{:?}]: {}", q, via, e))
    }
    fn gql_int_rows(&self, s: i64, via: Via, q: &str, ncol: usize) -> Result<Vec<Vec<Value>>, String> {
        let r = self.run_q(s, via, q)?;
        for row in &r.rows {
            if row.len() != ncol {
                return Err(format!("{}: row of width {}", q, row.len()));
            }
        }
        Ok(r.rows)
    }
    fn int(v: &Value) -> Result<i64, String> {
        match v {
            Value::Int64(x) => Ok(*x),
            o => Err(format!("expected an integer, got {:?}", o)),
        }
    }

    fn read(&self, s: i64, k: &Kind, via: Via) -> Result<O, String> {
        let sess = &self.sessions[self.si(s)];
        Ok(match k {
            Kind::LabelScan(l) => {
                let rows = self.gql_int_rows(s, via, &format!("MATCH (n:{}) RETURN n", lname(*l)), 1)?;
                let mut ids = rows.iter().map(|r| Self::int(&r[0])).collect::<Result<Vec<_>, _>>()?;
                ids.sort();
                O::Ids(ids)
            }
            Kind::AllScan => {
                let rows = if via == Via::Gremlin {
                    let r = self.sessions[self.si(s)].execute_gremlin("g.V()").map_err(|e| format!("g.V(): {}", e))?;
                    r.rows
                } else {
                    self.gql_int_rows(s, via, "MATCH (n) RETURN n", 1)?
                };
                let mut ids = rows.iter().map(|r| Self::int(&r[0])).collect::<Result<Vec<_>, _>>()?;
                ids.sort();
                O::Ids(ids)
            }
            Kind::CountAll => {
                let rows = if via == Via::Gremlin {
                    let r = self.sessions[self.si(s)].execute_gremlin("g.V().count()").map_err(|e| format!("g.V().count(): {}", e))?;
                    r.rows
                } else {
                    self.gql_int_rows(s, via, "MATCH (n) RETURN count(n)", 1)?
                };
                if rows.len() != 1 {
                    return Err(format!("count returned {} rows", rows.len()));
                }
                O::Count(Self::int(&rows[0][0])?)
            }
            Kind::CountLabel(l) => {
                let rows = self.gql_int_rows(s, via, &format!("MATCH (n:{}) RETURN count(n)", lname(*l)), 1)?;
                if rows.len() != 1 {
                    return Err(format!("count returned {} rows", rows.len()));
                }
                O::Count(Self::int(&rows[0][0])?)
            }
            Kind::ProjProp(l, key) => {
                let rows = self.gql_int_rows(s, via, &format!("MATCH (n:{}) RETURN n, n.{}", lname(*l), kname(*key)), 2)?;
                let mut v = Vec::new();
                for r in &rows {
                    v.push((Self::int(&r[0])?, val_of(&r[1])?));
                }
                v.sort();
                O::Vals(v)
            }
            Kind::Expand(m, d, ty) => {
                let rel = match ty {
                    Some(t) => format!("[r:{}]", tname(*t)),
                    None => "[r]".to_string(),
                };
                let pat = match d {
                    Dir::Out => format!("{}-{}->(b)", sel_pat("a", m), rel),
                    Dir::In => format!("{}<-{}-(b)", sel_pat("a", m), rel),
                    Dir::Both => format!("{}-{}-(b)", sel_pat("a", m), rel),
                };
                let rows = self.gql_int_rows(s, via, &format!("MATCH {} RETURN a, r, b", pat), 3)?;
                let mut v = Vec::new();
                for r in &rows {
                    v.push((Self::int(&r[0])?, Self::int(&r[1])?, Self::int(&r[2])?));
                }
                v.sort();
                O::Rows(v)
            }
            Kind::GetNode(n) => match sess.get_node(NodeId::new(*n as u64)) {
                None => O::Node(None),
                Some(node) => {
                    let mut ls = Vec::new();
                    for l in node.labels.iter() {
                        ls.push(parse_tail(l.as_str(), "L").ok_or_else(|| format!("label {:?}", l))?);
                    }
                    ls.sort();
                    let mut ps = Vec::new();
                    for (k, v) in node.properties.iter() {
                        ps.push((parse_tail(k.as_str(), "k").ok_or_else(|| format!("key {:?}", k))?, val_of(v)?));
                    }
                    ps.sort();
                    O::Node(Some((ls, ps)))
                }
            },
            Kind::GetEdge(e) => match sess.get_edge(EdgeId::new(*e as u64)) {
                None => O::Edge(None),
                Some(edge) => O::Edge(Some((
                    edge.src.0 as i64,
                    edge.dst.0 as i64,
                    parse_tail(edge.edge_type.as_str(), "T").ok_or("edge type")?,
                ))),
            },
            Kind::GetProp(n, key) => match sess.get_node_property(NodeId::new(*n as u64), &kname(*key)) {
                None => O::Val(None),
                Some(v) => O::Val(Some(val_of(&v)?)),
            },
            Kind::Neigh(n, d) => {
                let v = match d {
                    Dir::Out => sess.get_neighbors_outgoing(NodeId::new(*n as u64)),
                    Dir::In => sess.get_neighbors_incoming(NodeId::new(*n as u64)),
                    Dir::Both => return Err("no session call for both directions".into()),
                };
                let mut v: Vec<(i64, i64)> = v.iter().map(|(a, b)| (a.0 as i64, b.0 as i64)).collect();
                v.sort();
                O::Pairs(v)
            }
            Kind::Degree(n) => {
                let (a, b) = sess.get_degree(NodeId::new(*n as u64));
                O::Deg(a as i64, b as i64)
            }
            Kind::TripleQ(p) => {
                let mut vars = Vec::new();
                let term = |o: &Option<i64>, c: char, vars: &mut Vec<char>| match o {
                    Some(x) => format!("<{}>", iri(c, *x)),
                    None => {
                        vars.push(c);
                        format!("?{}", c)
                    }
                };
                let ts = term(&p.0, 's', &mut vars);
                let tp = term(&p.1, 'p', &mut vars);
                let to = term(&p.2, 'o', &mut vars);
                if vars.is_empty() {
                    return Err("fully bound pattern".into());
                }
                let sel: Vec<String> = vars.iter().map(|c| format!("?{}", c)).collect();
                let star = matches!(via, Via::Params | Via::DbParams);
                let q = format!("SELECT {} WHERE {{ {} {} {} }}", if star { "*".to_string() } else { sel.join(" ") }, ts, tp, to);
                let in_tx = self.tx[self.si(s)].is_some();
                let r = if matches!(via, Via::Db | Via::DbCypher | Via::DbParams) && !in_tx {
                    self.db.execute_sparql(&q)
                } else {
                    sess.execute_sparql(&q)
                }
                .map_err(|e| format!("{}: {}", q, e))?;
                // columns are named after the variables (whatever their order)
                let cols: Vec<char> = r.columns.iter().map(|c| c.chars().next().unwrap_or('?')).collect();
                let mut sorted_cols = cols.clone();
                sorted_cols.sort();
                let mut sorted_vars = vars.clone();
                sorted_vars.sort();
                if sorted_cols != sorted_vars {
                    return Err(format!("{}: columns {:?}", q, r.columns));
                }
                let mut out = Vec::new();
                for row in &r.rows {
                    if row.len() != cols.len() {
                        return Err(format!("{}: row width {}", q, row.len()));
                    }
                    let mut t = (p.0, p.1, p.2);
                    for (c, v) in cols.iter().zip(row.iter()) {
                        let sv = match v {
                            Value::String(x) => x.to_string(),
                            o => return Err(format!("sparql value {:?}", o)),
                        };
                        let n = parse_tail(&sv, &format!("http://e/{}", c)).ok_or_else(|| format!("iri {}", sv))?;
                        match c {
                            's' => t.0 = Some(n),
                            'p' => t.1 = Some(n),
                            _ => t.2 = Some(n),
                        }
                    }
                    out.push((t.0.unwrap(), t.1.unwrap(), t.2.unwrap()));
                }
                out.sort();
                O::Triples(out)
            }
            Kind::TripleApi(p) => {
                let pat = TriplePattern {
                    subject: p.0.map(|x| Term::iri(iri('s', x))),
                    predicate: p.1.map(|x| Term::iri(iri('p', x))),
                    object: p.2.map(|x| Term::iri(iri('o', x))),
                };
                let tx = self.tx[self.si(s)].map(TxId::new);
                let res = self.db.rdf_store().find_with_pending(&pat, tx);
                let mut out = Vec::new();
                for t in res {
                    let g = |t: &Term, c: char| -> Result<i64, String> {
                        let i = t.as_iri().ok_or("not an iri")?;
                        parse_tail(i.as_str(), &format!("http://e/{}", c)).ok_or_else(|| format!("iri {}", i.as_str()))
                    };
                    out.push((g(t.subject(), 's')?, g(t.predicate(), 'p')?, g(t.object(), 'o')?));
                }
                out.sort();
                O::Triples(out)
            }
            Kind::DbCounts => O::Counts(self.db.node_count() as i64, self.db.edge_count() as i64),
            Kind::StoreLabel(l) => {
                let mut v: Vec<i64> = self.db.store().nodes_by_label(&lname(*l)).iter().map(|n| n.0 as i64).collect();
                v.sort();
                O::Ids(v)
            }
            Kind::StoreProp(n, key) => {
                match self.db.store().get_node_property(NodeId::new(*n as u64), &PropertyKey::new(kname(*key))) {
                    None => O::Val(None),
                    Some(v) => O::Val(Some(val_of(&v)?)),
                }
            }
            Kind::FreshLabelScan(l) => {
                let q = format!("MATCH (n:{}) RETURN n", lname(*l));
                let r = self
                    .db
                    .execute_cypher_with_params(&q, std::collections::HashMap::new())
                    .map_err(|e| format!("{} [db cypher params]: {}", q, e))?;
                let mut ids = Vec::new();
                for row in &r.rows {
                    if row.len() != 1 {
                        return Err(format!("{}: row of width {}", q, row.len()));
                    }
                    ids.push(Self::int(&row[0])?);
                }
                ids.sort();
                O::Ids(ids)
            }
        })
    }

    fn stmt(&self, s: i64, via: Via, q: &str) -> Result<O, String> {
        self.run_q(s, via, q).map(|_| O::Unit)
    }
    fn sparql(&self, s: i64, via: Via, q: &str) -> Result<O, String> {
        let in_tx = self.tx[self.si(s)].is_some();
        if matches!(via, Via::Db | Via::DbCypher | Via::DbParams) && !in_tx {
            self.db.execute_sparql(q)
        } else {
            self.sessions[self.si(s)].execute_sparql(q)
        }
        .map(|_| O::Unit)
        .map_err(|e| format!("{}: {}", q, e))
    }

    fn exec(&mut self, op: &Op, via: Via) -> Result<O, String> {
        use grafeo_common::utils::error::{Error, TransactionError};
        let tx_result = |r: grafeo_common::utils::error::Result<()>| -> Result<O, String> {
            match r {
                Ok(()) => Ok(O::Unit),
                Err(Error::Transaction(TransactionError::InvalidState(_))) => Ok(O::Err),
                Err(e) => Err(format!("unexpected error {}", e)),
            }
        };
        match op {
            Op::Begin(s) => {
                let i = self.si(*s);
                let r = tx_result(self.sessions[i].begin_tx())?;
                if r == O::Unit {
                    self.tx[i] = Some(self.next_tx);
                    self.next_tx += 1;
                }
                Ok(r)
            }
            Op::Commit(s) => {
                let i = self.si(*s);
                let r = tx_result(self.sessions[i].commit())?;
                self.tx[i] = None;
                Ok(r)
            }
            Op::Rollback(s) => {
                let i = self.si(*s);
                let r = tx_result(self.sessions[i].rollback())?;
                self.tx[i] = None;
                Ok(r)
            }
            Op::DropSession(s) => {
                let i = self.si(*s);
                let fresh = self.db.session();
                let old = std::mem::replace(&mut self.sessions[i], fresh);
                drop(old);
                self.tx[i] = None;
                Ok(O::Unit)
            }
            Op::CreateNode(s, ls, ps, gql) => {
                if *gql {
                    let labels: String = ls.iter().map(|l| format!(":{}", lname(*l))).collect();
                    let props = if ps.is_empty() {
                        String::new()
                    } else {
                        let v: Vec<String> = ps.iter().map(|(k, v)| format!("{}: {}", kname(*k), vlit(v))).collect();
                        format!(" {{{}}}", v.join(", "))
                    };
                    let cy = matches!(via, Via::Cypher | Via::DbCypher);
                    let q = if cy { format!("CREATE (n{}{}) RETURN id(n)", labels, props) } else { format!("INSERT ({}{})", labels, props) };
                    let r = self.run_q(*s, via, &q)?;
                    if r.rows.len() != 1 || r.rows[0].len() != 1 {
                        return Err(format!("{}: unexpected shape", q));
                    }
                    Ok(O::Id(Self::int(&r.rows[0][0])?))
                } else {
                    let names: Vec<String> = ls.iter().map(|l| lname(*l)).collect();
                    let refs: Vec<&str> = names.iter().map(|x| x.as_str()).collect();
                    let keys: Vec<String> = ps.iter().map(|(k, _)| kname(*k)).collect();
                    let sess = &self.sessions[self.si(*s)];
                    let id = if ps.is_empty() {
                        sess.create_node(&refs)
                    } else {
                        sess.create_node_with_props(&refs, keys.iter().zip(ps.iter()).map(|(k, (_, v))| (k.as_str(), to_value(v))))
                    };
                    Ok(O::Id(id.0 as i64))
                }
            }
            Op::DeleteNode(s, m, id, detach) => self.stmt(
                *s,
                via,
                &format!("MATCH {} WHERE id(n) = {} {}DELETE n", sel_pat("n", m), id, if *detach { "DETACH " } else { "" }),
            ),
            Op::CreateEdge(s, a, b, t) => {
                let id = self.sessions[self.si(*s)].create_edge(NodeId::new(*a as u64), NodeId::new(*b as u64), &tname(*t));
                Ok(O::Id(id.0 as i64))
            }
            Op::CreateEdgeQ(s, ma, mb, a, b, t) => {
                let q = format!(
                    "MATCH {}, {} WHERE id(a) = {} AND id(b) = {} CREATE (a)-[r:{}]->(b) RETURN id(r)",
                    sel_pat("a", ma),
                    sel_pat("b", mb),
                    a,
                    b,
                    tname(*t)
                );
                let v = match via {
                    Via::Cypher => Via::Gql,
                    Via::DbCypher => Via::Db,
                    o => o,
                };
                let rows = self.gql_int_rows(*s, v, &q, 1)?;
                let mut ids = rows.iter().map(|r| Self::int(&r[0])).collect::<Result<Vec<_>, _>>()?;
                ids.sort();
                Ok(O::Ids(ids))
            }
            Op::DeleteEdge(e) => Ok(O::Bool(self.db.delete_edge(EdgeId::new(*e as u64)))),
            Op::SetProp(s, m, id, k, v) => {
                self.stmt(*s, via, &format!("MATCH {} WHERE id(n) = {} SET n.{} = {}", sel_pat("n", m), id, kname(*k), vlit(v)))
            }
            Op::RemoveProp(s, m, id, k) => {
                self.stmt(*s, via, &format!("MATCH {} WHERE id(n) = {} REMOVE n.{}", sel_pat("n", m), id, kname(*k)))
            }
            Op::AddLabel(s, m, id, l) => {
                let v = match via {
                    Via::Cypher => Via::Gql,
                    Via::DbCypher => Via::Db,
                    o => o,
                };
                self.stmt(*s, v, &format!("MATCH {} WHERE id(n) = {} SET n:{}", sel_pat("n", m), id, lname(*l)))
            }
            Op::RemoveLabel(s, m, id, l) => {
                self.stmt(*s, via, &format!("MATCH {} WHERE id(n) = {} REMOVE n:{}", sel_pat("n", m), id, lname(*l)))
            }
            Op::InsertTriple(s, t) => self.sparql(
                *s,
                via,
                &format!("INSERT DATA {{ <{}> <{}> <{}> }}", iri('s', t.0), iri('p', t.1), iri('o', t.2)),
            ),
            Op::DeleteTriple(s, t) => self.sparql(
                *s,
                via,
                &format!("DELETE DATA {{ <{}> <{}> <{}> }}", iri('s', t.0), iri('p', t.1), iri('o', t.2)),
            ),
            Op::DbDeleteNode(n) => Ok(O::Bool(self.db.delete_node(NodeId::new(*n as u64)))),
            Op::DbSetProp(n, k, v) => {
                self.db.set_node_property(NodeId::new(*n as u64), &kname(*k), to_value(v));
                Ok(O::Unit)
            }
            Op::DbRemoveProp(n, k) => Ok(O::Bool(self.db.remove_node_property(NodeId::new(*n as u64), &kname(*k)))),
            Op::DbAddLabel(n, l) => Ok(O::Bool(self.db.add_node_label(NodeId::new(*n as u64), &lname(*l)))),
            Op::DbRemoveLabel(n, l) => Ok(O::Bool(self.db.remove_node_label(NodeId::new(*n as u64), &lname(*l)))),
            Op::Read(s, k) => self.read(*s, k, via),
        }
    }
}

// ------------------------------------------------------------------------------------ histories

/// universes
const NLABELS: i64 = 3;
const NKEYS: i64 = 2;
const NTYPES: i64 = 2;
const NVALS: i64 = 4;
const MAXNODES: i64 = 6;
const MAXEDGES: i64 = 6;

/// the six triples of the universe: (s, p, o) with s, o in {0,1}, p in {0,1}, minus two
const TRIPLES: [Tr; 6] = [(0, 0, 0), (0, 0, 1), (0, 1, 0), (1, 0, 0), (1, 1, 1), (1, 0, 1)];

/// what the generator remembers while it builds a history (not a model: only id counters and
/// which sessions have an open transaction, so that most operations refer to things that exist)
struct Shadow {
    nsess: i64,
    in_tx: Vec<bool>,
    nn: i64,
    ne: i64,
}

struct Gen<'a> {
    rng: &'a mut Rng,
    sh: Shadow,
    im: Impl,
    ops: Vec<Op>,
    outs: Vec<O>,
    errs: Vec<String>,
    /// (start, len, base_len): dump = ops[start..start+len]; the first base_len reads repeat the
    /// read list of the previous dump of the history (0 for the first dump)
    dumps: Vec<(usize, usize, usize)>,
    last_dump_kinds: Vec<Kind>,
    /// entry point used for each op (parallel to `ops`)
    vias: Vec<Via>,
}

impl<'a> Gen<'a> {
    fn new(rng: &'a mut Rng, nsess: i64) -> Self {
        Gen {
            rng,
            sh: Shadow { nsess, in_tx: vec![false; nsess as usize], nn: 0, ne: 0 },
            im: Impl::new(nsess as usize),
            ops: vec![],
            outs: vec![],
            errs: vec![],
            dumps: vec![],
            last_dump_kinds: vec![],
            vias: vec![],
        }
    }

    /// the entry point for an op: GQL through the session most of the time, otherwise Cypher, the
    /// parameterised entry point (QueryProcessor), Gremlin (unlabelled scan / count only) or the
    /// database-level convenience calls (a temporary session; only outside a transaction)
    fn pick_via(&mut self, op: &Op) -> Via {
        use Via::*;
        let lpg = [Gql, Gql, Gql, Gql, Cypher, Cypher, Params, Db, DbCypher, DbParams];
        let lpg_all = [Gql, Gql, Gql, Gql, Cypher, Cypher, Params, Gremlin, Gremlin, Db, DbCypher, DbParams];
        let rdf = [Gql, Gql, Gql, Params, Db, DbParams];
        match op {
            Op::Read(_, k) => match k {
                Kind::AllScan | Kind::CountAll => *self.rng.pick(&lpg_all),
                Kind::LabelScan(_) | Kind::CountLabel(_) | Kind::ProjProp(..) | Kind::Expand(..) => *self.rng.pick(&lpg),
                Kind::TripleQ(_) => *self.rng.pick(&rdf),
                _ => Gql,
            },
            Op::CreateNode(_, _, _, true)
            | Op::DeleteNode(..)
            | Op::CreateEdgeQ(..)
            | Op::SetProp(..)
            | Op::RemoveProp(..)
            | Op::AddLabel(..)
            | Op::RemoveLabel(..) => *self.rng.pick(&lpg),
            Op::InsertTriple(..) | Op::DeleteTriple(..) => *self.rng.pick(&rdf),
            _ => Gql,
        }
    }

    /// runs one op against the implementation and records it
    fn push(&mut self, op: Op) -> O {
        let via = self.pick_via(&op);
        self.vias.push(via);
        let im = std::panic::AssertUnwindSafe(&mut self.im);
        let opc = op.clone();
        let r = catch(move || {
            let mut im = im;
            im.0.exec(&opc, via)
        });
        let o = match r {
            Ok(Ok(o)) => o,
            Ok(Err(e)) => {
                self.errs.push(e.clone());
                O::Weird(e)
            }
            Err(p) => {
                self.errs.push(format!("panic: {}", p));
                O::Weird(format!("panic: {}", p))
            }
        };
        // shadow bookkeeping
        match (&op, &o) {
            (Op::Begin(s), O::Unit) if *s != OBSERVER => self.sh.in_tx[*s as usize] = true,
            (Op::Commit(s), _) | (Op::Rollback(s), _) | (Op::DropSession(s), _) if *s != OBSERVER => {
                self.sh.in_tx[*s as usize] = false
            }
            (Op::CreateNode(..), O::Id(x)) => self.sh.nn = self.sh.nn.max(x + 1),
            (Op::CreateEdge(..), O::Id(x)) => self.sh.ne = self.sh.ne.max(x + 1),
            (Op::CreateEdgeQ(..), O::Ids(l)) => {
                for x in l {
                    self.sh.ne = self.sh.ne.max(x + 1)
                }
            }
            _ => {}
        }
        self.ops.push(op);
        self.outs.push(o.clone());
        o
    }

    fn sess(&mut self) -> i64 {
        self.rng.below(self.sh.nsess as u64) as i64
    }
    fn label(&mut self) -> i64 {
        self.rng.below(NLABELS as u64) as i64
    }
    fn key(&mut self) -> i64 {
        self.rng.below(NKEYS as u64) as i64
    }
    fn ty(&mut self) -> i64 {
        self.rng.below(NTYPES as u64) as i64
    }
    fn value(&mut self) -> Val {
        if self.rng.chance(1, 8) { None } else { Some(self.rng.below(NVALS as u64) as i64) }
    }
    /// mostly an existing node id, sometimes one past the end
    fn node(&mut self) -> i64 {
        if self.sh.nn == 0 || self.rng.chance(1, 12) { self.sh.nn + self.rng.below(2) as i64 } else { self.rng.below(self.sh.nn as u64) as i64 }
    }
    /// an existing node id (edges are only created between ids that have been handed out)
    fn node_existing(&mut self) -> i64 {
        if self.sh.nn == 0 { 0 } else { self.rng.below(self.sh.nn as u64) as i64 }
    }
    fn edge(&mut self) -> i64 {
        if self.sh.ne == 0 || self.rng.chance(1, 12) { self.sh.ne + self.rng.below(2) as i64 } else { self.rng.below(self.sh.ne as u64) as i64 }
    }
    fn sel(&mut self) -> Sel {
        if self.rng.chance(3, 10) { Sel::Any } else { Sel::Label(self.label()) }
    }
    fn triple(&mut self) -> Tr {
        *self.rng.pick(&TRIPLES)
    }
    fn pattern(&mut self) -> Pat {
        match self.rng.below(6) {
            0 | 1 => (None, None, None),
            2 => (Some(self.rng.below(2) as i64), None, None),
            3 => (None, Some(self.rng.below(2) as i64), None),
            4 => (None, None, Some(self.rng.below(2) as i64)),
            _ => (Some(self.rng.below(2) as i64), Some(self.rng.below(2) as i64), None),
        }
    }
    fn labels(&mut self) -> Vec<i64> {
        let mut v = vec![];
        for l in 0..NLABELS {
            if self.rng.chance(2, 5) {
                v.push(l);
            }
        }
        v
    }
    fn props(&mut self, allow_null: bool) -> Vec<(i64, Val)> {
        let mut v = vec![];
        for k in 0..NKEYS {
            if self.rng.chance(2, 5) {
                let mut x = self.value();
                if !allow_null && x.is_none() {
                    x = Some(0);
                }
                v.push((k, x));
            }
        }
        v
    }

    fn read_kind(&mut self) -> Kind {
        match self.rng.below(21) {
            20 => Kind::FreshLabelScan(self.label()),
            0 | 1 | 2 => Kind::LabelScan(self.label()),
            3 | 4 => Kind::AllScan,
            5 => Kind::CountAll,
            6 => Kind::CountLabel(self.label()),
            7 | 8 => Kind::ProjProp(self.label(), self.key()),
            9 | 10 => {
                let m = self.sel();
                let d = *self.rng.pick(&[Dir::Out, Dir::Out, Dir::In, Dir::Both]);
                let t = if self.rng.chance(1, 2) { Some(self.ty()) } else { None };
                Kind::Expand(m, d, t)
            }
            11 | 12 | 13 => Kind::GetNode(self.node()),
            14 => Kind::GetEdge(self.edge()),
            15 => Kind::GetProp(self.node(), self.key()),
            16 => Kind::Neigh(self.node(), *self.rng.pick(&[Dir::Out, Dir::In])),
            17 => Kind::Degree(self.node()),
            18 => {
                if self.rng.chance(3, 4) { Kind::TripleQ(self.pattern()) } else { Kind::TripleApi(self.pattern()) }
            }
            _ => Kind::DbCounts,
        }
    }

    fn create_node(&mut self, s: i64) -> Op {
        let gql = self.rng.chance(1, 2);
        let ls = self.labels();
        let ps = self.props(!gql);
        Op::CreateNode(s, ls, ps, gql)
    }

    /// a random mutation by session `s`; `lpg_weight`/`rdf_weight` steer the mix
    fn mutation(&mut self, s: i64) -> Op {
        loop {
            let r = self.rng.below(100);
            let op = match r {
                0..=21 => {
                    if self.sh.nn >= MAXNODES {
                        continue;
                    }
                    self.create_node(s)
                }
                22..=29 => Op::DeleteNode(s, self.sel(), self.node(), self.rng.chance(1, 3)),
                30..=37 => {
                    if self.sh.ne >= MAXEDGES || self.sh.nn == 0 {
                        continue;
                    }
                    Op::CreateEdge(s, self.node_existing(), self.node_existing(), self.ty())
                }
                38..=43 => {
                    if self.sh.ne >= MAXEDGES || self.sh.nn == 0 {
                        continue;
                    }
                    Op::CreateEdgeQ(s, self.sel(), self.sel(), self.node_existing(), self.node_existing(), self.ty())
                }
                44..=46 => Op::DeleteEdge(self.edge()),
                47..=58 => Op::SetProp(s, self.sel(), self.node(), self.key(), self.value()),
                59..=62 => Op::RemoveProp(s, self.sel(), self.node(), self.key()),
                63..=69 => Op::AddLabel(s, self.sel(), self.node(), self.label()),
                70..=74 => Op::RemoveLabel(s, self.sel(), self.node(), self.label()),
                75..=84 => Op::InsertTriple(s, self.triple()),
                85..=90 => Op::DeleteTriple(s, self.triple()),
                91..=92 => Op::DbDeleteNode(self.node_existing()),
                93..=94 => {
                    if self.sh.nn == 0 {
                        continue;
                    }
                    Op::DbSetProp(self.node_existing(), self.key(), self.value())
                }
                95..=96 => Op::DbRemoveProp(self.node_existing(), self.key()),
                97..=98 => Op::DbAddLabel(self.node(), self.label()),
                _ => Op::DbRemoveLabel(self.node(), self.label()),
            };
            return op;
        }
    }

    /// a small committed starting graph, written outside any transaction by the observer session
    /// (epoch 0, TxId::SYSTEM — exactly what `GrafeoDB::create_node` does)
    fn fixture(&mut self, nodes: i64, edges: i64, triples: i64) {
        for _ in 0..nodes {
            let ls = self.labels();
            let ps = self.props(false);
            let gql = self.rng.chance(1, 2);
            self.push(Op::CreateNode(OBSERVER, ls, ps, gql));
        }
        for _ in 0..edges {
            if self.sh.nn > 0 {
                let (a, b, t) = (self.rng.below(self.sh.nn as u64) as i64, self.rng.below(self.sh.nn as u64) as i64, self.ty());
                self.push(Op::CreateEdge(OBSERVER, a, b, t));
            }
        }
        for _ in 0..triples {
            let t = self.triple();
            self.push(Op::InsertTriple(OBSERVER, t));
        }
    }

    /// full observable state through every access path, read by the observer session
    fn dump(&mut self) {
        let mut kinds: Vec<Kind> = self.last_dump_kinds.clone();
        let base = kinds.len();
        let mut fresh: Vec<Kind> = vec![];
        for n in 0..self.sh.nn {
            fresh.push(Kind::GetNode(n));
            fresh.push(Kind::Neigh(n, Dir::Out));
            fresh.push(Kind::Neigh(n, Dir::In));
            fresh.push(Kind::Degree(n));
            for k in 0..NKEYS {
                fresh.push(Kind::StoreProp(n, k));
                fresh.push(Kind::GetProp(n, k));
            }
        }
        for e in 0..self.sh.ne {
            fresh.push(Kind::GetEdge(e));
        }
        for l in 0..NLABELS {
            fresh.push(Kind::LabelScan(l));
            fresh.push(Kind::StoreLabel(l));
            fresh.push(Kind::CountLabel(l));
            fresh.push(Kind::FreshLabelScan(l));
            for k in 0..NKEYS {
                fresh.push(Kind::ProjProp(l, k));
            }
        }
        fresh.push(Kind::AllScan);
        fresh.push(Kind::CountAll);
        fresh.push(Kind::Expand(Sel::Any, Dir::Out, None));
        fresh.push(Kind::Expand(Sel::Any, Dir::In, None));
        fresh.push(Kind::Expand(Sel::Any, Dir::Both, None));
        for l in 0..NLABELS {
            fresh.push(Kind::Expand(Sel::Label(l), Dir::Out, None));
        }
        for t in 0..NTYPES {
            fresh.push(Kind::Expand(Sel::Any, Dir::Out, Some(t)));
        }
        fresh.push(Kind::TripleQ((None, None, None)));
        fresh.push(Kind::TripleApi((None, None, None)));
        fresh.push(Kind::DbCounts);
        for k in fresh {
            if !kinds.contains(&k) {
                kinds.push(k);
            }
        }
        let start = self.ops.len();
        for k in &kinds {
            self.push(Op::Read(OBSERVER, k.clone()));
        }
        self.dumps.push((start, kinds.len(), base));
        self.last_dump_kinds = kinds;
    }
}

// ---------------------------------------------------------------------------------- generators

/// random interleaving of everything
fn gen_random(g: &mut Gen, len: usize) {
    let (n, e, t) = (g.rng.below(4) as i64, g.rng.below(3) as i64, g.rng.below(3) as i64);
    g.fixture(n, e, t);
    for _ in 0..len {
        let s = g.sess();
        let in_tx = g.sh.in_tx[s as usize];
        let r = g.rng.below(100);
        let op = if r < 10 {
            if in_tx && g.rng.chance(9, 10) { Op::Read(s, g.read_kind()) } else { Op::Begin(s) }
        } else if r < 17 {
            if in_tx || g.rng.chance(1, 10) { Op::Commit(s) } else { Op::Begin(s) }
        } else if r < 23 {
            if in_tx || g.rng.chance(1, 10) { Op::Rollback(s) } else { Op::Begin(s) }
        } else if r < 24 {
            Op::DropSession(s)
        } else if r < 60 {
            g.mutation(s)
        } else {
            Op::Read(s, g.read_kind())
        };
        g.push(op);
    }
}

/// a writer's transaction is open while another session reads (dirty / fuzzy / phantom shapes)
fn gen_overlap(g: &mut Gen) {
    let (n, e, t) = (1 + g.rng.below(3) as i64, g.rng.below(3) as i64, g.rng.below(2) as i64);
    g.fixture(n, e, t);
    let w = 0;
    let r = 1;
    // optionally move to a later epoch first
    for _ in 0..g.rng.below(3) {
        g.push(Op::Begin(2 % g.sh.nsess));
        if g.rng.chance(1, 2) {
            let op = g.mutation(2 % g.sh.nsess);
            g.push(op);
        }
        g.push(Op::Commit(2 % g.sh.nsess));
    }
    let reader_tx = g.rng.below(3); // 0: no tx, 1: begins before the writer, 2: begins after the writer
    if reader_tx == 1 {
        g.push(Op::Begin(r));
    }
    g.push(Op::Begin(w));
    if reader_tx == 2 {
        g.push(Op::Begin(r));
    }
    let k = 1 + g.rng.below(4);
    for _ in 0..k {
        let op = g.mutation(w);
        g.push(op);
        for _ in 0..g.rng.below(3) {
            let kind = g.read_kind();
            g.push(Op::Read(r, kind));
        }
    }
    let end = g.rng.below(3);
    g.push(match end {
        0 => Op::Commit(w),
        1 => Op::Rollback(w),
        _ => Op::DropSession(w),
    });
    for _ in 0..(1 + g.rng.below(4)) {
        let kind = g.read_kind();
        g.push(Op::Read(r, kind));
    }
    if reader_tx != 0 {
        let c = g.rng.chance(1, 2);
        g.push(if c { Op::Commit(r) } else { Op::Rollback(r) });
        let kind = g.read_kind();
        g.push(Op::Read(r, kind));
    }
}

/// several commits, then writes outside transactions and reads through every path
fn gen_epoch(g: &mut Gen) {
    let (n, e) = (g.rng.below(3) as i64, g.rng.below(2) as i64);
    g.fixture(n, e, 0);
    for _ in 0..(1 + g.rng.below(3)) {
        let s = g.sess();
        g.push(Op::Begin(s));
        for _ in 0..g.rng.below(3) {
            let op = g.mutation(s);
            g.push(op);
        }
        g.push(Op::Commit(s));
    }
    for _ in 0..(2 + g.rng.below(5)) {
        let s = g.sess();
        let op = g.mutation(s);
        g.push(op);
        for _ in 0..(1 + g.rng.below(3)) {
            let s2 = g.sess();
            let kind = g.read_kind();
            g.push(Op::Read(s2, kind));
        }
    }
}

/// a transaction reads its own writes through every path (creations, in-place changes, its own deletes),
/// another session reads in between; at epoch 0 or after some commits
fn gen_own(g: &mut Gen) {
    let (n, e, t) = (g.rng.below(3) as i64, g.rng.below(2) as i64, g.rng.below(2) as i64);
    g.fixture(n, e, t);
    for _ in 0..g.rng.below(2) {
        g.push(Op::Begin(2));
        g.push(Op::Commit(2));
    }
    let w = 0;
    g.push(Op::Begin(w));
    let k = 2 + g.rng.below(5);
    for _ in 0..k {
        let op = match g.rng.below(10) {
            0 | 1 | 2 => {
                if g.sh.nn >= MAXNODES {
                    Op::InsertTriple(w, g.triple())
                } else {
                    g.create_node(w)
                }
            }
            3 | 4 => {
                if g.sh.ne >= MAXEDGES || g.sh.nn == 0 {
                    Op::DeleteTriple(w, g.triple())
                } else {
                    Op::CreateEdge(w, g.node_existing(), g.node_existing(), g.ty())
                }
            }
            // its own (most recent) node: delete / change
            5 => Op::DeleteNode(w, Sel::Any, (g.sh.nn - 1).max(0), g.rng.chance(1, 2)),
            6 => Op::DeleteNode(w, g.sel(), (g.sh.nn - 1).max(0), false),
            7 => Op::SetProp(w, g.sel(), (g.sh.nn - 1).max(0), g.key(), g.value()),
            8 => Op::AddLabel(w, g.sel(), (g.sh.nn - 1).max(0), g.label()),
            _ => Op::InsertTriple(w, g.triple()),
        };
        g.push(op);
        for _ in 0..(1 + g.rng.below(2)) {
            let kind = match g.rng.below(8) {
                0 => Kind::GetNode((g.sh.nn - 1).max(0)),
                1 => Kind::GetEdge((g.sh.ne - 1).max(0)),
                2 => Kind::LabelScan(g.label()),
                3 => Kind::Expand(g.sel(), *g.rng.pick(&[Dir::Out, Dir::In, Dir::Both]), None),
                _ => g.read_kind(),
            };
            g.push(Op::Read(w, kind));
        }
        if g.rng.chance(1, 3) {
            let kind = g.read_kind();
            g.push(Op::Read(1, kind));
        }
    }
    let c = g.rng.chance(1, 2);
    g.push(if c { Op::Commit(w) } else { Op::Rollback(w) });
    for _ in 0..2 {
        let kind = g.read_kind();
        g.push(Op::Read(w, kind));
    }
}

/// histories built to stay outside every finding class: readers whose snapshot precedes the
/// writer's begin, writers that only create unlabelled nodes / triples, single-session transactions
fn gen_clean(g: &mut Gen) {
    let variant = g.rng.below(3);
    // committed starting graph at epoch 0
    let (n, e, t) = (1 + g.rng.below(3) as i64, g.rng.below(3) as i64, g.rng.below(3) as i64);
    g.fixture(n, e, t);
    match variant {
        0 => {
            // reader begins, an empty transaction commits (epoch + 1), writer begins later and creates
            g.push(Op::Begin(1));
            g.push(Op::Begin(2 % g.sh.nsess.max(3)));
            g.push(Op::Commit(2 % g.sh.nsess.max(3)));
            g.push(Op::Begin(0));
            for _ in 0..(1 + g.rng.below(3)) {
                let op = if g.rng.chance(1, 2) { g.create_node(0) } else { Op::InsertTriple(0, g.triple()) };
                g.push(op);
                let kind = match g.rng.below(6) {
                    0 => Kind::LabelScan(g.label()),
                    1 => Kind::AllScan,
                    2 => Kind::GetNode(g.node()),
                    3 => Kind::TripleQ(g.pattern()),
                    4 => Kind::CountLabel(g.label()),
                    _ => Kind::ProjProp(g.label(), g.key()),
                };
                g.push(Op::Read(1, kind));
            }
            let c = g.rng.chance(1, 2);
            g.push(if c { Op::Commit(0) } else { Op::Rollback(0) });
            let kind = Kind::LabelScan(g.label());
            g.push(Op::Read(1, kind));
            g.push(Op::Commit(1));
        }
        1 => {
            // triples only: writer buffers, others read the committed set
            g.push(Op::Begin(0));
            for _ in 0..(1 + g.rng.below(4)) {
                let op = if g.rng.chance(2, 3) { Op::InsertTriple(0, g.triple()) } else { Op::DeleteTriple(0, g.triple()) };
                g.push(op);
                let p = g.pattern();
                g.push(Op::Read(1, Kind::TripleQ(p)));
            }
            let c = g.rng.chance(1, 2);
            g.push(if c { Op::Commit(0) } else { Op::Rollback(0) });
            let p = g.pattern();
            g.push(Op::Read(1, Kind::TripleQ(p)));
            g.push(Op::Read(0, Kind::TripleQ((None, None, None))));
        }
        _ => {
            // one session at a time: own writes inside the transaction, everybody afterwards
            g.push(Op::Begin(0));
            for _ in 0..(1 + g.rng.below(3)) {
                let op = g.create_node(0);
                g.push(op);
                let kind = match g.rng.below(3) {
                    0 => Kind::LabelScan(g.label()),
                    1 => Kind::GetNode(g.node()),
                    _ => Kind::AllScan,
                };
                g.push(Op::Read(0, kind));
            }
            g.push(Op::Commit(0));
            for _ in 0..3 {
                let kind = match g.rng.below(3) {
                    0 => Kind::LabelScan(g.label()),
                    1 => Kind::GetNode(g.node()),
                    _ => Kind::AllScan,
                };
                g.push(Op::Read(1, kind));
            }
        }
    }
}

/// C02: dump, one transaction with mixed mutations (other sessions only read), end, dump
fn gen_atomic(g: &mut Gen, ntx: usize) {
    let (n, e, t) = (1 + g.rng.below(3) as i64, g.rng.below(3) as i64, g.rng.below(3) as i64);
    g.fixture(n, e, t);
    // starting graphs are themselves generated histories: sometimes a few committed transactions first
    for _ in 0..g.rng.below(3) {
        let s = g.sess();
        g.push(Op::Begin(s));
        for _ in 0..(1 + g.rng.below(2)) {
            let op = g.mutation(s);
            g.push(op);
        }
        g.push(Op::Commit(s));
    }
    for _ in 0..ntx {
        g.dump();
        let s = g.sess();
        g.push(Op::Begin(s));
        let k = 2 + g.rng.below(4);
        let clean = g.rng.chance(1, 4);
        for _ in 0..k {
            let op = if clean {
                // creations without labels / properties and triple operations only
                match g.rng.below(3) {
                    0 => Op::CreateNode(s, vec![], vec![], g.rng.chance(1, 2)),
                    1 => Op::InsertTriple(s, g.triple()),
                    _ => Op::DeleteTriple(s, g.triple()),
                }
            } else {
                loop {
                    let op = g.mutation(s);
                    // database-level calls are not part of the session's transaction
                    if op.session().is_some() {
                        break op;
                    }
                }
            };
            g.push(op);
            if g.rng.chance(1, 3) {
                let other = (s + 1) % g.sh.nsess;
                if !g.sh.in_tx[other as usize] {
                    let kind = g.read_kind();
                    g.push(Op::Read(other, kind));
                }
            }
        }
        let end = g.rng.below(10);
        g.push(match end {
            0..=3 => Op::Commit(s),
            4..=8 => Op::Rollback(s),
            _ => Op::DropSession(s),
        });
        g.dump();
        // transaction control outside the enclosed segment: ends without a transaction, a second begin
        if g.rng.chance(1, 3) {
            let s2 = g.sess();
            match g.rng.below(4) {
                0 => {
                    g.push(Op::Commit(s2));
                }
                1 => {
                    g.push(Op::Rollback(s2));
                }
                2 => {
                    g.push(Op::Begin(s2));
                    g.push(Op::Begin(s2));
                    g.push(Op::Rollback(s2));
                    g.push(Op::Rollback(s2));
                }
                _ => {
                    g.push(Op::Begin(s2));
                    g.push(Op::Commit(s2));
                    g.push(Op::Commit(s2));
                    g.push(Op::Begin(s2));
                    g.push(Op::Rollback(s2));
                }
            }
        }
    }
}

// -------------------------------------------------------------------------------------- corpus

fn corpus(prop: &str) -> Vec<(&'static str, Vec<Op>, bool)> {
    use Kind::*;
    use Op::*;
    let mut v: Vec<(&'static str, Vec<Op>, bool)> = vec![];
    if prop == "c01" {
        // K1 dirty read: B sees A's uncommitted insert (probe a)
        v.push(("corpus:K1-dirty", vec![Begin(0), CreateNode(0, vec![0], vec![(0, Some(1))], true), Read(1, LabelScan(0)), Read(1, GetNode(0)), Rollback(0), Read(1, LabelScan(0))], false));
        // K1 phantom: reader's transaction began before the writer committed
        v.push(("corpus:K1-phantom", vec![Begin(1), Read(1, LabelScan(0)), Begin(0), CreateNode(0, vec![0], vec![], false), Commit(0), Read(1, LabelScan(0)), Commit(1)], false));
        // K2 property written by an open transaction, and left after rollback (probe c)
        v.push(("corpus:K2-setprop", vec![CreateNode(OBSERVER, vec![0], vec![(0, Some(1))], false), Begin(0), SetProp(0, Sel::Label(0), 0, 0, Some(2)), Read(1, GetNode(0)), Rollback(0), Read(1, GetProp(0, 0))], false));
        // K3 delete observed before commit and after rollback
        v.push(("corpus:K3-delete", vec![CreateNode(OBSERVER, vec![0], vec![], false), Begin(0), DeleteNode(0, Sel::Label(0), 0, false), Read(1, GetNode(0)), Rollback(0), Read(1, LabelScan(0))], false));
        // K4 store epoch: after one commit, writes are stamped 1 and the unlabelled paths miss them (probe b)
        v.push(("corpus:K4-epoch", vec![Begin(0), Commit(0), CreateNode(1, vec![0], vec![(0, Some(2))], true), Read(1, LabelScan(0)), Read(1, AllScan), Read(1, CountAll), Read(1, ProjProp(0, 0)), Read(1, DbCounts), CreateNode(1, vec![0], vec![], false), CreateEdge(1, 0, 1, 0), Read(1, Expand(Sel::Label(0), Dir::Out, None)), Read(1, Expand(Sel::Label(0), Dir::Out, Some(0)))], false));
        // K5 own pending triple operations are invisible to the transaction's SPARQL reads; find_with_pending anomalies
        v.push(("corpus:K5-rdf", vec![InsertTriple(OBSERVER, (0, 0, 0)), Begin(0), InsertTriple(0, (1, 1, 1)), Read(0, TripleQ((None, None, None))), InsertTriple(0, (0, 0, 0)), Read(0, TripleApi((None, None, None))), DeleteTriple(0, (1, 1, 1)), Read(0, TripleApi((None, None, None))), Read(1, TripleQ((None, None, None))), Commit(0), Read(1, TripleQ((None, None, None)))], false));
        // K6 neighbours ignore visibility
        v.push(("corpus:K6-neigh", vec![CreateNode(OBSERVER, vec![], vec![], false), CreateNode(OBSERVER, vec![], vec![], false), Begin(0), CreateEdge(0, 0, 1, 0), Read(1, Neigh(0, Dir::Out)), Read(1, Degree(0)), Rollback(0), Read(1, Neigh(0, Dir::Out)), Read(1, GetEdge(0))], false));
        // K7 (repaired by 752d5ee, must pass now): GrafeoDB::execute_cypher_with_params planned with a private transaction manager (epoch 0)
        v.push(("corpus:K7-fresh-manager", vec![Begin(0), Commit(0), Begin(0), CreateNode(0, vec![0], vec![(0, Some(1))], true), Commit(0), Read(OBSERVER, LabelScan(0)), Read(OBSERVER, FreshLabelScan(0))], false));
        // expands: clean (reader's snapshot precedes the writer), and one deviation per class (1, 3, 4)
        v.push(("corpus:clean-expand", vec![CreateNode(OBSERVER, vec![0], vec![], false), CreateNode(OBSERVER, vec![1], vec![], false), CreateEdge(OBSERVER, 0, 1, 0), CreateEdge(OBSERVER, 1, 1, 1), Begin(1), Begin(2), Commit(2), Begin(0), CreateEdge(0, 1, 0, 1), Read(0, Expand(Sel::Any, Dir::Both, None)), Read(1, Expand(Sel::Label(0), Dir::Out, Some(0))), Read(1, Expand(Sel::Any, Dir::In, None)), Read(1, Expand(Sel::Any, Dir::Both, Some(1))), Commit(0), Read(1, Expand(Sel::Any, Dir::Out, None))], false));
        v.push(("corpus:expand-K1", vec![CreateNode(OBSERVER, vec![], vec![], false), CreateNode(OBSERVER, vec![], vec![], false), Begin(0), CreateEdge(0, 0, 1, 0), Read(1, Expand(Sel::Any, Dir::Out, None))], false));
        v.push(("corpus:expand-K3", vec![CreateNode(OBSERVER, vec![], vec![], false), CreateNode(OBSERVER, vec![], vec![], false), CreateEdge(OBSERVER, 0, 1, 0), Begin(0), DeleteNode(0, Sel::Any, 1, true), Read(1, Expand(Sel::Any, Dir::Out, None))], false));
        v.push(("corpus:expand-K4", vec![CreateNode(OBSERVER, vec![0], vec![], false), Begin(0), Commit(0), CreateNode(1, vec![0], vec![], false), CreateEdge(1, 0, 1, 0), Read(1, Expand(Sel::Label(0), Dir::Out, Some(0)))], false));
        // GrafeoDB::delete_node detaches the node first (109e5bf); at epoch 0 the edge goes, after a commit an edge
        // stamped with epoch 1 stays (store-epoch path: K4)
        v.push(("corpus:db-delete-detaches", vec![CreateNode(OBSERVER, vec![], vec![], false), CreateNode(OBSERVER, vec![], vec![], false), CreateEdge(OBSERVER, 0, 1, 0), DbDeleteNode(1), Read(OBSERVER, GetEdge(0)), Read(OBSERVER, Neigh(0, Dir::Out))], false));
        v.push(("corpus:db-delete-epoch1", vec![CreateNode(OBSERVER, vec![], vec![], false), CreateNode(OBSERVER, vec![], vec![], false), Begin(0), Commit(0), CreateEdge(OBSERVER, 0, 1, 0), DbDeleteNode(1), Read(OBSERVER, GetEdge(0)), Read(OBSERVER, GetNode(1))], false));
        // outside every class: reader's snapshot precedes the writer's begin
        v.push(("corpus:clean-later-starter", vec![CreateNode(OBSERVER, vec![0], vec![], false), Begin(1), Begin(2), Commit(2), Begin(0), CreateNode(0, vec![0], vec![(0, Some(3))], true), Read(1, LabelScan(0)), Read(1, GetNode(1)), Read(1, AllScan), Commit(0), Read(1, LabelScan(0)), Commit(1), Read(1, LabelScan(0))], false));
        // error paths of the transaction state machine
        v.push(("corpus:state-machine", vec![Commit(0), Rollback(0), Begin(0), Begin(0), Commit(0), Commit(0), Begin(0), Rollback(0), Rollback(0)], false));
    } else {
        // K1: rollback leaves SET / REMOVE / label changes / DELETE
        v.push(("corpus:K1-rollback-inplace", vec![CreateNode(OBSERVER, vec![0], vec![(0, Some(1))], false), CreateNode(OBSERVER, vec![1], vec![], false)], true));
        v.push(("corpus:K2-rollback-creation", vec![CreateNode(OBSERVER, vec![0], vec![], false)], true));
        v.push(("corpus:K4-drop", vec![CreateNode(OBSERVER, vec![0], vec![], false)], true));
        // C02-K4 repaired (3eb02b5): the unlabelled shape must now leave the dump unchanged
        v.push(("corpus:K4-drop-plain", vec![CreateNode(OBSERVER, vec![0], vec![], false)], true));
        v.push(("corpus:K5-commit-epoch", vec![], true));
        v.push(("corpus:clean-rollback", vec![CreateNode(OBSERVER, vec![0], vec![(1, Some(2))], false), InsertTriple(OBSERVER, (0, 0, 0))], true));
        v.push(("corpus:clean-commit", vec![CreateNode(OBSERVER, vec![0], vec![(1, Some(2))], false), InsertTriple(OBSERVER, (0, 0, 0))], true));
        // error paths of the transaction state machine (judged by ctl_fails)
        v.push(("corpus:state-machine", vec![Commit(0), Rollback(0), Begin(0), Begin(0), Commit(0), Commit(0), Begin(0), Rollback(0), Rollback(0), Begin(0), DropSession(0), Begin(0), Rollback(0)], false));
    }
    v
}

/// the transaction of a C02 corpus entry (between two dumps)
fn corpus_tx(name: &str) -> Vec<Op> {
    use Op::*;
    match name {
        "corpus:K1-rollback-inplace" => vec![Begin(0), SetProp(0, Sel::Label(0), 0, 0, Some(2)), AddLabel(0, Sel::Label(0), 0, 2), RemoveLabel(0, Sel::Label(1), 1, 1), DeleteNode(0, Sel::Label(0), 0, false), Rollback(0)],
        "corpus:K2-rollback-creation" => vec![Begin(0), CreateNode(0, vec![1], vec![(0, Some(3))], true), CreateEdge(0, 0, 1, 0), Rollback(0)],
        "corpus:K4-drop" => vec![Begin(0), CreateNode(0, vec![1], vec![], false), InsertTriple(0, (0, 0, 0)), DropSession(0)],
        "corpus:K4-drop-plain" => vec![Begin(0), CreateNode(0, vec![], vec![], false), InsertTriple(0, (0, 0, 0)), DropSession(0)],
        "corpus:K5-commit-epoch" => vec![Begin(1), Commit(1), Begin(0), CreateNode(0, vec![0], vec![(0, Some(1))], true), InsertTriple(0, (0, 0, 0)), Commit(0)],
        "corpus:clean-rollback" => vec![Begin(0), CreateNode(0, vec![], vec![], false), InsertTriple(0, (1, 1, 1)), DeleteTriple(0, (0, 0, 0)), Read(1, Kind::AllScan), Rollback(0)],
        "corpus:clean-commit" => vec![Begin(0), CreateNode(0, vec![], vec![], false), InsertTriple(0, (1, 1, 1)), DeleteTriple(0, (0, 0, 0)), Read(1, Kind::TripleQ((None, None, None))), Commit(0)],
        _ => vec![],
    }
}

// ---------------------------------------------------------------------------------------- main

fn nontrivial_c01(ops: &[Op]) -> bool {
    // a read by one session strictly inside another session's open transaction
    let mut open: Vec<i64> = vec![];
    let mut sessions = std::collections::BTreeSet::new();
    let mut hit = false;
    for op in ops {
        if let Some(s) = op.session() {
            if s != OBSERVER {
                sessions.insert(s);
            }
        }
        match op {
            Op::Begin(s) => {
                if !open.contains(s) {
                    open.push(*s)
                }
            }
            Op::Commit(s) | Op::Rollback(s) | Op::DropSession(s) => open.retain(|x| x != s),
            Op::Read(s, _) => {
                if open.iter().any(|x| x != s) {
                    hit = true
                }
            }
            _ => {}
        }
    }
    hit && sessions.len() >= 2
}

fn nontrivial_c02(ops: &[Op], dumps: &[(usize, usize, usize)]) -> bool {
    // a transaction with >= 2 mutations of different kinds, ended by commit or rollback, observed
    // by another session (the observer's dump after its end)
    let mut i = 0;
    while i < ops.len() {
        if let Op::Begin(s) = &ops[i] {
            let mut kinds = std::collections::BTreeSet::new();
            let mut j = i + 1;
            while j < ops.len() {
                match &ops[j] {
                    Op::Commit(x) | Op::Rollback(x) if x == s => break,
                    Op::DropSession(x) if x == s => break,
                    o if o.session() == Some(*s) && o.is_mutation() => {
                        kinds.insert(o.mkind());
                    }
                    _ => {}
                }
                j += 1;
            }
            if j < ops.len() && kinds.len() >= 2 && dumps.iter().any(|d| d.0 > j) {
                return true;
            }
        }
        i += 1;
    }
    false
}

fn emit(out: &mut Out, name: &str, g: Gen, prop: &str, show: bool) {
    let ops_s = coq::list(g.ops.iter().map(|o| o.coq()));
    let outs_s = coq::list(g.outs.iter().map(|o| o.coq()));
    let mut tags = vec![format!("stream:{}", name.split(':').next().unwrap_or(name)), format!("len:{}", (g.ops.len() / 10) * 10)];
    let mut kinds = std::collections::BTreeSet::new();
    for o in &g.ops {
        match o {
            Op::Read(_, k) => {
                let n = format!("{:?}", k);
                kinds.insert(format!("read:{}", n.split('(').next().unwrap_or(&n)));
            }
            Op::Begin(_) | Op::Commit(_) | Op::Rollback(_) | Op::DropSession(_) => {
                let n = format!("{:?}", o);
                kinds.insert(format!("tx:{}", n.split('(').next().unwrap_or(&n)));
            }
            m => {
                kinds.insert(format!("mut:{}", m.mkind()));
            }
        }
    }
    tags.extend(kinds);
    let human: Vec<String> = g
        .ops
        .iter()
        .zip(g.vias.iter())
        .map(|(o, v)| if *v == Via::Gql { format!("{:?}", o) } else { format!("{:?}@{:?}", o, v) })
        .collect();
    let mut vias = std::collections::BTreeSet::new();
    for v in &g.vias {
        if *v != Via::Gql {
            vias.insert(format!("via:{:?}", v));
        }
    }
    tags.extend(vias);
    let dumps_s = coq::list(g.dumps.iter().map(|(a, b, c)| format!("({}, {}, {})", z(*a as i64), z(*b as i64), z(*c as i64))));
    let nt = if prop == "c01" { nontrivial_c01(&g.ops) } else { nontrivial_c02(&g.ops, &g.dumps) };
    if show {
        eprintln!("--- {} ({} ops, nt={})", name, g.ops.len(), nt);
        for ((o, r), v) in g.ops.iter().zip(g.outs.iter()).zip(g.vias.iter()) {
            eprintln!("    {:?} @{:?}  =>  {:?}", o, v, r);
        }
    }
    let c = Case {
        kind: name.to_string(),
        input: human.join("; "),
        coq: Some(format!("chk_hist {} {}", ops_s, outs_s)),
        show: Some(format!("show_hist {} {}", ops_s, outs_s)),
        oracle: Oracle::Na,
        msg: format!("dumps={}{}", dumps_s, if g.errs.is_empty() { String::new() } else { format!(" errors={:?}", g.errs) }),
        kcoq: None,
        kid: None,
        nontrivial: nt,
        imp: g.outs.iter().map(|o| format!("{:?}", o)).collect::<Vec<_>>().join("; "),
        tags,
    };
    out.emit(&c);
}

fn main() {
    quiet_panics();
    let a = parse_args();
    let mut prop = "c01".to_string();
    let mut show = false;
    let mut it = a.rest.iter();
    while let Some(x) = it.next() {
        match x.as_str() {
            "--prop" => prop = it.next().cloned().unwrap_or_default(),
            "--show" => show = true,
            _ => {}
        }
    }
    let mut out = Out::create(a.out.as_deref());
    let mut rng = Rng::new(a.seed ^ if prop == "c01" { 0x0c01 } else { 0x0c02 });

    // corpus first
    for (name, pre, is_c02) in corpus(&prop) {
        let mut r = rng.fork();
        let mut g = Gen::new(&mut r, 3);
        for o in pre {
            g.push(o);
        }
        if is_c02 {
            g.dump();
            for o in corpus_tx(name) {
                g.push(o);
            }
            g.dump();
        }
        emit(&mut out, name, g, &prop, show);
    }

    for i in 0..a.cases {
        let mut r = rng.fork();
        let nsess = 2 + r.below(3) as i64;
        let mut g = Gen::new(&mut r, nsess.max(3));
        let name;
        if prop == "c01" {
            match i % 10 {
                0 | 1 => {
                    name = "overlap";
                    gen_overlap(&mut g);
                }
                2 => {
                    name = "own";
                    gen_own(&mut g);
                }
                3 | 4 => {
                    name = "epoch";
                    gen_epoch(&mut g);
                }
                5 | 6 => {
                    name = "clean";
                    gen_clean(&mut g);
                }
                _ => {
                    name = "random";
                    let len = 4 + g.rng.below(if a.tier == "quick" { 37 } else { 57 }) as usize;
                    gen_random(&mut g, len);
                }
            }
        } else {
            name = "atomic";
            let ntx = 1 + g.rng.below(2) as usize;
            gen_atomic(&mut g, ntx);
        }
        emit(&mut out, name, g, &prop, show);
    }
    out.finish();
}
