// temporary probe (replaced by the real harness)
use grafeo_engine::GrafeoDB;
use grafeo_common::types::{Value, NodeId, EdgeId};

fn show(tag: &str, r: grafeo_common::utils::error::Result<grafeo_engine::database::QueryResult>) {
    match r {
        Ok(q) => {
            let rows: Vec<String> = q.rows.iter().map(|r| format!("{:?}", r)).collect();
            println!("{:60} OK rows={}", tag, rows.join(" | "));
        }
        Err(e) => println!("{:60} ERR {}", tag, e),
    }
}

fn main() {
    let db = GrafeoDB::new_in_memory();
    let mut a = db.session();
    let mut b = db.session();
    println!("=== probe a: dirty read");
    a.begin_tx().unwrap();
    show("A: INSERT (:L {k: 1})", a.execute("INSERT (:L {k: 1})"));
    show("B: MATCH (n:L) RETURN n", b.execute("MATCH (n:L) RETURN n"));
    show("B: MATCH (n) RETURN n", b.execute("MATCH (n) RETURN n"));
    println!("B: get_node(0) = {:?}", b.get_node(NodeId::new(0)).map(|n| (n.labels.clone(), n.properties.clone())));
    a.rollback().unwrap();
    show("B after rollback: MATCH (n:L) RETURN n", b.execute("MATCH (n:L) RETURN n"));
    println!("B: get_node(0) = {:?}", b.get_node(NodeId::new(0)).map(|n| (n.labels.clone(), n.properties.clone())));
    println!("store.nodes_by_label(L) = {:?}", db.store().nodes_by_label("L"));
    println!("=== probe b: store epoch");
    a.begin_tx().unwrap();
    let n1 = a.create_node_with_props(&["L"], [("k", Value::Int64(5))]);
    a.commit().unwrap();
    println!("n1 = {:?} (committed at epoch 1, stamped 0)", n1);
    show("B: INSERT (:L {k: 2})  (auto, stamped epoch 1)", b.execute("INSERT (:L {k: 2})"));
    show("B: MATCH (n:L) RETURN n, n.k", b.execute("MATCH (n:L) RETURN n, n.k"));
    show("B: MATCH (n) RETURN n", b.execute("MATCH (n) RETURN n"));
    show("B: MATCH (n) RETURN count(n)", b.execute("MATCH (n) RETURN count(n)"));
    show("B: MATCH (n:L) RETURN count(n)", b.execute("MATCH (n:L) RETURN count(n)"));
    println!("db.node_count() = {}", db.node_count());
    println!("B: get_node(2) = {:?}", b.get_node(NodeId::new(2)).map(|n| (n.labels.clone(), n.properties.clone())));
    println!("B: get_node_property(2,k) = {:?}", b.get_node_property(NodeId::new(2), "k"));
    let e = b.create_edge(NodeId::new(1), NodeId::new(2), "T");
    println!("edge {:?}", e);
    show("B: MATCH (a:L)-[r:T]->(b) RETURN a, r, b", b.execute("MATCH (a:L)-[r:T]->(b) RETURN a, r, b"));
    show("B: MATCH (a:L)-[r]->(b) RETURN a, r, b", b.execute("MATCH (a:L)-[r]->(b) RETURN a, r, b"));
    show("B: MATCH (a:L)-[r]->(b) RETURN a, type(r), b", b.execute("MATCH (a:L)-[r]->(b) RETURN a, type(r), b"));
    println!("B: neighbors_out(1) = {:?} in(2) = {:?} degree(1) = {:?}", b.get_neighbors_outgoing(NodeId::new(1)), b.get_neighbors_incoming(NodeId::new(2)), b.get_degree(NodeId::new(1)));
    println!("B: get_edge = {:?}", b.get_edge(e).map(|e| (e.src, e.dst, e.edge_type.clone())));
    println!("db.edge_count() = {}", db.edge_count());
    show("B: MATCH (n) WHERE id(n) = 2 SET n.k = 9", b.execute("MATCH (n) WHERE id(n) = 2 SET n.k = 9"));
    show("B: MATCH (n:L) WHERE id(n) = 2 SET n:Q", b.execute("MATCH (n:L) WHERE id(n) = 2 SET n:Q"));
    println!("B: get_node(2) = {:?}", b.get_node(NodeId::new(2)).map(|n| (n.labels.clone(), n.properties.clone())));
    show("B: MATCH (n:L) WHERE id(n) = 2 DETACH DELETE n", b.execute("MATCH (n:L) WHERE id(n) = 2 DETACH DELETE n"));
    println!("B: get_node(2) = {:?} get_edge={:?}", b.get_node(NodeId::new(2)).map(|n| (n.labels.clone(), n.properties.clone())), b.get_edge(e).is_some());
    println!("B: neighbors_out(1) = {:?}", b.get_neighbors_outgoing(NodeId::new(1)));
    println!("=== probe c: rollback of SET / DELETE");
    let db = GrafeoDB::new_in_memory();
    let mut a = db.session();
    let b = db.session();
    let n0 = db.create_node(&["L"]);
    db.set_node_property(n0, "v", Value::Int64(1));
    a.begin_tx().unwrap();
    show("A: SET n.v = 2", a.execute("MATCH (n:L) WHERE id(n) = 0 SET n.v = 2"));
    a.rollback().unwrap();
    println!("B: get_node(0) = {:?}", b.get_node(n0).map(|n| (n.labels.clone(), n.properties.clone())));
    a.begin_tx().unwrap();
    show("A: REMOVE n.v", a.execute("MATCH (n:L) WHERE id(n) = 0 REMOVE n.v"));
    println!("B: get_node(0) = {:?}", b.get_node(n0).map(|n| (n.labels.clone(), n.properties.clone())));
    a.rollback().unwrap();
    a.begin_tx().unwrap();
    show("A: DELETE n", a.execute("MATCH (n:L) WHERE id(n) = 0 DELETE n"));
    println!("A(in tx): get_node(0) = {:?}", a.get_node(n0).is_some());
    println!("B: get_node(0) = {:?}", b.get_node(n0).is_some());
    a.rollback().unwrap();
    println!("B after rollback: get_node(0) = {:?}", b.get_node(n0).is_some());
    show("B: MATCH (n:L) RETURN n", b.execute("MATCH (n:L) RETURN n"));
    println!("=== drop");
    {
        let mut c = db.session();
        c.begin_tx().unwrap();
        show("C: INSERT (:D)", c.execute("INSERT (:D)"));
        c.execute_sparql("INSERT DATA { <http://e/s> <http://e/p> <http://e/o> }").unwrap();
    }
    show("B: MATCH (n:D) RETURN n", b.execute("MATCH (n:D) RETURN n"));
    show("B: sparql", b.execute_sparql("SELECT ?s ?p ?o WHERE { ?s ?p ?o }"));
    // null props
    let s = db.session();
    let x = s.create_node_with_props(&["P"], [("a", Value::Null)]);
    println!("null prop node {:?}", s.get_node(x).map(|n| (n.labels.clone(), n.properties.clone())));
    show("labels order", s.execute("INSERT (:X:A:M {z: 1, a: 2})"));
}
