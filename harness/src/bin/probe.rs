use grafeo_adapters::query::{gql, cypher, sparql, gremlin, graphql};
use gv_harness::catch;
fn main() {
    let inputs = ["é", "MATCH (n) RETURN n é", "MATCH (é) RETURN é", "\"é\" x", "{ a(x: \"é\") { b } }", "g.V().has('é', 'ü')  é", "SELECT ?x WHERE { ?x ?p \"é\" } é", "{ é }", "{ a #é\n b }", "g.V()é", "x é y", "éé.é", "MATCH (n) WHERE n.x = 'é' RETURN n", "→"];
    for i in inputs {
        let a = catch(|| gql::parse(i).is_ok());
        let b = catch(|| cypher::parse(i).is_ok());
        let c = catch(|| sparql::parse(i).is_ok());
        let d = catch(|| gremlin::parse(i).is_ok());
        let e = catch(|| graphql::parse(i).is_ok());
        println!("{:40} gql={:?} cypher={:?} sparql={:?} gremlin={:?} graphql={:?}", i.replace('\n'," "), a.is_ok(), b.is_ok(), c.is_ok(), d.is_ok(), e.is_ok());
    }
}
