//! C18 — vector search: runs the real kernels, `brute_force_knn`, `HnswIndex`, `QuantizedHnswIndex`,
//! `ScalarQuantizer` and `GrafeoDB::vector_search` on generated inputs and emits, per case,
//!   * the Coq term comparing the implementation's observation with the model (GV.Vec.Run) —
//!     on EXACT inputs (small integers / dyadic rationals, where f32 arithmetic is exact; every
//!     implementation distance is passed as its f32 bit pattern), and
//!   * the property oracle evaluated on the implementation itself (<= k, distinct, live, exact
//!     distance, sorted, k results when >= k vectors are held, batch = one by one).
//!
//! The HNSW graph is private.  With the cfg hook `HnswIndex::verif_dump` (proposed-hooks/
//! C18-hnsw-dump.diff) the harness passes levels, adjacency and entry point to the model after
//! every mutation.  Without it (method resolution falls back to the trait below) exact replay is
//! restricted to indexes built with `ml = 0.0` (every level is 0; the entry picked by `remove`
//! is left to the model to resolve), everything else is oracle-only.
use grafeo_common::types::NodeId;
use grafeo_core::index::vector::quantization::ScalarQuantizer;
use grafeo_core::index::vector::{
    DistanceMetric, HnswConfig, HnswIndex, QuantizationType, QuantizedHnswIndex, brute_force_knn, brute_force_knn_filtered,
    compute_distance, cosine_distance, dot_product, euclidean_distance, euclidean_distance_squared, l2_norm,
    manhattan_distance, normalize, simd_support,
};
use gv_harness::*;
use std::collections::{BTreeMap, BTreeSet};

type Dump = (Option<u64>, usize, Vec<(u64, Vec<Vec<u64>>)>);

/// Fallback used until the hook is applied: an inherent `verif_dump` takes precedence over this.
trait VerifDumpFallback {
    fn verif_dump(&self) -> Dump;
}
impl VerifDumpFallback for HnswIndex {
    fn verif_dump(&self) -> Dump {
        (None, usize::MAX, Vec::new())
    }
}
fn dump_of(ix: &HnswIndex) -> Option<Dump> {
    let d = ix.verif_dump();
    if d.1 == usize::MAX { None } else { Some(d) }
}
fn hook_present() -> bool {
    let ix = HnswIndex::new(HnswConfig::new(1, DistanceMetric::Euclidean));
    dump_of(&ix).is_some()
}

// ------------------------------------------------------------------------------------------ printing

fn zi(v: i64) -> String {
    if v < 0 { format!("({})", v) } else { format!("{}", v) }
}
fn zvec(v: &[i64]) -> String {
    let mut s = String::from("[");
    for (i, x) in v.iter().enumerate() {
        if i > 0 {
            s.push(';');
        }
        s.push_str(&zi(*x));
    }
    s.push(']');
    s
}
fn uvec(v: &[u64]) -> String {
    let mut s = String::from("[");
    for (i, x) in v.iter().enumerate() {
        if i > 0 {
            s.push(';');
        }
        s.push_str(&x.to_string());
    }
    s.push(']');
    s
}
fn bits(x: f32) -> u64 {
    x.to_bits() as u64
}
/// (id, f32 bits) list
fn res_term(r: &[(NodeId, f32)]) -> String {
    let mut s = String::from("[");
    for (i, (id, d)) in r.iter().enumerate() {
        if i > 0 {
            s.push(';');
        }
        s.push_str(&format!("({},{})", id.0, bits(*d)));
    }
    s.push(']');
    s
}
fn res_human(r: &[(NodeId, f32)]) -> String {
    r.iter().map(|(id, d)| format!("{}:{}", id.0, d)).collect::<Vec<_>>().join(" ")
}
fn f32v(v: &[i64], j: u32) -> Vec<f32> {
    let s = 1.0f32 / (1u32 << j) as f32;
    v.iter().map(|&x| x as f32 * s).collect()
}

#[derive(Clone, Copy, PartialEq, Debug)]
enum Mt {
    Euclid,
    Dot,
    Manh,
    /// pre-normalised cosine of HnswIndex on vectors of one common squared norm s2 (or zero)
    Cos(i64),
}
impl Mt {
    fn coq(&self) -> String {
        match self {
            Mt::Euclid => "Euclidean".into(),
            Mt::Dot => "DotProduct".into(),
            Mt::Manh => "Manhattan".into(),
            Mt::Cos(s2) => format!("(CosineN {})", s2),
        }
    }
    fn metric(&self) -> DistanceMetric {
        match self {
            Mt::Euclid => DistanceMetric::Euclidean,
            Mt::Dot => DistanceMetric::DotProduct,
            Mt::Manh => DistanceMetric::Manhattan,
            Mt::Cos(_) => DistanceMetric::Cosine,
        }
    }
    fn name(&self) -> &'static str {
        match self {
            Mt::Euclid => "euclidean",
            Mt::Dot => "dot",
            Mt::Manh => "manhattan",
            Mt::Cos(_) => "cosine",
        }
    }
    /// the exact integer distance of the model
    fn exact(&self, a: &[i64], b: &[i64]) -> i64 {
        match self {
            Mt::Euclid => a.iter().zip(b).map(|(x, y)| (x - y) * (x - y)).sum(),
            Mt::Dot => -a.iter().zip(b).map(|(x, y)| x * y).sum::<i64>(),
            Mt::Manh => a.iter().zip(b).map(|(x, y)| (x - y).abs()).sum(),
            Mt::Cos(s2) => s2 - a.iter().zip(b).map(|(x, y)| x * y).sum::<i64>(),
        }
    }
    /// the f32 the implementation must report for that exact distance (independent recomputation)
    fn expected_f32(&self, d: i64) -> f32 {
        match self {
            Mt::Euclid => (d as f32).sqrt(),
            Mt::Dot => -((-d) as f32), // the code negates the dot product: -(0.0) = -0.0
            Mt::Manh => d as f32,
            Mt::Cos(s2) => d as f32 / *s2 as f32,
        }
    }
}

const DIMS: [usize; 11] = [1, 3, 7, 8, 9, 15, 16, 17, 31, 33, 128];

fn gen_ivec(r: &mut Rng, dim: usize, style: u64) -> Vec<i64> {
    match style {
        0 => vec![0; dim],
        1 => (0..dim).map(|_| r.range(-1, 1)).collect(),
        2 => (0..dim).map(|_| r.range(-8, 8)).collect(),
        3 => (0..dim).map(|_| r.range(-3, 3)).collect(),
        4 => (0..dim).map(|_| if r.chance(1, 2) { 1 } else { -1 }).collect(),
        5 => (0..dim).map(|i| if i + 1 == dim { r.range(-8, 8) } else { 0 }).collect(), // only the last lane / remainder
        _ => (0..dim).map(|_| r.range(-40, 40)).collect(),
    }
}

// ------------------------------------------------------------------------------------------ kernels

fn case_kernel(r: &mut Rng, out: &mut Out, forced: Option<(usize, Vec<i64>, Vec<i64>)>) {
    let (dim, a, b) = match forced {
        Some(x) => x,
        None => {
            let dim = *r.pick(&DIMS);
            let st = r.below(7);
            let a = gen_ivec(r, dim, st);
            let b = match r.below(6) {
                0 => a.clone(),
                1 => vec![0; dim],
                _ => gen_ivec(r, dim, st),
            };
            (dim, a, b)
        }
    };
    let j = r.below(4) as u32;
    let fa = f32v(&a, j);
    let fb = f32v(&b, j);
    let mut tags = vec![format!("dim={}", dim), format!("simd={}", simd_support()), format!("scale=2^-{}", j)];
    if a == b {
        tags.push("dup".into());
    }
    if a.iter().all(|&x| x == 0) || b.iter().all(|&x| x == 0) {
        tags.push("zero-vector".into());
    }
    let nt = dim >= 2 && a != b;
    for mt in [Mt::Euclid, Mt::Dot, Mt::Manh] {
        let got = compute_distance(&fa, &fb, mt.metric());
        let direct = match mt {
            Mt::Euclid => euclidean_distance(&fa, &fb),
            Mt::Dot => -dot_product(&fa, &fb),
            Mt::Manh => manhattan_distance(&fa, &fb),
            _ => unreachable!(),
        };
        let e = mt.exact(&a, &b);
        let sc = match mt {
            Mt::Euclid | Mt::Manh => 1.0f32 / (1u32 << j) as f32,
            _ => 1.0f32 / (1u64 << (2 * j)) as f32,
        };
        let expect = mt.expected_f32(e) * sc;
        let ok = got.to_bits() == expect.to_bits() && direct.to_bits() == got.to_bits();
        out.emit(&Case {
            kind: format!("kernel-{}", mt.name()),
            input: format!("j={} a={:?} b={:?}", j, a, b),
            coq: Some(format!("chk_kernel {} {} {} {} {}", mt.coq(), j, zvec(&a), zvec(&b), bits(got))),
            oracle: if ok { Oracle::Ok } else { Oracle::Fail },
            msg: if ok { String::new() } else { format!("compute_distance={} direct={} exact={}", got, direct, expect) },
            nontrivial: nt,
            imp: format!("{}", got),
            tags: tags.clone(),
            ..Default::default()
        });
    }
    // auxiliary kernels
    {
        let d = dot_product(&fa, &fb);
        let s = euclidean_distance_squared(&fa, &fb);
        let n = l2_norm(&fa);
        out.emit(&Case {
            kind: "kernel-aux".into(),
            input: format!("j={} a={:?} b={:?}", j, a, b),
            coq: Some(format!("chk_aux {} {} {} {} {} {}", j, zvec(&a), zvec(&b), bits(d), bits(s), bits(n))),
            oracle: Oracle::Ok,
            nontrivial: nt,
            imp: format!("dot={} sq={} norm={}", d, s, n),
            tags: tags.clone(),
            ..Default::default()
        });
    }
    // cosine (unscaled inputs)
    {
        let ua = f32v(&a, 0);
        let ub = f32v(&b, 0);
        let got = compute_distance(&ua, &ub, DistanceMetric::Cosine);
        let direct = cosine_distance(&ua, &ub);
        // support: relative comparison with an f64 recomputation
        let (mut dt, mut na, mut nb) = (0f64, 0f64, 0f64);
        for i in 0..dim {
            dt += a[i] as f64 * b[i] as f64;
            na += (a[i] * a[i]) as f64;
            nb += (b[i] * b[i]) as f64;
        }
        let refv = 1.0 - dt / (na.sqrt() * nb.sqrt() + f32::EPSILON as f64);
        let ok = (got as f64 - refv).abs() <= 1e-5 && got.to_bits() == direct.to_bits();
        out.emit(&Case {
            kind: "kernel-cosine".into(),
            input: format!("a={:?} b={:?}", a, b),
            coq: Some(format!("chk_cosine {} {} {}", zvec(&a), zvec(&b), bits(got))),
            oracle: if ok { Oracle::Ok } else { Oracle::Fail },
            msg: if ok { String::new() } else { format!("cosine={} direct={} f64={}", got, direct, refv) },
            nontrivial: nt,
            imp: format!("{}", got),
            tags,
            ..Default::default()
        });
    }
}

/// support only: random float vectors, SIMD result against an f64 recomputation with an error
/// bound relative to the sum of the absolute terms
fn case_kernel_float(r: &mut Rng, out: &mut Out) {
    let dim = *r.pick(&DIMS);
    let mag = *r.pick(&[1.0f32, 1e-3, 1e3, 1e15]);
    let a: Vec<f32> = (0..dim).map(|_| (r.range(-1_000_000, 1_000_000) as f32 / 1e6) * mag).collect();
    let b: Vec<f32> = (0..dim).map(|_| (r.range(-1_000_000, 1_000_000) as f32 / 1e6) * mag).collect();
    let mut ok = true;
    let mut msg = String::new();
    let n = dim as f64;
    let tol = |abs_sum: f64| 4.0 * (n + 2.0) * (f32::EPSILON as f64) * abs_sum + 1e-38;
    let chk = |name: &str, got: f32, exact: f64, abs_sum: f64, ok: &mut bool, msg: &mut String| {
        if !got.is_finite() || (got as f64 - exact).abs() > tol(abs_sum) {
            *ok = false;
            msg.push_str(&format!("{}: got {} exact {} ; ", name, got, exact));
        }
    };
    let dot: f64 = a.iter().zip(&b).map(|(x, y)| *x as f64 * *y as f64).sum();
    let dot_abs: f64 = a.iter().zip(&b).map(|(x, y)| (*x as f64 * *y as f64).abs()).sum();
    let sq: f64 = a.iter().zip(&b).map(|(x, y)| (*x as f64 - *y as f64).powi(2)).sum();
    let l1: f64 = a.iter().zip(&b).map(|(x, y)| (*x as f64 - *y as f64).abs()).sum();
    if mag < 1e10 {
        chk("dot", dot_product(&a, &b), dot, dot_abs, &mut ok, &mut msg);
        chk("sq", euclidean_distance_squared(&a, &b), sq, sq, &mut ok, &mut msg);
    }
    chk("l1", manhattan_distance(&a, &b), l1, l1, &mut ok, &mut msg);
    chk("euclid", compute_distance(&a, &b, DistanceMetric::Euclidean), sq.sqrt(), sq.sqrt(), &mut ok, &mut msg);
    if mag < 1e10 {
        let na: f64 = a.iter().map(|x| (*x as f64).powi(2)).sum();
        let nb: f64 = b.iter().map(|x| (*x as f64).powi(2)).sum();
        let c = 1.0 - dot / (na.sqrt() * nb.sqrt() + f32::EPSILON as f64);
        let got = compute_distance(&a, &b, DistanceMetric::Cosine);
        if (got as f64 - c).abs() > 1e-4 {
            ok = false;
            msg.push_str(&format!("cosine: got {} exact {}", got, c));
        }
    }
    out.emit(&Case {
        kind: "kernel-float".into(),
        input: format!("dim={} mag={} a={:?} b={:?}", dim, mag, &a[..dim.min(4)], &b[..dim.min(4)]),
        oracle: if ok { Oracle::Ok } else { Oracle::Fail },
        msg,
        nontrivial: false,
        imp: String::new(),
        tags: vec![format!("dim={}", dim), "support-float".into()],
        ..Default::default()
    });
}

// ------------------------------------------------------------------------------------------ brute force

fn case_brute(r: &mut Rng, out: &mut Out) {
    let dim = *r.pick(&[1usize, 2, 3, 7, 8, 9, 17]);
    let n = *r.pick(&[0usize, 1, 2, 3, 5, 8, 12, 20, 30]);
    let mt = *r.pick(&[Mt::Euclid, Mt::Dot, Mt::Manh]);
    let st = *r.pick(&[1u64, 2, 3]);
    let mut xs: Vec<(u64, Vec<i64>)> = Vec::new();
    for i in 0..n {
        let v = if i > 0 && r.chance(1, 4) { xs[r.below(i as u64) as usize].1.clone() } else { gen_ivec(r, dim, st) };
        // ids need not be sorted nor unique for brute force
        let id = if r.chance(1, 8) && i > 0 { xs[0].0 } else { 100 + r.below(1000) };
        xs.push((id, v));
    }
    let q = gen_ivec(r, dim, st);
    let k = *r.pick(&[0usize, 1, 2, n.saturating_sub(1), n, n + 1, usize::MAX]);
    let fx: Vec<(NodeId, Vec<f32>)> = xs.iter().map(|(i, v)| (NodeId::new(*i), f32v(v, 0))).collect();
    let fq = f32v(&q, 0);
    let res = brute_force_knn(fx.iter().map(|(i, v)| (*i, v.as_slice())), &fq, k, mt.metric());
    // oracle: k smallest, sorted, exact distances
    let mut all: Vec<i64> = xs.iter().map(|(_, v)| mt.exact(&q, v)).collect();
    all.sort();
    let want = k.min(n);
    let mut ok = res.len() == want;
    for (i, (_, d)) in res.iter().enumerate() {
        if i < all.len() && d.to_bits() != mt.expected_f32(all[i]).to_bits() {
            ok = false;
        }
    }
    let xs_term = format!(
        "[{}]",
        xs.iter().map(|(i, v)| format!("({},{})", i, zvec(v))).collect::<Vec<_>>().join(";")
    );
    let ties = {
        let mut s = BTreeSet::new();
        all.iter().any(|d| !s.insert(*d))
    };
    let mut tags = vec![format!("metric={}", mt.name()), format!("n={}", n)];
    if ties {
        tags.push("ties".into());
    }
    tags.push(if k == 0 { "k=0".into() } else if k > n { "k>size".into() } else { "k<=size".into() });
    out.emit(&Case {
        kind: "brute".into(),
        input: format!("metric={} k={} q={:?} xs={:?}", mt.name(), k, q, xs),
        coq: Some(format!("chk_brute {} {} {} {} {}", mt.coq(), xs_term, zvec(&q), k, res_term(&res))),
        oracle: if ok { Oracle::Ok } else { Oracle::Fail },
        msg: if ok { String::new() } else { "brute_force_knn is not the sorted k smallest".into() },
        nontrivial: n >= 2 && k >= 1,
        imp: res_human(&res),
        tags: tags.clone(),
        ..Default::default()
    });
    // filtered variant
    let keep: Vec<u64> = xs.iter().map(|(i, _)| *i).filter(|_| r.chance(1, 2)).collect();
    let ks: BTreeSet<u64> = keep.iter().copied().collect();
    let resf = brute_force_knn_filtered(fx.iter().map(|(i, v)| (*i, v.as_slice())), &fq, k, mt.metric(), |id| ks.contains(&id.0));
    out.emit(&Case {
        kind: "brute-filtered".into(),
        input: format!("metric={} k={} keep={:?} q={:?} xs={:?}", mt.name(), k, keep, q, xs),
        coq: Some(format!(
            "chk_brute_filtered {} {} {} {} {} {}",
            mt.coq(),
            xs_term,
            zvec(&q),
            k,
            uvec(&keep),
            res_term(&resf)
        )),
        oracle: {
            // the k nearest among the kept vectors, exact distances, only kept ids
            let mut kept: Vec<i64> = xs.iter().filter(|(i, _)| ks.contains(i)).map(|(_, v)| mt.exact(&q, v)).collect();
            kept.sort();
            let okf = resf.len() == k.min(kept.len())
                && resf.iter().all(|(id, _)| ks.contains(&id.0))
                && resf.iter().enumerate().all(|(i, (_, d))| d.to_bits() == mt.expected_f32(kept[i]).to_bits());
            if okf { Oracle::Ok } else { Oracle::Fail }
        },
        msg: "brute_force_knn_filtered must return the k nearest of the vectors that pass the predicate".into(),
        nontrivial: n >= 2 && k >= 1,
        imp: res_human(&resf),
        tags,
        ..Default::default()
    });
}

// ------------------------------------------------------------------------------------------ std BinaryHeap premise

fn case_bheap(r: &mut Rng, out: &mut Out) {
    use std::collections::BinaryHeap;
    // elements (key, tag): ordered by key only, like Neighbor / FurthestCandidate
    #[derive(Clone, Copy, Debug)]
    struct E(i64, u64);
    impl PartialEq for E {
        fn eq(&self, o: &Self) -> bool {
            self.0 == o.0
        }
    }
    impl Eq for E {}
    impl PartialOrd for E {
        fn partial_cmp(&self, o: &Self) -> Option<std::cmp::Ordering> {
            Some(self.cmp(o))
        }
    }
    impl Ord for E {
        fn cmp(&self, o: &Self) -> std::cmp::Ordering {
            self.0.cmp(&o.0)
        }
    }
    let mut h: BinaryHeap<E> = BinaryHeap::new();
    let n = 1 + r.below(24);
    let mut ops = Vec::new();
    let mut tag = 0u64;
    for _ in 0..n {
        if r.chance(2, 3) || h.is_empty() {
            tag += 1;
            let e = E(r.range(0, 5), tag);
            h.push(e);
            ops.push(format!("(Some ({},{}))", e.1, e.0));
        } else {
            h.pop();
            ops.push("None".into());
        }
    }
    let v: Vec<E> = h.clone().into_vec();
    let term = format!(
        "chk_bheap [{}] [{}]",
        ops.join(";"),
        v.iter().map(|e| format!("({},{})", e.1, e.0)).collect::<Vec<_>>().join(";")
    );
    out.emit(&Case {
        kind: "bheap".into(),
        input: format!("ops={}", ops.join(" ")),
        coq: Some(term),
        oracle: Oracle::Ok,
        nontrivial: n >= 4,
        imp: format!("{:?}", v),
        tags: vec!["std-binary-heap".into()],
        ..Default::default()
    });
}

// ------------------------------------------------------------------------------------------ HNSW histories

struct Hist {
    mt: Mt,
    dim: usize,
    m: usize,
    m0: usize,
    efc: usize,
    ef: usize,
    ml: f64,
    seed: u64,
    ops: Vec<HOp>,
}
#[derive(Clone, Debug)]
enum HOp {
    Insert(u64, Vec<i64>),
    Remove(u64),
    Search(Vec<i64>, usize, Option<usize>),
    Batch(Vec<Vec<i64>>, usize, Option<usize>),
    Len,
}

fn gen_hvec(r: &mut Rng, mt: Mt, dim: usize, style: u64) -> Vec<i64> {
    match mt {
        Mt::Cos(_) => {
            if r.chance(1, 12) {
                vec![0; dim]
            } else {
                (0..dim).map(|_| if r.chance(1, 2) { 1 } else { -1 }).collect()
            }
        }
        _ => {
            if r.chance(1, 15) {
                vec![0; dim]
            } else if style == 9 {
                // collinear points: chains with cut vertices
                let mut v = vec![0; dim];
                v[0] = r.range(0, 12);
                v
            } else {
                gen_ivec(r, dim, style)
            }
        }
    }
}

fn gen_k(r: &mut Rng, size: usize) -> usize {
    match r.below(8) {
        0 => 0,
        1 => 1,
        2 => size,
        3 => size + 1 + r.below(3) as usize,
        4 => size.saturating_sub(1),
        5 => usize::MAX,
        _ => 1 + r.below(size as u64 + 1) as usize,
    }
}
fn gen_ef(r: &mut Rng, size: usize) -> Option<usize> {
    match r.below(8) {
        0 => None,
        1 => Some(0),
        2 => Some(1),
        3 => Some(size),
        4 => Some(size + 5),
        5 => Some(usize::MAX),
        _ => Some(1 + r.below(2 * size as u64 + 2) as usize),
    }
}

fn gen_hist(r: &mut Rng, replayable_without_hook: bool, hook: bool, big: bool) -> Hist {
    let mt = match r.below(8) {
        0 | 1 | 2 => Mt::Euclid,
        3 | 4 => Mt::Manh,
        5 | 6 => Mt::Dot,
        _ => Mt::Cos(0),
    };
    let dim = match mt {
        Mt::Cos(_) => *r.pick(&[4usize, 16]),
        _ => *r.pick(&[1usize, 1, 2, 3, 7, 8, 9, 16, 33]),
    };
    let mt = if let Mt::Cos(_) = mt { Mt::Cos(dim as i64) } else { mt };
    let m = *r.pick(&[1usize, 2, 2, 3, 4, 8, 16]);
    let m0 = match r.below(4) {
        0 => m,
        1 => 2 * m,
        2 => 1 + r.below(5) as usize,
        _ => 32,
    };
    let efc = *r.pick(&[1usize, 2, 3, 5, 8, 128]);
    let ef = *r.pick(&[1usize, 2, 5, 10, 50]);
    let ml = if replayable_without_hook && !hook { 0.0 } else { *r.pick(&[0.0f64, 0.36, 0.36, 0.6, 1.0, 1.5]) };
    let style = *r.pick(&[1u64, 2, 3, 3, 9, 9]);
    let maxn = if big { 24 } else { 10 };
    let nops = if big { 30 + r.below(50) as usize } else { 6 + r.below(30) as usize };
    let mut live: Vec<u64> = Vec::new();
    let mut ops = Vec::new();
    let mut next = 1u64;
    let mut seen_vecs: Vec<Vec<i64>> = Vec::new();
    for _ in 0..nops {
        let size = live.len();
        let c = r.below(100);
        if size == 0 || (c < 38 && size < maxn) {
            let v = if !seen_vecs.is_empty() && r.chance(1, 6) { r.pick(&seen_vecs).clone() } else { gen_hvec(r, mt, dim, style) };
            seen_vecs.push(v.clone());
            ops.push(HOp::Insert(next, v));
            live.push(next);
            next += 1;
        } else if c < 48 {
            // re-insert an existing id with a new (or the same) vector
            let id = *r.pick(&live);
            let v = gen_hvec(r, mt, dim, style);
            seen_vecs.push(v.clone());
            ops.push(HOp::Insert(id, v));
        } else if c < 64 {
            let i = r.below(size as u64) as usize;
            ops.push(HOp::Remove(live.remove(i)));
        } else if c < 67 {
            ops.push(HOp::Remove(next + 50)); // not present
        } else if c < 92 {
            let q = if r.chance(1, 3) && !seen_vecs.is_empty() { r.pick(&seen_vecs).clone() } else { gen_hvec(r, mt, dim, style) };
            ops.push(HOp::Search(q, gen_k(r, size), gen_ef(r, size)));
        } else if c < 97 {
            let nq = r.below(4) as usize;
            let qs = (0..nq).map(|_| gen_hvec(r, mt, dim, style)).collect();
            ops.push(HOp::Batch(qs, gen_k(r, size), gen_ef(r, size)));
        } else {
            ops.push(HOp::Len);
        }
    }
    // always end with a full search so that reachability is probed
    let q = gen_hvec(r, mt, dim, style);
    ops.push(HOp::Search(q, live.len().max(1), Some(live.len() + 3)));
    Hist { mt, dim, m, m0, efc, ef, ml, seed: r.next(), ops }
}

fn dump_term(d: &Dump) -> String {
    let e = match d.0 {
        Some(x) => format!("(Some {})", x),
        None => "None".into(),
    };
    let adj = d
        .2
        .iter()
        .map(|(id, ls)| format!("({},[{}])", id, ls.iter().map(|l| uvec(l)).collect::<Vec<_>>().join(";")))
        .collect::<Vec<_>>()
        .join(";");
    format!("(Some (Dump {} {} [{}]))", e, d.1, adj)
}

struct OracleState {
    live: BTreeMap<u64, Vec<i64>>,
    fail: Option<String>,
}

fn check_result(mt: Mt, st: &mut OracleState, q: &[i64], k: usize, res: &[(NodeId, f32)], what: &str) -> bool {
    // returns true when the result is SHORT (fewer than min(k, size) entries); soundness
    // violations are recorded in st.fail
    let mut seen = BTreeSet::new();
    let mut prev: Option<f32> = None;
    let mut bad = |s: String, st: &mut OracleState| {
        if st.fail.is_none() {
            st.fail = Some(format!("{}: {}", what, s));
        }
    };
    if res.len() > k {
        bad(format!("{} results for k={}", res.len(), k), st);
    }
    for (id, d) in res {
        if !seen.insert(id.0) {
            bad(format!("id {} returned twice", id.0), st);
        }
        match st.live.get(&id.0) {
            None => bad(format!("id {} is not in the index (removed or never inserted)", id.0), st),
            Some(v) => {
                let e = mt.expected_f32(mt.exact(q, v));
                if e.to_bits() != d.to_bits() {
                    bad(format!("id {} reported distance {} but the exact distance is {}", id.0, d, e), st);
                }
            }
        }
        if let Some(p) = prev {
            if !(p <= *d) {
                bad(format!("not sorted: {} before {}", p, d), st);
            }
        }
        prev = Some(*d);
    }
    res.len() < k.min(st.live.len())
}


/// Independent re-computation (exact integer arithmetic on the hook's dump) of the node the
/// layer-0 beam search starts from (greedy descent of `search_with_ef`) and of the number of nodes
/// that layer-0 links reach from it.  The property promises k results for REACHABLE vectors.
fn reach0_from_start(d: &Dump, dist: &dyn Fn(u64) -> f64) -> Option<(u64, usize)> {
    let ep = d.0?;
    let adj: BTreeMap<u64, &Vec<Vec<u64>>> = d.2.iter().map(|(i, l)| (*i, l)).collect();
    if adj.is_empty() {
        return None;
    }
    let mut cur = ep;
    for lc in (1..=d.1).rev() {
        let mut cd = dist(cur);
        loop {
            let mut changed = false;
            if let Some(ls) = adj.get(&cur) {
                if lc < ls.len() {
                    for &n in &ls[lc] {
                        let dn = dist(n);
                        if dn < cd {
                            cur = n;
                            cd = dn;
                            changed = true;
                        }
                    }
                }
            }
            if !changed {
                break;
            }
        }
    }
    let mut seen: BTreeSet<u64> = BTreeSet::new();
    let mut todo = vec![cur];
    seen.insert(cur);
    while let Some(x) = todo.pop() {
        if let Some(ls) = adj.get(&x) {
            if let Some(l0) = ls.first() {
                for &n in l0 {
                    if seen.insert(n) {
                        todo.push(n);
                    }
                }
            }
        }
    }
    Some((cur, seen.len()))
}

fn run_hist(h: &Hist, out: &mut Out, hook: bool, origin: &str) {
    let mut cfg = HnswConfig::new(h.dim, h.mt.metric());
    cfg.m = h.m;
    cfg.m_max = h.m0;
    cfg.ef_construction = h.efc;
    cfg.ef = h.ef;
    cfg.ml = h.ml;
    cfg.alpha = 1.0;
    let ix = HnswIndex::with_seed(cfg, h.seed);
    let replay = hook || h.ml == 0.0;
    let mut st = OracleState { live: BTreeMap::new(), fail: None };
    let mut terms: Vec<String> = Vec::new();
    let mut human: Vec<String> = Vec::new();
    let mut n_short_explained = 0;
    let mut n_remove = 0;
    let mut n_reinsert = 0;
    let mut n_search_le = 0;
    let mut n_entry_unknown = 0;
    let mut tags: BTreeSet<String> = BTreeSet::new();
    tags.insert(format!("hnsw-metric={}", h.mt.name()));
    tags.insert(format!("hnsw-dim={}", h.dim));
    tags.insert(format!("hnsw-M={}", h.m));
    tags.insert(if hook { "hnsw-hook".into() } else if replay { "hnsw-ml0".into() } else { "hnsw-oracle-only".into() });
    for op in &h.ops {
        match op {
            HOp::Insert(id, v) => {
                if st.live.contains_key(id) {
                    n_reinsert += 1;
                    tags.insert("op=re-insert".into());
                } else {
                    tags.insert("op=insert".into());
                }
                ix.insert(NodeId::new(*id), &f32v(v, 0));
                st.live.insert(*id, v.clone());
                let (level, d) = match dump_of(&ix) {
                    Some(d) => {
                        let lv = d.2.iter().find(|(i, _)| i == id).map(|(_, l)| l.len().saturating_sub(1)).unwrap_or(0);
                        (lv, dump_term(&d))
                    }
                    None => (0, "None".into()),
                };
                if level > 0 {
                    tags.insert("level>0".into());
                }
                terms.push(format!("HInsert {} {} {} {}", id, zvec(v), level, d));
                human.push(format!("ins {} {:?}", id, v));
            }
            HOp::Remove(id) => {
                let before = dump_of(&ix);
                let ret = ix.remove(NodeId::new(*id));
                if ret {
                    n_remove += 1;
                    tags.insert("op=remove".into());
                } else {
                    tags.insert("op=remove-absent".into());
                }
                st.live.remove(id);
                let (pick, d) = match dump_of(&ix) {
                    Some(d) => (format!("(Some {})", match d.0 { Some(e) => format!("(Some {})", e), None => "None".into() }), dump_term(&d)),
                    None => ("None".into(), "None".into()),
                };
                if let Some(b) = before {
                    if b.0 == Some(*id) {
                        tags.insert("remove-entry-point".into());
                    }
                } else {
                    n_entry_unknown += 1;
                }
                terms.push(format!("HRemove {} {} {} {}", id, pick, coq::b(ret), d));
                human.push(format!("rem {} -> {}", id, ret));
            }
            HOp::Search(q, k, ef) => {
                let fq = f32v(q, 0);
                let res = match ef {
                    Some(e) => ix.search_with_ef(&fq, *k, *e),
                    None => ix.search(&fq, *k),
                };
                let short = check_result(h.mt, &mut st, q, *k, &res, &format!("search k={} ef={:?}", k, ef));
                let efv = ef.unwrap_or(h.ef);
                terms.push(format!("HSearch {} {} {} {}", zvec(q), k, efv, res_term(&res)));
                human.push(format!("search {:?} k={} ef={:?} -> [{}]", q, k, ef, res_human(&res)));
                if *k >= 1 && *k <= st.live.len() {
                    n_search_le += 1;
                }
                tags.insert(if *k == 0 { "k=0".into() } else if *k > st.live.len() { "k>size".into() } else { "k<=size".into() });
                tags.insert(match ef { None => "ef=default".into(), Some(0) => "ef=0".into(), Some(e) if *e > st.live.len() => "ef>size".into(), _ => "ef<=size".into() });
                if let Some(d) = dump_of(&ix) {
                    let live = &st.live;
                    let mt = h.mt;
                    let dist = |id: u64| -> f64 { live.get(&id).map_or(f64::MAX, |v| mt.exact(q, v) as f64) };
                    if let Some((start, r0)) = reach0_from_start(&d, &dist) {
                        if r0 < st.live.len() {
                            tags.insert("live-vector-unreachable-at-layer0".into());
                        }
                        if res.len() < (*k).min(r0) && st.fail.is_none() {
                            st.fail = Some(format!(
                                "search {:?} k={} ef={:?} returned {} results although layer-0 links reach {} vectors from the search's start node {}",
                                q, k, ef, res.len(), r0, start
                            ));
                        }
                        if short && res.len() >= (*k).min(r0) {
                            tags.insert("shortfall-explained-by-unreachability".into());
                            n_short_explained += 1;
                        }
                    }
                } else if short {
                    tags.insert("shortfall-unclassified".into());
                }
            }
            HOp::Batch(qs, k, ef) => {
                let fqs: Vec<Vec<f32>> = qs.iter().map(|q| f32v(q, 0)).collect();
                let res = match ef {
                    Some(e) => ix.batch_search_with_ef(&fqs, *k, *e),
                    None => ix.batch_search(&fqs, *k),
                };
                let slices: Vec<&[f32]> = fqs.iter().map(|v| v.as_slice()).collect();
                let res2 = ix.batch_search_slices(&slices, *k);
                tags.insert("op=batch".into());
                // batch = one by one
                for (i, q) in fqs.iter().enumerate() {
                    let one = match ef {
                        Some(e) => ix.search_with_ef(q, *k, *e),
                        None => ix.search(q, *k),
                    };
                    let same = |a: &[(NodeId, f32)], b: &[(NodeId, f32)]| a.len() == b.len() && a.iter().zip(b).all(|(x, y)| x.0 == y.0 && x.1.to_bits() == y.1.to_bits());
                    if res.len() != fqs.len() || !same(&one, &res[i]) {
                        if st.fail.is_none() {
                            st.fail = Some(format!("batch search differs from the single search on query {}", i));
                        }
                    }
                    if ef.is_none() && (res2.len() != fqs.len() || !same(&one, &res2[i])) && st.fail.is_none() {
                        st.fail = Some(format!("batch_search_slices differs from the single search on query {}", i));
                    }
                    check_result(h.mt, &mut st, &qs[i], *k, &one, "batch");
                }
                let efv = ef.unwrap_or(h.ef);
                terms.push(format!(
                    "HBatch [{}] {} {} [{}]",
                    qs.iter().map(|q| zvec(q)).collect::<Vec<_>>().join(";"),
                    k,
                    efv,
                    res.iter().map(|r| res_term(r)).collect::<Vec<_>>().join(";")
                ));
                human.push(format!("batch {} queries k={} ef={:?}", qs.len(), k, ef));
            }
            HOp::Len => {
                let n = ix.len();
                if n != st.live.len() && st.fail.is_none() {
                    st.fail = Some(format!("len() = {} but {} vectors are held", n, st.live.len()));
                }
                for (id, _) in st.live.iter().take(3) {
                    if !ix.contains(NodeId::new(*id)) && st.fail.is_none() {
                        st.fail = Some(format!("contains({}) is false for a held vector", id));
                    }
                }
                terms.push(format!("HLen {}", n));
                human.push(format!("len -> {}", n));
            }
        }
    }
    let cfg_term = format!("(mk_config {} {} {})", h.m, h.m0, h.efc);
    let nt = (n_remove >= 1 || n_reinsert >= 1) && n_search_le >= 1;
    let input = format!(
        "{} metric={} dim={} M={} M0={} efc={} ef={} ml={} seed={} :: {}",
        origin,
        h.mt.name(),
        h.dim,
        h.m,
        h.m0,
        h.efc,
        h.ef,
        h.ml,
        h.seed,
        human.join(" ; ")
    );
    let tagv: Vec<String> = tags.iter().cloned().collect();
    let ops_term = |n: usize| format!("[{}]", terms[..n].join(";"));
    out.emit(&Case {
        kind: if replay { "hnsw-history".into() } else { "hnsw-oracle".into() },
        input: input.clone(),
        coq: if replay { Some(format!("chk_history {} {} {}", h.mt.coq(), cfg_term, ops_term(terms.len()))) } else { None },
        show: if replay { Some(format!("show_history {} {} {}", h.mt.coq(), cfg_term, ops_term(terms.len()))) } else { None },
        oracle: if st.fail.is_some() { Oracle::Fail } else { Oracle::Ok },
        msg: st.fail.clone().unwrap_or_default(),
        nontrivial: nt,
        imp: format!("{} ops, {} live, entry-pick-unknown={}, short-but-complete-for-reachable={}", h.ops.len(), st.live.len(), n_entry_unknown, n_short_explained),
        tags: tagv.clone(),
        ..Default::default()
    });
}

/// the witness of Props_C18.search_complete_refuted (an OBSERVATION, not a property failure: the
/// property promises k results for reachable vectors): four collinear points, the heuristic links
/// them into a chain; removing an inner one cuts the chain and id 4 is never found again
fn witness_hist() -> Hist {
    Hist {
        mt: Mt::Euclid,
        dim: 1,
        m: 16,
        m0: 32,
        efc: 128,
        ef: 50,
        ml: 0.0,
        seed: 1,
        ops: vec![
            HOp::Insert(1, vec![0]),
            HOp::Insert(2, vec![1]),
            HOp::Insert(3, vec![2]),
            HOp::Insert(4, vec![3]),
            HOp::Search(vec![0], 4, Some(50)),
            HOp::Remove(3),
            HOp::Search(vec![0], 3, Some(50)),
        ],
    }
}

// ------------------------------------------------------------------------------------------ large float indexes (oracle only)

fn case_hnsw_float(r: &mut Rng, out: &mut Out, big: bool) {
    let dim = *r.pick(&[3usize, 8, 33, 128]);
    let metric = *r.pick(&[DistanceMetric::Euclidean, DistanceMetric::Cosine, DistanceMetric::DotProduct, DistanceMetric::Manhattan]);
    let ix = HnswIndex::with_seed(HnswConfig::new(dim, metric), r.next());
    let n = if big { 400 } else { 120 };
    let mut live: BTreeMap<u64, Vec<f32>> = BTreeMap::new();
    let mut fail: Option<String> = None;
    let mut shortfalls = 0;
    let mut searches = 0;
    let genv = |r: &mut Rng| -> Vec<f32> { (0..dim).map(|_| r.range(-1000, 1000) as f32 / 250.0).collect() };
    let mut removed = 0;
    for step in 0..(2 * n) {
        let c = r.below(10);
        if live.len() < 5 || c < 5 {
            let id = if c == 0 && !live.is_empty() { *live.keys().nth(r.below(live.len() as u64) as usize).unwrap() } else { step as u64 + 1000 };
            let v = genv(r);
            ix.insert(NodeId::new(id), &v);
            live.insert(id, v);
        } else if c < 8 {
            let id = *live.keys().nth(r.below(live.len() as u64) as usize).unwrap();
            if !ix.remove(NodeId::new(id)) && fail.is_none() {
                fail = Some(format!("remove({}) returned false for a held vector", id));
            }
            live.remove(&id);
            removed += 1;
        } else {
            let q = genv(r);
            let k = *r.pick(&[1usize, 5, 10, live.len()]);
            let res = ix.search(&q, k);
            searches += 1;
            if res.len() > k && fail.is_none() {
                fail = Some("more than k results".into());
            }
            let mut seen = BTreeSet::new();
            let mut prev = f32::NEG_INFINITY;
            // the distance the index must report, through the public kernels
            let mut nq = q.clone();
            if metric == DistanceMetric::Cosine {
                normalize(&mut nq);
            }
            for (id, d) in &res {
                if !seen.insert(id.0) && fail.is_none() {
                    fail = Some(format!("id {} twice", id.0));
                }
                match live.get(&id.0) {
                    None => {
                        if fail.is_none() {
                            fail = Some(format!("id {} is not held (removed)", id.0));
                        }
                    }
                    Some(v) => {
                        let e = if metric == DistanceMetric::Cosine {
                            let mut nv = v.clone();
                            normalize(&mut nv);
                            1.0 - dot_product(&nq, &nv)
                        } else {
                            compute_distance(&q, v, metric)
                        };
                        if e.to_bits() != d.to_bits() && fail.is_none() {
                            fail = Some(format!("id {} distance {} but recomputed {}", id.0, d, e));
                        }
                    }
                }
                if !(prev <= *d) && fail.is_none() {
                    fail = Some("not sorted".into());
                }
                prev = *d;
            }
            if res.len() < k.min(live.len()) {
                shortfalls += 1;
            }
            // completeness for reachable vectors (hook): the same distances the index computes
            if let Some(d) = dump_of(&ix) {
                let dist = |id: u64| -> f64 {
                    live.get(&id).map_or(f32::MAX as f64, |v| {
                        (if metric == DistanceMetric::Cosine {
                            let mut nv = v.clone();
                            normalize(&mut nv);
                            1.0 - dot_product(&nq, &nv)
                        } else {
                            compute_distance(&q, v, metric)
                        }) as f64
                    })
                };
                if let Some((start, r0)) = reach0_from_start(&d, &dist) {
                    if res.len() < k.min(r0) && fail.is_none() {
                        fail = Some(format!("{} results for k={} although layer-0 links reach {} vectors from the start node {}", res.len(), k, r0, start));
                    }
                }
            }
        }
    }
    let mut tags = vec![format!("float-dim={}", dim), format!("float-metric={}", metric.name()), "support-float".into()];
    if shortfalls > 0 {
        tags.push("shortfall-unclassified".into());
    }
    out.emit(&Case {
        kind: "hnsw-float".into(),
        input: format!("dim={} metric={} steps={} removed={} searches={} shortfalls={}", dim, metric.name(), 2 * n, removed, searches, shortfalls),
        oracle: if fail.is_some() { Oracle::Fail } else { Oracle::Ok },
        msg: fail.unwrap_or_default(),
        nontrivial: removed >= 1 && searches >= 1,
        imp: format!("{} live", live.len()),
        tags,
        ..Default::default()
    });
}

// ------------------------------------------------------------------------------------------ quantised index, scalar quantiser

fn case_quantized(r: &mut Rng, out: &mut Out) {
    let dim = *r.pick(&[8usize, 16, 32]);
    let (qt, qn) = match r.below(4) {
        0 => (QuantizationType::None, "none"),
        1 => (QuantizationType::Scalar, "scalar"),
        2 => (QuantizationType::Binary, "binary"),
        _ => (QuantizationType::Product { num_subvectors: 4 }, "product"),
    };
    let rescore = r.chance(2, 3);
    let metric = *r.pick(&[DistanceMetric::Euclidean, DistanceMetric::Euclidean, DistanceMetric::Manhattan, DistanceMetric::DotProduct]);
    let mut ix = QuantizedHnswIndex::with_seed(HnswConfig::new(dim, metric), qt, r.next()).with_training_threshold(20);
    if !rescore {
        ix = ix.without_rescore();
    }
    let mut live: BTreeMap<u64, Vec<f32>> = BTreeMap::new();
    let mut fail: Option<String> = None;
    let mut removed = 0;
    let mut searches = 0;
    for step in 0..90u64 {
        let c = r.below(10);
        if live.len() < 4 || c < 6 {
            let v: Vec<f32> = (0..dim).map(|_| r.range(-64, 64) as f32 / 16.0).collect();
            ix.insert(NodeId::new(step + 1), &v);
            live.insert(step + 1, v);
        } else if c < 8 {
            let id = *live.keys().nth(r.below(live.len() as u64) as usize).unwrap();
            ix.remove(NodeId::new(id));
            live.remove(&id);
            removed += 1;
        } else {
            let q: Vec<f32> = (0..dim).map(|_| r.range(-64, 64) as f32 / 16.0).collect();
            let k = *r.pick(&[0usize, 1, 3, 10]);
            let res = ix.search(&q, k);
            searches += 1;
            let mut seen = BTreeSet::new();
            let mut prev = f32::NEG_INFINITY;
            if res.len() > k && fail.is_none() {
                fail = Some(format!("{} results for k={}", res.len(), k));
            }
            // distances are exact whenever the index rescored or fell back to the plain index
            let exact_expected = rescore || matches!(qt, QuantizationType::None | QuantizationType::Scalar | QuantizationType::Product { .. });
            for (id, d) in &res {
                if !seen.insert(id.0) && fail.is_none() {
                    fail = Some(format!("id {} twice", id.0));
                }
                match live.get(&id.0) {
                    None => {
                        if fail.is_none() {
                            fail = Some(format!("id {} is not held (removed)", id.0));
                        }
                    }
                    Some(v) => {
                        let e = compute_distance(&q, v, metric);
                        if exact_expected && e.to_bits() != d.to_bits() && fail.is_none() {
                            fail = Some(format!("id {} distance {} but exact {}", id.0, d, e));
                        }
                    }
                }
                if !(prev <= *d) && fail.is_none() {
                    fail = Some("not sorted".into());
                }
                prev = *d;
            }
        }
    }
    out.emit(&Case {
        kind: "quantized-hnsw".into(),
        input: format!("quant={} rescore={} dim={} metric={} removed={} searches={}", qn, rescore, dim, metric.name(), removed, searches),
        oracle: if fail.is_some() { Oracle::Fail } else { Oracle::Ok },
        msg: fail.unwrap_or_default(),
        nontrivial: removed >= 1 && searches >= 1,
        imp: format!("{} live", live.len()),
        tags: vec![format!("quant={}", qn), format!("rescore={}", rescore)],
        ..Default::default()
    });
}

fn case_squant(r: &mut Rng, out: &mut Out) {
    // exact grid: range = 255 * 2^e
    let dim = 1 + r.below(6) as usize;
    let mins: Vec<i64> = (0..dim).map(|_| r.range(-20, 20)).collect();
    let es: Vec<i64> = (0..dim).map(|_| r.range(0, 3)).collect();
    let maxs: Vec<i64> = (0..dim).map(|i| mins[i] + 255 * (1 << es[i])).collect();
    let q = ScalarQuantizer::with_ranges(mins.iter().map(|&x| x as f32).collect(), maxs.iter().map(|&x| x as f32).collect());
    let v: Vec<i64> = (0..dim)
        .map(|i| match r.below(6) {
            0 => mins[i],
            1 => maxs[i],
            2 => mins[i] - r.range(1, 50),
            3 => maxs[i] + r.range(1, 50),
            _ => r.range(mins[i], maxs[i]),
        })
        .collect();
    let fv: Vec<f32> = v.iter().map(|&x| x as f32).collect();
    let codes = q.quantize(&fv);
    let deq = q.dequantize(&codes);
    // oracle: in-range coordinates come back within one step below
    let mut ok = true;
    for i in 0..dim {
        if v[i] >= mins[i] && v[i] <= maxs[i] {
            let step = (1 << es[i]) as f32;
            let err = fv[i] - deq[i];
            if !(err >= 0.0 && err < step) {
                ok = false;
            }
        }
    }
    out.emit(&Case {
        kind: "scalar-quant".into(),
        input: format!("mins={:?} es={:?} v={:?}", mins, es, v),
        coq: Some(format!(
            "chk_squant {} {} {} {} {}",
            zvec(&mins),
            zvec(&es),
            zvec(&v),
            uvec(&codes.iter().map(|&c| c as u64).collect::<Vec<_>>()),
            uvec(&deq.iter().map(|&d| bits(d)).collect::<Vec<_>>())
        )),
        oracle: if ok { Oracle::Ok } else { Oracle::Fail },
        msg: if ok { String::new() } else { "dequantize(quantize(x)) is not within one step below x".into() },
        nontrivial: dim >= 1,
        imp: format!("codes={:?}", codes),
        tags: vec!["squant-grid".into()],
        ..Default::default()
    });
    // asymmetric / u8 distances on the same grid (query near the dequantised vector so that f32 stays exact)
    {
        let es_small: Vec<i64> = es.iter().map(|e| (*e).min(2)).collect();
        let maxs2: Vec<i64> = (0..dim).map(|i| mins[i] + 255 * (1 << es_small[i])).collect();
        let q2 = ScalarQuantizer::with_ranges(mins.iter().map(|&x| x as f32).collect(), maxs2.iter().map(|&x| x as f32).collect());
        let codes2 = q2.quantize(&fv);
        let deq2 = q2.dequantize(&codes2);
        let query: Vec<i64> = (0..dim).map(|i| deq2[i] as i64 + r.range(-30, 30)).collect();
        let fquery: Vec<f32> = query.iter().map(|&x| x as f32).collect();
        let other: Vec<u8> = codes2.iter().map(|&c| (c as i64 + r.range(-10, 10)).clamp(0, 255) as u8).collect();
        let asym = q2.asymmetric_distance_squared(&fquery, &codes2);
        let d8 = q2.distance_squared_u8(&codes2, &other);
        // oracle: recomputation in integers; the stored vector's own asymmetric distance is within one step per coordinate
        let want_asym: i64 = (0..dim).map(|i| (query[i] - deq2[i] as i64).pow(2)).sum();
        let want_d8: i64 = (0..dim).map(|i| (codes2[i] as i64 - other[i] as i64).pow(2) * (1i64 << (2 * es_small[i]))).sum();
        let ok3 = asym == want_asym as f32 && d8 == want_d8 as f32 && (q2.asymmetric_distance(&fquery, &codes2) - (want_asym as f32).sqrt()).abs() <= 1e-3;
        let u = |v: &[u8]| uvec(&v.iter().map(|&c| c as u64).collect::<Vec<_>>());
        out.emit(&Case {
            kind: "scalar-quant-dist".into(),
            input: format!("mins={:?} es={:?} v={:?} query={:?} other={:?}", mins, es_small, v, query, other),
            coq: Some(format!(
                "chk_squant_dist {} {} {} {} {} {} {} {}",
                zvec(&mins), zvec(&es_small), zvec(&query), u(&codes2), u(&codes2), u(&other), bits(asym), bits(d8)
            )),
            oracle: if ok3 { Oracle::Ok } else { Oracle::Fail },
            msg: if ok3 { String::new() } else { format!("asymmetric_distance_squared={} (exact {}), distance_squared_u8={} (exact {})", asym, want_asym, d8, want_d8) },
            nontrivial: true,
            imp: format!("asym={} u8={}", asym, d8),
            tags: vec!["squant-dist".into()],
            ..Default::default()
        });
    }
    // support: trained quantiser on random floats, error bound (max - min)/255 (+ rounding slack)
    let n = 2 + r.below(20) as usize;
    let train: Vec<Vec<f32>> = (0..n).map(|_| (0..dim).map(|_| r.range(-100000, 100000) as f32 / 1000.0).collect()).collect();
    let refs: Vec<&[f32]> = train.iter().map(|v| v.as_slice()).collect();
    let tq = ScalarQuantizer::train(&refs);
    let mut ok2 = true;
    let mut worst = 0f32;
    for v in &train {
        let d = tq.dequantize(&tq.quantize(v));
        for i in 0..dim {
            let mn = train.iter().map(|t| t[i]).fold(f32::INFINITY, f32::min);
            let mx = train.iter().map(|t| t[i]).fold(f32::NEG_INFINITY, f32::max);
            let step = if (mx - mn).abs() < f32::EPSILON { 1.0 } else { (mx - mn) / 255.0 };
            let err = (v[i] - d[i]).abs();
            worst = worst.max(err / step);
            if err > step * 1.01 + 1e-4 {
                ok2 = false;
            }
        }
    }
    out.emit(&Case {
        kind: "scalar-quant-float".into(),
        input: format!("dim={} n={}", dim, n),
        oracle: if ok2 { Oracle::Ok } else { Oracle::Fail },
        msg: if ok2 { String::new() } else { format!("error {} steps", worst) },
        nontrivial: false,
        imp: format!("worst error = {:.3} steps", worst),
        tags: vec!["support-float".into()],
        ..Default::default()
    });
}


// ------------------------------------------------------------------------------------------ brute force, extreme magnitudes (NaN distances)

/// order-preserving integer image of a non-NaN f32 (-0.0 and 0.0 both map to 0)
fn okey(x: f32) -> Option<i64> {
    if x.is_nan() {
        None
    } else if x == 0.0 {
        Some(0)
    } else if x > 0.0 {
        Some(x.to_bits() as i64)
    } else {
        Some(-((x.to_bits() & 0x7fff_ffff) as i64))
    }
}
fn okey_term(k: Option<i64>) -> String {
    match k {
        Some(v) => format!("(Some {})", zi(v)),
        None => "None".into(),
    }
}
fn keyed_term(r: &[(u64, Option<i64>)]) -> String {
    format!("[{}]", r.iter().map(|(i, k)| format!("({},{})", i, okey_term(*k))).collect::<Vec<_>>().join(";"))
}

/// brute_force_knn on vectors of extreme magnitude: products / squares overflow to +-inf and
/// inf - inf = NaN.  `forced` = the corpus witness of the repaired finding C18-K2 (c04d862): must pass now.
fn case_brute_extreme(r: &mut Rng, out: &mut Out, forced: bool) {
    let big = 1e30f32;
    let (metric, q, xs): (DistanceMetric, Vec<f32>, Vec<(u64, Vec<f32>)>) = if forced {
        (DistanceMetric::DotProduct, vec![big, big], vec![(1, vec![1.0, 1.0]), (2, vec![big, -big]), (3, vec![2.0, 2.0])])
    } else {
        let dim = *r.pick(&[2usize, 3, 8, 9]);
        let metric = *r.pick(&[DistanceMetric::DotProduct, DistanceMetric::DotProduct, DistanceMetric::Euclidean, DistanceMetric::Cosine, DistanceMetric::Manhattan]);
        // at most 20 vectors: std's stable sort is the plain insertion sort there (modelled);
        // beyond that an inconsistent comparator may make sort_by panic
        let n = 1 + r.below(18) as usize;
        let p_ext = *r.pick(&[0u64, 2, 4, 6]);
        let genx = |r: &mut Rng| -> Vec<f32> {
            (0..dim)
                .map(|_| {
                    if r.below(10) < p_ext {
                        *r.pick(&[1e30f32, -1e30, 3e38, -3e38, 1e20, -1e20])
                    } else {
                        r.range(-4, 4) as f32
                    }
                })
                .collect()
        };
        let q = genx(r);
        let xs = (0..n).map(|i| (i as u64 + 1, genx(r))).collect();
        (metric, q, xs)
    };
    let n = xs.len();
    let k = if forced { 1 } else { *r.pick(&[1usize, 2, n.saturating_sub(1).max(1), n, n + 2]) };
    let keyed: Vec<(u64, Option<i64>)> = xs.iter().map(|(i, v)| (*i, okey(compute_distance(&q, v, metric)))).collect();
    let res = brute_force_knn(xs.iter().map(|(i, v)| (NodeId::new(*i), v.as_slice())), &q, k, metric);
    let res_keyed: Vec<(u64, Option<i64>)> = res.iter().map(|(i, d)| (i.0, okey(*d))).collect();
    // oracle: the k smallest in the order of increasing distance (NaN, the distance of nothing, last), ties in input order
    let mut want = keyed.clone();
    want.sort_by(|a, b| match (a.1, b.1) {
        (Some(x), Some(y)) => x.cmp(&y),
        (None, None) => std::cmp::Ordering::Equal,
        (None, _) => std::cmp::Ordering::Greater,
        (_, None) => std::cmp::Ordering::Less,
    });
    want.truncate(k);
    let ok = want == res_keyed;
    let has_nan = keyed.iter().any(|(_, k)| k.is_none());
    let mut tags = vec![format!("extreme-metric={}", metric.name())];
    tags.push(if has_nan { "nan-distance".into() } else { "no-nan-distance".into() });
    if keyed.iter().any(|(_, k)| matches!(k, Some(v) if v.unsigned_abs() == 0x7f80_0000)) {
        tags.push("inf-distance".into());
    }
    out.emit(&Case {
        kind: "brute-extreme".into(),
        input: format!("{}metric={} k={} q={:?} xs={:?}", if forced { "corpus:C18-K2-witness(fixed c04d862) " } else { "" }, metric.name(), k, q, xs),
        coq: Some(format!("chk_brute_keys {} {} {}", keyed_term(&keyed), k, keyed_term(&res_keyed))),
        oracle: if ok { Oracle::Ok } else { Oracle::Fail },
        msg: if ok { String::new() } else { format!("brute_force_knn returned {:?}; the {} nearest in order are {:?}", res, k, want) },
        nontrivial: n >= 2,
        imp: format!("{:?}", res),
        tags,
        ..Default::default()
    });
}

// ------------------------------------------------------------------------------------------ QuantizedHnswIndex against a twin HnswIndex

/// The inner index of a QuantizedHnswIndex is private.  A twin HnswIndex::with_seed with the same
/// configuration, seed and operations has the same RNG stream, hence the same levels and the
/// same graph (removals of the entry point are avoided: the re-picked entry depends on HashMap
/// order).  The twin's history is replayed in the model; the quantised search must equal the
/// model's wrapper (candidate count, pre-ranking, rescoring) on the model's graph.
fn case_qtwin(r: &mut Rng, out: &mut Out, forced: bool) {
    let mt = if forced { Mt::Euclid } else { *r.pick(&[Mt::Euclid, Mt::Euclid, Mt::Manh, Mt::Dot]) };
    let dim = if forced { 2 } else { *r.pick(&[2usize, 3, 8, 9]) };
    let (qt, qn): (QuantizationType, &str) = if forced {
        (QuantizationType::Scalar, "scalar")
    } else {
        match r.below(5) {
            0 => (QuantizationType::None, "none"),
            1 | 2 => (QuantizationType::Scalar, "scalar"),
            _ => (QuantizationType::Binary, "binary"),
        }
    };
    let rescore = forced || r.chance(3, 4);
    let factor = if forced { 2 } else { *r.pick(&[1usize, 2, 2, 3, 4]) };
    let threshold = 10usize;
    let seed = r.next();
    let mut cfg = HnswConfig::new(dim, mt.metric());
    cfg.m = *r.pick(&[2usize, 4, 16]);
    cfg.m_max = 2 * cfg.m;
    cfg.ef_construction = *r.pick(&[4usize, 16, 128]);
    cfg.ef = *r.pick(&[1usize, 5, 50]);
    cfg.alpha = 1.0;
    let (m, m0, efc, efd) = (cfg.m, cfg.m_max, cfg.ef_construction, cfg.ef);
    let twin = HnswIndex::with_seed(cfg.clone(), seed);
    let mut qix = QuantizedHnswIndex::with_seed(cfg, qt, seed).with_training_threshold(threshold).with_rescore_factor(factor);
    if !rescore {
        qix = qix.without_rescore();
    }
    if dump_of(&twin).is_none() {
        return; // needs the hook
    }
    let binary = matches!(qt, QuantizationType::Binary);
    // binary + rescoring: many vectors and a small k, so that the hamming pre-ranking and the exact
    // rescoring see more candidates than they may return
    let n_ins = if forced { 12 } else if binary { *r.pick(&[9usize, 14, 20, 20]) } else { *r.pick(&[3usize, 9, 10, 11, 14, 20]) };
    let mut live: BTreeMap<u64, Vec<i64>> = BTreeMap::new();
    let mut terms: Vec<String> = Vec::new();
    let mut human: Vec<String> = Vec::new();
    let mut next_id = 1u64;
    let mut inserted = 0usize;
    let mut trained_inserts = 0usize; // number of insert calls (training samples are counted per call)
    while inserted < n_ins {
        let c = r.below(10);
        if live.len() >= 3 && c < 2 && !forced {
            // remove a node that is not the entry point
            let e = dump_of(&twin).unwrap().0;
            let cands: Vec<u64> = live.keys().copied().filter(|i| Some(*i) != e).collect();
            let id = *r.pick(&cands);
            let a = twin.remove(NodeId::new(id));
            let b = qix.remove(NodeId::new(id));
            live.remove(&id);
            let d = dump_of(&twin).unwrap();
            terms.push(format!("HRemove {} (Some {}) {} {}", id, match d.0 { Some(e) => format!("(Some {})", e), None => "None".into() }, coq::b(a && b), dump_term(&d)));
            human.push(format!("rem {}", id));
        } else {
            let id = if c == 2 && !live.is_empty() && !forced { *r.pick(&live.keys().copied().collect::<Vec<_>>()) } else { next_id };
            if id == next_id {
                next_id += 1;
            }
            let sty = *r.pick(&[2u64, 3]);
            let v: Vec<i64> = if forced { vec![inserted as i64, 1] } else { gen_ivec(r, dim, sty) };
            twin.insert(NodeId::new(id), &f32v(&v, 0));
            qix.insert(NodeId::new(id), &f32v(&v, 0));
            live.insert(id, v.clone());
            inserted += 1;
            trained_inserts += 1;
            let d = dump_of(&twin).unwrap();
            let lv = d.2.iter().find(|(i, _)| *i == id).map(|(_, l)| l.len().saturating_sub(1)).unwrap_or(0);
            terms.push(format!("HInsert {} {} {} {}", id, zvec(&v), lv, dump_term(&d)));
            human.push(format!("ins {} {:?}", id, v));
        }
    }
    let trained = match qt {
        QuantizationType::Scalar => trained_inserts >= threshold,
        QuantizationType::Binary => !live.is_empty(),
        _ => false,
    };
    let size = live.len();
    let q: Vec<i64> = if forced { vec![0, 0] } else { gen_ivec(r, dim, 2) };
    let fq = f32v(&q, 0);
    let k: usize = if forced {
        usize::MAX
    } else if binary && r.chance(1, 2) {
        1 + r.below(3) as usize
    } else {
        match r.below(10) {
            0 => 0,
            1 => 1,
            2 => size,
            3 => size + 2,
            4 => usize::MAX,
            5 => usize::MAX / 2 + 1,
            6 => usize::MAX / 4 + 1,
            _ => 1 + r.below(size as u64 + 1) as usize,
        }
    };
    let ef = *r.pick(&[0usize, 1, efd, size + 3]);
    let got = catch(std::panic::AssertUnwindSafe(|| qix.search_with_ef(&fq, k, ef)));
    // what the wrapper multiplies k with
    let mults: Vec<usize> = if !trained || !rescore {
        vec![]
    } else {
        match qt {
            QuantizationType::Binary => vec![factor, 2],
            _ => vec![factor],
        }
    };
    let resc = trained && rescore;
    let pre = if trained && matches!(qt, QuantizationType::Binary) { 1 } else { 0 };
    let keys: Vec<(u64, u32)> = if pre == 1 {
        let qb = grafeo_core::index::vector::BinaryQuantizer::quantize(&fq);
        live.iter().map(|(i, v)| (*i, grafeo_core::index::vector::BinaryQuantizer::hamming_distance(&qb, &grafeo_core::index::vector::BinaryQuantizer::quantize(&f32v(v, 0))))).collect()
    } else {
        vec![]
    };
    let cmp_dist = !(pre == 1 && !resc);
    let impl_term = match &got {
        Ok(res) => format!("(Some {})", res_term(res)),
        Err(_) => "None".into(),
    };
    let mult_term = format!("[{}]", mults.iter().map(|m| m.to_string()).collect::<Vec<_>>().join(";"));
    // oracle
    let mut st = OracleState { live: live.clone(), fail: None };
    let (oracle, msg, kid, kcoq) = match &got {
        Err(_) => (
            Oracle::Fail,
            format!("QuantizedHnswIndex::search_with_ef(k={}) panicked", k),
            None::<String>,
            None::<String>,
        ),
        Ok(res) => {
            if cmp_dist {
                check_result(mt, &mut st, &q, k, res, "quantised search");
            } else {
                // hamming estimates: only <= k, distinct, live, sorted
                let mut seen = BTreeSet::new();
                let mut prev = f32::NEG_INFINITY;
                for (id, d) in res {
                    if (!seen.insert(id.0) || !live.contains_key(&id.0) || !(prev <= *d)) && st.fail.is_none() {
                        st.fail = Some(format!("id {}: duplicate, not held or out of order", id.0));
                    }
                    prev = *d;
                }
                if res.len() > k && st.fail.is_none() {
                    st.fail = Some("more than k results".into());
                }
            }
            // completeness against the twin: the wrapper may not lose candidates
            let twin_k = twin.search_with_ef(&fq, k, ef);
            if res.len() < twin_k.len() && st.fail.is_none() {
                st.fail = Some(format!("{} results but the plain index returns {} for the same k", res.len(), twin_k.len()));
            }
            // with rescoring and no pre-ranking: the k best of the k * factor candidates of the plain index
            if resc && pre == 0 && st.fail.is_none() {
                {
                    let nc = mults.iter().fold(k, |a, m| a.saturating_mul(*m));
                    let mut cands = twin.search_with_ef(&fq, nc, ef);
                    cands.sort_by(|a, b| a.1.partial_cmp(&b.1).unwrap());
                    cands.truncate(k);
                    let same = cands.len() == res.len() && cands.iter().zip(res.iter()).all(|(a, b)| a.1.to_bits() == b.1.to_bits());
                    if !same {
                        st.fail = Some(format!("rescored result {:?} is not the {} best of the plain index's {} candidates {:?}", res, k, nc, cands));
                    }
                }
            }
            (if st.fail.is_some() { Oracle::Fail } else { Oracle::Ok }, st.fail.clone().unwrap_or_default(), None, None)
        }
    };
    let mut tags = vec![format!("qtwin-quant={}", qn), format!("qtwin-rescore={}", rescore), format!("qtwin-trained={}", trained), format!("qtwin-factor={}", factor)];
    tags.push(if k == 0 { "qtwin-k=0".into() } else if k > usize::MAX / 4 { "qtwin-k-huge".into() } else if k > size { "qtwin-k>size".into() } else { "qtwin-k<=size".into() });
    out.emit(&Case {
        kind: "quantized-twin".into(),
        input: format!(
            "{}quant={} rescore={} factor={} metric={} dim={} M={} efc={} seed={} :: {} ; search {:?} k={} ef={}",
            if forced { "corpus:C18-K3-witness(fixed dc6fd9d) " } else { "" }, qn, rescore, factor, mt.name(), dim, m, efc, seed, human.join(" ; "), q, k, ef
        ),
        coq: Some(format!(
            "chk_qsearch {} (mk_config {} {} {}) [{}] {} {} {} {} {} {} [{}] {} {}",
            mt.coq(), m, m0, efc, terms.join(";"), zvec(&q), k, ef, mult_term, coq::b(resc), pre,
            keys.iter().map(|(i, h)| format!("({},{})", i, h)).collect::<Vec<_>>().join(";"), coq::b(cmp_dist), impl_term
        )),
        oracle,
        msg,
        kid,
        kcoq,
        nontrivial: size >= 2 && k >= 1,
        imp: match &got { Ok(res) => res_human(res), Err(_) => "panic".into() },
        tags,
        ..Default::default()
    });
}

// ------------------------------------------------------------------------------------------ VectorScanOperator / VectorJoinOperator

fn case_operators(r: &mut Rng, out: &mut Out, forced: bool) {
    use grafeo_common::types::Value;
    use grafeo_core::execution::operators::{NodeListOperator, Operator, VectorJoinOperator, VectorScanOperator};
    use grafeo_core::graph::lpg::LpgStore;
    use std::sync::Arc;
    let mt = if forced { Mt::Euclid } else { *r.pick(&[Mt::Euclid, Mt::Manh, Mt::Dot]) };
    let dim = if forced { 2 } else { *r.pick(&[1usize, 2, 3, 8]) };
    let n = if forced { 4 } else { 2 + r.below(9) as usize };
    let store = Arc::new(LpgStore::new());
    let mut vecs: BTreeMap<u64, Vec<i64>> = BTreeMap::new();
    let mut all_nodes: Vec<NodeId> = Vec::new();
    for i in 0..n {
        let id = store.create_node(&["Item"]);
        all_nodes.push(id);
        if forced || !r.chance(1, 8) {
            let v = if forced { vec![i as i64, 0] } else { gen_ivec(r, dim, 3) };
            store.set_node_property(id, "e", Value::Vector(f32v(&v, 0).into()));
            vecs.insert(id.0, v);
        }
    }
    let to_f32 = |d: f64| -> f32 { d as f32 };
    // ---- scan
    {
        let q = if forced { vec![0, 0] } else { gen_ivec(r, dim, 3) };
        let k = if forced { 3 } else { *r.pick(&[0usize, 1, 2, n, n + 1]) };
        let cap = if forced { 2 } else { *r.pick(&[1usize, 2, 3, 5, 2048]) };
        let use_index = !forced && r.chance(1, 3) && !vecs.is_empty();
        let maxd = if !forced && r.chance(1, 4) { Some(r.range(0, 6) as f32) } else { None };
        let fq = f32v(&q, 0);
        let (mut op, expect): (VectorScanOperator, Vec<(NodeId, f32)>) = if use_index {
            let ix = Arc::new(HnswIndex::with_seed(HnswConfig::new(dim, mt.metric()), r.next()));
            for (i, v) in &vecs {
                ix.insert(NodeId::new(*i), &f32v(v, 0));
            }
            let e = ix.search_with_ef(&fq, k, 64);
            (VectorScanOperator::with_index(Arc::clone(&store), ix, fq.clone(), k), e)
        } else {
            let fx: Vec<(NodeId, Vec<f32>)> = vecs.iter().map(|(i, v)| (NodeId::new(*i), f32v(v, 0))).collect();
            let e = brute_force_knn(fx.iter().map(|(i, v)| (*i, v.as_slice())), &fq, k, mt.metric());
            (VectorScanOperator::brute_force(Arc::clone(&store), "e", fq.clone(), k, mt.metric()).with_label("Item"), e)
        };
        op = op.with_chunk_capacity(cap);
        if let Some(t) = maxd {
            op = op.with_max_distance(t);
        }
        let expect: Vec<(NodeId, f32)> = expect.into_iter().filter(|(_, d)| maxd.map_or(true, |t| *d <= t)).collect();
        let mut chunks: Vec<Vec<(NodeId, f32)>> = Vec::new();
        let mut calls = 0;
        let mut finished = false;
        while calls < expect.len() + 5 {
            calls += 1;
            match op.next() {
                Ok(Some(ch)) => {
                    let mut rows = Vec::new();
                    for i in 0..ch.row_count() {
                        rows.push((ch.column(0).and_then(|c| c.get_node_id(i)).unwrap_or(NodeId::new(u64::MAX)), to_f32(ch.column(1).and_then(|c| c.get_float64(i)).unwrap_or(f64::NAN))));
                    }
                    chunks.push(rows);
                }
                _ => {
                    finished = true;
                    break;
                }
            }
        }
        let flat: Vec<(NodeId, f32)> = chunks.iter().flatten().copied().collect();
        let same = flat.len() == expect.len() && flat.iter().zip(&expect).all(|(a, b)| a.0 == b.0 && a.1.to_bits() == b.1.to_bits());
        let mut st = OracleState { live: vecs.clone(), fail: None };
        check_result(mt, &mut st, &q, k, &flat, "VectorScanOperator");
        let ok = same && finished && st.fail.is_none();
        out.emit(&Case {
            kind: "op-vector-scan".into(),
            input: format!("metric={} index={} k={} cap={} maxd={:?} q={:?} vectors={:?}", mt.name(), use_index, k, cap, maxd, q, vecs),
            coq: Some(format!("chk_scan {} {} [{}]", cap, res_term(&expect), chunks.iter().map(|c| res_term(c)).collect::<Vec<_>>().join(";"))),
            oracle: if ok { Oracle::Ok } else { Oracle::Fail },
            msg: if ok { String::new() } else { st.fail.unwrap_or_else(|| format!("the operator's rows {:?} are not the search result {:?} (finished={})", flat, expect, finished)) },
            nontrivial: expect.len() >= 2,
            imp: format!("{} chunks", chunks.len()),
            tags: vec![format!("scan-index={}", use_index), format!("scan-cap={}", cap), if expect.len() > cap { "scan-multi-chunk".into() } else { "scan-one-chunk".into() }],
            ..Default::default()
        });
    }
    // ---- join
    {
        let k = if forced { 2 } else { *r.pick(&[0usize, 1, 2, 3, n]) };
        let cap = if forced { 2 } else { *r.pick(&[1usize, 2, 3, 4, 6, 1024]) };
        let left_chunk = if forced { 1024 } else { *r.pick(&[1usize, 2, 3, 1024]) };
        let mode = if forced { 0 } else { r.below(3) };
        let maxd = if !forced && r.chance(1, 4) { Some(r.range(0, 6) as f32) } else { None };
        let left_nodes: Vec<NodeId> = if forced { vec![all_nodes[0], all_nodes[1]] } else { all_nodes.iter().copied().filter(|_| r.chance(2, 3)).collect() };
        let fx: Vec<(NodeId, Vec<f32>)> = vecs.iter().map(|(i, v)| (NodeId::new(*i), f32v(v, 0))).collect();
        let qstatic = gen_ivec(r, dim, 3);
        let ix = if mode == 2 && !vecs.is_empty() {
            let ix = Arc::new(HnswIndex::with_seed(HnswConfig::new(dim, mt.metric()), r.next()));
            for (i, v) in &vecs {
                ix.insert(NodeId::new(*i), &f32v(v, 0));
            }
            Some(ix)
        } else {
            None
        };
        let left = Box::new(NodeListOperator::new(left_nodes.clone(), left_chunk));
        let mut op = if mode == 1 {
            VectorJoinOperator::with_static_query(left, Arc::clone(&store), f32v(&qstatic, 0), "e", k, mt.metric())
        } else {
            VectorJoinOperator::entity_to_entity(left, Arc::clone(&store), 0, "e", "e", k, mt.metric())
        };
        if let Some(ix) = &ix {
            op = op.with_index(Arc::clone(ix));
        }
        op = op.with_chunk_capacity(cap);
        if let Some(t) = maxd {
            op = op.with_max_distance(t);
        }
        // one search per left row, through the public functions
        let mut rows: Vec<(u64, Vec<i64>, Vec<(NodeId, f32)>)> = Vec::new();
        for l in &left_nodes {
            let qv: Option<Vec<i64>> = if mode == 1 { Some(qstatic.clone()) } else { vecs.get(&l.0).cloned() };
            let res = match &qv {
                None => vec![],
                Some(qv) => {
                    let fq = f32v(qv, 0);
                    let e = match &ix {
                        Some(ix) => ix.search_with_ef(&fq, k, 64),
                        None => brute_force_knn(fx.iter().map(|(i, v)| (*i, v.as_slice())), &fq, k, mt.metric()),
                    };
                    e.into_iter().filter(|(_, d)| maxd.map_or(true, |t| *d <= t)).collect()
                }
            };
            rows.push((l.0, qv.unwrap_or_default(), res));
        }
        let total: usize = rows.iter().map(|x| x.2.len()).sum();
        let max_calls = total / cap.max(1) + 6;
        let mut chunks: Vec<Vec<(u64, NodeId, f32)>> = Vec::new();
        let mut calls = 0;
        let mut finished = false;
        while calls < max_calls {
            calls += 1;
            match op.next() {
                Ok(Some(ch)) => {
                    let mut rs = Vec::new();
                    for i in 0..ch.row_count() {
                        rs.push((
                            ch.column(0).and_then(|c| c.get_node_id(i)).map_or(u64::MAX, |x| x.0),
                            ch.column(1).and_then(|c| c.get_node_id(i)).unwrap_or(NodeId::new(u64::MAX)),
                            to_f32(ch.column(2).and_then(|c| c.get_float64(i)).unwrap_or(f64::NAN)),
                        ));
                    }
                    chunks.push(rs);
                }
                _ => {
                    finished = true;
                    break;
                }
            }
        }
        let flat: Vec<(u64, NodeId, f32)> = chunks.iter().flatten().copied().collect();
        let spec: Vec<(u64, NodeId, f32)> = rows.iter().flat_map(|(l, _, rs)| rs.iter().map(move |(i, d)| (*l, *i, *d))).collect();
        let same = finished && flat.len() == spec.len() && flat.iter().zip(&spec).all(|(a, b)| a.0 == b.0 && a.1 == b.1 && a.2.to_bits() == b.2.to_bits());
        // every left row's result is a sound search result
        let mut st = OracleState { live: vecs.clone(), fail: None };
        for (_, qv, rs) in &rows {
            if !qv.is_empty() {
                check_result(mt, &mut st, qv, k, rs, "VectorJoinOperator row");
            }
        }
        let ok = same && st.fail.is_none();
        let rows_term = format!("[{}]", rows.iter().map(|(l, _, rs)| format!("({},{})", l, res_term(rs))).collect::<Vec<_>>().join(";"));
        let chunk_term = |c: &Vec<(u64, NodeId, f32)>| format!("[{}]", c.iter().map(|(l, i, d)| format!("({},({},{}))", l, i.0, bits(*d))).collect::<Vec<_>>().join(";"));
        out.emit(&Case {
            kind: "op-vector-join".into(),
            input: format!(
                "{}metric={} mode={} k={} cap={} left_chunk={} maxd={:?} left={:?} vectors={:?} static_q={:?}",
                if forced { "corpus:C18-K4-witness(fixed 5466afe) " } else { "" }, mt.name(), mode, k, cap, left_chunk, maxd, left_nodes.iter().map(|x| x.0).collect::<Vec<_>>(), vecs, qstatic
            ),
            coq: Some(format!("chk_join {} {} {} [{}] {}", cap, calls, rows_term, chunks.iter().map(chunk_term).collect::<Vec<_>>().join(";"), coq::b(finished))),
            oracle: if ok { Oracle::Ok } else { Oracle::Fail },
            msg: if ok { String::new() } else { st.fail.clone().unwrap_or_else(|| format!("after {} calls (finished={}) the operator produced {} rows, the join has {}: first chunks {:?}", calls, finished, flat.len(), spec.len(), &chunks[..chunks.len().min(3)])) },
            nontrivial: total >= 2,
            imp: format!("{} chunks in {} calls, finished={}", chunks.len(), calls, finished),
            tags: vec![format!("join-mode={}", mode), format!("join-cap={}", cap), format!("join-left-chunk={}", left_chunk), if ok { "join-ok".into() } else { "join-wrong".into() }, if rows.iter().scan(0usize, |a, x| { *a += x.2.len(); Some((*a, x.2.len())) }).any(|(a, l)| l > 0 && cap > 0 && a % cap == 0) { "join-chunk-ends-with-row".into() } else { "join-no-boundary".into() }],
            ..Default::default()
        });
    }
}


// ------------------------------------------------------------------------------------------ binary and product quantisers

fn case_bquant(r: &mut Rng, out: &mut Out) {
    use grafeo_core::index::vector::BinaryQuantizer;
    use grafeo_core::index::vector::quantization::hamming_distance_simd;
    let dim = *r.pick(&[1usize, 3, 31, 63, 64, 65, 127, 128, 130, 200]);
    let a: Vec<i64> = (0..dim).map(|_| r.range(-2, 2)).collect();
    let b: Vec<i64> = if r.chance(1, 5) { a.clone() } else { (0..dim).map(|i| if r.chance(1, 3) { a[i] } else { r.range(-2, 2) }).collect() };
    let wa = BinaryQuantizer::quantize(&f32v(&a, 0));
    let wb = BinaryQuantizer::quantize(&f32v(&b, 0));
    let ham = BinaryQuantizer::hamming_distance(&wa, &wb);
    let hs = hamming_distance_simd(&wa, &wb);
    let want = (0..dim).filter(|&i| (a[i] >= 0) != (b[i] >= 0)).count() as u32;
    let norm = BinaryQuantizer::hamming_distance_normalized(&wa, &wb, dim);
    let ok = ham == want && hs == want && wa.len() == (dim + 63) / 64 && (norm - want as f32 / dim as f32).abs() < 1e-6;
    out.emit(&Case {
        kind: "binary-quant".into(),
        input: format!("dim={} a={:?} b={:?}", dim, a, b),
        coq: Some(format!("chk_bquant {} {} {} {} {} {}", zvec(&a), zvec(&b), uvec(&wa), uvec(&wb), ham, hs)),
        oracle: if ok { Oracle::Ok } else { Oracle::Fail },
        msg: if ok { String::new() } else { format!("hamming={} simd={} but {} signs differ", ham, hs, want) },
        nontrivial: dim >= 2,
        imp: format!("hamming={}", ham),
        tags: vec![format!("bquant-dim={}", dim)],
        ..Default::default()
    });
}

fn case_pquant(r: &mut Rng, out: &mut Out) {
    use grafeo_core::index::vector::ProductQuantizer;
    let m = *r.pick(&[1usize, 2, 3, 4]);
    let k = *r.pick(&[1usize, 2, 3, 5, 8, 256]);
    let sd = *r.pick(&[1usize, 2, 3]);
    let dim = m * sd;
    let spread = if k == 256 { 40 } else { 4 };
    let mut cb: Vec<Vec<Vec<i64>>> = Vec::new();
    for _ in 0..m {
        let mut part: Vec<Vec<i64>> = Vec::new();
        for j in 0..k {
            // duplicates: the first of equal centroids must win
            let c = if j > 0 && r.chance(1, 4) { part[r.below(j as u64) as usize].clone() } else { (0..sd).map(|_| r.range(-spread, spread)).collect() };
            part.push(c);
        }
        cb.push(part);
    }
    let flat: Vec<f32> = cb.iter().flatten().flatten().map(|&x| x as f32).collect();
    let pq = ProductQuantizer::with_centroids(m, k, dim, flat);
    let v: Vec<i64> = (0..dim).map(|_| r.range(-spread - 2, spread + 2)).collect();
    let q: Vec<i64> = (0..dim).map(|_| r.range(-spread - 2, spread + 2)).collect();
    let codes = pq.quantize(&f32v(&v, 0));
    let table = pq.build_distance_table(&f32v(&q, 0));
    let adc = pq.asymmetric_distance_squared(&f32v(&q, 0), &codes);
    let recon = pq.reconstruct(&codes);
    // oracle: every code is a nearest centroid; the table distance is the distance to the reconstruction
    let mut ok = codes.len() == m && recon.len() == dim;
    for p in 0..m {
        let sub = &v[p * sd..(p + 1) * sd];
        let dist = |c: &Vec<i64>| -> i64 { sub.iter().zip(c).map(|(x, y)| (x - y) * (x - y)).sum() };
        let best = cb[p].iter().map(dist).min().unwrap();
        if ok && dist(&cb[p][codes[p] as usize]) != best {
            ok = false;
        }
    }
    let want_adc: i64 = (0..dim).map(|i| (q[i] - recon.get(i).copied().unwrap_or(0.0) as i64).pow(2)).sum();
    if adc != want_adc as f32 {
        ok = false;
    }
    let cb_term = format!("[{}]", cb.iter().map(|p| format!("[{}]", p.iter().map(|c| zvec(c)).collect::<Vec<_>>().join(";"))).collect::<Vec<_>>().join(";"));
    out.emit(&Case {
        kind: "product-quant".into(),
        input: format!("M={} K={} sd={} v={:?} q={:?} centroids={:?}", m, k, sd, v, q, if k <= 8 { format!("{:?}", cb) } else { "(256 per partition)".into() }),
        coq: Some(format!(
            "chk_pquant {} {} {} {} {} {} {} {}",
            cb_term, sd, zvec(&v), zvec(&q),
            uvec(&codes.iter().map(|&c| c as u64).collect::<Vec<_>>()),
            uvec(&table.iter().map(|&t| bits(t)).collect::<Vec<_>>()),
            bits(adc),
            uvec(&recon.iter().map(|&t| bits(t)).collect::<Vec<_>>())
        )),
        oracle: if ok { Oracle::Ok } else { Oracle::Fail },
        msg: if ok { String::new() } else { format!("codes={:?} adc={} (distance to the reconstruction {})", codes, adc, want_adc) },
        nontrivial: k >= 2,
        imp: format!("codes={:?} adc={}", codes, adc),
        tags: vec![format!("pquant-M={}", m), format!("pquant-K={}", k)],
        ..Default::default()
    });
}


// ------------------------------------------------------------------------------------------ vector storage backends and zone map (oracle only)

fn case_storage(r: &mut Rng, out: &mut Out) {
    use grafeo_core::index::vector::{MmapStorage, RamStorage, VectorStorage};
    let dim = *r.pick(&[1usize, 3, 8]);
    let dir = tempfile::tempdir().expect("tempdir");
    let path = dir.path().join("v.bin");
    let use_mmap = r.chance(1, 2);
    let cache = *r.pick(&[0usize, 1, 2, 10000]);
    let st: Box<dyn VectorStorage> = if use_mmap {
        Box::new(MmapStorage::create(&path, dim).expect("create").with_cache_limit(cache))
    } else {
        Box::new(RamStorage::new(dim))
    };
    let mut live: BTreeMap<u64, Vec<f32>> = BTreeMap::new();
    let mut fail: Option<String> = None;
    let nops = 10 + r.below(40);
    for _ in 0..nops {
        let id = 1 + r.below(8);
        match r.below(10) {
            0..=4 => {
                let v: Vec<f32> = (0..dim).map(|_| r.range(-100, 100) as f32 / 4.0).collect();
                if st.insert(NodeId::new(id), &v).is_err() && fail.is_none() {
                    fail = Some("insert failed".into());
                }
                live.insert(id, v);
            }
            5 | 6 => {
                let had = live.remove(&id).is_some();
                if st.remove(NodeId::new(id)) != had && fail.is_none() {
                    fail = Some(format!("remove({}) returned {}", id, !had));
                }
            }
            _ => {
                let got = st.get(NodeId::new(id));
                let want = live.get(&id);
                let same = match (&got, want) {
                    (Some(g), Some(w)) => g.len() == w.len() && g.iter().zip(w).all(|(a, b)| a.to_bits() == b.to_bits()),
                    (None, None) => true,
                    _ => false,
                };
                if !same && fail.is_none() {
                    fail = Some(format!("get({}) = {:?} but the stored vector is {:?}", id, got, want));
                }
                if st.contains(NodeId::new(id)) != want.is_some() && fail.is_none() {
                    fail = Some(format!("contains({}) is wrong", id));
                }
            }
        }
        if st.len() != live.len() && fail.is_none() {
            fail = Some(format!("len() = {} but {} vectors are stored", st.len(), live.len()));
        }
    }
    // observation only (persistence is not part of C18): what a re-opened file holds
    let mut tags = vec![format!("storage={}", if use_mmap { "mmap" } else { "ram" })];
    if use_mmap {
        let _ = st.flush();
        drop(st);
        if let Ok(re) = MmapStorage::open(&path) {
            let same = re.len() == live.len() && live.iter().all(|(i, v)| re.get(NodeId::new(*i)).map_or(false, |g| g.iter().zip(v).all(|(a, b)| a.to_bits() == b.to_bits())));
            tags.push(if same { "mmap-reopen-same".into() } else { "mmap-reopen-differs(observation)".into() });
        }
    }
    out.emit(&Case {
        kind: "vector-storage".into(),
        input: format!("mmap={} cache_limit={} dim={} ops={}", use_mmap, cache, dim, nops),
        oracle: if fail.is_some() { Oracle::Fail } else { Oracle::Ok },
        msg: fail.unwrap_or_default(),
        nontrivial: true,
        imp: format!("{} stored", live.len()),
        tags,
        ..Default::default()
    });
}

/// pruning must be conservative: a block holding a vector within the threshold may not be skipped
fn case_zonemap(r: &mut Rng, out: &mut Out) {
    use grafeo_core::index::vector::VectorZoneMap;
    let dim = *r.pick(&[1usize, 2, 3, 8]);
    let n = 1 + r.below(8) as usize;
    let scale = *r.pick(&[1.0f32, 1.0, 0.01, 100.0]);
    let vs: Vec<Vec<f32>> = (0..n).map(|_| (0..dim).map(|_| r.range(-8, 8) as f32 * scale).collect()).collect();
    let refs: Vec<&[f32]> = vs.iter().map(|v| v.as_slice()).collect();
    // merge() is exercised as an observation only: its radius ((r1 + r2) / 2 + |c - c2|) is not an upper
    // bound (one far vector merged with a tight block), so pruning after a merge is not conservative
    let merged = r.chance(1, 4) && n >= 2;
    let zm = if merged {
        let mut a = VectorZoneMap::build(&refs[..n / 2]);
        a.merge(&VectorZoneMap::build(&refs[n / 2..]));
        a
    } else {
        VectorZoneMap::build(&refs)
    };
    let q: Vec<f32> = (0..dim).map(|_| r.range(-12, 12) as f32 * scale).collect();
    let mut fail: Option<String> = None;
    let mut cos_unsound = false;
    let mut merge_unsound = false;
    for metric in [DistanceMetric::Euclidean, DistanceMetric::Manhattan, DistanceMetric::DotProduct, DistanceMetric::Cosine] {
        let ds: Vec<f32> = vs.iter().map(|v| compute_distance(&q, v, metric)).collect();
        let dmin = ds.iter().cloned().fold(f32::INFINITY, f32::min);
        for t in [dmin, dmin + 0.5 * scale, dmin * 2.0 + 1.0, 0.0, 1e9] {
            let holds = ds.iter().any(|d| *d <= t - 1e-3 * t.abs().max(scale));
            if holds && !zm.might_contain_within_distance(&q, t, metric) {
                if metric == DistanceMetric::Cosine {
                    cos_unsound = true;
                } else if merged {
                    merge_unsound = true;
                } else if fail.is_none() {
                    fail = Some(format!("{} threshold {}: the block is pruned although a vector at distance {} is in it", metric.name(), t, dmin));
                }
            }
        }
    }
    let mut tags = vec!["zonemap".into()];
    if cos_unsound {
        tags.push("zonemap-cosine-prunes-a-hit(observation)".into());
    }
    if merge_unsound {
        tags.push("zonemap-merged-prunes-a-hit(observation)".into());
    }
    out.emit(&Case {
        kind: "zone-map".into(),
        input: format!("dim={} scale={} q={:?} vectors={:?}", dim, scale, q, vs),
        oracle: if fail.is_some() { Oracle::Fail } else { Oracle::Ok },
        msg: fail.unwrap_or_default(),
        nontrivial: n >= 2,
        imp: String::new(),
        tags,
        ..Default::default()
    });
}

// ------------------------------------------------------------------------------------------ GrafeoDB::vector_search

fn case_engine(r: &mut Rng, out: &mut Out) {
    use grafeo_engine::GrafeoDB;
    let db = GrafeoDB::new_in_memory();
    let dim = *r.pick(&[2usize, 3, 8]);
    let n = 3 + r.below(25) as usize;
    let mt = *r.pick(&[Mt::Euclid, Mt::Manh, Mt::Dot]);
    let vecs: Vec<Vec<i64>> = (0..n).map(|_| gen_ivec(r, dim, 2)).collect();
    let ids = db.batch_create_nodes("Doc", "emb", vecs.iter().map(|v| f32v(v, 0)).collect());
    let metric_name = match mt {
        Mt::Euclid => "euclidean",
        Mt::Manh => "manhattan",
        _ => "dot_product",
    };
    let m = *r.pick(&[None, Some(4usize), Some(16)]);
    let created = db.create_vector_index("Doc", "emb", Some(dim), Some(metric_name), m, Some(64));
    let mut st = OracleState { live: BTreeMap::new(), fail: None };
    for (i, id) in ids.iter().enumerate() {
        st.live.insert(id.0, vecs[i].clone());
    }
    if created.is_err() {
        st.fail = Some("create_vector_index failed".into());
    }
    let mut shorts = 0;
    for _ in 0..6 {
        let q = gen_ivec(r, dim, 2);
        let k = gen_k(r, n);
        let ef = match r.below(3) {
            0 => None,
            1 => Some(n + 10),
            _ => Some(1 + r.below(10) as usize),
        };
        match db.vector_search("Doc", "emb", &f32v(&q, 0), k, ef) {
            Ok(res) => {
                if check_result(mt, &mut st, &q, k, &res, "GrafeoDB::vector_search") {
                    shorts += 1;
                }
                // the database call is the index's search with the same k and ef, and complete for reachable vectors
                if let Some(ix) = db.store().get_vector_index("Doc", "emb") {
                    let direct = match ef {
                        Some(e) => ix.search_with_ef(&f32v(&q, 0), k, e),
                        None => ix.search(&f32v(&q, 0), k),
                    };
                    let same = direct.len() == res.len() && direct.iter().zip(&res).all(|(a, b)| a.0 == b.0 && a.1.to_bits() == b.1.to_bits());
                    if !same && st.fail.is_none() {
                        st.fail = Some(format!("vector_search(k={}, ef={:?}) differs from the index's own search", k, ef));
                    }
                    if let Some(d) = dump_of(&ix) {
                        let live = &st.live;
                        let dist = |id: u64| -> f64 { live.get(&id).map_or(f64::MAX, |v| mt.exact(&q, v) as f64) };
                        if let Some((start, r0)) = reach0_from_start(&d, &dist) {
                            if res.len() < k.min(r0) && st.fail.is_none() {
                                st.fail = Some(format!("vector_search returned {} results for k={} although {} vectors are reachable from node {}", res.len(), k, r0, start));
                            }
                        }
                    }
                } else if st.fail.is_none() {
                    st.fail = Some("the store does not hold the vector index".into());
                }
                let b = db.batch_vector_search("Doc", "emb", &[f32v(&q, 0), f32v(&q, 0)], k, ef);
                match b {
                    Ok(bs) => {
                        let same = |a: &[(NodeId, f32)], b: &[(NodeId, f32)]| a.len() == b.len() && a.iter().zip(b).all(|(x, y)| x.0 == y.0 && x.1.to_bits() == y.1.to_bits());
                        if (bs.len() != 2 || !same(&bs[0], &res) || !same(&bs[1], &res)) && st.fail.is_none() {
                            st.fail = Some("batch_vector_search differs from vector_search".into());
                        }
                    }
                    Err(_) => {
                        if st.fail.is_none() {
                            st.fail = Some("batch_vector_search failed".into());
                        }
                    }
                }
            }
            Err(_) => {
                if st.fail.is_none() {
                    st.fail = Some("vector_search failed".into());
                }
            }
        }
    }
    let missing = db.vector_search("Doc", "nope", &vec![0.0; dim], 1, None).is_err();
    if !missing && st.fail.is_none() {
        st.fail = Some("vector_search on a missing index did not fail".into());
    }
    let mut tags = vec!["engine".into(), format!("engine-metric={}", mt.name())];
    // observation only (C14's subject, not C18's: the index is a snapshot taken by create_vector_index):
    // a node deleted from the database afterwards is still returned by vector_search
    if db.delete_node(ids[0]) {
        if let Ok(res) = db.vector_search("Doc", "emb", &f32v(&vecs[0], 0), n, Some(n + 10)) {
            if res.iter().any(|(i, _)| *i == ids[0]) {
                tags.push("engine-index-returns-deleted-node(observation)".into());
            }
        }
    }
    if shorts > 0 {
        tags.push("shortfall-unclassified".into());
    }
    out.emit(&Case {
        kind: "engine-vector-search".into(),
        input: format!("n={} dim={} metric={} m={:?}", n, dim, mt.name(), m),
        oracle: if st.fail.is_some() { Oracle::Fail } else { Oracle::Ok },
        msg: st.fail.unwrap_or_default(),
        nontrivial: false,
        imp: format!("{} nodes indexed", n),
        tags,
        ..Default::default()
    });
}

fn main() {
    let a = parse_args();
    quiet_panics();
    let mut out = Out::create(a.out.as_deref());
    let mut r = Rng::new(a.seed);
    let hook = hook_present();
    let thorough = a.tier == "thorough";
    // corpus first
    run_hist(&witness_hist(), &mut out, hook, "corpus:unreachable-after-remove");
    case_brute_extreme(&mut r, &mut out, true);
    case_qtwin(&mut r, &mut out, true);
    case_operators(&mut r, &mut out, true);
    for d in DIMS {
        // every dimension once with the last coordinate carrying the only difference
        let mut x = vec![1i64; d];
        let y = vec![1i64; d];
        x[d - 1] = 5;
        case_kernel(&mut r, &mut out, Some((d, x, y)));
    }
    for i in 0..a.cases {
        match i % 20 {
            0 | 1 | 2 => case_kernel(&mut r, &mut out, None),
            3 => match (i / 20) % 4 {
                0 => case_kernel(&mut r, &mut out, None),
                1 => case_bquant(&mut r, &mut out),
                2 => case_pquant(&mut r, &mut out),
                _ => {
                    case_storage(&mut r, &mut out);
                    case_zonemap(&mut r, &mut out);
                }
            },
            4 => case_kernel_float(&mut r, &mut out),
            5 => case_brute(&mut r, &mut out),
            6 => {
                if i % 40 == 6 {
                    case_brute(&mut r, &mut out);
                } else {
                    case_brute_extreme(&mut r, &mut out, false);
                }
            }
            7 => {
                if i % 40 == 7 {
                    case_bheap(&mut r, &mut out);
                } else {
                    case_operators(&mut r, &mut out, false);
                }
            }
            8 | 9 | 10 | 11 | 12 | 13 => {
                let h = gen_hist(&mut r, true, hook, thorough && i % 40 == 8);
                run_hist(&h, &mut out, hook, "gen");
            }
            14 => {
                // default ml: replayable only with the hook
                let h = gen_hist(&mut r, false, hook, false);
                run_hist(&h, &mut out, hook, "gen-levels");
            }
            15 => {
                if i % 100 == 15 {
                    case_hnsw_float(&mut r, &mut out, thorough);
                } else {
                    case_squant(&mut r, &mut out);
                }
            }
            16 => case_qtwin(&mut r, &mut out, false),
            17 => {
                if i % 40 == 17 {
                    case_quantized(&mut r, &mut out);
                } else {
                    case_qtwin(&mut r, &mut out, false);
                }
            }
            18 => {
                if i % 60 == 18 {
                    case_engine(&mut r, &mut out);
                } else {
                    case_brute(&mut r, &mut out);
                }
            }
            _ => {
                let h = gen_hist(&mut r, true, hook, false);
                run_hist(&h, &mut out, hook, "gen");
            }
        }
    }
    eprintln!("c18: hook={} simd={}", hook, simd_support());
    out.finish();
}
