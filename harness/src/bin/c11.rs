//! C11 — query results obey the algebra of predicates, limits and aggregates.
//!
//! (1) OPERATOR level: the real pull operators of grafeo-core (Filter with ExpressionPredicate,
//!     Limit, Skip, LimitSkip, Distinct, Union, SimpleAggregate, HashAggregate with count / sum /
//!     avg / min / max / first / last / collect, Sort) over a mock child that yields generated
//!     chunks with arbitrary boundaries and selection vectors; the drained rows are compared with
//!     the model (GV.Query.Run) and with the specification (oracle).
//! (2) ENGINE level: generated small graphs (and one big table) through
//!     `GrafeoDB::session().execute / execute_cypher / execute_gremlin / execute_graphql`; the
//!     identities of the property are checked on the engine's outputs (oracle) and every output
//!     is compared with the model.
use std::collections::HashMap;
use std::sync::Arc;

use grafeo_common::types::{LogicalType, Value};
use grafeo_core::execution::operators::{
    AggregateExpr, BinaryFilterOp, DistinctOperator, ExpressionPredicate, FilterExpression, FilterOperator,
    HashAggregateOperator, LimitOperator, LimitSkipOperator, Operator, OperatorResult, Predicate,
    SimpleAggregateOperator, SkipOperator, UnaryFilterOp, UnionOperator,
};
use grafeo_core::execution::{DataChunk, SelectionVector, ValueVector};
use grafeo_core::graph::lpg::LpgStore;
use grafeo_engine::GrafeoDB;
use gv_harness::*;

// ------------------------------------------------------------------------------------ values

#[derive(Clone, Debug)]
enum V {
    Null,
    Bool(bool),
    Int(i64),
    Float(u64),
    Str(String),
    List(Vec<V>),
}

impl PartialEq for V {
    // structural: floats by bit pattern
    fn eq(&self, o: &V) -> bool {
        match (self, o) {
            (V::Null, V::Null) => true,
            (V::Bool(a), V::Bool(b)) => a == b,
            (V::Int(a), V::Int(b)) => a == b,
            (V::Float(a), V::Float(b)) => a == b,
            (V::Str(a), V::Str(b)) => a == b,
            (V::List(a), V::List(b)) => a == b,
            _ => false,
        }
    }
}

impl V {
    fn to_value(&self) -> Value {
        match self {
            V::Null => Value::Null,
            V::Bool(b) => Value::Bool(*b),
            V::Int(i) => Value::Int64(*i),
            V::Float(b) => Value::Float64(f64::from_bits(*b)),
            V::Str(s) => Value::String(s.as_str().into()),
            V::List(l) => Value::List(l.iter().map(|v| v.to_value()).collect::<Vec<_>>().into()),
        }
    }
    fn from_value(v: &Value) -> V {
        match v {
            Value::Null => V::Null,
            Value::Bool(b) => V::Bool(*b),
            Value::Int64(i) => V::Int(*i),
            Value::Float64(f) => V::Float(f.to_bits()),
            Value::String(s) => V::Str(s.to_string()),
            Value::List(l) => V::List(l.iter().map(V::from_value).collect()),
            other => V::Str(format!("<unmodelled {:?}>", other)),
        }
    }
    fn coq(&self) -> String {
        match self {
            V::Null => "VNull".into(),
            V::Bool(b) => format!("(VBool {})", coq::b(*b)),
            V::Int(i) => format!("(VInt {})", coq::z(*i)),
            V::Float(b) => format!("(VFloat {})", coq::zu(*b)),
            V::Str(s) => format!("(VStr {})", coq::str_bytes(s)),
            V::List(l) => format!("(VList {})", coq::list(l.iter().map(|v| v.coq()))),
        }
    }
    fn show(&self) -> String {
        match self {
            V::Null => "null".into(),
            V::Bool(b) => format!("{}", b),
            V::Int(i) => format!("{}", i),
            V::Float(b) => format!("{:?}f", f64::from_bits(*b)),
            V::Str(s) => format!("'{}'", s),
            V::List(l) => format!("[{}]", l.iter().map(|v| v.show()).collect::<Vec<_>>().join(",")),
        }
    }
    /// literal text in GQL / Cypher (None when the generators must not print it)
    fn text(&self) -> Option<String> {
        match self {
            V::Null => Some("null".into()),
            V::Bool(b) => Some(format!("{}", b)),
            V::Int(i) if *i >= 0 => Some(format!("{}", i)),
            V::Int(_) => None,
            V::Float(b) => {
                let f = f64::from_bits(*b);
                if f.is_finite() && f >= 0.0 && f < 1e6 && (f * 4.0).fract() == 0.0 {
                    Some(format!("{:?}", f))
                } else {
                    None
                }
            }
            V::Str(s) if s.chars().all(|c| c.is_ascii_alphanumeric() || c == ' ') => Some(format!("'{}'", s)),
            V::Str(_) => None,
            V::List(l) => {
                let mut parts = Vec::new();
                for v in l {
                    parts.push(v.text()?);
                }
                Some(format!("[{}]", parts.join(", ")))
            }
        }
    }
}

fn coq_row(r: &[V]) -> String {
    coq::list(r.iter().map(|v| v.coq()))
}
fn coq_rows(rs: &[Vec<V>]) -> String {
    coq::list(rs.iter().map(|r| coq_row(r)))
}
fn coq_ov(o: &Option<V>) -> String {
    match o {
        Some(v) => format!("(Some {})", v.coq()),
        None => "None".into(),
    }
}
fn coq_env(e: &[Option<V>]) -> String {
    coq::list(e.iter().map(coq_ov))
}
fn coq_oz(o: Option<i64>) -> String {
    match o {
        Some(v) => format!("(Some {})", coq::z(v)),
        None => "None".into(),
    }
}
fn show_rows(rs: &[Vec<V>]) -> String {
    let mut s = String::new();
    for (i, r) in rs.iter().enumerate() {
        if i >= 40 {
            s.push_str(&format!(" …(+{})", rs.len() - i));
            break;
        }
        s.push('(');
        s.push_str(&r.iter().map(|v| v.show()).collect::<Vec<_>>().join(","));
        s.push(')');
    }
    s
}
fn show_ints(xs: &[i64]) -> String {
    if xs.len() <= 30 {
        format!("{:?}", xs)
    } else {
        format!("{:?}…(+{}) last={}", &xs[..20], xs.len() - 20, xs[xs.len() - 1])
    }
}
/// runs (start, len) of consecutive integers
fn runs(xs: &[i64]) -> Vec<(i64, i64)> {
    let mut r: Vec<(i64, i64)> = Vec::new();
    for &x in xs {
        if let Some(l) = r.last_mut() {
            if l.0 + l.1 == x {
                l.1 += 1;
                continue;
            }
        }
        r.push((x, 1));
    }
    r
}
fn coq_runs(rs: &[(i64, i64)]) -> String {
    coq::list(rs.iter().map(|(a, n)| format!("({}, {})", coq::z(*a), coq::z(*n))))
}

const I_EXT: [i64; 12] = [
    0, 1, -1, 2, 5, 7, i64::MAX, i64::MIN, i64::MAX - 1, i64::MIN + 1, 1 << 53, (1 << 53) + 1,
];
fn f(x: f64) -> V {
    V::Float(x.to_bits())
}
fn gen_int(r: &mut Rng) -> i64 {
    match r.below(6) {
        0 => *r.pick(&I_EXT),
        1 | 2 => r.range(-3, 8),
        3 => r.range(-100, 100),
        4 => *r.pick(&[4611686018427387904i64, -4611686018427387904, 3037000500, 4607182418800017408, 0]),
        _ => r.range(0, 3),
    }
}
fn gen_float(r: &mut Rng) -> V {
    match r.below(8) {
        0 => f(*r.pick(&[0.0, -0.0, 1.0, 1.5, 2.0, -1.0, 0.5, 7.0, 5.0])),
        1 => f(*r.pick(&[f64::NAN, f64::INFINITY, f64::NEG_INFINITY, f64::MAX, f64::MIN_POSITIVE, 5e-324, -5e-324])),
        2 => f(*r.pick(&[1e-17, 2e-17, 1.0 + f64::EPSILON, 1.0 - f64::EPSILON / 2.0, 2.0f64.powi(-53), 3e-16, 2.2e-16])),
        3 => f(*r.pick(&[9007199254740992.0, 9007199254740994.0, 9223372036854775807.0, -9223372036854775808.0, 4611686018427387904.0])),
        4 => V::Float(0x7ff8_0000_0000_0001), // NaN with payload
        _ => f(r.range(-6, 14) as f64 / 2.0),
    }
}
fn gen_str(r: &mut Rng) -> String {
    (*r.pick(&["", "a", "ab", "abc", "b", "ba", "abcabc", "B", "a b", "zz", "é", "aé"])).to_string()
}
fn gen_scalar(r: &mut Rng) -> V {
    match r.below(10) {
        0 => V::Null,
        1 | 2 => V::Bool(r.chance(1, 2)),
        3 | 4 | 5 => V::Int(gen_int(r)),
        6 | 7 => gen_float(r),
        _ => V::Str(gen_str(r)),
    }
}
fn gen_nofloat(r: &mut Rng) -> V {
    loop {
        let v = gen_scalar(r);
        if !matches!(v, V::Float(_)) {
            return v;
        }
    }
}
fn gen_list(r: &mut Rng, with_float: bool) -> V {
    let n = r.below(4) as usize;
    V::List(
        (0..n)
            .map(|_| match r.below(if with_float { 6 } else { 5 }) {
                0 => V::Null,
                1 | 2 => V::Int(r.range(-2, 5)),
                3 => V::Str((*r.pick(&["a", "ab", "abc", "x y"])).to_string()),
                4 => V::Bool(r.chance(1, 2)),
                _ => gen_float(r),
            })
            .collect(),
    )
}
fn gen_value(r: &mut Rng) -> V {
    if r.chance(1, 10) { gen_list(r, true) } else { gen_scalar(r) }
}

// ------------------------------------------------------------------------------------ expressions

#[derive(Clone, Copy, Debug, PartialEq)]
enum Op {
    Eq, Ne, Lt, Le, Gt, Ge, And, Or, Xor, Add, Sub, Mul, Div, Mod, StartsWith, EndsWith, Contains, In,
}
#[derive(Clone, Copy, Debug, PartialEq)]
enum UOp {
    Not, IsNull, IsNotNull, Neg,
}
#[derive(Clone, Debug)]
enum E {
    Lit(V),
    Var(usize),
    Bin(Op, Box<E>, Box<E>),
    Un(UOp, Box<E>),
    List(Vec<E>),
}
#[derive(Clone, Copy, PartialEq)]
enum Lang {
    Gql,
    Cypher,
    Gremlin,
    GraphQl,
}
impl Lang {
    /// the clause wiring of the model: GQL's own, or "Sort, then Skip, then Limit" (every other front end)
    fn coq(&self) -> &'static str {
        match self { Lang::Gql => "Gql", _ => "Cypher" }
    }
    fn name(&self) -> &'static str {
        match self { Lang::Gql => "gql", Lang::Cypher => "cypher", Lang::Gremlin => "gremlin", Lang::GraphQl => "graphql" }
    }
}

impl Op {
    fn coq(&self) -> &'static str {
        match self {
            Op::Eq => "Eq", Op::Ne => "Ne", Op::Lt => "Lt", Op::Le => "Le", Op::Gt => "Gt", Op::Ge => "Ge",
            Op::And => "And", Op::Or => "Or", Op::Xor => "Xor", Op::Add => "Add", Op::Sub => "Sub",
            Op::Mul => "Mul", Op::Div => "Div", Op::Mod => "Mod", Op::StartsWith => "StartsWith",
            Op::EndsWith => "EndsWith", Op::Contains => "Contains", Op::In => "InList",
        }
    }
    fn filter(&self) -> BinaryFilterOp {
        match self {
            Op::Eq => BinaryFilterOp::Eq, Op::Ne => BinaryFilterOp::Ne, Op::Lt => BinaryFilterOp::Lt,
            Op::Le => BinaryFilterOp::Le, Op::Gt => BinaryFilterOp::Gt, Op::Ge => BinaryFilterOp::Ge,
            Op::And => BinaryFilterOp::And, Op::Or => BinaryFilterOp::Or, Op::Xor => BinaryFilterOp::Xor,
            Op::Add => BinaryFilterOp::Add, Op::Sub => BinaryFilterOp::Sub, Op::Mul => BinaryFilterOp::Mul,
            Op::Div => BinaryFilterOp::Div, Op::Mod => BinaryFilterOp::Mod,
            Op::StartsWith => BinaryFilterOp::StartsWith, Op::EndsWith => BinaryFilterOp::EndsWith,
            Op::Contains => BinaryFilterOp::Contains, Op::In => BinaryFilterOp::In,
        }
    }
    fn text(&self, l: Lang) -> Option<&'static str> {
        Some(match self {
            Op::Eq => "=", Op::Ne => "<>", Op::Lt => "<", Op::Le => "<=", Op::Gt => ">", Op::Ge => ">=",
            Op::And => "AND", Op::Or => "OR",
            Op::Xor => if l == Lang::Cypher { "XOR" } else { return None },
            Op::Add => "+", Op::Sub => "-", Op::Mul => "*", Op::Div => "/", Op::Mod => "%",
            Op::StartsWith => "STARTS WITH", Op::EndsWith => "ENDS WITH", Op::Contains => "CONTAINS",
            Op::In => if l == Lang::Cypher { "IN" } else { return None },
        })
    }
}

#[derive(Clone, Copy, PartialEq)]
enum Mode {
    Col,  // EVar i = Variable("c<i>") (column i of the chunk)
    Prop, // EVar i = Property { variable: "n", property: "p<i>" }
}

impl E {
    fn coq(&self) -> String {
        match self {
            E::Lit(v) => format!("(ELit {})", v.coq()),
            E::Var(i) => format!("(EVar {})", coq::nat(*i)),
            E::Bin(op, l, r) => format!("(EBin {} {} {})", op.coq(), l.coq(), r.coq()),
            E::Un(op, a) => format!(
                "(EUn {} {})",
                match op { UOp::Not => "Not", UOp::IsNull => "IsNull", UOp::IsNotNull => "IsNotNull", UOp::Neg => "Neg" },
                a.coq()
            ),
            E::List(es) => format!("(EList {})", coq::list(es.iter().map(|e| e.coq()))),
        }
    }
    fn filter(&self, m: Mode) -> FilterExpression {
        match self {
            E::Lit(v) => FilterExpression::Literal(v.to_value()),
            E::Var(i) => match m {
                Mode::Col => FilterExpression::Variable(format!("c{}", i)),
                Mode::Prop => FilterExpression::Property { variable: "n".into(), property: format!("p{}", i) },
            },
            E::Bin(op, l, r) => FilterExpression::Binary {
                left: Box::new(l.filter(m)),
                op: op.filter(),
                right: Box::new(r.filter(m)),
            },
            E::Un(op, a) => FilterExpression::Unary {
                op: match op {
                    UOp::Not => UnaryFilterOp::Not,
                    UOp::IsNull => UnaryFilterOp::IsNull,
                    UOp::IsNotNull => UnaryFilterOp::IsNotNull,
                    UOp::Neg => UnaryFilterOp::Neg,
                },
                operand: Box::new(a.filter(m)),
            },
            E::List(es) => FilterExpression::List(es.iter().map(|e| e.filter(m)).collect()),
        }
    }
    /// fully parenthesised query text; None when the language (or our literal printer) cannot express it
    fn text(&self, l: Lang) -> Option<String> {
        Some(match self {
            E::Lit(v) => v.text()?,
            E::Var(i) => format!("n.p{}", i),
            E::Bin(op, a, b) => format!("({} {} {})", a.text(l)?, op.text(l)?, b.text(l)?),
            E::Un(UOp::Not, a) => format!("(NOT {})", a.text(l)?),
            E::Un(UOp::Neg, a) => format!("(-{})", a.text(l)?),
            E::Un(UOp::IsNull, a) => {
                if l != Lang::Cypher { return None; }
                format!("({} IS NULL)", a.text(l)?)
            }
            E::Un(UOp::IsNotNull, a) => {
                if l != Lang::Cypher { return None; }
                format!("({} IS NOT NULL)", a.text(l)?)
            }
            E::List(es) => {
                if l != Lang::Cypher { return None; }
                let mut parts = Vec::new();
                for e in es {
                    parts.push(e.text(l)?);
                }
                format!("[{}]", parts.join(", "))
            }
        })
    }
    fn show(&self) -> String {
        match self {
            E::Lit(v) => v.show(),
            E::Var(i) => format!("v{}", i),
            E::Bin(op, a, b) => format!("({} {} {})", a.show(), op.coq(), b.show()),
            E::Un(op, a) => format!("({:?} {})", op, a.show()),
            E::List(es) => format!("[{}]", es.iter().map(|e| e.show()).collect::<Vec<_>>().join(",")),
        }
    }
    fn has(&self, f: &dyn Fn(&E) -> bool) -> bool {
        if f(self) {
            return true;
        }
        match self {
            E::Bin(_, a, b) => a.has(f) || b.has(f),
            E::Un(_, a) => a.has(f),
            E::List(es) => es.iter().any(|e| e.has(f)),
            _ => false,
        }
    }
}

/// what kind of literals the generator may use
#[derive(Clone, Copy)]
struct GenCtx {
    nvars: usize,
    text_only: bool, // literals must be printable in query text (engine level)
}

fn gen_lit(r: &mut Rng, c: GenCtx) -> V {
    if c.text_only {
        match r.below(10) {
            0 => V::Null,
            1 => V::Bool(r.chance(1, 2)),
            2 | 3 | 4 => V::Int(*r.pick(&[0i64, 1, 2, 3, 5, 7, i64::MAX, i64::MAX - 1, 4611686018427387904, 9007199254740993])),
            5 => V::Int(r.range(0, 9)),
            6 => f(r.range(0, 14) as f64 / 2.0),
            _ => V::Str((*r.pick(&["", "a", "ab", "abc", "b", "ba", "B", "a b"])).to_string()),
        }
    } else {
        gen_scalar(r)
    }
}

/// a numeric-ish expression (arithmetic inside comparisons)
fn gen_arith(r: &mut Rng, c: GenCtx, d: u32) -> E {
    if d == 0 || r.chance(2, 5) {
        // variable 0 never holds a float (float arithmetic is not interpreted by the model);
        // variable number nvars does not exist
        return if r.chance(3, 5) {
            if r.chance(1, 6) { E::Var(c.nvars) } else { E::Var(0) }
        } else if c.text_only {
            E::Lit(V::Int(*r.pick(&[0i64, 1, 2, 3, 5, i64::MAX, 4611686018427387904, 3037000500])))
        } else {
            E::Lit(if r.chance(4, 5) { V::Int(gen_int(r)) } else { gen_nofloat(r) })
        };
    }
    if r.chance(1, 6) {
        return E::Un(UOp::Neg, Box::new(gen_arith(r, c, d - 1)));
    }
    let op = *r.pick(&[Op::Add, Op::Sub, Op::Mul, Op::Div, Op::Mod, Op::Add, Op::Sub]);
    E::Bin(op, Box::new(gen_arith(r, c, d - 1)), Box::new(gen_arith(r, c, d - 1)))
}

fn gen_operand(r: &mut Rng, c: GenCtx, d: u32) -> E {
    match r.below(6) {
        0 | 1 => E::Var(r.below(c.nvars as u64 + 1) as usize),
        2 => E::Lit(gen_lit(r, c)),
        _ => gen_arith(r, c, d),
    }
}

/// a predicate: boolean-typed at the top unless `any` is requested
fn gen_pred(r: &mut Rng, c: GenCtx, d: u32) -> E {
    let k = if d == 0 { r.below(6) } else { r.below(12) };
    match k {
        0 | 1 | 2 => {
            let op = *r.pick(&[Op::Eq, Op::Ne, Op::Lt, Op::Le, Op::Gt, Op::Ge]);
            E::Bin(op, Box::new(gen_operand(r, c, 1)), Box::new(gen_operand(r, c, 1)))
        }
        3 => {
            let op = *r.pick(&[Op::StartsWith, Op::EndsWith, Op::Contains]);
            let a = if r.chance(3, 4) { E::Var(r.below(c.nvars as u64) as usize) } else { E::Lit(gen_lit(r, c)) };
            let b = if r.chance(3, 4) {
                E::Lit(V::Str((*r.pick(&["", "a", "ab", "b", "c", "bc"])).to_string()))
            } else {
                gen_operand(r, c, 0)
            };
            E::Bin(op, Box::new(a), Box::new(b))
        }
        4 => {
            let n = r.below(4) as usize;
            let items: Vec<E> = (0..n)
                .map(|_| if r.chance(1, 6) { E::Var(r.below(c.nvars as u64 + 1) as usize) } else { E::Lit(gen_lit(r, c)) })
                .collect();
            let rhs = if r.chance(1, 8) { gen_operand(r, c, 0) } else { E::List(items) };
            E::Bin(Op::In, Box::new(gen_operand(r, c, 1)), Box::new(rhs))
        }
        5 => {
            let op = *r.pick(&[UOp::IsNull, UOp::IsNotNull]);
            E::Un(op, Box::new(if r.chance(1, 2) { gen_operand(r, c, 1) } else { gen_pred(r, c, 0) }))
        }
        6 | 7 | 8 => {
            let op = *r.pick(&[Op::And, Op::Or, Op::And, Op::Or, Op::Xor]);
            let a = if r.chance(1, 8) { gen_operand(r, c, 0) } else { gen_pred(r, c, d - 1) };
            let b = if r.chance(1, 8) { gen_operand(r, c, 0) } else { gen_pred(r, c, d - 1) };
            E::Bin(op, Box::new(a), Box::new(b))
        }
        9 | 10 => E::Un(UOp::Not, Box::new(if r.chance(1, 8) { gen_operand(r, c, 0) } else { gen_pred(r, c, d - 1) })),
        _ => E::Lit(match r.below(3) { 0 => V::Bool(true), 1 => V::Bool(false), _ => V::Null }),
    }
}

// ------------------------------------------------------------------------------------ chunks

#[derive(Clone)]
struct Chunk {
    rows: Vec<Vec<V>>,
    sel: Option<Vec<usize>>,
}
impl Chunk {
    fn logical(&self) -> Vec<Vec<V>> {
        match &self.sel {
            None => self.rows.clone(),
            Some(s) => s.iter().map(|&i| self.rows[i].clone()).collect(),
        }
    }
    fn coq(&self) -> String {
        format!(
            "(mkChunk {} {})",
            coq_rows(&self.rows),
            match &self.sel {
                None => "None".to_string(),
                Some(s) => format!("(Some (zl {}))", coq::list(s.iter().map(|i| format!("{}", i)))),
            }
        )
    }
    fn build(&self, ncols: usize, typed_int: bool) -> DataChunk {
        let mut cols: Vec<ValueVector> = (0..ncols)
            .map(|_| ValueVector::with_type(if typed_int { LogicalType::Int64 } else { LogicalType::Any }))
            .collect();
        for r in &self.rows {
            for (c, v) in r.iter().enumerate() {
                cols[c].push_value(v.to_value());
            }
        }
        let mut ch = DataChunk::new(cols);
        ch.set_count(self.rows.len());
        if let Some(s) = &self.sel {
            let mut sv = SelectionVector::new_empty();
            for &i in s {
                sv.push(i);
            }
            ch.set_selection(sv);
        }
        ch
    }
}
fn coq_chunks(cs: &[Chunk]) -> String {
    coq::list(cs.iter().map(|c| c.coq()))
}
fn show_chunks(cs: &[Chunk]) -> String {
    cs.iter()
        .map(|c| format!("{{{}{}}}", show_rows(&c.rows), match &c.sel { None => "".into(), Some(s) => format!(" sel={:?}", s) }))
        .collect::<Vec<_>>()
        .join(" ")
}

struct Mock {
    chunks: Vec<Option<DataChunk>>,
    pos: usize,
}
impl Mock {
    fn new(chunks: Vec<DataChunk>) -> Box<Mock> {
        Box::new(Mock { chunks: chunks.into_iter().map(Some).collect(), pos: 0 })
    }
}
impl Operator for Mock {
    fn next(&mut self) -> OperatorResult {
        if self.pos < self.chunks.len() {
            let c = self.chunks[self.pos].take();
            self.pos += 1;
            Ok(c)
        } else {
            Ok(None)
        }
    }
    fn reset(&mut self) {
        self.pos = 0;
    }
    fn name(&self) -> &'static str {
        "Mock"
    }
}

/// `Executor::execute`: next() until None, logical rows through selected_indices / get_value
fn drain(op: &mut dyn Operator) -> (Vec<Vec<V>>, Vec<usize>) {
    let mut rows = Vec::new();
    let mut counts = Vec::new();
    let mut guard = 0;
    while let Some(ch) = op.next().expect("operator error") {
        counts.push(ch.row_count());
        for ri in ch.selected_indices() {
            let mut row = Vec::new();
            for ci in 0..ch.column_count() {
                let v = ch.column(ci).and_then(|c| c.get_value(ri)).unwrap_or(Value::Null);
                row.push(V::from_value(&v));
            }
            rows.push(row);
        }
        guard += 1;
        assert!(guard < 1_000_000, "operator does not terminate");
    }
    (rows, counts)
}

fn gen_sel(r: &mut Rng, n: usize) -> Option<Vec<usize>> {
    match r.below(5) {
        0 | 1 => None,
        2 => Some((0..n).filter(|_| r.chance(1, 2)).collect()),
        3 => Some((0..n).filter(|_| r.chance(4, 5)).collect()),
        _ => {
            if r.chance(1, 3) { Some(vec![]) } else { Some((0..n).collect()) }
        }
    }
}

// ------------------------------------------------------------------------------------ operator level

fn tag(ts: &[&str]) -> Vec<String> {
    ts.iter().map(|s| s.to_string()).collect()
}

/// eval: the real `ExpressionPredicate::eval_at` / `evaluate` on every row, columns or node properties
fn case_eval(r: &mut Rng, out: &mut Out, forced: Option<(E, Vec<Vec<Option<V>>>)>) {
    let nvars = 3usize;
    let ctx = GenCtx { nvars, text_only: false };
    let (e, envs) = match forced {
        Some(x) => x,
        None => {
            let e = if r.chance(1, 6) { gen_operand(r, ctx, 2) } else { gen_pred(r, ctx, 2) };
            let nrows = 2 + r.below(4) as usize;
            let all_present = r.chance(1, 3);
            let envs: Vec<Vec<Option<V>>> = (0..nrows)
                .map(|_| (0..nvars).map(|i| if !all_present && r.chance(1, 6) { None } else if i == 0 { Some(gen_nofloat(r)) } else { Some(gen_value(r)) }).collect())
                .collect();
            (e, envs)
        }
    };
    let has_missing = envs.iter().any(|en| en.iter().any(|o| o.is_none()));
    // mode Col cannot express a per-row missing value
    let mode = if has_missing || r.chance(1, 2) { Mode::Prop } else { Mode::Col };
    let store = Arc::new(LpgStore::new());
    let mut vc = HashMap::new();
    let chunk = match mode {
        Mode::Col => {
            for i in 0..nvars {
                vc.insert(format!("c{}", i), i);
            }
            let rows: Vec<Vec<V>> = envs.iter().map(|en| en.iter().map(|o| o.clone().unwrap()).collect()).collect();
            Chunk { rows, sel: None }.build(nvars, false)
        }
        Mode::Prop => {
            vc.insert("n".to_string(), 0usize);
            let mut col = ValueVector::with_type(if r.chance(1, 2) { LogicalType::Node } else { LogicalType::Any });
            for en in &envs {
                let id = store.create_node(&["L"]);
                for (i, o) in en.iter().enumerate() {
                    if let Some(v) = o {
                        store.set_node_property(id, &format!("p{}", i), v.to_value());
                    }
                }
                col.push_value(Value::Int64(id.0 as i64));
            }
            let mut ch = DataChunk::new(vec![col]);
            ch.set_count(envs.len());
            ch
        }
    };
    let pred = ExpressionPredicate::new(e.filter(mode), vc, Arc::clone(&store));
    let mut obs = Vec::new();
    let mut pass = Vec::new();
    for i in 0..envs.len() {
        obs.push(pred.eval_at(&chunk, i).map(|v| V::from_value(&v)));
        pass.push(pred.evaluate(&chunk, i));
    }
    let unknown = obs.iter().any(|o| matches!(o, None | Some(V::Null)));
    let mut tags = tag(&["op:eval", if mode == Mode::Col { "eval:columns" } else { "eval:properties" }]);
    if unknown { tags.push("pred:unknown-on-some-row".into()); }
    if e.has(&|x| matches!(x, E::Bin(Op::Add | Op::Sub | Op::Mul | Op::Div | Op::Mod, _, _))) { tags.push("pred:arithmetic".into()); }
    if e.has(&|x| matches!(x, E::Bin(Op::In, _, _))) { tags.push("pred:in".into()); }
    if e.has(&|x| matches!(x, E::Bin(Op::StartsWith | Op::EndsWith | Op::Contains, _, _))) { tags.push("pred:string".into()); }
    if e.has(&|x| matches!(x, E::Bin(Op::And | Op::Or | Op::Xor, _, _) | E::Un(UOp::Not, _))) { tags.push("pred:connective".into()); }
    let envs_coq = coq::list(envs.iter().map(|en| coq_env(en)));
    out.emit(&Case {
        kind: "eval".into(),
        input: format!("{} on {}", e.show(), envs.iter().map(|en| format!("[{}]", en.iter().map(|o| o.as_ref().map_or("-".into(), |v| v.show())).collect::<Vec<_>>().join(","))).collect::<Vec<_>>().join(" ")),
        coq: Some(format!("chk_eval {} {} {} {}", e.coq(), envs_coq, coq::list(obs.iter().map(coq_ov)), coq::list(pass.iter().map(|b| coq::b(*b))))),
        show: Some(format!("show_eval {} {}", e.coq(), envs_coq)),
        oracle: Oracle::Na,
        nontrivial: unknown,
        imp: format!("{:?} pass={:?}", obs.iter().map(|o| o.as_ref().map_or("None".into(), |v| v.show())).collect::<Vec<_>>(), pass),
        tags,
        ..Default::default()
    });
}

fn gen_small_chunks(r: &mut Rng, ncols: usize, vals: &dyn Fn(&mut Rng, usize) -> V) -> Vec<Chunk> {
    let nch = r.below(5) as usize;
    (0..nch)
        .map(|_| {
            let n = match r.below(6) { 0 => 0, 1 => 1, _ => r.below(7) as usize };
            let rows: Vec<Vec<V>> = (0..n).map(|_| (0..ncols).map(|c| vals(r, c)).collect()).collect();
            let sel = gen_sel(r, n);
            Chunk { rows, sel }
        })
        .collect()
}

fn case_filter(r: &mut Rng, out: &mut Out, forced: Option<(E, Vec<Chunk>)>) {
    let ncols = 2usize;
    let (p, cs) = match forced {
        Some(x) => x,
        None => {
            let ctx = GenCtx { nvars: ncols, text_only: false };
            let p = gen_pred(r, ctx, 2);
            let cs = gen_small_chunks(r, ncols, &|r, c| match r.below(8) { 0 => V::Null, 1 => V::Bool(r.chance(1, 2)), 2 => V::Str(gen_str(r)), 3 => if c == 0 { V::Int(gen_int(r)) } else { gen_float(r) }, _ => V::Int(r.range(-2, 6)) });
            (p, cs)
        }
    };
    let store = Arc::new(LpgStore::new());
    let mut vc = HashMap::new();
    for i in 0..ncols {
        vc.insert(format!("c{}", i), i);
    }
    // specification: the logical rows the (real) predicate accepts
    let spec_pred = ExpressionPredicate::new(p.filter(Mode::Col), vc.clone(), Arc::clone(&store));
    let mut expected = Vec::new();
    let mut unknown = false;
    for c in &cs {
        let ch = c.build(ncols, false);
        for ri in ch.selected_indices() {
            if spec_pred.evaluate(&ch, ri) {
                expected.push(c.rows[ri].clone());
            }
            if matches!(spec_pred.eval_at(&ch, ri), None | Some(Value::Null)) {
                unknown = true;
            }
        }
    }
    let pred = ExpressionPredicate::new(p.filter(Mode::Col), vc, store);
    let mut op = FilterOperator::new(Mock::new(cs.iter().map(|c| c.build(ncols, false)).collect()), Box::new(pred));
    let (rows, _) = drain(&mut op);
    let ok = rows == expected;
    let has_sel = cs.iter().any(|c| c.sel.is_some());
    let mut tags = tag(&["op:filter"]);
    if has_sel { tags.push("filter:input-has-selection".into()); }
    if unknown { tags.push("pred:unknown-on-some-row".into()); }
    out.emit(&Case {
        kind: "filter".into(),
        input: format!("{} over {}", p.show(), show_chunks(&cs)),
        coq: Some(format!("chk_filter {} {} {}", p.coq(), coq_chunks(&cs), coq_rows(&rows))),
        show: Some(format!("show_filter {} {}", p.coq(), coq_chunks(&cs))),
        oracle: if ok { Oracle::Ok } else { Oracle::Fail },
        msg: if ok { String::new() } else { format!("Filter returned {} but the rows of the input that satisfy the predicate are {}", show_rows(&rows), show_rows(&expected)) },
        // (C11-K1, the only listed class of Filter failures, is fixed by df57ccb: a failure here is a violation)
        nontrivial: unknown || has_sel,
        imp: show_rows(&rows),
        tags,
        ..Default::default()
    });
}

/// integer chunks described as (physical count, optional selection); values = global physical index
#[derive(Clone)]
struct Spec {
    n: usize,
    sel: Option<Vec<usize>>,
}
fn coq_specs(ss: &[Spec]) -> String {
    coq::list(ss.iter().map(|s| {
        format!(
            "({}, {})",
            coq::z(s.n as i64),
            match &s.sel {
                None => "None".to_string(),
                Some(v) => format!("(Some {})", coq_runs(&runs(&v.iter().map(|&i| i as i64).collect::<Vec<_>>()))),
            }
        )
    }))
}
fn show_specs(ss: &[Spec]) -> String {
    ss.iter()
        .map(|s| match &s.sel { None => format!("{}", s.n), Some(v) => format!("{}[sel {}]", s.n, v.len()) })
        .collect::<Vec<_>>()
        .join("+")
}
fn build_specs(ss: &[Spec], f: &dyn Fn(i64) -> i64, typed: bool) -> (Vec<DataChunk>, Vec<i64>) {
    let mut base = 0i64;
    let mut chunks = Vec::new();
    let mut logical = Vec::new();
    for s in ss {
        let rows: Vec<Vec<V>> = (0..s.n).map(|i| vec![V::Int(f(base + i as i64))]).collect();
        match &s.sel {
            None => logical.extend((0..s.n).map(|i| f(base + i as i64))),
            Some(v) => logical.extend(v.iter().map(|&i| f(base + i as i64))),
        }
        chunks.push(Chunk { rows, sel: s.sel.clone() }.build(1, typed));
        base += s.n as i64;
    }
    (chunks, logical)
}
fn gen_big_sel(r: &mut Rng, n: usize) -> Option<Vec<usize>> {
    match r.below(6) {
        0 | 1 | 2 => None,
        3 => Some((0..n).filter(|i| i % 2 == 0).collect()),
        4 => {
            let a = r.below(n as u64 + 1) as usize;
            Some((a..n).collect())
        }
        _ => {
            // a few runs
            let mut v = Vec::new();
            let mut i = 0;
            while i < n {
                let l = 1 + r.below(700) as usize;
                if r.chance(2, 3) {
                    v.extend(i..(i + l).min(n));
                }
                i += l;
            }
            Some(v)
        }
    }
}
const SIZES: [usize; 12] = [0, 1, 2, 3, 2047, 2048, 2049, 4095, 4096, 4097, 1000, 5000];
fn gen_specs(r: &mut Rng, big: bool) -> Vec<Spec> {
    let mut ss = Vec::new();
    if big {
        match r.below(4) {
            0 => {
                // scan-like: full batches of 2048 and a tail
                let total = *r.pick(&[2047usize, 2048, 2049, 4095, 4096, 4097, 6144]);
                let mut left = total;
                while left > 0 {
                    let n = left.min(2048);
                    ss.push(Spec { n, sel: None });
                    left -= n;
                }
            }
            1 => {
                // batches with selection vectors (the output of a filter)
                for _ in 0..(1 + r.below(3)) {
                    let n = *r.pick(&[2048usize, 2047, 2049, 1, 100]);
                    ss.push(Spec { n, sel: gen_big_sel(r, n) });
                }
            }
            _ => {
                for _ in 0..(1 + r.below(4)) {
                    let n = *r.pick(&SIZES);
                    ss.push(Spec { n, sel: if r.chance(1, 2) { gen_big_sel(r, n) } else { None } });
                }
            }
        }
    } else {
        for _ in 0..r.below(6) {
            let n = match r.below(5) { 0 => 0, 1 => 1, _ => r.below(9) as usize };
            ss.push(Spec { n, sel: gen_sel(r, n) });
        }
    }
    ss
}
fn gen_bound(r: &mut Rng, total: usize, big: bool) -> usize {
    if big {
        match r.below(5) {
            0 | 1 => *r.pick(&[0usize, 1, 2047, 2048, 2049, 4095, 4096, 4097]),
            2 => total + r.below(3) as usize,
            3 => total.saturating_sub(r.below(3) as usize),
            _ => r.below(total as u64 + 2) as usize,
        }
    } else {
        match r.below(6) {
            0 => 0,
            1 => total,
            2 => total + 1,
            3 => 1_000_000,
            _ => r.below(total as u64 + 2) as usize,
        }
    }
}

fn case_window(r: &mut Rng, out: &mut Out, big: bool, forced: Option<(u64, usize, usize, Vec<Spec>)>) {
    let (kind, s, n, ss) = match forced {
        Some(x) => x,
        None => {
            let ss = gen_specs(r, big);
            let sizes: Vec<usize> = ss.iter().map(|s| s.sel.as_ref().map_or(s.n, |v| v.len())).collect();
            let total: usize = sizes.iter().sum();
            // a bound strictly inside a chunk (preferably one that carries a selection vector)
            let inside = |r: &mut Rng| -> Option<usize> {
                let cand: Vec<usize> = (0..ss.len()).filter(|&j| sizes[j] >= 2 && (ss[j].sel.is_some() || r.chance(1, 3))).collect();
                if cand.is_empty() { return None; }
                let j = *r.pick(&cand);
                let start: usize = sizes[..j].iter().sum();
                Some(start + 1 + r.below(sizes[j] as u64 - 1) as usize)
            };
            let mut s = gen_bound(r, total, big);
            let mut n = gen_bound(r, total, big);
            if r.chance(1, 3) { if let Some(x) = inside(r) { s = x; } }
            if r.chance(1, 4) { if let Some(x) = inside(r) { n = x.saturating_sub(if r.chance(1, 2) { s.min(x) } else { 0 }).max(1); } }
            (r.below(4), s, n, ss)
        }
    };
    let typed = r.chance(1, 2);
    let (chunks, logical) = build_specs(&ss, &|i| i, typed);
    let schema = vec![LogicalType::Any];
    let child = Mock::new(chunks);
    let (kname, kcoq, mut op): (&str, &str, Box<dyn Operator>) = match kind {
        0 => ("limit", "WLimit", Box::new(LimitOperator::new(child, n, schema))),
        1 => ("skip", "WSkip", Box::new(SkipOperator::new(child, s, schema))),
        2 => ("skip;limit", "WSkipLimit", Box::new(LimitOperator::new(Box::new(SkipOperator::new(child, s, schema.clone())), n, schema))),
        _ => ("limitskip", "WFused", Box::new(LimitSkipOperator::new(child, s, n, schema))),
    };
    let (rows, counts) = drain(op.as_mut());
    let got: Vec<i64> = rows.iter().map(|r| match &r[0] { V::Int(i) => *i, _ => -1 }).collect();
    let (es, en) = match kind { 0 => (0, n), 1 => (s, usize::MAX), _ => (s, n) };
    let expected: Vec<i64> = logical.iter().skip(es).take(en).cloned().collect();
    let ok = got == expected;
    // crossing a chunk boundary: the window starts or ends strictly inside the input and there are >= 2 non-empty chunks
    let total = logical.len();
    let crossing = ss.iter().filter(|s| s.sel.as_ref().map_or(s.n, |v| v.len()) > 0).count() >= 2 && ((es > 0 && es < total) || (en < total));
    let mut tags = tag(&["op:window", &format!("window:{}", kname)]);
    if big { tags.push("window:big".into()); }
    if crossing { tags.push("window:crosses-chunk-boundary".into()); }
    if ss.iter().any(|s| s.sel.is_some()) { tags.push("window:input-has-selection".into()); }
    for b in [2047usize, 2048, 2049, 4095, 4096, 4097] {
        if (kind != 0 && s == b) || (kind != 1 && n == b) { tags.push(format!("window:bound-{}", b)); }
    }
    out.emit(&Case {
        kind: "window".into(),
        input: format!("{} s={} n={} chunks={}", kname, s, n, show_specs(&ss)),
        coq: Some(format!(
            "chk_window {} {} {} {} {} {}",
            kcoq, coq::z(s as i64), coq::z(n as i64), coq_specs(&ss), coq_runs(&runs(&got)),
            coq::list(counts.iter().map(|c| coq::z(*c as i64)))
        )),
        oracle: if ok { Oracle::Ok } else { Oracle::Fail },
        msg: if ok { String::new() } else { format!("returned {} expected rows {}..{} = {}", show_ints(&got), es, en, show_ints(&expected)) },
        nontrivial: crossing,
        imp: format!("{} chunks={:?}", show_ints(&got), counts),
        tags,
        ..Default::default()
    });
}

fn dedup_struct(rows: &[Vec<V>]) -> Vec<Vec<V>> {
    let mut out: Vec<Vec<V>> = Vec::new();
    for r in rows {
        if !out.contains(r) {
            out.push(r.clone());
        }
    }
    out
}
/// values for DISTINCT / GROUP BY inputs: collisions of the row key are reachable
fn gen_key_value(r: &mut Rng) -> V {
    if r.chance(2, 5) {
        return V::Int(r.range(0, 2));
    }
    match r.below(12) {
        0 => V::Null,
        1 => V::Bool(r.chance(1, 2)),
        2 | 3 | 4 => V::Int(r.range(0, 3)),
        5 => V::Int(*r.pick(&[0i64, 4607182418800017408, 4609434218613702656, i64::MIN, -9223372036854775808])),
        6 => f(*r.pick(&[0.0, 1.0, 1.5, -0.0])),
        7 => V::Str((*r.pick(&["a", "b", "", "List([Int64(1)])", "List([])", "Null"])).to_string()),
        8 => V::List(vec![V::Int(1)]),
        9 => V::List(vec![]),
        10 => gen_list(r, false),
        _ => V::Int(r.range(0, 2)),
    }
}

fn case_distinct(r: &mut Rng, out: &mut Out, forced: Option<Vec<Chunk>>) {
    let ncols = 1 + r.below(2) as usize;
    let cs = match forced {
        Some(c) => c,
        None => gen_small_chunks(r, ncols, &|r, _| gen_key_value(r)),
    };
    let ncols = cs.iter().flat_map(|c| c.rows.first()).map(|r| r.len()).next().unwrap_or(ncols);
    let mut op = DistinctOperator::new(Mock::new(cs.iter().map(|c| c.build(ncols, false)).collect()), vec![LogicalType::Any; ncols]);
    let (rows, _) = drain(&mut op);
    let logical: Vec<Vec<V>> = cs.iter().flat_map(|c| c.logical()).collect();
    let expected = dedup_struct(&logical);
    let ok = rows == expected;
    let dups = expected.len() < logical.len();
    let mut tags = tag(&["op:distinct"]);
    if dups { tags.push("distinct:has-duplicates".into()); }
    if cs.len() >= 2 { tags.push("distinct:several-chunks".into()); }
    let all: String = coq_rows(&logical);
    out.emit(&Case {
        kind: "distinct".into(),
        input: show_chunks(&cs),
        coq: Some(format!("chk_distinct {} {}", coq_chunks(&cs), coq_rows(&rows))),
        show: Some(format!("show_distinct {}", coq_chunks(&cs))),
        oracle: if ok { Oracle::Ok } else { Oracle::Fail },
        msg: if ok { String::new() } else { format!("Distinct returned {} but the distinct rows are {}", show_rows(&rows), show_rows(&expected)) },
        kcoq: if ok { None } else { Some(format!("k_key_collision {}", all)) },
        kid: if ok { None } else { Some("C11-K4".into()) },
        nontrivial: dups && cs.len() >= 2,
        imp: show_rows(&rows),
        tags,
        ..Default::default()
    });
}

/// big inputs: value of physical row i = i mod m
fn case_distinct_mod(r: &mut Rng, out: &mut Out, forced: Option<(i64, Vec<Spec>)>) {
    let (m, ss) = match forced {
        Some(x) => x,
        None => {
            let m = *r.pick(&[1i64, 3, 2047, 2048, 2049, 5000, 100000]);
            let ss = if r.chance(1, 2) {
                // engine-like: no chunk above 2048 rows
                (0..(1 + r.below(3))).map(|_| { let n = *r.pick(&[2048usize, 2047, 1, 1500]); Spec { n, sel: gen_big_sel(r, n) } }).collect()
            } else {
                gen_specs(r, true)
            };
            (m, ss)
        }
    };
    let (chunks, logical) = build_specs(&ss, &|i| i % m, r.chance(1, 2));
    let mut op = DistinctOperator::new(Mock::new(chunks), vec![LogicalType::Any]);
    let (rows, _) = drain(&mut op);
    let got: Vec<i64> = rows.iter().map(|r| match &r[0] { V::Int(i) => *i, _ => -1 }).collect();
    let mut seen = std::collections::HashSet::new();
    let expected: Vec<i64> = logical.iter().filter(|x| seen.insert(**x)).cloned().collect();
    let ok = got == expected;
    let over = ss.iter().any(|s| s.sel.as_ref().map_or(s.n, |v| v.len()) > 2048);
    let mut tags = tag(&["op:distinct", "distinct:big"]);
    if over { tags.push("distinct:input-chunk-above-2048".into()); }
    out.emit(&Case {
        kind: "distinct_mod".into(),
        input: format!("i mod {} chunks={}", m, show_specs(&ss)),
        coq: Some(format!("chk_distinct_mod {} {} {}", coq::z(m), coq_specs(&ss), coq::list(got.iter().map(|x| coq::z(*x))))),
        oracle: if ok { Oracle::Ok } else { Oracle::Fail },
        msg: if ok { String::new() } else { format!("Distinct returned {} rows, the input has {} distinct rows", got.len(), expected.len()) },
        kcoq: if ok { None } else { Some(format!("k_distinct_overflow_mod {} {}", coq::z(m), coq_specs(&ss))) },
        kid: if ok { None } else { Some("C11-K5".into()) },
        nontrivial: ss.len() >= 2 || over,
        imp: show_ints(&got),
        tags,
        ..Default::default()
    });
}

fn case_union(r: &mut Rng, out: &mut Out) {
    let nin = r.below(4) as usize;
    let inputs: Vec<Vec<Chunk>> = (0..nin).map(|_| gen_small_chunks(r, 1, &|r, _| V::Int(r.range(0, 9)))).collect();
    let ops: Vec<Box<dyn Operator>> = inputs.iter().map(|cs| Mock::new(cs.iter().map(|c| c.build(1, false)).collect()) as Box<dyn Operator>).collect();
    let mut op = UnionOperator::new(ops, vec![LogicalType::Any]);
    let (rows, _) = drain(&mut op);
    let expected: Vec<Vec<V>> = inputs.iter().flat_map(|cs| cs.iter().flat_map(|c| c.logical())).collect();
    let ok = rows == expected;
    out.emit(&Case {
        kind: "union".into(),
        input: inputs.iter().map(|cs| format!("<{}>", show_chunks(cs))).collect::<Vec<_>>().join(" U "),
        coq: Some(format!("chk_union {} {}", coq::list(inputs.iter().map(|cs| coq_chunks(cs))), coq_rows(&rows))),
        oracle: if ok { Oracle::Ok } else { Oracle::Fail },
        msg: if ok { String::new() } else { "Union is not the concatenation of its inputs".into() },
        nontrivial: inputs.iter().filter(|cs| cs.iter().any(|c| !c.logical().is_empty())).count() >= 2,
        imp: show_rows(&rows),
        tags: tag(&["op:union"]),
        ..Default::default()
    });
}

fn case_agg(r: &mut Rng, out: &mut Out) {
    let ncols = 2usize;
    let cs = gen_small_chunks(r, ncols, &|r, _| gen_key_value(r));
    let logical: Vec<Vec<V>> = cs.iter().flat_map(|c| c.logical()).collect();
    let mk = |cs: &Vec<Chunk>| Mock::new(cs.iter().map(|c| c.build(ncols, false)).collect());
    if r.chance(1, 3) {
        // global: count-star and count(col 1)
        let mut op = SimpleAggregateOperator::new(mk(&cs), vec![AggregateExpr::count_star(), AggregateExpr::count(1)], vec![LogicalType::Int64, LogicalType::Int64]);
        let (rows, _) = drain(&mut op);
        let nn = logical.iter().filter(|r| r[1] != V::Null).count() as i64;
        let expected = vec![vec![V::Int(logical.len() as i64), V::Int(nn)]];
        let ok = rows == expected;
        out.emit(&Case {
            kind: "agg_simple".into(),
            input: show_chunks(&cs),
            coq: Some(format!("chk_simple_agg [AggCountStar; AggCount 1%nat] {} {}", coq_chunks(&cs), coq_rows(&rows))),
            oracle: if ok { Oracle::Ok } else { Oracle::Fail },
            msg: if ok { String::new() } else { format!("count = {} but the input has {} rows ({} non-null)", show_rows(&rows), logical.len(), nn) },
            nontrivial: cs.len() >= 2,
            imp: show_rows(&rows),
            tags: tag(&["op:count"]),
            ..Default::default()
        });
    } else {
        // GROUP BY column 0: count-star, count(col 1)
        let mut op = HashAggregateOperator::new(mk(&cs), vec![0], vec![AggregateExpr::count_star(), AggregateExpr::count(1)], vec![LogicalType::Any, LogicalType::Int64, LogicalType::Int64]);
        let (rows, _) = drain(&mut op);
        let mut expected: Vec<Vec<V>> = Vec::new();
        for row in &logical {
            if let Some(g) = expected.iter_mut().find(|g| g[0] == row[0]) {
                if let V::Int(c) = &mut g[1] { *c += 1; }
                if row[1] != V::Null { if let V::Int(c) = &mut g[2] { *c += 1; } }
            } else {
                expected.push(vec![row[0].clone(), V::Int(1), V::Int(if row[1] != V::Null { 1 } else { 0 })]);
            }
        }
        let ok = rows == expected;
        out.emit(&Case {
            kind: "agg_hash".into(),
            input: show_chunks(&cs),
            coq: Some(format!("chk_hash_agg [0%nat] [AggCountStar; AggCount 1%nat] {} {}", coq_chunks(&cs), coq_rows(&rows))),
            show: Some(format!("show_hash_agg [0%nat] [AggCountStar; AggCount 1%nat] {}", coq_chunks(&cs))),
            oracle: if ok { Oracle::Ok } else { Oracle::Fail },
            msg: if ok { String::new() } else { format!("groups {} expected {}", show_rows(&rows), show_rows(&expected)) },
            kcoq: if ok { None } else { Some(format!("k_group_key [0%nat] {}", coq_rows(&logical))) },
            kid: if ok { None } else { Some("C11-K4".into()) },
            nontrivial: cs.len() >= 2 && expected.len() < logical.len(),
            imp: show_rows(&rows),
            tags: tag(&["op:group-count"]),
            ..Default::default()
        });
    }
}

fn case_agg_big(r: &mut Rng, out: &mut Out) {
    let ss = gen_specs(r, true);
    if r.chance(1, 2) {
        let (chunks, logical) = build_specs(&ss, &|i| i, true);
        let mut op = SimpleAggregateOperator::new(Mock::new(chunks), vec![AggregateExpr::count_star()], vec![LogicalType::Int64]);
        let (rows, _) = drain(&mut op);
        let ok = rows == vec![vec![V::Int(logical.len() as i64)]];
        out.emit(&Case {
            kind: "agg_simple_big".into(),
            input: format!("count-star chunks={}", show_specs(&ss)),
            coq: Some(format!("chk_simple_agg_int [AggCountStar] {} {}", coq_specs(&ss), coq_rows(&rows))),
            oracle: if ok { Oracle::Ok } else { Oracle::Fail },
            msg: if ok { String::new() } else { format!("count = {} but the input has {} rows", show_rows(&rows), logical.len()) },
            nontrivial: ss.len() >= 2,
            imp: show_rows(&rows),
            tags: tag(&["op:count", "count:big"]),
            ..Default::default()
        });
    } else {
        let m = *r.pick(&[3i64, 2048, 2049, 5000]);
        let (chunks, logical) = build_specs(&ss, &|i| i % m, false);
        let mut op = HashAggregateOperator::new(Mock::new(chunks), vec![0], vec![AggregateExpr::count_star()], vec![LogicalType::Any, LogicalType::Int64]);
        let (rows, _) = drain(&mut op);
        let mut order: Vec<i64> = Vec::new();
        let mut cnt: HashMap<i64, i64> = HashMap::new();
        for x in &logical {
            if !cnt.contains_key(x) { order.push(*x); }
            *cnt.entry(*x).or_insert(0) += 1;
        }
        let expected: Vec<Vec<V>> = order.iter().map(|k| vec![V::Int(*k), V::Int(cnt[k])]).collect();
        let ok = rows == expected;
        out.emit(&Case {
            kind: "agg_hash_big".into(),
            input: format!("group by i mod {} count-star chunks={}", m, show_specs(&ss)),
            coq: Some(format!("chk_hash_agg_mod {} {} {}", coq::z(m), coq_specs(&ss), coq_rows(&rows))),
            oracle: if ok { Oracle::Ok } else { Oracle::Fail },
            msg: if ok { String::new() } else { format!("{} groups, expected {}", rows.len(), expected.len()) },
            nontrivial: true,
            imp: format!("{} groups", rows.len()),
            tags: tag(&["op:group-count", "count:big"]),
            ..Default::default()
        });
    }
}

// ------------------------------------------------------------------------------------ aggregates beyond COUNT, Sort

#[derive(Clone, Copy, Debug, PartialEq)]
enum AF {
    CountStar, Count, Sum, Avg, Min, Max, First, Last, Collect,
}
#[derive(Clone, Copy, Debug, PartialEq)]
enum LT {
    Any, Int, Float,
}
impl LT {
    fn coq(&self) -> &'static str {
        match self { LT::Any => "TAny", LT::Int => "TInt", LT::Float => "TFloat" }
    }
    fn ty(&self) -> LogicalType {
        match self { LT::Any => LogicalType::Any, LT::Int => LogicalType::Int64, LT::Float => LogicalType::Float64 }
    }
}
impl AF {
    fn coq(&self, c: usize) -> String {
        match self {
            AF::CountStar => "FCountStar".into(),
            AF::Count => format!("(FCount {})", coq::nat(c)),
            AF::Sum => format!("(FSum {})", coq::nat(c)),
            AF::Avg => format!("(FAvg {})", coq::nat(c)),
            AF::Min => format!("(FMin {})", coq::nat(c)),
            AF::Max => format!("(FMax {})", coq::nat(c)),
            AF::First => format!("(FFirst {})", coq::nat(c)),
            AF::Last => format!("(FLast {})", coq::nat(c)),
            AF::Collect => format!("(FCollect {})", coq::nat(c)),
        }
    }
    fn expr(&self, c: usize) -> AggregateExpr {
        match self {
            AF::CountStar => AggregateExpr::count_star(),
            AF::Count => AggregateExpr::count(c),
            AF::Sum => AggregateExpr::sum(c),
            AF::Avg => AggregateExpr::avg(c),
            AF::Min => AggregateExpr::min(c),
            AF::Max => AggregateExpr::max(c),
            AF::First => AggregateExpr::first(c),
            AF::Last => AggregateExpr::last(c),
            AF::Collect => AggregateExpr::collect(c),
        }
    }
    /// the type `Planner::plan_aggregate` gives the result vector
    fn planner_type(&self) -> LT {
        match self {
            AF::CountStar | AF::Count | AF::Sum | AF::Min | AF::Max => LT::Int,
            AF::Avg => LT::Float,
            _ => LT::Any,
        }
    }
    /// function name in GQL / Cypher text
    fn text(&self) -> Option<&'static str> {
        match self {
            AF::Count => Some("count"), AF::Sum => Some("sum"), AF::Avg => Some("avg"), AF::Min => Some("min"),
            AF::Max => Some("max"), AF::Collect => Some("collect"), _ => None,
        }
    }
    /// Gremlin step
    fn gremlin(&self) -> Option<&'static str> {
        match self {
            AF::Count => Some("count"), AF::Sum => Some("sum"), AF::Avg => Some("mean"), AF::Min => Some("min"),
            AF::Max => Some("max"), AF::Collect => Some("fold"), _ => None,
        }
    }
}
fn numeric_like(s: &str) -> bool {
    matches!(s.bytes().next(), Some(b'0'..=b'9' | b'+' | b'-' | b'.' | b'i' | b'I' | b'n' | b'N'))
}
const TWO53: i64 = 1 << 53;
/// is the column inside the domain of the model of this aggregate (StreamAgg.v)?  (values = the
/// non-NULL values the function sees, in order)
fn agg_in_domain(f: AF, vals: &[V]) -> bool {
    let strs_num = vals.iter().any(|v| matches!(v, V::Str(s) if numeric_like(s)));
    let floats = vals.iter().any(|v| matches!(v, V::Float(_)));
    match f {
        AF::Sum => !strs_num && !floats,
        AF::Avg => {
            if strs_num || floats { return false; }
            let mut acc: i128 = 0;
            for v in vals {
                if let V::Int(i) = v {
                    acc += *i as i128;
                    if i.unsigned_abs() > TWO53 as u64 || acc.abs() > TWO53 as i128 { return false; }
                }
            }
            true
        }
        // a numeric-looking string next to a number or to another numeric-looking string is compared numerically
        AF::Min | AF::Max => !strs_num,
        _ => true,
    }
}
/// what the aggregate should answer on a column of Int64 (and NULL) values; None = not decided here
fn agg_expected_ints(af: AF, col: &[V], nrows: usize) -> Option<V> {
    let ints: Vec<i64> = col.iter().filter_map(|v| if let V::Int(i) = v { Some(*i) } else { None }).collect();
    let nonnull: Vec<&V> = col.iter().filter(|v| **v != V::Null).collect();
    if af == AF::CountStar { return Some(V::Int(nrows as i64)); }
    if af == AF::Count { return Some(V::Int(nonnull.len() as i64)); }
    if af == AF::Collect { return Some(V::List(nonnull.into_iter().cloned().collect())); }
    if ints.len() != nonnull.len() { return None; }
    match af {
        AF::Sum => {
            let s: i128 = ints.iter().map(|x| *x as i128).sum();
            // partial sums may leave the range although the total does not: only decide when every prefix fits
            let mut acc: i128 = 0;
            for x in &ints { acc += *x as i128; if acc > i64::MAX as i128 || acc < i64::MIN as i128 { return None; } }
            Some(V::Int(s as i64))
        }
        AF::Min => Some(ints.iter().min().map_or(V::Null, |m| V::Int(*m))),
        AF::Max => Some(ints.iter().max().map_or(V::Null, |m| V::Int(*m))),
        AF::First => Some(ints.first().map_or(V::Null, |m| V::Int(*m))),
        AF::Last => Some(ints.last().map_or(V::Null, |m| V::Int(*m))),
        AF::Avg => {
            if ints.is_empty() { return Some(V::Null); }
            let s: i128 = ints.iter().map(|x| *x as i128).sum();
            if s.abs() > TWO53 as i128 { return None; }
            Some(f(s as f64 / ints.len() as f64))
        }
        _ => None,
    }
}
/// does a left-to-right i64 sum of the Int64 values leave the range at some prefix?
fn sum_overflows(col: &[V]) -> bool {
    let mut acc: i128 = 0;
    for v in col {
        if let V::Int(i) = v {
            acc += *i as i128;
            if acc > i64::MAX as i128 || acc < i64::MIN as i128 { return true; }
        }
    }
    false
}
fn coq_orows(o: &Option<Vec<Vec<V>>>) -> String {
    match o { Some(r) => format!("(Some {})", coq_rows(r)), None => "None".into() }
}
fn show_orows(o: &Option<Vec<Vec<V>>>) -> String {
    match o { Some(r) => show_rows(r), None => "PANIC".into() }
}
/// a value for an aggregated column; kind 0: ints (small), 1: ints with extremes, 2: ints + ignorable
/// values, 3: strings, 4: numbers (Int64 and Float64 — only for min/max/first/last/collect/count)
fn gen_agg_value(r: &mut Rng, kind: u64) -> V {
    if r.chance(1, 6) { return V::Null; }
    match kind {
        0 => V::Int(r.range(-5, 9)),
        1 => V::Int(match r.below(4) { 0 => *r.pick(&[i64::MAX, i64::MIN, i64::MAX - 1, 1 << 62, -(1 << 62), 1 << 53, (1 << 53) + 1]), _ => r.range(-3, 3) }),
        2 => match r.below(6) { 0 => V::Bool(r.chance(1, 2)), 1 => V::Str((*r.pick(&["a", "ab", "zz", "B", "", "é"])).to_string()), 2 => V::List(vec![V::Int(1)]), _ => V::Int(r.range(-50, 50)) },
        3 => V::Str((*r.pick(&["a", "ab", "abc", "b", "ba", "B", "", "zz", "é", "aé", "a b"])).to_string()),
        _ => if r.chance(1, 2) { V::Int(r.range(-4, 6)) } else { f(r.range(-9, 13) as f64 / 2.0) },
    }
}
fn gen_group_key(r: &mut Rng) -> V {
    match r.below(8) { 0 => V::Null, 1 => V::Bool(r.chance(1, 2)), 2 => V::Str((*r.pick(&["a", "b", ""])).to_string()), _ => V::Int(r.range(0, 2)) }
}

/// SUM / AVG / MIN / MAX / FIRST / LAST / COLLECT / COUNT through the real Simple/HashAggregate operators
fn case_agg2(r: &mut Rng, out: &mut Out, forced: Option<(Vec<Chunk>, Vec<AF>, bool, bool)>) {
    let (cs, fs, grouped, planner_types) = match forced {
        Some(x) => x,
        None => {
            let kind = r.below(5);
            let cs = gen_small_chunks(r, 2, &|r, c| if c == 0 { gen_group_key(r) } else { gen_agg_value(r, kind) });
            let pool: &[AF] = if kind == 4 { &[AF::Min, AF::Max, AF::First, AF::Last, AF::Collect, AF::Count, AF::CountStar] } else if kind == 1 { &[AF::Sum, AF::Sum, AF::Min, AF::Max, AF::Count, AF::First] } else { &[AF::Sum, AF::Avg, AF::Min, AF::Max, AF::First, AF::Last, AF::Collect, AF::Count, AF::CountStar] };
            let nf = 1 + r.below(3) as usize;
            let fs: Vec<AF> = (0..nf).map(|_| *r.pick(pool)).collect();
            (cs, fs, r.chance(1, 2), r.chance(1, 2))
        }
    };
    let tys: Vec<LT> = fs.iter().map(|f| if planner_types { f.planner_type() } else { LT::Any }).collect();
    let exprs: Vec<AggregateExpr> = fs.iter().map(|f| f.expr(1)).collect();
    let chunks: Vec<DataChunk> = cs.iter().map(|c| c.build(2, false)).collect();
    let logical: Vec<Vec<V>> = cs.iter().flat_map(|c| c.logical()).collect();
    let got: Option<Vec<Vec<V>>> = catch(std::panic::AssertUnwindSafe(|| {
        if grouped {
            let mut schema = vec![LogicalType::Any];
            schema.extend(tys.iter().map(|t| t.ty()));
            let mut op = HashAggregateOperator::new(Mock::new(chunks), vec![0], exprs, schema);
            drain(&mut op).0
        } else {
            let mut op = SimpleAggregateOperator::new(Mock::new(chunks), exprs, tys.iter().map(|t| t.ty()).collect());
            drain(&mut op).0
        }
    })).ok();
    // oracle: per group (structural key), on Int64 columns
    let mut groups: Vec<(V, Vec<Vec<V>>)> = Vec::new();
    if grouped {
        for row in &logical {
            if let Some(g) = groups.iter_mut().find(|g| g.0 == row[0]) { g.1.push(row.clone()); } else { groups.push((row[0].clone(), vec![row.clone()])); }
        }
    } else {
        groups.push((V::Null, logical.clone()));
    }
    let mut decided = true;
    let mut expected: Vec<Vec<V>> = Vec::new();
    for (k, rows) in &groups {
        let col: Vec<V> = rows.iter().map(|r| r[1].clone()).collect();
        let mut e = if grouped { vec![k.clone()] } else { vec![] };
        for fx in &fs {
            match agg_expected_ints(*fx, &col, rows.len()) { Some(v) => e.push(v), None => decided = false }
        }
        expected.push(e);
    }
    let oracle = if !decided { Oracle::Na } else if got.as_ref() == Some(&expected) { Oracle::Ok } else { Oracle::Fail };
    // an overflowing SUM that does not panic has left the model (prepared repair of K10: floating-point sum)
    let overflow = fs.contains(&AF::Sum) && groups.iter().any(|(_, rows)| sum_overflows(&rows.iter().map(|r| r[1].clone()).collect::<Vec<V>>()));
    let in_model = !(overflow && got.is_some());
    let aggs = coq::list(fs.iter().map(|f| f.coq(1)));
    let tysc = coq::list(tys.iter().map(|t| t.coq().to_string()));
    let mut tags = tag(&["op:agg2", if grouped { "agg2:grouped" } else { "agg2:global" }, if planner_types { "agg2:planner-types" } else { "agg2:any-types" }]);
    for fx in &fs { tags.push(format!("agg2:{:?}", fx).to_lowercase()); }
    if got.is_none() { tags.push("agg2:panic".into()); }
    out.emit(&Case {
        kind: "agg2".into(),
        input: format!("{:?} {} over {}", fs, if grouped { "group by c0" } else { "global" }, show_chunks(&cs)),
        coq: if !in_model { None } else { Some(if grouped {
            format!("chk_hash_agg2 [0%nat] {} {} {} {}", aggs, tysc, coq_chunks(&cs), coq_orows(&got))
        } else {
            format!("chk_simple_agg2 {} {} {} {}", aggs, tysc, coq_chunks(&cs), coq_orows(&got))
        }) },
        show: Some(if grouped { format!("show_hash_agg2 [0%nat] {} {} {}", aggs, tysc, coq_chunks(&cs)) } else { format!("show_simple_agg2 {} {} {}", aggs, tysc, coq_chunks(&cs)) }),
        oracle,
        msg: if oracle == Oracle::Fail { format!("returned {} expected {}", show_orows(&got), show_rows(&expected)) } else { String::new() },
        kcoq: if oracle == Oracle::Fail && grouped { Some(format!("k_second_null [0%nat] {} {} {}", aggs, tysc, coq_chunks(&cs))) } else { None },
        kid: if oracle == Oracle::Fail && grouped { Some("C11-K11".into()) } else { None },
        nontrivial: cs.len() >= 2 && logical.len() >= 3,
        imp: show_orows(&got),
        tags,
        ..Default::default()
    });
}

/// big integer inputs: value of physical row i = i mod m - off
fn case_agg2_big(r: &mut Rng, out: &mut Out) {
    let ss = gen_specs(r, true);
    let m = *r.pick(&[7i64, 1000, 4099]);
    let off = *r.pick(&[0i64, 3, 500]);
    let fs = [AF::Sum, AF::Avg, AF::Min, AF::Max, AF::Count, AF::Last];
    let (chunks, logical) = build_specs(&ss, &|i| i % m - off, r.chance(1, 2));
    let tys: Vec<LT> = fs.iter().map(|f| f.planner_type()).collect();
    let got: Option<Vec<Vec<V>>> = catch(std::panic::AssertUnwindSafe(|| {
        let mut op = SimpleAggregateOperator::new(Mock::new(chunks), fs.iter().map(|f| f.expr(0)).collect(), tys.iter().map(|t| t.ty()).collect());
        drain(&mut op).0
    })).ok();
    let col: Vec<V> = logical.iter().map(|x| V::Int(*x)).collect();
    let expected: Vec<V> = fs.iter().map(|fx| agg_expected_ints(*fx, &col, col.len()).unwrap()).collect();
    let ok = got.as_ref() == Some(&vec![expected.clone()]);
    out.emit(&Case {
        kind: "agg2_big".into(),
        input: format!("{:?} over i mod {} - {} chunks={}", fs, m, off, show_specs(&ss)),
        coq: Some(format!("chk_simple_agg2_mod {} {} {} {} {} {}", coq::z(m), coq::z(off), coq::list(fs.iter().map(|f| f.coq(0))), coq::list(tys.iter().map(|t| t.coq().to_string())), coq_specs(&ss), coq_orows(&got))),
        oracle: if ok { Oracle::Ok } else { Oracle::Fail },
        msg: if ok { String::new() } else { format!("returned {} expected {}", show_orows(&got), show_rows(&[expected])) },
        nontrivial: ss.len() >= 2,
        imp: show_orows(&got),
        tags: tag(&["op:agg2", "agg2:big"]),
        ..Default::default()
    });
}

#[derive(Clone, Copy)]
struct SK {
    col: usize,
    desc: bool,
    nulls_first: bool,
}
impl SK {
    fn coq(&self) -> String {
        format!("(mkSKey {} {} {})", coq::nat(self.col), if self.desc { "Desc" } else { "Asc" }, if self.nulls_first { "NullsFirst" } else { "NullsLast" })
    }
    fn key(&self) -> grafeo_core::execution::operators::SortKey {
        use grafeo_core::execution::operators::{NullOrder, SortKey};
        let k = if self.desc { SortKey::descending(self.col) } else { SortKey::ascending(self.col) };
        k.with_null_order(if self.nulls_first { NullOrder::NullsFirst } else { NullOrder::NullsLast })
    }
    fn show(&self) -> String {
        format!("c{}{}{}", self.col, if self.desc { " desc" } else { "" }, if self.nulls_first { " nulls-first" } else { "" })
    }
}
/// independent comparator for one-class columns (Int64 / String / Bool, with NULLs)
fn spec_cmp(keys: &[SK], a: &[V], b: &[V]) -> std::cmp::Ordering {
    use std::cmp::Ordering::*;
    for k in keys {
        let (x, y) = (&a[k.col], &b[k.col]);
        let c = match (x, y) {
            (V::Null, V::Null) => Equal,
            (V::Null, _) => if k.nulls_first { Less } else { Greater },
            (_, V::Null) => if k.nulls_first { Greater } else { Less },
            (V::Int(p), V::Int(q)) => p.cmp(q),
            (V::Str(p), V::Str(q)) => p.as_bytes().cmp(q.as_bytes()),
            (V::Bool(p), V::Bool(q)) => p.cmp(q),
            (V::Float(p), V::Float(q)) => f64::from_bits(*p).partial_cmp(&f64::from_bits(*q)).unwrap_or(Equal),
            (V::Int(p), V::Float(q)) => (*p as f64).partial_cmp(&f64::from_bits(*q)).unwrap_or(Equal),
            (V::Float(p), V::Int(q)) => f64::from_bits(*p).partial_cmp(&(*q as f64)).unwrap_or(Equal),
            _ => Equal,
        };
        let c = if k.desc { c.reverse() } else { c };
        if c != Equal { return c; }
    }
    Equal
}
fn gen_sort_value(r: &mut Rng, class: u64) -> V {
    if r.chance(1, 5) { return V::Null; }
    match class {
        0 => V::Int(r.range(-2, 3)),
        1 => V::Str((*r.pick(&["", "a", "ab", "b", "B", "é", "aé"])).to_string()),
        2 => V::Bool(r.chance(1, 2)),
        3 => V::Int(*r.pick(&[i64::MIN, i64::MAX, 0, -1, 1, 1 << 53, (1 << 53) + 1])),
        _ => if r.chance(1, 2) { V::Int(r.range(-3, 3)) } else { f(r.range(-7, 7) as f64 / 2.0) },
    }
}
fn gen_sort_keys(r: &mut Rng) -> Vec<SK> {
    let mut keys = vec![SK { col: r.below(2) as usize, desc: r.chance(1, 2), nulls_first: r.chance(1, 3) }];
    if r.chance(1, 2) { keys.push(SK { col: 1 - keys[0].col, desc: r.chance(1, 2), nulls_first: r.chance(1, 3) }); }
    if r.chance(1, 6) { keys.push(SK { col: 2, desc: true, nulls_first: false }); }
    keys
}

/// the real SortOperator over a mock child: multi-key, directions, NULL placement, ties (stability)
fn case_sort(r: &mut Rng, out: &mut Out, forced: Option<(Vec<Chunk>, Vec<SK>)>) {
    let (cs, keys) = match forced {
        Some(x) => x,
        None => {
            let (c0, c1) = (r.below(5), r.below(5));
            let mut id = 0i64;
            let mut cs = gen_small_chunks(r, 3, &|r, c| match c { 0 => gen_sort_value(r, c0), 1 => gen_sort_value(r, c1), _ => V::Int(0) });
            for c in cs.iter_mut() { for row in c.rows.iter_mut() { row[2] = V::Int(id); id += 1; } }
            (cs, gen_sort_keys(r))
        }
    };
    let logical: Vec<Vec<V>> = cs.iter().flat_map(|c| c.logical()).collect();
    let mut op = grafeo_core::execution::operators::SortOperator::new(
        Mock::new(cs.iter().map(|c| c.build(3, false)).collect()), keys.iter().map(|k| k.key()).collect(), vec![LogicalType::Any; 3]);
    let (rows, counts) = drain(&mut op);
    let mut expected = logical.clone();
    expected.sort_by(|a, b| spec_cmp(&keys, a, b));
    let ok = rows == expected;
    let ties = expected.windows(2).any(|w| spec_cmp(&keys, &w[0], &w[1]) == std::cmp::Ordering::Equal);
    let kc = coq::list(keys.iter().map(|k| k.coq()));
    let mut tags = tag(&["op:sort", &format!("sort:{}-keys", keys.len())]);
    if ties { tags.push("sort:has-ties".into()); }
    if logical.iter().any(|r| keys.iter().any(|k| r[k.col] == V::Null)) { tags.push("sort:null-keys".into()); }
    if keys.iter().any(|k| k.desc) { tags.push("sort:desc".into()); }
    out.emit(&Case {
        kind: "sort".into(),
        input: format!("[{}] over {}", keys.iter().map(|k| k.show()).collect::<Vec<_>>().join(", "), show_chunks(&cs)),
        // the model is the stable insertion sort; it stands for sort_by only where the comparator is a total preorder
        coq: Some(format!("sort_consistent {} {} && chk_sort {} {} {} {}", kc, coq_chunks(&cs), kc, coq_chunks(&cs), coq_rows(&rows), coq::list(counts.iter().map(|c| coq::z(*c as i64))))),
        show: Some(format!("show_sort {} {}", kc, coq_chunks(&cs))),
        oracle: if ok { Oracle::Ok } else { Oracle::Fail },
        msg: if ok { String::new() } else { format!("returned {} expected {}", show_rows(&rows), show_rows(&expected)) },
        nontrivial: logical.len() >= 3 && (ties || keys.len() >= 2),
        imp: show_rows(&rows),
        tags,
        ..Default::default()
    });
}

/// big inputs: row i = [((a * i) mod m) / g, i]; more than one output batch
fn case_sort_big(r: &mut Rng, out: &mut Out) {
    // at most two chunks (the model sorts by insertion: quadratic)
    let ss: Vec<Spec> = (0..(1 + r.below(2))).map(|_| { let n = *r.pick(&[2048usize, 2049, 2047, 100, 1]); Spec { n, sel: gen_big_sel(r, n) } }).collect();
    let (a, m) = (1237i64, 4100i64);
    let g = *r.pick(&[1i64, 7, 1000]);
    let keys = if r.chance(1, 2) { vec![SK { col: 0, desc: r.chance(1, 2), nulls_first: false }] } else { vec![SK { col: 0, desc: r.chance(1, 2), nulls_first: false }, SK { col: 1, desc: true, nulls_first: false }] };
    let mut base = 0i64;
    let mut chunks = Vec::new();
    let mut logical: Vec<Vec<V>> = Vec::new();
    for s in &ss {
        let rows: Vec<Vec<V>> = (0..s.n).map(|i| { let x = base + i as i64; vec![V::Int(((a * x) % m) / g), V::Int(x)] }).collect();
        let c = Chunk { rows, sel: s.sel.clone() };
        logical.extend(c.logical());
        chunks.push(c.build(2, r.chance(1, 2)));
        base += s.n as i64;
    }
    let mut op = grafeo_core::execution::operators::SortOperator::new(Mock::new(chunks), keys.iter().map(|k| k.key()).collect(), vec![LogicalType::Any; 2]);
    let (rows, counts) = drain(&mut op);
    let mut expected = logical.clone();
    expected.sort_by(|x, y| spec_cmp(&keys, x, y));
    let ok = rows == expected;
    let got: Vec<i64> = rows.iter().map(|r| match &r[1] { V::Int(i) => *i, _ => -1 }).collect();
    out.emit(&Case {
        kind: "sort_big".into(),
        input: format!("[{}] over rows (({}*i mod {})/{}, i) chunks={}", keys.iter().map(|k| k.show()).collect::<Vec<_>>().join(", "), a, m, g, show_specs(&ss)),
        coq: Some(format!("chk_sort_perm {} {} {} {} {} {} {}", coq::list(keys.iter().map(|k| k.coq())), coq::z(a), coq::z(m), coq::z(g), coq_specs(&ss), coq::list(got.iter().map(|x| coq::z(*x))), coq::list(counts.iter().map(|c| coq::z(*c as i64))))),
        oracle: if ok { Oracle::Ok } else { Oracle::Fail },
        msg: if ok { String::new() } else { "the output is not the stable sort of the input".into() },
        nontrivial: logical.len() > 2048,
        imp: format!("{} chunks={:?}", show_ints(&got), counts),
        tags: tag(&["op:sort", "sort:big", if g > 1 { "sort:has-ties" } else { "sort:distinct-keys" }]),
        ..Default::default()
    });
}

// ------------------------------------------------------------------------------------ engine level

use grafeo_engine::query::plan::{LogicalOperator, LogicalPlan, UnionOp};
use grafeo_engine::query::{Executor, Optimizer, Planner, translate_gql};

struct Graph {
    db: GrafeoDB,
    /// node number (= property `id`) -> properties p0..p3
    tab: Vec<Vec<Option<V>>>,
    label: &'static str,
    /// big table: node i has the single property p0 = (a * i) mod m
    perm: Option<(i64, i64)>,
}
impl Graph {
    fn coq_tab(&self) -> String {
        match self.perm {
            Some((a, m)) => format!("(perm_tab {} {})", coq::z(a), coq::z(m)),
            None => coq_tab(&self.tab),
        }
    }
    fn show_tab(&self) -> String {
        match self.perm {
            Some((a, m)) => format!("p0 = ({} * i) mod {} for i < {}", a, m, m),
            None => show_tab(&self.tab),
        }
    }
}
const NPROPS: usize = 4;

fn run_query(db: &GrafeoDB, l: Lang, q: &str) -> Result<Vec<Vec<V>>, String> {
    let qs = q.to_string();
    let r = catch(std::panic::AssertUnwindSafe(|| {
        let s = db.session();
        match l {
            Lang::Gql => s.execute(&qs),
            Lang::Cypher => s.execute_cypher(&qs),
            Lang::Gremlin => s.execute_gremlin(&qs),
            Lang::GraphQl => s.execute_graphql(&qs),
        }
    }));
    match r {
        Err(p) => Err(format!("PANIC {}", p)),
        Ok(Err(e)) => Err(format!("ERR {}", e).replace('\n', " ")),
        Ok(Ok(res)) => Ok(res.rows.iter().map(|row| row.iter().map(V::from_value).collect()).collect()),
    }
}
fn ints_of(rows: &[Vec<V>]) -> Vec<i64> {
    rows.iter().map(|r| match r.first() { Some(V::Int(i)) => *i, _ => i64::MIN }).collect()
}
fn sorted(mut v: Vec<i64>) -> Vec<i64> {
    v.sort();
    v
}
fn coq_ints(xs: &[i64]) -> String {
    if xs.len() > 64 {
        format!("(expand_runs {})", coq_runs(&runs(xs)))
    } else {
        coq::list(xs.iter().map(|x| coq::z(*x)))
    }
}
fn coq_tab(tab: &[Vec<Option<V>>]) -> String {
    coq::list(tab.iter().map(|e| coq_env(e)))
}
fn show_tab(tab: &[Vec<Option<V>>]) -> String {
    tab.iter()
        .map(|e| format!("({})", e.iter().map(|o| o.as_ref().map_or("-".into(), |v| v.show())).collect::<Vec<_>>().join(",")))
        .collect::<Vec<_>>()
        .join("")
}

fn gen_table_value(r: &mut Rng, col: usize) -> Option<V> {
    if r.chance(1, 6) {
        return None;
    }
    Some(match col {
        0 => match r.below(10) {
            0 => V::Null,
            1 => V::Int(*r.pick(&[i64::MAX, i64::MIN, i64::MAX - 1, 4611686018427387904, -4611686018427387904, 3037000500, 9007199254740993])),
            2 => V::Bool(r.chance(1, 2)),
            3 => V::Str((*r.pick(&["a", "ab", "7"])).to_string()),
            _ => V::Int(r.range(-2, 9)),
        },
        1 => match r.below(8) {
            0 => V::Null,
            1 | 2 => f(r.range(-4, 14) as f64 / 2.0),
            3 => f(*r.pick(&[f64::NAN, f64::INFINITY, f64::NEG_INFINITY, -0.0, 0.0, 9007199254740992.0, 1e300])),
            4 => V::Str(gen_str(r)),
            5 => V::List(vec![V::Int(1), V::Int(r.range(1, 3))]),
            _ => V::Int(r.range(0, 7)),
        },
        2 => match r.below(6) {
            0 => V::Null,
            1 => V::Int(r.range(0, 3)),
            _ => V::Str(gen_str(r)),
        },
        _ => match r.below(6) {
            0 => V::Null,
            1 => V::Int(r.range(0, 1)),
            2 => V::Str("true".into()),
            _ => V::Bool(r.chance(1, 2)),
        },
    })
}

fn build_graph(r: &mut Rng, forced: Option<Vec<Vec<Option<V>>>>) -> Graph {
    let db = GrafeoDB::new_in_memory();
    let tab: Vec<Vec<Option<V>>> = match forced {
        Some(t) => t,
        None => {
            let n = match r.below(8) { 0 => 0, 1 => 1, _ => 2 + r.below(13) as usize };
            (0..n).map(|_| (0..NPROPS).map(|c| gen_table_value(r, c)).collect()).collect()
        }
    };
    let n = tab.len();
    // distinct integer keys in a scrambled order (for ORDER BY / windows)
    let mult = *r.pick(&[1usize, 3, 5, 7, 11]);
    for (i, en) in tab.iter().enumerate() {
        // noise nodes of another label share the property names (zone maps cover all nodes)
        if r.chance(1, 4) {
            let m = db.create_node(&["M"]);
            db.set_node_property(m, "p0", V::Int(r.range(-50, 50)).to_value());
            if r.chance(1, 2) { db.set_node_property(m, "p1", gen_float(r).to_value()); }
            db.set_node_property(m, "id", Value::Int64(1000 + i as i64));
        }
        let id = db.create_node(&["L"]);
        db.set_node_property(id, "id", Value::Int64(i as i64));
        let k = if n == 0 { 0 } else { ((i * mult + 3) % n.max(1)) as i64 * 2 - 3 };
        db.set_node_property(id, "k", Value::Int64(if mult_coprime(mult, n) { k } else { i as i64 * 2 - 3 }));
        for (c, o) in en.iter().enumerate() {
            if let Some(v) = o {
                db.set_node_property(id, &format!("p{}", c), v.to_value());
            }
        }
    }
    Graph { db, tab, label: "L", perm: None }
}
fn gcd(a: usize, b: usize) -> usize {
    if b == 0 { a } else { gcd(b, a % b) }
}
fn mult_coprime(m: usize, n: usize) -> bool {
    n > 0 && gcd(m, n) == 1
}

fn has_stored_null(tab: &[Vec<Option<V>>], c: usize) -> bool {
    tab.iter().any(|e| matches!(e.get(c), Some(Some(V::Null))))
}
/// (until 1879631 the generated predicates were kept off the zone-map `<>` disagreement, finding K6; the zone map
/// never prunes `<>` now, so nothing is avoided any more and the old witness in the corpus must pass)
fn avoid_zone_ne(e: E, _tab: &[Vec<Option<V>>]) -> E {
    e
}
fn range_atom(e: &E) -> Option<usize> {
    match e {
        E::Bin(Op::Lt | Op::Le | Op::Gt | Op::Ge, a, b) => match (&**a, &**b) {
            (E::Var(i), E::Lit(_)) | (E::Lit(_), E::Var(i)) => Some(*i),
            _ => None,
        },
        _ => None,
    }
}
fn range_shaped(e: &E) -> bool {
    match e {
        E::Bin(Op::And, a, b) => matches!((range_atom(a), range_atom(b)), (Some(i), Some(j)) if i == j),
        _ => range_atom(e).is_some(),
    }
}
fn zone_ne_shaped(e: &E) -> bool {
    matches!(e, E::Bin(Op::Ne, a, b) if matches!((&**a, &**b), (E::Var(_), E::Lit(_)) | (E::Lit(_), E::Var(_))))
}

fn pred_tags(p: &E, tags: &mut Vec<String>) {
    if p.has(&|x| matches!(x, E::Bin(Op::Add | Op::Sub | Op::Mul | Op::Div | Op::Mod, _, _))) { tags.push("pred:arithmetic".into()); }
    if p.has(&|x| matches!(x, E::Bin(Op::In, _, _))) { tags.push("pred:in".into()); }
    if p.has(&|x| matches!(x, E::Bin(Op::StartsWith | Op::EndsWith | Op::Contains, _, _))) { tags.push("pred:string".into()); }
    if p.has(&|x| matches!(x, E::Bin(Op::And | Op::Or | Op::Xor, _, _) | E::Un(UOp::Not, _))) { tags.push("pred:connective".into()); }
    if p.has(&|x| matches!(x, E::Un(UOp::IsNull | UOp::IsNotNull, _))) { tags.push("pred:is-null".into()); }
    if range_shaped(p) { tags.push("pred:range-path".into()); }
}

/// Q vs Q WHERE p / WHERE NOT p / WHERE (p) IS NULL, and count(n) vs the number of rows
fn case_eng_part(r: &mut Rng, g: &Graph, out: &mut Out, forced: Option<(E, Lang)>) {
    let ctx = GenCtx { nvars: NPROPS, text_only: true };
    let (p, lang) = match forced {
        Some(x) => x,
        None => {
            let mut p;
            loop {
                p = avoid_zone_ne(gen_pred(r, ctx, 2), &g.tab);
                if p.text(Lang::Cypher).is_some() { break; }
            }
            let lang = if p.text(Lang::Gql).is_some() && r.chance(1, 2) { Lang::Gql } else { Lang::Cypher };
            (p, lang)
        }
    };
    let label = g.label;
    let pt = p.text(lang).unwrap();
    let pc = p.text(Lang::Cypher).unwrap();
    let queries = [
        (Lang::Cypher, format!("MATCH (n:{}) RETURN n.id", label)),
        (lang, format!("MATCH (n:{}) WHERE {} RETURN n.id", label, pt)),
        (lang, format!("MATCH (n:{}) WHERE (NOT {}) RETURN n.id", label, pt)),
        (Lang::Cypher, format!("MATCH (n:{}) WHERE ({} IS NULL) RETURN n.id", label, pc)),
        (lang, format!("MATCH (n:{}) WHERE {} RETURN count(n)", label, pt)),
    ];
    let mut res = Vec::new();
    for (l, q) in &queries {
        match run_query(&g.db, *l, q) {
            Ok(rows) => res.push(rows),
            Err(e) => {
                out.emit(&Case {
                    kind: "eng_part".into(),
                    input: format!("{} | {} | table {}", lang.name(), q, g.show_tab()),
                    oracle: if e.starts_with("PANIC") { Oracle::Fail } else { Oracle::Na },
                    msg: e.clone(),
                    imp: e,
                    tags: tag(&["eng:part", "eng:query-rejected"]),
                    ..Default::default()
                });
                return;
            }
        }
    }
    let scan = ints_of(&res[0]);
    let (o1, o2, o3) = (ints_of(&res[1]), ints_of(&res[2]), ints_of(&res[3]));
    let cnt = match res[4].first().and_then(|r| r.first()) { Some(V::Int(c)) => *c, _ => -1 };
    let mut all = o1.clone();
    all.extend(&o2);
    all.extend(&o3);
    let ok = sorted(all) == sorted(scan.clone()) && cnt == o1.len() as i64 && res[4].len() == 1;
    let (kid, kcoq) = if ok {
        (None, None)
    } else if range_shaped(&p) {
        (Some("C11-K8".to_string()), Some(format!("k_range_path {} {} {}", g.coq_tab(), coq_ints(&scan), p.coq())))
    } else if zone_ne_shaped(&p) {
        (Some("C11-K6".to_string()), Some(format!("k_zone_ne {} {}", g.coq_tab(), p.coq())))
    } else {
        (None, None)
    };
    let mut tags = tag(&["eng:part", &format!("lang:{}", lang.name())]);
    pred_tags(&p, &mut tags);
    if !o3.is_empty() { tags.push("pred:unknown-on-some-row".into()); }
    // the zone-map witness is pruned by the planner, which the model of the Filter does not describe
    let corr = if zone_ne_shaped(&p) && !ok {
        None
    } else {
        Some(format!("chk_eng_part {} {} {} {} {} {} {}", g.coq_tab(), coq_ints(&scan), p.coq(), coq_ints(&sorted(o1.clone())), coq_ints(&sorted(o2.clone())), coq_ints(&sorted(o3.clone())), coq::z(cnt)))
    };
    out.emit(&Case {
        kind: "eng_part".into(),
        input: format!("{} WHERE {} | table {}", lang.name(), pt, g.show_tab()),
        coq: corr,
        show: Some(format!("show_eng_part {} {} {}", g.coq_tab(), coq_ints(&scan), p.coq())),
        oracle: if ok { Oracle::Ok } else { Oracle::Fail },
        msg: if ok { String::new() } else { format!("Q={:?} p={:?} NOT p={:?} (p) IS NULL={:?} count={}: the three parts do not split Q / count differs", sorted(scan.clone()), sorted(o1.clone()), sorted(o2.clone()), sorted(o3.clone()), cnt) },
        kcoq,
        kid,
        nontrivial: !o3.is_empty(),
        imp: format!("p={:?} not={:?} null={:?} count={}", sorted(o1), sorted(o2), sorted(o3), cnt),
        tags,
        ..Default::default()
    });
}

fn not_range(r: &mut Rng, ctx: GenCtx, tab: &[Vec<Option<V>>], l: Lang) -> E {
    loop {
        let p = avoid_zone_ne(gen_pred(r, ctx, 1), tab);
        if !range_shaped(&p) && p.text(l).is_some() {
            return p;
        }
    }
}

/// two stacked filters
fn case_eng_stack(r: &mut Rng, g: &Graph, out: &mut Out, forced: Option<(bool, E, E, Lang)>) {
    let ctx = GenCtx { nvars: NPROPS, text_only: true };
    let (pattern_form, p1, p2, lang) = match forced {
        Some(x) => x,
        None => {
            let lang = if r.chance(1, 2) { Lang::Gql } else { Lang::Cypher };
            let pattern_form = r.chance(1, 2);
            let p1 = if pattern_form {
                // a value of the table (printable), or a small literal
                let c = r.below(NPROPS as u64) as usize;
                let cands: Vec<V> = g.tab.iter().filter_map(|e| e[c].clone()).filter(|v| !matches!(v, V::Null | V::List(_)) && v.text().is_some()).collect();
                let v = if cands.is_empty() || r.chance(1, 5) { V::Int(r.range(0, 3)) } else { r.pick(&cands).clone() };
                E::Bin(Op::Eq, Box::new(E::Var(c)), Box::new(E::Lit(v)))
            } else if r.chance(1, 4) {
                // a range predicate below: answered by the range path, no selection vector arises
                E::Bin(*r.pick(&[Op::Gt, Op::Le]), Box::new(E::Var(0)), Box::new(E::Lit(V::Int(r.range(0, 5)))))
            } else {
                not_range(r, ctx, &g.tab, lang)
            };
            (pattern_form, p1, not_range(r, ctx, &g.tab, lang), lang)
        }
    };
    let q = if pattern_form {
        let (c, v) = match &p1 { E::Bin(Op::Eq, a, b) => match (&**a, &**b) { (E::Var(c), E::Lit(v)) => (*c, v.clone()), _ => unreachable!() }, _ => unreachable!() };
        format!("MATCH (n:{} {{p{}: {}}}) WHERE {} RETURN n.id", g.label, c, v.text().unwrap(), p2.text(lang).unwrap())
    } else {
        format!("MATCH (n:{}) WHERE {} WITH n WHERE {} RETURN n.id", g.label, p1.text(lang).unwrap(), p2.text(lang).unwrap())
    };
    let base = run_query(&g.db, Lang::Cypher, &format!("MATCH (n:{}) RETURN n.id", g.label));
    let a = run_query(&g.db, lang, &format!("MATCH (n:{}) WHERE {} RETURN n.id", g.label, p1.text(lang).unwrap()));
    let b = run_query(&g.db, lang, &format!("MATCH (n:{}) WHERE {} RETURN n.id", g.label, p2.text(lang).unwrap()));
    let got = run_query(&g.db, lang, &q);
    let (base, a, b, got) = match (base, a, b, got) {
        (Ok(x), Ok(a), Ok(b), Ok(c)) => (ints_of(&x), ints_of(&a), ints_of(&b), ints_of(&c)),
        (_, _, _, e) => {
            let m = format!("{:?}", e.err());
            out.emit(&Case { kind: "eng_stack".into(), input: format!("{} | {}", lang.name(), q), oracle: if m.contains("PANIC") { Oracle::Fail } else { Oracle::Na }, msg: m.clone(), imp: m, tags: tag(&["eng:stack", "eng:query-rejected"]), ..Default::default() });
            return;
        }
    };
    let expected: Vec<i64> = sorted(a.iter().filter(|x| b.contains(x)).cloned().collect());
    let ok = sorted(got.clone()) == expected;
    let tabc = g.coq_tab();
    out.emit(&Case {
        kind: "eng_stack".into(),
        input: format!("{} | {} | table {}", lang.name(), q, g.show_tab()),
        coq: Some(format!("chk_eng_stacked {} {} {} {} {}", tabc, coq_ints(&base), p1.coq(), p2.coq(), coq_ints(&sorted(got.clone())))),
        show: Some(format!("show_eng_stacked {} {} {} {}", tabc, coq_ints(&base), p1.coq(), p2.coq())),
        oracle: if ok { Oracle::Ok } else { Oracle::Fail },
        msg: if ok { String::new() } else { format!("returned {:?}; the rows satisfying both predicates are {:?}", sorted(got.clone()), expected) },
        nontrivial: !a.is_empty() && a.len() < base.len(),
        imp: format!("{:?}", sorted(got)),
        tags: tag(&["eng:stack", &format!("lang:{}", lang.name()), if pattern_form { "stack:pattern-map+where" } else { "stack:where-with-where" }]),
        ..Default::default()
    });
}

fn opt_text(kw: &str, o: Option<usize>) -> String {
    match o { Some(v) => format!(" {} {}", kw, v), None => String::new() }
}
fn window_spec(keys: &[i64], ord: bool, s: Option<usize>, n: Option<usize>) -> Vec<i64> {
    let mut k = keys.to_vec();
    if ord { k.sort(); }
    k.into_iter().skip(s.unwrap_or(0)).take(n.unwrap_or(usize::MAX)).collect()
}
fn gen_small_bound(r: &mut Rng, n: usize) -> Option<usize> {
    match r.below(6) { 0 => None, 1 => Some(0), 2 => Some(n), 3 => Some(n + 2), _ => Some(r.below(n as u64 + 1) as usize) }
}

/// SKIP s LIMIT n windows; `prop` is the (distinct, integer) key property of label `label`
fn case_eng_window(g: &GrafeoDB, label: &str, prop: &str, perm: Option<(i64, i64)>, lang: Lang, ord: bool, s: Option<usize>, n: Option<usize>, out: &mut Out) {
    let q = match lang {
        Lang::Gql => format!("MATCH (n:{}) RETURN n.{}{}{}{}", label, prop, if ord { format!(" ORDER BY n.{}", prop) } else { String::new() }, opt_text("SKIP", s), opt_text("LIMIT", n)),
        Lang::Cypher => format!("MATCH (n:{}) WITH n.{} AS k RETURN k{}{}{}", label, prop, if ord { " ORDER BY k" } else { "" }, opt_text("SKIP", s), opt_text("LIMIT", n)),
        Lang::Gremlin => format!(
            "g.V().hasLabel('{}'){}{}{}.values('{}')",
            label,
            if ord { format!(".order().by('{}')", prop) } else { String::new() },
            s.map_or(String::new(), |x| format!(".skip({})", x)),
            n.map_or(String::new(), |x| format!(".limit({})", x)),
            prop
        ),
        Lang::GraphQl => {
            let mut args: Vec<String> = Vec::new();
            if ord { args.push(format!("orderBy: {{ {}: ASC }}", prop)); }
            if let Some(x) = s { args.push(format!("skip: {}", x)); }
            if let Some(x) = n { args.push(format!("first: {}", x)); }
            format!("{{ {}{} {{ {} }} }}", label, if args.is_empty() { String::new() } else { format!("({})", args.join(", ")) }, prop)
        }
    };
    let base = run_query(g, Lang::Cypher, &format!("MATCH (n:{}) RETURN n.{}", label, prop));
    let got = run_query(g, lang, &q);
    let (keys, got) = match (base, got) {
        (Ok(b), Ok(x)) if x.iter().all(|r| r.len() == 1) => (ints_of(&b), ints_of(&x)),
        (_, e) => {
            let m = format!("{:?}", e.map(|x| show_rows(&x)));
            out.emit(&Case { kind: "eng_window".into(), input: format!("{} | {}", lang.name(), q), oracle: if m.contains("PANIC") { Oracle::Fail } else { Oracle::Na }, msg: m.clone(), imp: m, tags: tag(&["eng:window", "eng:query-rejected"]), ..Default::default() });
            return;
        }
    };
    let expected = window_spec(&keys, ord, s, n);
    let ok = got == expected;
    let so = coq_oz(s.map(|x| x as i64));
    let no = coq_oz(n.map(|x| x as i64));
    // the big table is described by its generator when the scan order is the creation order
    let perm_ok = perm.map_or(false, |(a, m)| keys.len() as i64 == m && keys.iter().enumerate().all(|(i, k)| *k == (a * i as i64) % m));
    let (coqt, kc) = if perm_ok {
        let (a, m) = perm.unwrap();
        (format!("chk_eng_window_perm {} {} {} {} {} {} {}", lang.coq(), coq::b(ord), so, no, coq::z(a), coq::z(m), coq_ints(&got)),
         format!("k_gql_window_perm {} {} {} {} {}", coq::b(ord), so, no, coq::z(a), coq::z(m)))
    } else {
        (format!("chk_eng_window {} {} {} {} {} {}", lang.coq(), coq::b(ord), so, no, coq_ints(&keys), coq_ints(&got)),
         format!("k_gql_window {} {} {} {}", coq::b(ord), so, no, coq_ints(&keys)))
    };
    let total = keys.len();
    let crossing = total > 2048 && (s.map_or(false, |x| x > 0 && x < total) || n.map_or(false, |x| x < total));
    let mut tags = tag(&["eng:window", &format!("lang:{}", lang.name()), if ord { "window:ordered" } else { "window:unordered" }]);
    if crossing { tags.push("window:crosses-chunk-boundary".into()); }
    for b in [2047usize, 2048, 2049, 4095, 4096, 4097] {
        if s == Some(b) || n == Some(b) { tags.push(format!("window:bound-{}", b)); }
    }
    out.emit(&Case {
        kind: "eng_window".into(),
        input: format!("{} | {} | {} rows", lang.name(), q, total),
        coq: Some(coqt),
        oracle: if ok { Oracle::Ok } else { Oracle::Fail },
        msg: if ok { String::new() } else { format!("returned {} expected {}", show_ints(&got), show_ints(&expected)) },
        kcoq: if ok { None } else { Some(kc) },
        kid: if ok { None } else { Some("C11-K2".into()) },
        nontrivial: crossing || (ord && (s.is_some() || n.is_some())),
        imp: show_ints(&got),
        tags,
        ..Default::default()
    });
}

fn case_eng_count(g: &GrafeoDB, label: &str, lang: Lang, s: Option<usize>, n: Option<usize>, out: &mut Out) {
    let q = match lang {
        Lang::Gremlin => format!("g.V().hasLabel('{}').count(){}{}", label, s.map_or(String::new(), |x| format!(".skip({})", x)), n.map_or(String::new(), |x| format!(".limit({})", x))),
        _ => format!("MATCH (n:{}) RETURN count(n){}{}", label, opt_text("SKIP", s), opt_text("LIMIT", n)),
    };
    let base = run_query(g, Lang::Cypher, &format!("MATCH (n:{}) RETURN n.id", label));
    let got = run_query(g, lang, &q);
    let (total, rows) = match (base, got) {
        (Ok(b), Ok(x)) => (b.len(), x),
        (_, e) => {
            let m = format!("{:?}", e.err());
            out.emit(&Case { kind: "eng_count".into(), input: format!("{} | {}", lang.name(), q), oracle: if m.contains("PANIC") { Oracle::Fail } else { Oracle::Na }, msg: m.clone(), imp: m, tags: tag(&["eng:count", "eng:query-rejected"]), ..Default::default() });
            return;
        }
    };
    let expected: Vec<Vec<V>> = vec![vec![V::Int(total as i64)]].into_iter().skip(s.unwrap_or(0)).take(n.unwrap_or(usize::MAX)).collect();
    let ok = rows == expected;
    let so = coq_oz(s.map(|x| x as i64));
    let no = coq_oz(n.map(|x| x as i64));
    out.emit(&Case {
        kind: "eng_count".into(),
        input: format!("{} | {} | {} rows", lang.name(), q, total),
        coq: Some(format!("chk_eng_count {} {} {} {} {}", lang.coq(), so, no, coq::z(total as i64), coq_rows(&rows))),
        oracle: if ok { Oracle::Ok } else { Oracle::Fail },
        msg: if ok { String::new() } else { format!("returned {} expected {}", show_rows(&rows), show_rows(&expected)) },
        kcoq: if ok { None } else { Some(format!("k_gql_count {} {} {}", so, no, coq::z(total as i64))) },
        kid: if ok { None } else { Some("C11-K2".into()) },
        nontrivial: total > 0 && (s.is_some() || n.is_some()),
        imp: show_rows(&rows),
        tags: tag(&["eng:count", &format!("lang:{}", lang.name())]),
        ..Default::default()
    });
}

/// DISTINCT / GROUP BY on one projected property
fn case_eng_distinct(r: &mut Rng, g: &Graph, out: &mut Out, forced: Option<(usize, u64, Lang)>) {
    let (c, form, lang) = forced.unwrap_or_else(|| (r.below(NPROPS as u64) as usize, r.below(3), if r.chance(1, 2) { Lang::Gql } else { Lang::Cypher }));
    let base = run_query(&g.db, Lang::Cypher, &format!("MATCH (n:L) RETURN n.p{}", c));
    let q = match form {
        0 => format!("MATCH (n:L) RETURN DISTINCT n.p{}", c),
        1 => format!("MATCH (n:L) WITH DISTINCT n.p{} AS v RETURN v", c),
        _ => format!("MATCH (n:L) RETURN n.p{}, count(n)", c),
    };
    let got = run_query(&g.db, lang, &q);
    let (vals, rows) = match (base, got) {
        (Ok(b), Ok(x)) => (b.iter().map(|r| r[0].clone()).collect::<Vec<V>>(), x),
        (_, e) => {
            let m = format!("{:?}", e.err());
            out.emit(&Case { kind: "eng_distinct".into(), input: format!("{} | {}", lang.name(), q), oracle: if m.contains("PANIC") { Oracle::Fail } else { Oracle::Na }, msg: m.clone(), imp: m, tags: tag(&["eng:distinct", "eng:query-rejected"]), ..Default::default() });
            return;
        }
    };
    let as_rows: Vec<Vec<V>> = vals.iter().map(|v| vec![v.clone()]).collect();
    let valsc = coq::list(vals.iter().map(|v| v.coq()));
    let (expected, coqt, kid, kc, t) = match form {
        // no duplicate removed at all: K3 (RETURN DISTINCT ignored); otherwise the Distinct operator ran and only a
        // collision of its row key (K4) is a listed way to a wrong answer
        0 => if rows == as_rows {
            (dedup_struct(&as_rows), format!("chk_eng_return_distinct {} {}", valsc, coq_rows(&rows)), "C11-K3", format!("k_return_distinct {}", valsc), "distinct:return-distinct")
        } else {
            (dedup_struct(&as_rows), format!("chk_eng_return_distinct {} {}", valsc, coq_rows(&rows)), "C11-K4", format!("k_key_collision_vals {}", valsc), "distinct:return-distinct")
        },
        1 => (dedup_struct(&as_rows), format!("chk_eng_with_distinct {} {}", valsc, coq_rows(&rows)), "C11-K4", format!("k_key_collision_vals {}", valsc), "distinct:with-distinct"),
        _ => {
            let mut e: Vec<Vec<V>> = Vec::new();
            for v in &vals {
                if let Some(gr) = e.iter_mut().find(|gr| gr[0] == *v) {
                    if let V::Int(c) = &mut gr[1] { *c += 1; }
                } else {
                    e.push(vec![v.clone(), V::Int(1)]);
                }
            }
            (e, format!("chk_eng_group_count {} {}", valsc, coq_rows(&rows)), "C11-K4", format!("(k_group_key_vals {} || k_key_collision_vals {})", valsc, valsc), "distinct:group-count")
        }
    };
    let ok = rows == expected;
    let dups = dedup_struct(&as_rows).len() < as_rows.len();
    out.emit(&Case {
        kind: "eng_distinct".into(),
        input: format!("{} | {} | values {}", lang.name(), q, vals.iter().map(|v| v.show()).collect::<Vec<_>>().join(",")),
        coq: Some(coqt),
        oracle: if ok { Oracle::Ok } else { Oracle::Fail },
        msg: if ok { String::new() } else { format!("returned {} expected {}", show_rows(&rows), show_rows(&expected)) },
        kcoq: if ok { None } else { Some(kc) },
        kid: if ok { None } else { Some(kid.into()) },
        nontrivial: dups,
        imp: show_rows(&rows),
        tags: tag(&["eng:distinct", &format!("lang:{}", lang.name()), t]),
        ..Default::default()
    });
}

/// UNION ALL: (a) the Union operator reached through the public planner, (b) the GQL text
fn case_eng_union(r: &mut Rng, g: &Graph, out: &mut Out) {
    let m1 = 2 + r.below(2);
    let q1 = format!("MATCH (n:L) WHERE ((n.id % {}) = 0) RETURN n.id", m1);
    let q2 = if r.chance(1, 5) { "MATCH (n:L) WHERE ((n.id + 0) < 0) RETURN n.id".to_string() } else { format!("MATCH (n:L) WHERE ((n.id % {}) = 1) RETURN n.id", 2 + r.below(2)) };
    let (a, b) = match (run_query(&g.db, Lang::Gql, &q1), run_query(&g.db, Lang::Gql, &q2)) {
        (Ok(a), Ok(b)) => (ints_of(&a), ints_of(&b)),
        _ => return,
    };
    let mut expected = a.clone();
    expected.extend(&b);
    // (a) planner
    let planned = catch(std::panic::AssertUnwindSafe(|| -> Result<Vec<i64>, String> {
        let p1 = translate_gql(&q1).map_err(|e| e.to_string())?;
        let p2 = translate_gql(&q2).map_err(|e| e.to_string())?;
        let plan = LogicalPlan::new(LogicalOperator::Union(UnionOp { inputs: vec![p1.root, p2.root] }));
        let plan = Optimizer::from_store(g.db.store()).optimize(plan).map_err(|e| e.to_string())?;
        let mut phys = Planner::new(Arc::clone(g.db.store())).plan(&plan).map_err(|e| e.to_string())?;
        let res = Executor::with_columns(phys.columns.clone()).execute(phys.operator.as_mut()).map_err(|e| e.to_string())?;
        Ok(res.rows.iter().map(|row| match row.first() { Some(Value::Int64(i)) => *i, _ => i64::MIN }).collect())
    }));
    match planned {
        Ok(Ok(got)) => {
            let ok = got == expected;
            out.emit(&Case {
                kind: "eng_union".into(),
                input: format!("planner Union[{} ; {}]", q1, q2),
                coq: Some(format!("chk_eng_union {} {} {}", coq_ints(&a), coq_ints(&b), coq_ints(&got))),
                oracle: if ok { Oracle::Ok } else { Oracle::Fail },
                msg: if ok { String::new() } else { format!("returned {:?} expected {:?}", got, expected) },
                nontrivial: !a.is_empty() && !b.is_empty(),
                imp: format!("{:?}", got),
                tags: tag(&["eng:union", "union:planner"]),
                ..Default::default()
            });
        }
        other => {
            let m = format!("{:?}", other);
            out.emit(&Case { kind: "eng_union".into(), input: format!("planner Union[{} ; {}]", q1, q2), oracle: Oracle::Fail, msg: m.clone(), imp: m, tags: tag(&["eng:union", "union:planner"]), ..Default::default() });
        }
    }
    // (b) GQL text
    let q = format!("{} UNION ALL {}", q1, q2);
    match run_query(&g.db, Lang::Gql, &q) {
        Ok(rows) => {
            let got = ints_of(&rows);
            let ok = got == expected;
            out.emit(&Case {
                kind: "eng_union_text".into(),
                input: format!("gql | {}", q),
                // as implemented: the text after the first RETURN clause is ignored
                coq: Some(format!("zlist_eqb {} {}", coq_ints(&a), coq_ints(&got))),
                oracle: if ok { Oracle::Ok } else { Oracle::Fail },
                msg: if ok { String::new() } else { format!("returned {:?} expected {:?}", got, expected) },
                kcoq: if ok { None } else { Some(format!("k_gql_union {}", coq_ints(&b))) },
                kid: if ok { None } else { Some("C11-K7".into()) },
                nontrivial: !b.is_empty(),
                imp: format!("{:?}", got),
                tags: tag(&["eng:union", "union:gql-text"]),
                ..Default::default()
            });
        }
        Err(e) => {
            out.emit(&Case { kind: "eng_union_text".into(), input: format!("gql | {}", q), oracle: if e.starts_with("PANIC") { Oracle::Fail } else { Oracle::Na }, msg: e.clone(), imp: e, tags: tag(&["eng:union", "eng:query-rejected"]), ..Default::default() });
        }
    }
}

/// aggregates through the sessions: MATCH (n:L) RETURN f(n.pc)  /  RETURN n.pg, f(n.pc)  /  Gremlin values(..).f()
fn case_eng_agg(r: &mut Rng, g: &Graph, out: &mut Out, forced: Option<(AF, usize, bool, Lang)>) {
    let (af, c, grouped, lang) = forced.unwrap_or_else(|| {
        let af = *r.pick(&[AF::Sum, AF::Sum, AF::Avg, AF::Min, AF::Max, AF::Collect, AF::Count]);
        let lang = match r.below(5) { 0 | 1 => Lang::Gql, 2 | 3 => Lang::Cypher, _ => Lang::Gremlin };
        (af, r.below(NPROPS as u64) as usize, lang != Lang::Gremlin && r.chance(1, 3), lang)
    });
    // Gremlin's values('p') is a projection here (a vertex without the property yields a NULL row, it is not
    // dropped) and count() counts rows: count-star
    let af = if lang == Lang::Gremlin && af == AF::Count { AF::CountStar } else { af };
    let gc = 3usize; // group column
    let base = run_query(&g.db, Lang::Cypher, &format!("MATCH (n:{}) RETURN n.p{}, n.p{}", g.label, gc, c));
    let q = match lang {
        Lang::Gremlin => format!("g.V().hasLabel('{}').values('p{}').{}()", g.label, c, if af == AF::CountStar { "count" } else { af.gremlin().unwrap() }),
        _ if grouped => format!("MATCH (n:{}) RETURN n.p{}, {}(n.p{})", g.label, gc, af.text().unwrap(), c),
        _ => format!("MATCH (n:{}) RETURN {}(n.p{})", g.label, af.text().unwrap(), c),
    };
    let vals: Vec<(V, V)> = match base {
        Ok(b) => b.iter().map(|r| (r[0].clone(), r[1].clone())).collect(),
        Err(e) => { out.emit(&Case { kind: "eng_agg".into(), input: q, oracle: Oracle::Na, msg: e.clone(), imp: e, tags: tag(&["eng:agg", "eng:query-rejected"]), ..Default::default() }); return; }
    };
    let got = run_query(&g.db, lang, &q);
    let got: Option<Vec<Vec<V>>> = match got {
        Ok(x) => Some(x),
        Err(e) if e.starts_with("PANIC") => None,
        Err(e) => { out.emit(&Case { kind: "eng_agg".into(), input: format!("{} | {}", lang.name(), q), oracle: Oracle::Na, msg: e.clone(), imp: e, tags: tag(&["eng:agg", "eng:query-rejected"]), ..Default::default() }); return; }
    };
    let col: Vec<V> = vals.iter().map(|p| p.1.clone()).collect();
    let nonnull: Vec<V> = col.iter().filter(|v| **v != V::Null).cloned().collect();
    let in_dom = agg_in_domain(af, &nonnull)
        // Gremlin values('p') drops the rows without the property before the aggregate: same non-NULL values
        && (!grouped || vals.iter().all(|p| !matches!(p.0, V::Float(_) | V::List(_))));
    // oracle: the aggregate of the values the query without the aggregate returns (Int64 columns, string MIN/MAX)
    let expected: Option<Vec<Vec<V>>> = if grouped {
        let mut groups: Vec<(V, Vec<V>)> = Vec::new();
        for (k, v) in &vals {
            if let Some(gr) = groups.iter_mut().find(|gr| gr.0 == *k) { gr.1.push(v.clone()); } else { groups.push((k.clone(), vec![v.clone()])); }
        }
        let mut rows = Vec::new();
        let mut ok = true;
        for (k, vs) in &groups {
            match agg_expected(af, vs) { Some(v) => rows.push(vec![k.clone(), v]), None => ok = false }
        }
        if ok { Some(rows) } else { None }
    } else {
        agg_expected(af, &col).map(|v| vec![vec![v]])
    };
    // a SUM whose partial sums leave i64 has no right Int64 answer, but it must not panic
    let overflow = af == AF::Sum && if grouped {
        let mut ks: Vec<V> = Vec::new();
        for (k, _) in &vals { if !ks.contains(k) { ks.push(k.clone()); } }
        ks.iter().any(|k| sum_overflows(&vals.iter().filter(|p| p.0 == *k).map(|p| p.1.clone()).collect::<Vec<V>>()))
    } else { sum_overflows(&col) };
    let oracle = if overflow {
        if got.is_none() { Oracle::Fail } else { Oracle::Na }
    } else {
        match (&expected, &got) {
            (None, _) => Oracle::Na,
            (Some(e), Some(x)) if e == x => Oracle::Ok,
            _ => Oracle::Fail,
        }
    };
    let in_dom = in_dom && !(overflow && got.is_some());
    let valsc = coq::list(vals.iter().map(|(k, v)| format!("({}, {})", k.coq(), v.coq())));
    let fc = af.coq(1);
    let mut tags = tag(&["eng:agg", &format!("lang:{}", lang.name()), &format!("agg2:{:?}", af).to_lowercase(), if grouped { "agg2:grouped" } else { "agg2:global" }]);
    if got.is_none() { tags.push("agg2:panic".into()); }
    if !in_dom { tags.push("agg2:outside-model-domain".into()); }
    let (kid, kcoq) = if oracle != Oracle::Fail { (None, None) } else if got.is_none() {
        (Some("C11-K10".to_string()), Some(format!("k_sum_overflow {} {}", fc, valsc)))
    } else if lang == Lang::Cypher && af == AF::Count {
        (Some("C11-K12".to_string()), Some(format!("k_cypher_count {} {}", fc, valsc)))
    } else if grouped && matches!(af, AF::Avg | AF::Min | AF::Max) && vals.iter().all(|p| p.1 == V::Null || matches!(p.1, V::Int(_))) {
        // Int64 / NULL inputs: the only listed way to a wrong answer is the lost second NULL of the typed result vector
        (Some("C11-K11".to_string()), Some(format!("k_second_null_eng {} {}", fc, valsc)))
    } else {
        (Some("C11-K9".to_string()), Some(format!("k_agg_typed {} {}", fc, valsc)))
    };
    out.emit(&Case {
        kind: "eng_agg".into(),
        input: format!("{} | {} | values {}", lang.name(), q, vals.iter().map(|(k, v)| if grouped { format!("{}:{}", k.show(), v.show()) } else { v.show() }).collect::<Vec<_>>().join(",")),
        coq: if in_dom { Some(format!("{} {} {} {} {}", if grouped { "chk_eng_group_agg" } else { "chk_eng_agg" }, lang.coq(), fc, valsc, coq_orows(&got))) } else { None },
        show: Some(format!("show_eng_agg {} {} {}", lang.coq(), fc, valsc)),
        oracle,
        msg: if oracle == Oracle::Fail { if overflow { "the query panicked: SUM left the i64 range".to_string() } else { format!("returned {} expected {}", show_orows(&got), show_orows(&expected)) } } else { String::new() },
        kcoq,
        kid,
        nontrivial: nonnull.len() >= 2,
        imp: show_orows(&got),
        tags,
        ..Default::default()
    });
}
/// expected aggregate over projected values: Int64 columns as in `agg_expected_ints`; MIN / MAX of a
/// column of plain strings bytewise; None = not decided by this oracle
fn agg_expected(af: AF, col: &[V]) -> Option<V> {
    let nonnull: Vec<&V> = col.iter().filter(|v| **v != V::Null).collect();
    if matches!(af, AF::Min | AF::Max) && !nonnull.is_empty() && nonnull.iter().all(|v| matches!(v, V::Str(s) if !numeric_like(s))) {
        let mut ss: Vec<&String> = nonnull.iter().map(|v| if let V::Str(s) = v { s } else { unreachable!() }).collect();
        ss.sort_by(|a, b| a.as_bytes().cmp(b.as_bytes()));
        return Some(V::Str(if af == AF::Min { ss[0].clone() } else { ss[ss.len() - 1].clone() }));
    }
    agg_expected_ints(af, col, col.len())
}

/// ORDER BY on one or two keys (ASC / DESC, NULLs and missing properties, ties) with SKIP / LIMIT
fn case_eng_sort(r: &mut Rng, g: &Graph, out: &mut Out, forced: Option<(usize, bool, bool, Option<usize>, Option<usize>, Lang)>) {
    let n = g.tab.len();
    let (c, d1, d2, s, k, lang) = forced.unwrap_or_else(|| {
        let lang = match r.below(5) { 0 | 1 => Lang::Gql, 2 | 3 => Lang::Cypher, _ => Lang::Gremlin };
        (r.below(NPROPS as u64) as usize, r.chance(1, 2), r.chance(1, 2), if r.chance(1, 2) { gen_small_bound(r, n) } else { None }, if r.chance(1, 2) { gen_small_bound(r, n) } else { None }, lang)
    });
    // GQL applies SKIP / LIMIT below the sort (finding K2, covered by eng_window): keep them out of this case
    let (s, k) = if lang == Lang::Gql { (None, None) } else { (s, k) };
    let base = run_query(&g.db, Lang::Cypher, &format!("MATCH (n:{}) RETURN n.p{}, n.k, n.id", g.label, c));
    let rows: Vec<Vec<V>> = match base { Ok(b) => b, Err(_) => return };
    // the key column must be of one orderable class (else sort.rs' comparator is not an order)
    let cls: Vec<u8> = rows.iter().filter_map(|r| match &r[0] { V::Null => None, V::Int(_) => Some(0), V::Str(_) => Some(1), V::Bool(_) => Some(2), _ => Some(9) }).collect();
    if cls.iter().any(|x| *x == 9 || *x != cls[0]) {
        return;
    }
    let dir = |d: bool| if d { " DESC" } else { "" };
    let q = match lang {
        Lang::Gql => format!("MATCH (n:{}) RETURN n.id ORDER BY n.p{}{}, n.k{}", g.label, c, dir(d1), dir(d2)),
        // one by() only: the Gremlin translator lets every further by() REPLACE the sort keys (observation, see the report)
        Lang::Gremlin => format!("g.V().hasLabel('{}').order().by('p{}', {}){}{}.values('id')", g.label, c, if d1 { "desc" } else { "asc" },
            s.map_or(String::new(), |x| format!(".skip({})", x)), k.map_or(String::new(), |x| format!(".limit({})", x))),
        _ => format!("MATCH (n:{}) WITH n.p{} AS a, n.k AS b, n.id AS id RETURN a, b, id ORDER BY a{}, b{}{}{}", g.label, c, dir(d1), dir(d2), opt_text("SKIP", s), opt_text("LIMIT", k)),
    };
    let got = match run_query(&g.db, lang, &q) {
        Ok(x) => x.iter().map(|r| match r.last() { Some(V::Int(i)) => *i, _ => i64::MIN }).collect::<Vec<i64>>(),
        Err(e) => { out.emit(&Case { kind: "eng_sort".into(), input: format!("{} | {}", lang.name(), q), oracle: if e.starts_with("PANIC") { Oracle::Fail } else { Oracle::Na }, msg: e.clone(), imp: e, tags: tag(&["eng:sort", "eng:query-rejected"]), ..Default::default() }); return; }
    };
    let keys: Vec<SK> = if lang == Lang::Gremlin { vec![SK { col: 0, desc: d1, nulls_first: false }] } else { vec![SK { col: 0, desc: d1, nulls_first: false }, SK { col: 1, desc: d2, nulls_first: false }] };
    let mut sorted_rows = rows.clone();
    sorted_rows.sort_by(|a, b| spec_cmp(&keys, a, b));
    let expected: Vec<i64> = sorted_rows.iter().skip(s.unwrap_or(0)).take(k.unwrap_or(usize::MAX)).map(|r| match &r[2] { V::Int(i) => *i, _ => i64::MIN }).collect();
    let ok = got == expected;
    let mut tags = tag(&["eng:sort", &format!("lang:{}", lang.name())]);
    if rows.iter().any(|r| r[0] == V::Null) { tags.push("sort:null-keys".into()); }
    if d1 || d2 { tags.push("sort:desc".into()); }
    out.emit(&Case {
        kind: "eng_sort".into(),
        input: format!("{} | {} | rows {}", lang.name(), q, show_rows(&rows)),
        coq: Some(format!("chk_eng_sort {} {} {} {} {}", coq::list(keys.iter().map(|k| k.coq())), coq_rows(&rows), coq_oz(s.map(|x| x as i64)), coq_oz(k.map(|x| x as i64)), coq_ints(&got))),
        show: Some(format!("show_eng_sort {} {} {} {}", coq::list(keys.iter().map(|k| k.coq())), coq_rows(&rows), coq_oz(s.map(|x| x as i64)), coq_oz(k.map(|x| x as i64)))),
        oracle: if ok { Oracle::Ok } else { Oracle::Fail },
        msg: if ok { String::new() } else { format!("returned {:?} expected {:?}", got, expected) },
        nontrivial: rows.len() >= 3,
        imp: format!("{:?}", got),
        tags,
        ..Default::default()
    });
}

/// the identities in Gremlin and GraphQL: count = number of rows, dedup = each row once, filter + count
fn case_eng_lang(r: &mut Rng, g: &Graph, out: &mut Out) {
    let c = r.below(NPROPS as u64) as usize;
    // (1) Gremlin dedup: values('pc').dedup() against values('pc')
    let all = run_query(&g.db, Lang::Gremlin, &format!("g.V().hasLabel('{}').values('p{}')", g.label, c));
    let q = format!("g.V().hasLabel('{}').values('p{}').dedup()", g.label, c);
    if let (Ok(all), Ok(got)) = (all, run_query(&g.db, Lang::Gremlin, &q)) {
        let vals: Vec<V> = all.iter().map(|r| r[0].clone()).collect();
        let expected = dedup_struct(&all);
        let ok = got == expected;
        let valsc = coq::list(vals.iter().map(|v| v.coq()));
        out.emit(&Case {
            kind: "eng_distinct".into(),
            input: format!("gremlin | {} | values {}", q, vals.iter().map(|v| v.show()).collect::<Vec<_>>().join(",")),
            coq: Some(format!("chk_eng_with_distinct {} {}", valsc, coq_rows(&got))),
            oracle: if ok { Oracle::Ok } else { Oracle::Fail },
            msg: if ok { String::new() } else { format!("returned {} expected {}", show_rows(&got), show_rows(&expected)) },
            kcoq: if ok { None } else { Some(format!("k_key_collision_vals {}", valsc)) },
            kid: if ok { None } else { Some("C11-K4".into()) },
            nontrivial: expected.len() < all.len(),
            imp: show_rows(&got),
            tags: tag(&["eng:distinct", "lang:gremlin", "distinct:gremlin-dedup"]),
            ..Default::default()
        });
    }
    // (2) Gremlin / GraphQL filter against the Cypher filter, and count() against the number of rows
    let lit = r.range(0, 6);
    let ops: &[(&str, &str, &str)] = &[("gt", ">", "_gt"), ("gte", ">=", "_gte"), ("lt", "<", "_lt"), ("lte", "<=", "_lte"), ("eq", "=", ""), ("neq", "<>", "_ne")];
    let (gop, cop, qop) = *r.pick(ops);
    // the evaluator's answer: a NOT at the top keeps plan_filter's range-scan path (finding K8) out of the reference
    let reference = run_query(&g.db, Lang::Cypher, &match cop {
        ">" => format!("MATCH (n:{}) WHERE (NOT (n.p{} <= {})) RETURN n.id", g.label, c, lit),
        ">=" => format!("MATCH (n:{}) WHERE (NOT (n.p{} < {})) RETURN n.id", g.label, c, lit),
        "<" => format!("MATCH (n:{}) WHERE (NOT (n.p{} >= {})) RETURN n.id", g.label, c, lit),
        "<=" => format!("MATCH (n:{}) WHERE (NOT (n.p{} > {})) RETURN n.id", g.label, c, lit),
        _ => format!("MATCH (n:{}) WHERE (n.p{} {} {}) RETURN n.id", g.label, c, cop, lit),
    });
    let Ok(reference) = reference else { return };
    let want = sorted(ints_of(&reference));
    for lang in [Lang::Gremlin, Lang::GraphQl] {
        let q = match lang {
            Lang::Gremlin => format!("g.V().hasLabel('{}').has('p{}', {}({})).values('id')", g.label, c, gop, lit),
            _ => format!("{{ {}(where: {{ p{}{}: {} }}) {{ id }} }}", g.label, c, qop, lit),
        };
        match run_query(&g.db, lang, &q) {
            Ok(rows) => {
                let got = sorted(ints_of(&rows));
                let ok = got == want;
                // the model: Filter over the scan (the Cypher WITH form above goes through the Filter operator too)
                let p = E::Bin(match cop { ">" => Op::Gt, ">=" => Op::Ge, "<" => Op::Lt, "<=" => Op::Le, "=" => Op::Eq, _ => Op::Ne }, Box::new(E::Var(c)), lit_e(lit));
                let scan: Vec<i64> = (0..g.tab.len() as i64).collect();
                out.emit(&Case {
                    kind: "eng_filter_lang".into(),
                    input: format!("{} | {} | table {}", lang.name(), q, g.show_tab()),
                    // GraphQL plans a Filter directly over the label scan (range path of plan_filter); Gremlin's has() sits on the hasLabel filter
                    coq: Some(format!("same_ids ({} {} {} {}) {}", if lang == Lang::GraphQl { "eng_where" } else { "eng_filter" }, g.coq_tab(), coq_ints(&scan), p.coq(), coq_ints(&got))),
                    oracle: if ok { Oracle::Ok } else { Oracle::Fail },
                    msg: if ok { String::new() } else { format!("returned {:?}; Cypher's Filter returns {:?}", got, want) },
                    kcoq: if ok || lang != Lang::GraphQl { None } else { Some(format!("k_range_path {} {} {}", g.coq_tab(), coq_ints(&scan), p.coq())) },
                    kid: if ok || lang != Lang::GraphQl { None } else { Some("C11-K8".into()) },
                    nontrivial: !want.is_empty() && want.len() < g.tab.len(),
                    imp: format!("{:?}", got),
                    tags: tag(&["eng:filter-lang", &format!("lang:{}", lang.name())]),
                    ..Default::default()
                });
                if lang == Lang::Gremlin {
                    let qc = format!("g.V().hasLabel('{}').has('p{}', {}({})).count()", g.label, c, gop, lit);
                    if let Ok(cr) = run_query(&g.db, Lang::Gremlin, &qc) {
                        let okc = cr == vec![vec![V::Int(rows.len() as i64)]];
                        out.emit(&Case {
                            kind: "eng_count_lang".into(),
                            input: format!("gremlin | {}", qc),
                            coq: Some(format!("rows_eqb (rows_of (drain_simple_agg [AggCountStar] (scan_chunks (int_rows_of {})))) {}", coq_ints(&got), coq_rows(&cr))),
                            oracle: if okc { Oracle::Ok } else { Oracle::Fail },
                            msg: if okc { String::new() } else { format!("count() = {} but the traversal returns {} rows", show_rows(&cr), rows.len()) },
                            nontrivial: !rows.is_empty(),
                            imp: show_rows(&cr),
                            tags: tag(&["eng:count", "lang:gremlin"]),
                            ..Default::default()
                        });
                    }
                }
            }
            Err(e) => {
                out.emit(&Case { kind: "eng_filter_lang".into(), input: format!("{} | {}", lang.name(), q), oracle: if e.starts_with("PANIC") { Oracle::Fail } else { Oracle::Na }, msg: e.clone(), imp: e, tags: tag(&["eng:filter-lang", "eng:query-rejected", &format!("lang:{}", lang.name())]), ..Default::default() });
            }
        }
    }
}
fn lit_e(i: i64) -> Box<E> {
    Box::new(E::Lit(V::Int(i)))
}

// ------------------------------------------------------------------------------------ big table, corpus, main

const BIG_A: i64 = 1237;
const BIG_M: i64 = 4100;

fn build_big() -> Graph {
    let db = GrafeoDB::new_in_memory();
    let mut tab = Vec::new();
    for i in 0..BIG_M {
        let id = db.create_node(&["B"]);
        let k = (BIG_A * i) % BIG_M;
        db.set_node_property(id, "id", Value::Int64(i));
        db.set_node_property(id, "p0", Value::Int64(k));
        tab.push(vec![Some(V::Int(k))]);
    }
    Graph { db, tab, label: "B", perm: Some((BIG_A, BIG_M)) }
}
fn lit(i: i64) -> Box<E> {
    Box::new(E::Lit(V::Int(i)))
}
fn var0() -> Box<E> {
    Box::new(E::Var(0))
}

fn big_cases(r: &mut Rng, out: &mut Out, thorough: bool) {
    let g = build_big();
    // windows over 4100 rows (three scan batches)
    let bounds = [0usize, 1, 2047, 2048, 2049, 4095, 4096, 4097, 4100, 5000];
    let mut combos: Vec<(Lang, bool, Option<usize>, Option<usize>)> = vec![
        (Lang::Gql, false, Some(2047), Some(2)), (Lang::Gql, false, Some(2048), Some(2049)), (Lang::Gql, false, Some(2049), None),
        (Lang::Gql, false, None, Some(2048)), (Lang::Gql, false, Some(4095), Some(10)), (Lang::Gql, false, Some(1), Some(4097)),
        (Lang::Cypher, false, Some(2047), Some(2049)), (Lang::Cypher, false, Some(4096), Some(4)), (Lang::Cypher, false, None, Some(2049)),
        (Lang::Cypher, true, Some(2047), Some(2)), (Lang::Cypher, true, Some(2048), Some(2048)), (Lang::Cypher, true, Some(4097), Some(5)),
        (Lang::Cypher, true, None, Some(2049)), (Lang::Cypher, true, Some(2049), None),
        (Lang::Gql, true, Some(2047), Some(2)), (Lang::Gql, true, None, Some(2048)), (Lang::Gql, true, Some(2049), None), (Lang::Gql, true, None, None),
        (Lang::Gremlin, false, Some(2047), Some(2049)), (Lang::Gremlin, true, Some(2048), Some(2)), (Lang::Gremlin, true, None, Some(2049)),
        (Lang::GraphQl, false, Some(2047), Some(2)), (Lang::GraphQl, true, Some(2049), Some(2048)), (Lang::GraphQl, false, None, Some(4097)),
    ];
    for _ in 0..(if thorough { 60 } else { 10 }) {
        let s = if r.chance(1, 4) { None } else { Some(*r.pick(&bounds)) };
        let n = if r.chance(1, 4) { None } else { Some(*r.pick(&bounds)) };
        let ord = r.chance(1, 4);
        combos.push((if r.chance(1, 2) { Lang::Gql } else { Lang::Cypher }, ord, s, n));
    }
    for (l, ord, s, n) in combos {
        case_eng_window(&g.db, "B", "p0", g.perm, l, ord, s, n, out);
    }
    for af in [AF::Sum, AF::Avg, AF::Min, AF::Max, AF::Count] {
        let l = *r.pick(&[Lang::Gql, Lang::Cypher, Lang::Gremlin]);
        case_eng_agg(r, &g, out, Some((af, 0, false, l)));
    }
    // counts
    for (l, s, n) in [(Lang::Gql, None, None), (Lang::Cypher, None, None), (Lang::Gql, Some(2049), None), (Lang::Gql, None, Some(2048)), (Lang::Cypher, Some(1), None), (Lang::Cypher, None, Some(1)), (Lang::Cypher, Some(0), Some(0))] {
        case_eng_count(&g.db, "B", l, s, n, out);
    }
    // predicates over several batches
    let preds: Vec<E> = vec![
        E::Bin(Op::Lt, var0(), lit(2048)),
        E::Bin(Op::Lt, Box::new(E::Bin(Op::Add, var0(), lit(0))), lit(2049)),
        E::Bin(Op::Eq, Box::new(E::Bin(Op::Mod, var0(), lit(2))), lit(0)),
        E::Bin(Op::Ge, var0(), lit(4096)),
        E::Bin(Op::And, Box::new(E::Bin(Op::Ge, var0(), lit(2047))), Box::new(E::Bin(Op::Le, var0(), lit(2049)))),
        E::Bin(Op::Gt, Box::new(E::Bin(Op::Mul, var0(), lit(4611686018427387904))), lit(0)),
        E::Bin(Op::Or, Box::new(E::Bin(Op::Eq, Box::new(E::Bin(Op::Div, lit(1), Box::new(E::Bin(Op::Sub, var0(), lit(2048))))), lit(1))), Box::new(E::Bin(Op::Gt, var0(), lit(4000)))),
        E::Bin(Op::In, Box::new(E::Bin(Op::Mod, var0(), lit(1000))), Box::new(E::List(vec![E::Lit(V::Int(0)), E::Lit(V::Int(47)), E::Lit(V::Int(999))]))),
    ];
    for p in preds {
        let l = if p.text(Lang::Gql).is_some() && r.chance(1, 2) { Lang::Gql } else { Lang::Cypher };
        case_eng_part(r, &g, out, Some((p, l)));
    }
    // stacked filters over several batches
    let m2 = E::Bin(Op::Eq, Box::new(E::Bin(Op::Mod, var0(), lit(2))), lit(0));
    let m3 = E::Bin(Op::Eq, Box::new(E::Bin(Op::Mod, var0(), lit(3))), lit(0));
    let far = E::Bin(Op::Gt, Box::new(E::Bin(Op::Add, var0(), lit(0))), lit(4098));
    case_eng_stack(r, &g, out, Some((false, m2.clone(), m3.clone(), Lang::Cypher)));
    case_eng_stack(r, &g, out, Some((false, far.clone(), m3.clone(), Lang::Gql)));
    case_eng_stack(r, &g, out, Some((false, E::Bin(Op::Lt, var0(), lit(2048)), m3, Lang::Cypher)));
    case_eng_stack(r, &g, out, Some((true, E::Bin(Op::Eq, var0(), lit(7)), m2, Lang::Gql)));
}

fn corpus(r: &mut Rng, out: &mut Out) {
    // checked arithmetic (repaired by 8edf585: these used to panic)
    let mx = i64::MAX;
    let mn = i64::MIN;
    let one = |v: V| vec![vec![Some(v), None, None]];
    for (e, envs) in [
        (E::Bin(Op::Add, var0(), lit(1)), one(V::Int(mx))),
        (E::Bin(Op::Div, var0(), lit(0)), one(V::Int(5))),
        (E::Bin(Op::Div, var0(), lit(-1)), one(V::Int(mn))),
        (E::Un(UOp::Neg, var0()), one(V::Int(mn))),
        (E::Bin(Op::Mod, var0(), lit(-1)), one(V::Int(mn))),
        (E::Bin(Op::Mod, var0(), lit(0)), one(V::Int(3))),
        (E::Bin(Op::Mul, var0(), lit(2)), one(V::Int(4611686018427387904))),
        (E::Bin(Op::Sub, var0(), lit(1)), one(V::Int(mn))),
        (E::Bin(Op::Gt, Box::new(E::Bin(Op::Add, var0(), lit(1))), lit(0)), one(V::Int(mx))),
        // the connectives are not Kleene
        (E::Bin(Op::And, Box::new(E::Var(1)), Box::new(E::Lit(V::Bool(false)))), one(V::Int(0))),
        (E::Bin(Op::Or, Box::new(E::Lit(V::Bool(true))), Box::new(E::Var(1))), one(V::Int(0))),
        (E::Bin(Op::And, Box::new(E::Lit(V::Null)), Box::new(E::Lit(V::Bool(false)))), one(V::Int(0))),
        // NULL = NULL, NULL <> 5, cross-type numbers, epsilon equality
        (E::Bin(Op::Eq, var0(), Box::new(E::Lit(V::Null))), one(V::Null)),
        (E::Bin(Op::Ne, var0(), lit(5)), one(V::Null)),
        (E::Bin(Op::Eq, var0(), Box::new(E::Lit(f(9007199254740992.0)))), one(V::Int(9007199254740993))),
        (E::Bin(Op::Eq, Box::new(E::Var(1)), Box::new(E::Lit(f(2e-17)))), vec![vec![None, Some(f(1e-17)), None]]),
        (E::Bin(Op::Le, Box::new(E::Var(1)), lit(1)), vec![vec![None, Some(f(f64::NAN)), None]]),
        (E::Bin(Op::In, var0(), Box::new(E::List(vec![E::Var(1), E::Lit(V::Int(3))]))), one(V::Int(3))),
    ] {
        case_eval(r, out, Some((e, envs)));
    }
    // former C11-K1 (fixed by df57ccb, these must pass now): a filter over a chunk that carries a selection vector
    let int_row = |i: i64| vec![V::Int(i), V::Int(0)];
    case_filter(r, out, Some((E::Bin(Op::Eq, var0(), lit(2)), vec![Chunk { rows: vec![int_row(1), int_row(2)], sel: Some(vec![0]) }])));
    case_filter(r, out, Some((E::Bin(Op::Ge, var0(), lit(0)), vec![Chunk { rows: vec![int_row(1), int_row(2), int_row(3)], sel: Some(vec![]) }, Chunk { rows: vec![int_row(4)], sel: None }])));
    // windows at the batch boundary
    for (k, s, n, sizes) in [
        (0u64, 0usize, 2048usize, vec![2048usize, 2048]), (0, 0, 2049, vec![2048, 2048]), (0, 0, 2047, vec![2048, 2048]),
        (1, 2048, 0, vec![2048, 2048]), (1, 2047, 0, vec![2048, 2]), (1, 2049, 0, vec![2048, 2]),
        (2, 2047, 2, vec![2048, 2048]), (2, 2048, 2048, vec![2048, 2048, 5]), (3, 2047, 2, vec![2048, 2048]),
        (3, 2049, 2047, vec![2048, 2048, 1]), (3, 0, 4097, vec![2048, 2048, 1]), (3, 4096, 1, vec![2048, 2048, 1]),
    ] {
        case_window(r, out, true, Some((k, s, n, sizes.into_iter().map(|n| Spec { n, sel: None }).collect())));
    }
    // bounds inside chunks that carry a partial selection vector (the selected, not the physical, rows count)
    for k in 0..4u64 {
        case_window(r, out, false, Some((k, 1, 2, vec![Spec { n: 4, sel: Some(vec![0, 2, 3]) }, Spec { n: 3, sel: Some(vec![1, 2]) }])));
        case_window(r, out, false, Some((k, 4, 3, vec![Spec { n: 4, sel: Some(vec![0, 2, 3]) }, Spec { n: 5, sel: Some(vec![0, 2, 4]) }, Spec { n: 2, sel: None }])));
    }
    case_window(r, out, true, Some((1, 1025, 0, vec![Spec { n: 2048, sel: Some((0..2048).filter(|i| i % 2 == 0).collect()) }, Spec { n: 2048, sel: None }])));
    // K4: row key collisions
    case_distinct(r, out, Some(vec![Chunk { rows: vec![vec![V::Int(4607182418800017408)], vec![f(1.0)], vec![V::Int(0)], vec![f(0.0)]], sel: None }]));
    case_distinct(r, out, Some(vec![Chunk { rows: vec![vec![V::List(vec![V::Int(1)])]], sel: None }, Chunk { rows: vec![vec![V::Str("List([Int64(1)])".into())]], sel: None }]));
    // former K5 (fixed by 24f6dab, must pass now): more than 2048 fresh rows in one input chunk
    case_distinct_mod(r, out, Some((100000, vec![Spec { n: 2049, sel: None }])));
    case_distinct_mod(r, out, Some((100000, vec![Spec { n: 2048, sel: None }, Spec { n: 2048, sel: None }, Spec { n: 4, sel: None }])));
    // aggregates: SUM leaves the i64 range (former K10, a66b89b: a float sum now, no panic), MIN of strings through
    // an Int64 result vector (operator level; the planner passes Any since 41c4655, former K9), AVG rounding, FIRST/LAST/COLLECT skip NULLs, an empty input
    let col = |vs: Vec<V>| vec![Chunk { rows: vs.into_iter().map(|v| vec![V::Int(0), v]).collect(), sel: None }];
    case_agg2(r, out, Some((col(vec![V::Int(mx), V::Int(1)]), vec![AF::Sum], false, true)));
    case_agg2(r, out, Some((col(vec![V::Int(mx), V::Int(1), V::Int(-5)]), vec![AF::Sum, AF::Min, AF::Max], true, true)));
    case_agg2(r, out, Some((col(vec![V::Int(mn), V::Int(mx)]), vec![AF::Sum, AF::Min, AF::Max, AF::Count], false, true)));
    case_agg2(r, out, Some((col(vec![V::Str("b".into()), V::Str("a".into()), V::Null]), vec![AF::Min, AF::Max], false, true)));
    case_agg2(r, out, Some((col(vec![V::Str("b".into()), V::Str("a".into()), V::Null]), vec![AF::Min, AF::Max], false, false)));
    case_agg2(r, out, Some((col(vec![V::Int(1), V::Int(2), V::Int(2), V::Null]), vec![AF::Avg, AF::First, AF::Last, AF::Collect], false, true)));
    case_agg2(r, out, Some((col(vec![V::Int(1), V::Str("a".into()), V::Bool(true), V::Int(3)]), vec![AF::Sum, AF::Avg, AF::Min, AF::Max], false, false)));
    // former K11 (fixed by dfd360c, must pass now): the second NULL pushed into a typed result vector read back as 0.0 / 0
    case_agg2(r, out, Some((vec![Chunk { rows: vec![vec![V::Int(1), V::Null], vec![V::Int(2), V::Null], vec![V::Int(3), V::Int(4)], vec![V::Int(5), V::Null]], sel: None }], vec![AF::Avg, AF::Min], true, true)));
    case_agg2(r, out, Some((vec![Chunk { rows: vec![vec![V::Int(1), V::Null], vec![V::Int(2), V::Null]], sel: None }], vec![AF::Avg, AF::Max], true, false)));
    case_agg2(r, out, Some((vec![], vec![AF::Sum, AF::Avg, AF::Min, AF::Collect, AF::CountStar], false, true)));
    case_agg2(r, out, Some((vec![], vec![AF::Sum, AF::CountStar], true, true)));
    // Sort: ties keep the input order, NULLs last (first under DESC), two keys, more than one chunk
    let srow = |a: V, b: V, id: i64| vec![a, b, V::Int(id)];
    let sc = vec![
        Chunk { rows: vec![srow(V::Int(2), V::Str("b".into()), 0), srow(V::Null, V::Str("a".into()), 1), srow(V::Int(1), V::Null, 2), srow(V::Int(2), V::Str("a".into()), 3)], sel: None },
        Chunk { rows: vec![srow(V::Int(1), V::Null, 4), srow(V::Int(2), V::Str("b".into()), 5), srow(V::Int(9), V::Str("z".into()), 6)], sel: Some(vec![0, 1]) },
    ];
    for keys in [
        vec![SK { col: 0, desc: false, nulls_first: false }],
        vec![SK { col: 0, desc: true, nulls_first: false }],
        vec![SK { col: 0, desc: false, nulls_first: true }, SK { col: 1, desc: true, nulls_first: false }],
        vec![SK { col: 1, desc: false, nulls_first: false }, SK { col: 0, desc: true, nulls_first: true }],
    ] {
        case_sort(r, out, Some((sc.clone(), keys)));
    }
    // engine witnesses on a fixed table: (p0, p1, p2, p3)
    let row = |a: Option<V>, b: Option<V>| vec![a, b, None, None];
    let g = build_graph(r, Some(vec![
        row(Some(V::Int(1)), Some(V::Int(1))), row(Some(V::Int(0)), Some(V::Int(2))), row(Some(V::Int(5)), Some(f(1.0))),
        row(Some(V::Null), Some(V::Int(4607182418800017408))), row(None, Some(f(0.0))), row(Some(V::Int(5)), Some(V::Int(0))),
        row(Some(V::Bool(true)), Some(f(1.0))),
    ]));
    let eq = |c: usize, v: i64| E::Bin(Op::Eq, Box::new(E::Var(c)), lit(v));
    for l in [Lang::Gql, Lang::Cypher] {
        case_eng_stack(r, &g, out, Some((true, eq(0, 1), eq(1, 2), l)));
        case_eng_stack(r, &g, out, Some((false, eq(0, 1), eq(1, 2), l)));
        case_eng_window(&g.db, "L", "k", None, l, true, Some(2), Some(3), out);
        case_eng_window(&g.db, "L", "k", None, l, true, None, Some(1), out);
        case_eng_window(&g.db, "L", "k", None, l, false, Some(2), Some(3), out);
        case_eng_count(&g.db, "L", l, None, Some(1), out);
        case_eng_count(&g.db, "L", l, Some(3), None, out);
        case_eng_count(&g.db, "L", l, None, None, out);
        for form in 0..3 {
            case_eng_distinct(r, &g, out, Some((1, form, l)));
            case_eng_distinct(r, &g, out, Some((0, form, l)));
        }
        // arithmetic at the extremes inside a comparison: unknown, not a panic
        case_eng_part(r, &g, out, Some((E::Bin(Op::Gt, Box::new(E::Bin(Op::Add, var0(), lit(mx))), lit(0)), l)));
        case_eng_part(r, &g, out, Some((E::Bin(Op::Eq, Box::new(E::Bin(Op::Div, var0(), lit(0))), lit(1)), l)));
        case_eng_part(r, &g, out, Some((E::Bin(Op::Or, Box::new(eq(2, 1)), Box::new(E::Lit(V::Bool(true)))), l)));
    }
    // former K6 (fixed by 1879631, must pass now): zone map vs evaluator on <> with a stored NULL (own table: no M-noise nodes)
    let gz = build_graph(&mut Rng::new(7), Some(vec![vec![None, None, None, Some(V::Int(5))], vec![None, None, None, Some(V::Null)]]));
    case_eng_part(r, &gz, out, Some((E::Bin(Op::Ne, Box::new(E::Var(3)), lit(5)), Lang::Cypher)));
    // K8: range path vs evaluator
    case_eng_part(r, &g, out, Some((E::Bin(Op::Gt, var0(), Box::new(E::Lit(f(1.5)))), Lang::Cypher)));
    case_eng_part(r, &g, out, Some((E::Bin(Op::Gt, var0(), Box::new(E::Lit(V::Bool(false)))), Lang::Cypher)));
    case_eng_part(r, &g, out, Some((E::Bin(Op::Gt, var0(), lit(1)), Lang::Gql)));
    // K7
    case_eng_union(r, &g, out);
    // aggregates and ORDER BY through the sessions on the fixed table
    for l in [Lang::Gql, Lang::Cypher, Lang::Gremlin] {
        for af in [AF::Sum, AF::Avg, AF::Min, AF::Max, AF::Count, AF::Collect] {
            case_eng_agg(r, &g, out, Some((af, 1, false, l)));
        }
        case_eng_agg(r, &g, out, Some((AF::Sum, 0, l != Lang::Gremlin, l)));
        case_eng_sort(r, &g, out, Some((1, false, true, None, None, l)));
        case_eng_sort(r, &g, out, Some((1, true, false, Some(1), Some(3), l)));
    }
    let gs = build_graph(&mut Rng::new(11), Some(vec![
        vec![Some(V::Int(mx)), Some(V::Str("b".into())), Some(V::Int(3)), Some(V::Int(1))],
        vec![Some(V::Int(1)), Some(V::Str("a".into())), Some(V::Null), Some(V::Int(1))],
        vec![Some(V::Int(-7)), None, Some(V::Int(3)), Some(V::Int(0))],
        vec![None, Some(V::Str("ab".into())), Some(V::Int(1)), Some(V::Int(0))],
    ]));
    for l in [Lang::Gql, Lang::Cypher, Lang::Gremlin] {
        case_eng_agg(r, &gs, out, Some((AF::Sum, 0, false, l)));   // i64::MAX + 1 - 7
        case_eng_agg(r, &gs, out, Some((AF::Min, 1, false, l)));   // MIN of strings
        case_eng_agg(r, &gs, out, Some((AF::Max, 1, false, l)));
        case_eng_agg(r, &gs, out, Some((AF::Max, 0, false, l)));
        case_eng_agg(r, &gs, out, Some((AF::Avg, 2, false, l)));
        case_eng_sort(r, &gs, out, Some((2, false, false, None, None, l)));
        case_eng_sort(r, &gs, out, Some((2, true, true, None, Some(3), l)));
        case_eng_sort(r, &gs, out, Some((1, false, true, Some(1), None, l)));
    }
    // former K12 (a5bb467): Cypher count(expr) counted NULLs; former K11 at engine level: two groups without values
    for l in [Lang::Gql, Lang::Cypher] {
        case_eng_agg(r, &g, out, Some((AF::Count, 0, false, l)));
        case_eng_agg(r, &g, out, Some((AF::Count, 0, true, l)));
    }
    let gn = build_graph(&mut Rng::new(13), Some(vec![
        vec![None, None, Some(V::Null), Some(V::Int(1))], vec![None, None, None, Some(V::Int(2))],
        vec![None, None, Some(V::Int(4)), Some(V::Int(3))], vec![None, None, Some(V::Null), Some(V::Int(4))],
    ]));
    for l in [Lang::Gql, Lang::Cypher] {
        case_eng_agg(r, &gn, out, Some((AF::Avg, 2, true, l)));
        case_eng_agg(r, &gn, out, Some((AF::Min, 2, true, l)));
    }
    case_eng_lang(r, &g, out);
    case_eng_lang(r, &gs, out);
    for l in [Lang::Gremlin, Lang::GraphQl] {
        case_eng_window(&g.db, "L", "k", None, l, true, Some(2), Some(3), out);
        case_eng_window(&g.db, "L", "k", None, l, false, Some(2), Some(3), out);
        case_eng_window(&g.db, "L", "k", None, l, true, None, Some(1), out);
    }
    case_eng_count(&g.db, "L", Lang::Gremlin, None, None, out);
    case_eng_count(&g.db, "L", Lang::Gremlin, None, Some(1), out);
}

fn main() {
    quiet_panics();
    let a = parse_args();
    let mut out = Out::create(a.out.as_deref());
    let mut r = Rng::new(a.seed);
    let thorough = a.tier == "thorough";
    corpus(&mut r.fork(), &mut out);
    big_cases(&mut r.fork(), &mut out, thorough);
    // operator level: 60% of the cases
    let n_op = a.cases * 6 / 10;
    for i in 0..n_op {
        match i % 24 {
            0..=6 => case_eval(&mut r, &mut out, None),
            7..=9 => case_filter(&mut r, &mut out, None),
            10 | 11 => case_window(&mut r, &mut out, false, None),
            12 => case_window(&mut r, &mut out, true, None),
            13 | 14 => case_distinct(&mut r, &mut out, None),
            15 => if i % 96 == 15 { case_distinct_mod(&mut r, &mut out, None) } else { case_window(&mut r, &mut out, i % 48 == 15, None) },
            16 => case_union(&mut r, &mut out),
            17 => case_agg(&mut r, &mut out),
            18 | 20 => case_agg2(&mut r, &mut out, None),
            19 => if i % 96 == 19 { case_agg_big(&mut r, &mut out) } else { case_filter(&mut r, &mut out, None) },
            21 | 22 => case_sort(&mut r, &mut out, None),
            _ => if i % 192 == 23 { case_sort_big(&mut r, &mut out) } else if i % 96 == 47 { case_agg2_big(&mut r, &mut out) } else { case_sort(&mut r, &mut out, None) },
        }
    }
    // engine level: graphs with ~24 cases each
    let n_graphs = (a.cases - n_op) / 20;
    for _ in 0..n_graphs {
        let g = build_graph(&mut r, None);
        for _ in 0..8 {
            case_eng_part(&mut r, &g, &mut out, None);
        }
        case_eng_stack(&mut r, &g, &mut out, None);
        case_eng_stack(&mut r, &g, &mut out, None);
        case_eng_distinct(&mut r, &g, &mut out, None);
        case_eng_distinct(&mut r, &g, &mut out, None);
        let n = g.tab.len();
        for _ in 0..3 {
            let l = match r.below(6) { 0 | 1 => Lang::Gql, 2 | 3 => Lang::Cypher, 4 => Lang::Gremlin, _ => Lang::GraphQl };
            let (s, k) = (gen_small_bound(&mut r, n), gen_small_bound(&mut r, n));
            case_eng_window(&g.db, "L", "k", None, l, r.chance(1, 2), s, k, &mut out);
        }
        let l = match r.below(5) { 0 | 1 => Lang::Gql, 2 | 3 => Lang::Cypher, _ => Lang::Gremlin };
        let (s, k) = (gen_small_bound(&mut r, 2), gen_small_bound(&mut r, 2));
        case_eng_count(&g.db, "L", l, s, k, &mut out);
        case_eng_union(&mut r, &g, &mut out);
        case_eng_agg(&mut r, &g, &mut out, None);
        case_eng_agg(&mut r, &g, &mut out, None);
        case_eng_sort(&mut r, &g, &mut out, None);
        case_eng_sort(&mut r, &g, &mut out, None);
        case_eng_lang(&mut r, &g, &mut out);
    }
    out.finish();
}
