// temporary probe (replaced by the real harness)
use grafeo_common::types::Value;
use grafeo_engine::GrafeoDB;

fn show(db: &GrafeoDB, q: &str) {
    let s = db.session();
    match s.execute(q) {
        Ok(r) => {
            let n = r.rows.len();
            let head: Vec<String> = r.rows.iter().take(12).map(|row| format!("{:?}", row)).collect();
            println!("GQL  {q}\n   -> {n} rows {}", head.join(" "));
        }
        Err(e) => println!("GQL  {q}\n   -> ERR {e}"),
    }
    match s.execute_cypher(q) {
        Ok(r) => {
            let n = r.rows.len();
            let head: Vec<String> = r.rows.iter().take(12).map(|row| format!("{:?}", row)).collect();
            println!("CYP  -> {n} rows {}", head.join(" "));
        }
        Err(e) => println!("CYP  -> ERR {e}"),
    }
}

fn main() {
    let db = GrafeoDB::new_in_memory();
    for i in 0..10i64 {
        let n = db.create_node(&["L"]);
        db.set_node_property(n, "x", Value::Int64(9 - i));
        db.set_node_property(n, "a", Value::Int64(i % 2));
        db.set_node_property(n, "b", Value::Int64(i % 3));
        if i % 4 == 0 {
            db.set_node_property(n, "f", Value::Float64(0.0));
        } else if i % 4 == 1 {
            db.set_node_property(n, "f", Value::Int64(0));
        } else if i % 4 == 2 {
            db.set_node_property(n, "f", Value::Float64(1.0));
        } else {
            db.set_node_property(n, "f", Value::Int64(4607182418800017408));
        }
        if i == 3 {
            db.set_node_property(n, "nl", Value::Null);
        }
        if i == 4 {
            db.set_node_property(n, "nl", Value::Int64(5));
        }
    }
    show(&db, "MATCH (n:L) RETURN n.x blah blah");
    show(&db, "MATCH (n:L) RETURN count(n)");
    show(&db, "MATCH (n:L) RETURN count(n) LIMIT 1");
    show(&db, "MATCH (n:L) RETURN count(n) SKIP 3");
    show(&db, "MATCH (n:L) RETURN count(n) AS c SKIP 3 LIMIT 2");
    show(&db, "MATCH (n:L) RETURN n.f, count(n)");
    show(&db, "MATCH (n:L) RETURN n.a, count(n)");
    show(&db, "MATCH (n:L) RETURN n.a AS a, count(n) AS c ORDER BY a");
    show(&db, "MATCH (n:L) RETURN n.x AS x ORDER BY x SKIP 2 LIMIT 3");
    show(&db, "MATCH (n:L) RETURN n.x AS x ORDER BY x");
    show(&db, "MATCH (n:L) WITH n.x AS x RETURN x ORDER BY x SKIP 2 LIMIT 3");
    show(&db, "MATCH (n:L) WITH n ORDER BY n.x RETURN n.x SKIP 2 LIMIT 3");
    show(&db, "MATCH (n:L) RETURN n ORDER BY n.x SKIP 2 LIMIT 3");
    show(&db, "MATCH (n:L) WHERE n.x IS NULL RETURN n.x");
    show(&db, "MATCH (n:L) WHERE n.nl IS NULL RETURN n.x");
    show(&db, "MATCH (n:L) WHERE n.nl IS NOT NULL RETURN n.x");
    show(&db, "MATCH (n:L) WHERE n.x > 5 RETURN n.x");
    show(&db, "MATCH (n:L) WHERE NOT (n.x > 5) RETURN n.x");
    show(&db, "MATCH (n:L) WHERE n.x > 5 OR n.a = 0 RETURN n.x");
    show(&db, "MATCH (n:L) WHERE n.x STARTS WITH 'a' RETURN n.x");
    show(&db, "MATCH (n:L) WHERE 'abc' STARTS WITH 'a' RETURN n.x LIMIT 1");
    show(&db, "MATCH (n:L) WHERE 'abc' CONTAINS 'bc' AND 'abc' ENDS WITH 'c' RETURN n.x LIMIT 1");
    show(&db, "MATCH (n:L) WHERE n.x % 3 = 1 RETURN n.x");
    show(&db, "MATCH (n:L) WHERE -n.x < -7 RETURN n.x");
    show(&db, "MATCH (n:L) WHERE n.x * 4611686018427387904 > 0 RETURN n.x");
    show(&db, "MATCH (n:L) WHERE (n.x * 4611686018427387904 > 0) IS NULL RETURN n.x");
    show(&db, "MATCH (n:L) WHERE n.zz = 1 OR true RETURN n.x");
    show(&db, "MATCH (n:L) WHERE (n.zz = 1 OR true) IS NULL RETURN n.x");
    show(&db, "MATCH (n:L) WHERE NOT (n.zz = 1 OR true) RETURN n.x");
    show(&db, "MATCH (n:L) WHERE n.zz = 1 AND false RETURN n.x");
    show(&db, "MATCH (n:L) WHERE true RETURN count(n)");
    show(&db, "MATCH (n:L) WHERE n.x > 100 RETURN count(n)");
    show(&db, "MATCH (n:L) WITH DISTINCT n.a AS a RETURN a");
    show(&db, "MATCH (n:L) WITH DISTINCT n.a AS a, n.b AS b RETURN a, b");
    show(&db, "MATCH (n:L) RETURN n.x LIMIT 0");
    show(&db, "MATCH (n:L) RETURN n.x SKIP 20");
    show(&db, "MATCH (n:L) RETURN n.x SKIP 9");
}
