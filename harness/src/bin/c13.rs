//! C13 — RDF triple store and SPARQL core.
//!
//! (1) operation sequences on the real `RdfStore` (both configurations), every accessor after
//!     every operation, printed as a trace the Coq model replays (`chk_store`);
//! (2) generated SPARQL core queries / INSERT DATA / DELETE DATA through
//!     `GrafeoDB::execute_sparql`, printed for the engine model (`chk_select`, `chk_update`);
//!     the W3C oracle (`spec_select`, `spec_update`) and the finding classes are evaluated in
//!     Coq by checks/c13.py on the same arguments.
use grafeo_common::types::{TxId, Value};
use grafeo_core::graph::rdf::{RdfStore, RdfStoreConfig, Term, Triple, TriplePattern};
use grafeo_engine::GrafeoDB;
use gv_harness::*;
use std::collections::{BTreeMap, BTreeSet};

const XSD_STRING: &str = "http://www.w3.org/2001/XMLSchema#string";
const XSD_INTEGER: &str = "http://www.w3.org/2001/XMLSchema#integer";
const XSD_DATE: &str = "http://www.w3.org/2001/XMLSchema#date";
const RDF_LANG: &str = "http://www.w3.org/1999/02/22-rdf-syntax-ns#langString";

// ------------------------------------------------------------------------------------ terms

#[derive(Clone, PartialEq, Eq, Hash, Debug, PartialOrd, Ord)]
enum T {
    Iri(String),
    Blank(String),
    Lit(String, String, Option<String>),
}

impl T {
    fn plain(s: &str) -> T {
        T::Lit(s.into(), XSD_STRING.into(), None)
    }
    fn int(s: &str) -> T {
        T::Lit(s.into(), XSD_INTEGER.into(), None)
    }
    fn lang(s: &str, l: &str) -> T {
        T::Lit(s.into(), RDF_LANG.into(), Some(l.into()))
    }
    fn typed(s: &str, d: &str) -> T {
        T::Lit(s.into(), d.into(), None)
    }
    fn iri(s: &str) -> T {
        T::Iri(format!("http://e/{}", s))
    }
    fn to_term(&self) -> Term {
        match self {
            T::Iri(s) => Term::iri(s.as_str()),
            T::Blank(s) => Term::blank(s.as_str()),
            T::Lit(v, d, None) if d == XSD_STRING => Term::literal(v.as_str()),
            T::Lit(v, d, None) => Term::typed_literal(v.as_str(), d.as_str()),
            T::Lit(v, d, Some(l)) if d == RDF_LANG => Term::lang_literal(v.as_str(), l.as_str()),
            // a language tag with another datatype cannot be built through the public API
            T::Lit(v, _, Some(l)) => Term::lang_literal(v.as_str(), l.as_str()),
        }
    }
    fn from_term(t: &Term) -> T {
        match t {
            Term::Iri(i) => T::Iri(i.as_str().to_string()),
            Term::BlankNode(b) => T::Blank(b.id().to_string()),
            Term::Literal(l) => T::Lit(l.value().to_string(), l.datatype().to_string(), l.language().map(|x| x.to_string())),
        }
    }
    fn coq(&self) -> String {
        match self {
            T::Iri(s) => format!("(Iri {})", coq::str_bytes(s)),
            T::Blank(s) => format!("(Blank {})", coq::str_bytes(s)),
            T::Lit(v, d, None) if d == XSD_STRING => format!("(lit_plain {})", coq::str_bytes(v)),
            T::Lit(v, d, None) if d == XSD_INTEGER => format!("(lit_int {})", coq::str_bytes(v)),
            T::Lit(v, d, Some(l)) if d == RDF_LANG => format!("(lit_lang {} {})", coq::str_bytes(v), coq::str_bytes(l)),
            T::Lit(v, d, l) => format!(
                "(Lit {} {} {})",
                coq::str_bytes(v),
                coq::str_bytes(d),
                coq::opt(l.as_ref().map(|x| coq::str_bytes(x)))
            ),
        }
    }
    fn sparql(&self) -> String {
        fn esc(s: &str) -> String {
            s.replace('\\', "\\\\").replace('"', "\\\"")
        }
        match self {
            T::Iri(s) => format!("<{}>", s),
            T::Blank(s) => format!("_:{}", s),
            T::Lit(v, d, None) if d == XSD_STRING => format!("\"{}\"", esc(v)),
            T::Lit(v, d, None) => format!("\"{}\"^^<{}>", esc(v), d),
            T::Lit(v, _, Some(l)) => format!("\"{}\"@{}", esc(v), l),
        }
    }
    fn show(&self) -> String {
        match self {
            T::Iri(s) => format!("<{}>", s.trim_start_matches("http://e/")),
            T::Blank(s) => format!("_:{}", s),
            T::Lit(v, d, None) if d == XSD_STRING => format!("{:?}", v),
            T::Lit(v, d, None) => format!("{:?}^^{}", v, d.rsplit('#').next().unwrap_or(d)),
            T::Lit(v, _, Some(l)) => format!("{:?}@{}", v, l),
        }
    }
}

type IT = (usize, usize, usize);

struct Uni {
    terms: Vec<T>,
}
impl Uni {
    fn idx(&self, t: &T) -> i64 {
        self.terms.iter().position(|x| x == t).map(|x| x as i64).unwrap_or(-1)
    }
    fn triple(&self, t: IT) -> Triple {
        Triple::new_unchecked(self.terms[t.0].to_term(), self.terms[t.1].to_term(), self.terms[t.2].to_term())
    }
    fn it_of(&self, t: &Triple) -> (i64, i64, i64) {
        (self.idx(&T::from_term(t.subject())), self.idx(&T::from_term(t.predicate())), self.idx(&T::from_term(t.object())))
    }
    fn coq(&self) -> String {
        coq::list(self.terms.iter().map(|t| t.coq()))
    }
    fn show_it(&self, t: IT) -> String {
        format!("({} {} {})", self.terms[t.0].show(), self.terms[t.1].show(), self.terms[t.2].show())
    }
}

fn it_coq(t: IT) -> String {
    format!("({},{},{})", t.0, t.1, t.2)
}
fn it_coq_i(t: (i64, i64, i64)) -> String {
    format!("({},{},{})", t.0, t.1, t.2)
}
fn canon(u: &Uni, l: &[std::sync::Arc<Triple>]) -> String {
    let mut v: Vec<(i64, i64, i64)> = l.iter().map(|t| u.it_of(t)).collect();
    v.sort();
    coq::list(v.into_iter().map(it_coq_i))
}
fn canon_terms(u: &Uni, l: &[Term]) -> String {
    let mut v: Vec<i64> = l.iter().map(|t| u.idx(&T::from_term(t))).collect();
    v.sort();
    coq::list(v.into_iter().map(|x| x.to_string()))
}

// ------------------------------------------------------------------------------------ store traces

fn gen_store_universe(r: &mut Rng) -> Uni {
    // terms whose equality is delicate: same lexical form with different kind / datatype / language
    let pool: Vec<T> = vec![
        T::iri("a"), T::iri("b"), T::iri("c"), T::iri("p"), T::iri("q"), T::Iri("urn:x".into()), T::Iri("".into()),
        T::Blank("b0".into()), T::Blank("a".into()), T::Blank("".into()),
        T::plain("x"), T::plain(""), T::plain("a"), T::plain("http://e/a"), T::plain("5"), T::plain("é\u{1F600}"), T::plain("x\"y\\z"),
        T::int("5"), T::int("05"), T::int("x"),
        T::lang("x", "en"), T::lang("x", "de"), T::lang("", "en"),
        T::typed("x", RDF_LANG), T::typed("x", XSD_DATE), T::typed("5", XSD_STRING), T::typed("x", ""),
    ];
    let n = 3 + r.below(7) as usize;
    let mut terms: Vec<T> = Vec::new();
    // always some IRIs so that valid triples exist
    terms.push(T::iri("a"));
    terms.push(T::iri("p"));
    while terms.len() < n {
        let t = r.pick(&pool).clone();
        if !terms.contains(&t) {
            terms.push(t);
        }
    }
    Uni { terms }
}

fn gen_it(r: &mut Rng, u: &Uni, strict: bool) -> IT {
    let n = u.terms.len();
    if !strict {
        return (r.below(n as u64) as usize, r.below(n as u64) as usize, r.below(n as u64) as usize);
    }
    // RDF-valid positions: subject IRI/blank, predicate IRI
    let subs: Vec<usize> = (0..n).filter(|&i| !matches!(u.terms[i], T::Lit(..))).collect();
    let preds: Vec<usize> = (0..n).filter(|&i| matches!(u.terms[i], T::Iri(..))).collect();
    (*r.pick(&subs), *r.pick(&preds), r.below(n as u64) as usize)
}

fn pat_of(u: &Uni, s: Option<usize>, p: Option<usize>, o: Option<usize>) -> TriplePattern {
    TriplePattern {
        subject: s.map(|i| u.terms[i].to_term()),
        predicate: p.map(|i| u.terms[i].to_term()),
        object: o.map(|i| u.terms[i].to_term()),
    }
}

fn snapshot(u: &Uni, st: &RdfStore, probes: &[IT], txs: &[u64]) -> String {
    let stats = st.stats();
    let n = u.terms.len();
    let ws = coq::list((0..n).map(|i| canon(u, &st.triples_with_subject(&u.terms[i].to_term()))));
    let wp = coq::list((0..n).map(|i| canon(u, &st.triples_with_predicate(&u.terms[i].to_term()))));
    let wo = coq::list((0..n).map(|i| canon(u, &st.triples_with_object(&u.terms[i].to_term()))));
    let mut finds = Vec::new();
    for &(a, b, c) in probes {
        let shapes = [
            (None, None, None), (Some(a), None, None), (None, Some(b), None), (None, None, Some(c)),
            (Some(a), Some(b), None), (Some(a), None, Some(c)), (None, Some(b), Some(c)), (Some(a), Some(b), Some(c)),
        ];
        for (s, p, o) in shapes {
            finds.push(canon(u, &st.find(&pat_of(u, s, p, o))));
        }
    }
    let conts = coq::list(probes.iter().map(|&t| coq::b(st.contains(&u.triple(t)))));
    let pend = coq::list(txs.iter().map(|&tx| {
        let id = TxId::new(tx);
        let mut l = vec![canon(u, &st.find_with_pending(&pat_of(u, None, None, None), Some(id)))];
        for &(a, b, c) in probes {
            l.push(canon(u, &st.find_with_pending(&pat_of(u, Some(a), None, None), Some(id))));
            l.push(canon(u, &st.find_with_pending(&pat_of(u, Some(a), Some(b), Some(c)), Some(id))));
            l.push(canon(u, &st.find_with_pending(&pat_of(u, None, Some(b), None), None)));
        }
        format!("({}, {})", coq::b(st.has_pending_ops(id)), coq::list(l))
    }));
    format!(
        "(Snap {} {} {} {} {} {} ({},{},{},{}) {} {} {} {} {} {})",
        st.len(),
        coq::b(st.is_empty()),
        canon(u, &st.triples()),
        canon_terms(u, &st.subjects()),
        canon_terms(u, &st.predicates()),
        canon_terms(u, &st.objects()),
        stats.triple_count, stats.subject_count, stats.predicate_count, stats.object_count,
        ws, wp, wo,
        coq::list(finds),
        conts,
        pend
    )
}

#[derive(Clone, Debug)]
enum SOp {
    Insert(IT),
    Remove(IT),
    Clear,
    InsertTx(u64, IT),
    RemoveTx(u64, IT),
    Commit(u64),
    Rollback(u64),
}

fn run_store_case(r: &mut Rng, out: &mut Out, cfg: bool, u: Uni, ops: Vec<SOp>, tag: &str) {
    let st = RdfStore::with_config(RdfStoreConfig { initial_capacity: 16, index_objects: cfg });
    let mut tr: Vec<String> = Vec::new();
    let mut txs: Vec<u64> = Vec::new();
    let mut seen: BTreeSet<IT> = BTreeSet::new();
    let mut present: BTreeSet<IT> = BTreeSet::new();
    let (mut dup_ins, mut absent_rm, mut eff_rm, mut clears, mut commits) = (0, 0, 0, 0, 0);
    let mut human = Vec::new();
    // a probe of the fresh store first
    let p0 = gen_it(r, &u, true);
    tr.push(format!("(TProbe {} [], OS {})", coq::list([it_coq(p0)]), snapshot(&u, &st, &[p0], &[])));
    for op in &ops {
        let mut probe: Vec<IT> = Vec::new();
        match op {
            SOp::Insert(t) => {
                let b = st.insert(u.triple(*t));
                if present.contains(t) { dup_ins += 1; }
                present.insert(*t);
                seen.insert(*t);
                tr.push(format!("(TInsert {}, OB {})", it_coq(*t), coq::b(b)));
                human.push(format!("ins{}={}", u.show_it(*t), b));
                probe.push(*t);
            }
            SOp::Remove(t) => {
                let b = st.remove(&u.triple(*t));
                if present.remove(t) { eff_rm += 1; } else { absent_rm += 1; }
                tr.push(format!("(TRemove {}, OB {})", it_coq(*t), coq::b(b)));
                human.push(format!("rm{}={}", u.show_it(*t), b));
                probe.push(*t);
            }
            SOp::Clear => {
                st.clear();
                present.clear();
                clears += 1;
                tr.push("(TClear, OU)".to_string());
                human.push("clear".into());
            }
            SOp::InsertTx(tx, t) => {
                st.insert_in_tx(TxId::new(*tx), u.triple(*t));
                if !txs.contains(tx) { txs.push(*tx); }
                seen.insert(*t);
                tr.push(format!("(TInsertTx {} {}, OU)", tx, it_coq(*t)));
                human.push(format!("tx{}+{}", tx, u.show_it(*t)));
                probe.push(*t);
            }
            SOp::RemoveTx(tx, t) => {
                st.remove_in_tx(TxId::new(*tx), u.triple(*t));
                if !txs.contains(tx) { txs.push(*tx); }
                tr.push(format!("(TRemoveTx {} {}, OU)", tx, it_coq(*t)));
                human.push(format!("tx{}-{}", tx, u.show_it(*t)));
                probe.push(*t);
            }
            SOp::Commit(tx) => {
                let n = st.commit_tx(TxId::new(*tx));
                commits += 1;
                tr.push(format!("(TCommit {}, ON {})", tx, n));
                human.push(format!("commit{}={}", tx, n));
            }
            SOp::Rollback(tx) => {
                let n = st.rollback_tx(TxId::new(*tx));
                tr.push(format!("(TRollback {}, ON {})", tx, n));
                human.push(format!("rollback{}={}", tx, n));
            }
        }
        // every accessor after every operation
        let extra = if !seen.is_empty() && r.chance(2, 3) {
            let v: Vec<IT> = seen.iter().cloned().collect();
            *r.pick(&v)
        } else {
            gen_it(r, &u, false)
        };
        probe.push(extra);
        txs.sort();
        tr.push(format!(
            "(TProbe {} {}, OS {})",
            coq::list(probe.iter().map(|&t| it_coq(t))),
            coq::list(txs.iter().map(|t| t.to_string())),
            snapshot(&u, &st, &probe, &txs)
        ));
    }
    let args = format!("{} {} {}", coq::b(cfg), u.coq(), coq::list(tr));
    out.emit(&Case {
        kind: "store".into(),
        input: format!("cfg={} U={:?} ops={}", cfg, u.terms.iter().map(|t| t.show()).collect::<Vec<_>>(), human.join(" ")),
        coq: Some(format!("chk_store {}", args)),
        show: Some(format!("show_store {}", args)),
        oracle: Oracle::Na, // decided in Coq (oracle_store) by checks/c13.py
        nontrivial: dup_ins > 0 || eff_rm > 0 || absent_rm > 0,
        imp: format!("final len={} stats={:?}", st.len(), st.stats()),
        tags: vec![
            format!("store:{}", tag),
            format!("store:cfg={}", cfg),
            format!("store:ops={}", match ops.len() { 0 => "0", 1..=5 => "1-5", 6..=15 => "6-15", 16..=30 => "16-30", _ => "31-40" }),
            format!("store:dup-insert={}", dup_ins.min(3)),
            format!("store:absent-remove={}", absent_rm.min(3)),
            format!("store:effective-remove={}", eff_rm.min(3)),
            format!("store:clear={}", clears.min(2)),
            format!("store:commit={}", commits.min(2)),
        ],
        ..Default::default()
    });
}

fn case_store(r: &mut Rng, out: &mut Out) {
    let cfg = r.chance(1, 2);
    let u = gen_store_universe(r);
    let nops = match r.below(10) {
        0 => 1 + r.below(3),
        1 => 38 + r.below(3),
        _ => 1 + r.below(40),
    } as usize;
    // a small pool of triples so that duplicates and removals of present triples are frequent
    let strict = r.chance(3, 4);
    let pool: Vec<IT> = (0..(2 + r.below(7))).map(|_| gen_it(r, &u, strict)).collect();
    let with_tx = r.chance(1, 2);
    let mut ops = Vec::new();
    for _ in 0..nops {
        let t = if r.chance(9, 10) { *r.pick(&pool) } else { gen_it(r, &u, strict) };
        let k = r.below(100);
        let op = if k < 45 {
            SOp::Insert(t)
        } else if k < 72 {
            SOp::Remove(t)
        } else if k < 76 {
            SOp::Clear
        } else if !with_tx {
            if k < 90 { SOp::Insert(t) } else { SOp::Remove(t) }
        } else if k < 84 {
            SOp::InsertTx(1 + r.below(3), t)
        } else if k < 90 {
            SOp::RemoveTx(1 + r.below(3), t)
        } else if k < 96 {
            SOp::Commit(1 + r.below(3))
        } else {
            SOp::Rollback(1 + r.below(3))
        };
        ops.push(op);
    }
    run_store_case(r, out, cfg, u, ops, if with_tx { "random+tx" } else { "random" });
}

fn corpus_store(r: &mut Rng, out: &mut Out) {
    // the delicate equalities in one universe; insert/duplicate/remove/remove-again on each
    let u = || Uni {
        terms: vec![
            T::iri("a"), T::iri("p"), T::plain("x"), T::lang("x", "en"), T::lang("x", "de"), T::int("x"),
            T::typed("x", RDF_LANG), T::plain("http://e/a"), T::Blank("a".into()),
        ],
    };
    for cfg in [true, false] {
        let mut ops = Vec::new();
        for o in [2usize, 3, 4, 5, 6, 7, 8, 0] {
            ops.push(SOp::Insert((0, 1, o)));
            ops.push(SOp::Insert((0, 1, o)));
        }
        for o in [3usize, 3, 7, 2, 8] {
            ops.push(SOp::Remove((0, 1, o)));
        }
        ops.push(SOp::Clear);
        ops.push(SOp::Insert((8, 1, 0)));
        ops.push(SOp::Remove((0, 1, 8)));
        run_store_case(r, out, cfg, u(), ops, "corpus-equalities");
        // transaction buffers: insert then delete of the same triple in one tx, duplicate of a
        // committed triple, commit order, rollback
        let ops = vec![
            SOp::Insert((0, 1, 2)),
            SOp::InsertTx(1, (0, 1, 2)),
            SOp::InsertTx(1, (0, 1, 3)),
            SOp::RemoveTx(1, (0, 1, 3)),
            SOp::RemoveTx(2, (0, 1, 2)),
            SOp::InsertTx(2, (0, 1, 4)),
            SOp::Commit(1),
            SOp::Rollback(2),
            SOp::Commit(2),
            SOp::RemoveTx(3, (0, 1, 2)),
            SOp::InsertTx(3, (0, 1, 2)),
            SOp::Commit(3),
        ];
        run_store_case(r, out, cfg, u(), ops, "corpus-tx");
    }
}

// ------------------------------------------------------------------------------------ SPARQL core

#[derive(Clone, Debug)]
enum Pos {
    Var(usize),
    Const(T),
}
#[derive(Clone, Debug)]
struct Tp(Pos, Pos, Pos);
#[derive(Clone, Debug)]
enum Ex {
    Var(usize),
    Const(T),
    Cmp(&'static str, Box<Ex>, Box<Ex>),
    And(Box<Ex>, Box<Ex>),
    Or(Box<Ex>, Box<Ex>),
    Not(Box<Ex>),
    Bound(usize),
}
#[derive(Clone, Debug)]
enum Pat {
    Bgp(Vec<Tp>),
    Join(Box<Pat>, Box<Pat>),
    Opt(Box<Pat>, Box<Pat>, Option<Ex>),
    Filter(Ex, Box<Pat>),
    Union(Box<Pat>, Box<Pat>),
}
#[derive(Clone, Debug)]
enum Proj {
    Star,
    Vars(Vec<usize>),
    Count,
}
#[derive(Clone, Debug)]
struct Query {
    distinct: bool,
    proj: Proj,
    pat: Pat,
    order: Vec<(usize, bool)>,
    offset: Option<usize>,
    limit: Option<usize>,
}

fn pos_sparql(p: &Pos) -> String {
    match p {
        Pos::Var(v) => format!("?v{}", v),
        Pos::Const(t) => t.sparql(),
    }
}
fn pos_coq(p: &Pos, u: &Uni) -> String {
    match p {
        Pos::Var(v) => format!("(TVar {})", coq::nat(*v)),
        Pos::Const(t) => format!("(TConst (un U {}))", u.idx(t)),
    }
}
fn tps_sparql(tps: &[Tp]) -> String {
    tps.iter().map(|t| format!("{} {} {}", pos_sparql(&t.0), pos_sparql(&t.1), pos_sparql(&t.2))).collect::<Vec<_>>().join(" . ")
}
fn ex_sparql(e: &Ex) -> String {
    match e {
        Ex::Var(v) => format!("?v{}", v),
        Ex::Const(t) => t.sparql(),
        Ex::Cmp(o, a, b) => format!("({} {} {})", ex_sparql(a), o, ex_sparql(b)),
        Ex::And(a, b) => format!("({} && {})", ex_sparql(a), ex_sparql(b)),
        Ex::Or(a, b) => format!("({} || {})", ex_sparql(a), ex_sparql(b)),
        Ex::Not(a) => format!("(!{})", ex_sparql(a)),
        Ex::Bound(v) => format!("BOUND(?v{})", v),
    }
}
fn ex_coq(e: &Ex, u: &Uni) -> String {
    match e {
        Ex::Var(v) => format!("(EVar {})", coq::nat(*v)),
        Ex::Const(t) => format!("(EConst (un U {}))", u.idx(t)),
        Ex::Cmp(o, a, b) => {
            let c = match *o { "=" => "CEq", "!=" => "CNe", "<" => "CLt", "<=" => "CLe", ">" => "CGt", _ => "CGe" };
            format!("(ECmp {} {} {})", c, ex_coq(a, u), ex_coq(b, u))
        }
        Ex::And(a, b) => format!("(EAnd {} {})", ex_coq(a, u), ex_coq(b, u)),
        Ex::Or(a, b) => format!("(EOr {} {})", ex_coq(a, u), ex_coq(b, u)),
        Ex::Not(a) => format!("(ENot {})", ex_coq(a, u)),
        Ex::Bound(v) => format!("(EBound {})", coq::nat(*v)),
    }
}
fn paren(e: &Ex) -> String {
    let s = ex_sparql(e);
    if s.starts_with('(') { s } else { format!("({})", s) }
}
/// canonical rendering: every sub-pattern is its own group; a BGP is inlined (and a filter put
/// before or after it) where that is equivalent both for the W3C translation and for the
/// translator.  Never a '.' after '}' (the parser does not terminate on it).
fn group(p: &Pat, r: &mut Rng) -> String {
    match p {
        Pat::Bgp(tps) => format!("{{ {} }}", tps_sparql(tps)),
        Pat::Join(a, b) => format!("{{ {} {} }}", group(a, r), group(b, r)),
        Pat::Union(a, b) => format!("{{ {} UNION {} }}", group(a, r), group(b, r)),
        Pat::Opt(a, b, c) => {
            let left = match &**a {
                Pat::Bgp(tps) if r.chance(2, 3) => tps_sparql(tps),
                _ => group(a, r),
            };
            let inner = match (&**b, c) {
                (Pat::Bgp(tps), None) => format!("{{ {} }}", tps_sparql(tps)),
                (Pat::Bgp(tps), Some(e)) if r.chance(2, 3) => format!("{{ {} FILTER{} }}", tps_sparql(tps), paren(e)),
                (_, None) => group(b, r),
                (_, Some(e)) => format!("{{ {} FILTER{} }}", group(b, r), paren(e)),
            };
            format!("{{ {} OPTIONAL {} }}", left, inner)
        }
        Pat::Filter(e, a) => match &**a {
            // two FILTERs of one group (the translator combines them with AND)
            Pat::Filter(e1, inner) if matches!(&**inner, Pat::Bgp(_)) && r.chance(1, 2) => {
                if let Pat::Bgp(tps) = &**inner {
                    if r.chance(1, 3) {
                        format!("{{ FILTER{} {} FILTER{} }}", paren(e1), tps_sparql(tps), paren(e))
                    } else {
                        format!("{{ {} FILTER{} FILTER{} }}", tps_sparql(tps), paren(e1), paren(e))
                    }
                } else {
                    unreachable!()
                }
            }
            Pat::Bgp(tps) if r.chance(2, 3) => {
                if r.chance(1, 4) {
                    format!("{{ FILTER{} {} }}", paren(e), tps_sparql(tps))
                } else {
                    format!("{{ {} FILTER{} }}", tps_sparql(tps), paren(e))
                }
            }
            _ => format!("{{ {} FILTER{} }}", group(a, r), paren(e)),
        },
    }
}
fn pat_coq(p: &Pat, u: &Uni) -> String {
    match p {
        Pat::Bgp(tps) => format!(
            "(PBgp {})",
            coq::list(tps.iter().map(|t| format!("(TPat {} {} {})", pos_coq(&t.0, u), pos_coq(&t.1, u), pos_coq(&t.2, u))))
        ),
        Pat::Join(a, b) => format!("(PJoin {} {})", pat_coq(a, u), pat_coq(b, u)),
        Pat::Union(a, b) => format!("(PUnion {} {})", pat_coq(a, u), pat_coq(b, u)),
        Pat::Opt(a, b, c) => format!("(POpt {} {} {})", pat_coq(a, u), pat_coq(b, u), coq::opt(c.as_ref().map(|e| ex_coq(e, u)))),
        Pat::Filter(e, a) => format!("(PFilter {} {})", ex_coq(e, u), pat_coq(a, u)),
    }
}
fn query_sparql(q: &Query, r: &mut Rng) -> String {
    let mut s = String::from("SELECT ");
    if q.distinct {
        s.push_str("DISTINCT ");
    }
    match &q.proj {
        Proj::Star => s.push('*'),
        Proj::Vars(vs) => s.push_str(&vs.iter().map(|v| format!("?v{}", v)).collect::<Vec<_>>().join(" ")),
        Proj::Count => s.push_str("(COUNT(*) AS ?c)"),
    }
    s.push_str(" WHERE ");
    s.push_str(&group(&q.pat, r));
    if !q.order.is_empty() {
        s.push_str(" ORDER BY");
        for (v, d) in &q.order {
            if *d { s.push_str(&format!(" DESC(?v{})", v)); } else { s.push_str(&format!(" ?v{}", v)); }
        }
    }
    // both orders of the two clauses are legal
    match (q.limit, q.offset) {
        (Some(l), Some(o)) => {
            if r.chance(1, 2) { s.push_str(&format!(" LIMIT {} OFFSET {}", l, o)); } else { s.push_str(&format!(" OFFSET {} LIMIT {}", o, l)); }
        }
        (Some(l), None) => s.push_str(&format!(" LIMIT {}", l)),
        (None, Some(o)) => s.push_str(&format!(" OFFSET {}", o)),
        _ => {}
    }
    s
}
fn query_coq(q: &Query, u: &Uni) -> String {
    let proj = match &q.proj {
        Proj::Star => "ProjStar".to_string(),
        Proj::Vars(vs) => format!("(ProjVars {})", coq::list(vs.iter().map(|v| coq::nat(*v)))),
        Proj::Count => "ProjCount".to_string(),
    };
    format!(
        "(Query {} {} {} {} {} {})",
        coq::b(q.distinct),
        proj,
        pat_coq(&q.pat, u),
        coq::list(q.order.iter().map(|(v, d)| format!("({}, {})", coq::nat(*v), coq::b(*d)))),
        coq::opt(q.offset.map(coq::nat)),
        coq::opt(q.limit.map(coq::nat))
    )
}

fn add_var(v: usize, acc: &mut Vec<usize>) {
    if !acc.contains(&v) { acc.push(v); }
}
fn pat_vars(p: &Pat, acc: &mut Vec<usize>) {
    match p {
        Pat::Bgp(tps) => {
            for t in tps {
                for q in [&t.0, &t.1, &t.2] {
                    if let Pos::Var(v) = q { add_var(*v, acc); }
                }
            }
        }
        Pat::Join(a, b) | Pat::Union(a, b) | Pat::Opt(a, b, _) => {
            pat_vars(a, acc);
            pat_vars(b, acc);
        }
        Pat::Filter(_, a) => pat_vars(a, acc),
    }
}
fn ex_consts(e: &Ex, acc: &mut Vec<T>) {
    match e {
        Ex::Const(t) => acc.push(t.clone()),
        Ex::Cmp(_, a, b) | Ex::And(a, b) | Ex::Or(a, b) => {
            ex_consts(a, acc);
            ex_consts(b, acc);
        }
        Ex::Not(a) => ex_consts(a, acc),
        _ => {}
    }
}
fn pat_consts(p: &Pat, acc: &mut Vec<T>) {
    match p {
        Pat::Bgp(tps) => {
            for t in tps {
                for q in [&t.0, &t.1, &t.2] {
                    if let Pos::Const(c) = q { acc.push(c.clone()); }
                }
            }
        }
        Pat::Join(a, b) | Pat::Union(a, b) => {
            pat_consts(a, acc);
            pat_consts(b, acc);
        }
        Pat::Opt(a, b, c) => {
            pat_consts(a, acc);
            pat_consts(b, acc);
            if let Some(e) = c { ex_consts(e, acc); }
        }
        Pat::Filter(e, a) => {
            ex_consts(e, acc);
            pat_consts(a, acc);
        }
    }
}
fn collect_tps<'a>(p: &'a Pat, acc: &mut Vec<&'a Tp>) {
    match p {
        Pat::Bgp(t) => acc.extend(t.iter()),
        Pat::Join(a, b) | Pat::Union(a, b) | Pat::Opt(a, b, _) => {
            collect_tps(a, acc);
            collect_tps(b, acc);
        }
        Pat::Filter(_, a) => collect_tps(a, acc),
    }
}
fn count_tps(p: &Pat) -> usize {
    let mut v = Vec::new();
    collect_tps(p, &mut v);
    v.len()
}
/// some variable occurs in two triple patterns
fn shares_var(p: &Pat) -> bool {
    let mut v = Vec::new();
    collect_tps(p, &mut v);
    let mut seen: BTreeMap<usize, usize> = BTreeMap::new();
    for (i, t) in v.iter().enumerate() {
        for q in [&t.0, &t.1, &t.2] {
            if let Pos::Var(x) = q {
                if let Some(&j) = seen.get(x) {
                    if j != i { return true; }
                } else {
                    seen.insert(*x, i);
                }
            }
        }
    }
    false
}

/// data profiles: "clean" = renderings are injective and literals are plain words or canonical
/// integers (the implementation agrees with W3C on much of this); "dirty" = everything
struct Data {
    subs: Vec<T>,
    preds: Vec<T>,
    objs: Vec<T>,
    triples: Vec<(T, T, T)>,
    clean: bool,
}
fn gen_data(r: &mut Rng, clean: bool) -> Data {
    let subs: Vec<T> = if clean {
        vec![T::iri("a"), T::iri("b"), T::iri("c"), T::iri("d"), T::Blank("k".into())]
    } else {
        vec![T::iri("a"), T::iri("b"), T::iri("c"), T::Blank("k".into()), T::Blank("m".into())]
    };
    let preds = vec![T::iri("p"), T::iri("q"), T::iri("n")];
    let lits: Vec<T> = if clean {
        if r.chance(1, 2) {
            vec![T::plain("x"), T::plain("y"), T::plain("apple"), T::plain("Bob")]
        } else {
            vec![T::int("5"), T::int("7"), T::int("12"), T::int("-3"), T::int("0")]
        }
    } else {
        vec![
            T::plain("x"), T::plain("y"), T::lang("x", "en"), T::lang("x", "de"), T::int("5"), T::int("12"), T::plain("5"),
            T::int("007"), T::int("+5"), T::typed("x", XSD_DATE), T::plain("http://e/a"), T::plain("_:k"), T::int("-3"), T::plain("10"),
        ]
    };
    let n = match r.below(12) { 0 => 0, 1 => 1, _ => 2 + r.below(9) } as usize;
    let mut triples: Vec<(T, T, T)> = Vec::new();
    for _ in 0..n {
        let s = r.pick(&subs).clone();
        let p = r.pick(&preds).clone();
        // p and q link resources, n (and sometimes q) carries literals
        let o = if p == T::iri("n") || (p == T::iri("q") && r.chance(1, 2)) { r.pick(&lits).clone() } else { r.pick(&subs).clone() };
        if !triples.contains(&(s.clone(), p.clone(), o.clone())) {
            triples.push((s, p, o));
        }
    }
    let mut objs = subs.clone();
    objs.extend(lits);
    Data { subs, preds, objs, triples, clean }
}

struct Gen<'a> {
    r: &'a mut Rng,
    d: &'a Data,
    nvars: usize,
}
impl<'a> Gen<'a> {
    fn fresh(&mut self) -> usize {
        let v = self.nvars;
        self.nvars += 1;
        v
    }
    /// one position of a triple pattern
    fn pos(&mut self, used: &mut Vec<usize>, local: &mut Vec<usize>, allow_repvar: bool, cands: &[T], anchor: Option<T>, var_p: u64) -> Pos {
        if self.r.chance(var_p, 100) {
            let reuse: Vec<usize> = used.iter().cloned().filter(|v| allow_repvar || !local.contains(v)).collect();
            let v = if !reuse.is_empty() && self.r.chance(55, 100) { *self.r.pick(&reuse) } else { self.fresh() };
            local.push(v);
            add_var(v, used);
            return Pos::Var(v);
        }
        let c = match anchor {
            Some(t) if self.r.chance(3, 4) => t,
            _ => self.r.pick(cands).clone(),
        };
        // a blank node written in a query is a variable, not a constant: never emitted as one
        if matches!(c, T::Blank(_)) {
            let v = self.fresh();
            local.push(v);
            add_var(v, used);
            Pos::Var(v)
        } else {
            Pos::Const(c)
        }
    }
    /// one triple pattern; `used` = variables already in scope (reused to force joins)
    fn tp(&mut self, used: &mut Vec<usize>, allow_repvar: bool) -> Tp {
        let d = self.d;
        let anchor = if d.triples.is_empty() { None } else { Some(self.r.pick(&d.triples).clone()) };
        let mut local: Vec<usize> = Vec::new();
        let s = self.pos(used, &mut local, allow_repvar, &d.subs, anchor.as_ref().map(|t| t.0.clone()), 75);
        let p = self.pos(used, &mut local, allow_repvar, &d.preds, anchor.as_ref().map(|t| t.1.clone()), 15);
        let o = self.pos(used, &mut local, allow_repvar, &d.objs, anchor.as_ref().map(|t| t.2.clone()), 70);
        Tp(s, p, o)
    }
    fn bgp(&mut self, used: &mut Vec<usize>, n: usize, allow_repvar: bool) -> Pat {
        let mut tps: Vec<Tp> = (0..n).map(|_| self.tp(used, allow_repvar)).collect();
        // a join on two shared variables: the same subject and object variables under another predicate
        if n >= 2 && self.r.chance(1, 4) {
            if let (Pos::Var(a), Pos::Var(b)) = (tps[0].0.clone(), tps[0].2.clone()) {
                if a != b {
                    let p = self.r.pick(&self.d.preds).clone();
                    let swap = self.r.chance(1, 4);
                    tps[1] = if swap { Tp(Pos::Var(b), Pos::Const(p), Pos::Var(a)) } else { Tp(Pos::Var(a), Pos::Const(p), Pos::Var(b)) };
                }
            }
        }
        Pat::Bgp(tps)
    }
    fn constant_for_filter(&mut self) -> T {
        let c = self.r.pick(&self.d.objs).clone();
        match c {
            T::Blank(_) => T::iri("a"),
            x => x,
        }
    }
    fn cmp(&mut self, vars: &[usize], ops: &[&'static str]) -> Ex {
        let v = *self.r.pick(vars);
        let op = *self.r.pick(ops);
        let rhs = if vars.len() > 1 && self.r.chance(1, 4) { Ex::Var(*self.r.pick(vars)) } else { Ex::Const(self.constant_for_filter()) };
        if self.r.chance(1, 8) { Ex::Cmp(op, Box::new(rhs), Box::new(Ex::Var(v))) } else { Ex::Cmp(op, Box::new(Ex::Var(v)), Box::new(rhs)) }
    }
    fn expr(&mut self, vars: &[usize], depth: u32) -> Ex {
        let all: [&'static str; 6] = ["=", "!=", "<", "<=", ">", ">="];
        let k = self.r.below(if depth == 0 { 10 } else { 7 });
        match k {
            0..=5 => self.cmp(vars, &all),
            6 => Ex::Cmp("=", Box::new(Ex::Var(*self.r.pick(vars))), Box::new(Ex::Const(self.constant_for_filter()))),
            7 => Ex::And(Box::new(self.expr(vars, depth + 1)), Box::new(self.expr(vars, depth + 1))),
            8 => Ex::Or(Box::new(self.expr(vars, depth + 1)), Box::new(self.expr(vars, depth + 1))),
            _ => {
                if self.r.chance(1, 2) {
                    Ex::Not(Box::new(self.expr(vars, depth + 1)))
                } else {
                    let b = Ex::Bound(*self.r.pick(vars));
                    if self.r.chance(1, 2) { Ex::Not(Box::new(b)) } else { b }
                }
            }
        }
    }
    /// the same pattern with other constants (a UNION branch with identical columns)
    fn rename_consts(&mut self, p: &Pat) -> Pat {
        let d = self.d;
        match p {
            Pat::Bgp(tps) => {
                let mut v = Vec::new();
                for t in tps {
                    let mut f = |q: &Pos, cands: &[T]| match q {
                        Pos::Var(x) => Pos::Var(*x),
                        Pos::Const(c) => {
                            let n = self.r.pick(cands).clone();
                            if matches!(n, T::Blank(_)) { Pos::Const(c.clone()) } else { Pos::Const(n) }
                        }
                    };
                    let a = f(&t.0, &d.subs);
                    let b = f(&t.1, &d.preds);
                    let c = f(&t.2, &d.objs);
                    v.push(Tp(a, b, c));
                }
                Pat::Bgp(v)
            }
            other => other.clone(),
        }
    }
}

fn vars_of(p: &Pat) -> Vec<usize> {
    let mut v = Vec::new();
    pat_vars(p, &mut v);
    v
}
fn pick_vars(r: &mut Rng, vs: &[usize]) -> Vec<usize> {
    let mut sel: Vec<usize> = Vec::new();
    for v in vs {
        if r.chance(3, 5) { sel.push(*v); }
    }
    if sel.is_empty() && !vs.is_empty() { sel.push(*r.pick(vs)); }
    // projection order is free
    if r.chance(1, 3) { sel.reverse(); }
    sel
}

/// a query of one of the shapes of the core
fn gen_query(r: &mut Rng, d: &Data, shape: &str) -> (Query, usize) {
    let mut g = Gen { r, d, nvars: 0 };
    let mut used: Vec<usize> = Vec::new();
    let allow_repvar = !d.clean && g.r.chance(1, 12);
    let nt = 1 + g.r.below(3) as usize;
    let base = g.bgp(&mut used, nt, allow_repvar);
    let pat = match shape {
        "bgp" | "distinct" | "order" | "count" => base,
        "filter" => {
            let vs = vars_of(&base);
            if vs.is_empty() { base } else {
                let e = g.expr(&vs, 0);
                let f = Pat::Filter(e, Box::new(base));
                if g.r.chance(1, 5) {
                    let e2 = g.expr(&vs, 1);
                    Pat::Filter(e2, Box::new(f))
                } else {
                    f
                }
            }
        }
        "optional" => {
            // well-designed: the optional part shares variables with the mandatory part only
            let mut inner_used = used.clone();
            let nr = 1 + g.r.below(2) as usize;
            let right = g.bgp(&mut inner_used, nr, false);
            let cond = if g.r.chance(1, 4) {
                let vs = if d.clean { vars_of(&right) } else { inner_used.clone() };
                if vs.is_empty() { None } else { Some(g.expr(&vs, 1)) }
            } else {
                None
            };
            let mut p = Pat::Opt(Box::new(base), Box::new(right), cond);
            if g.r.chance(1, 4) {
                let mut u2 = used.clone();
                let right2 = g.bgp(&mut u2, 1, false);
                p = Pat::Opt(Box::new(p), Box::new(right2), None);
            }
            if g.r.chance(1, 4) {
                let vs = vars_of(&p);
                if !vs.is_empty() {
                    let e = g.expr(&vs, 1);
                    p = Pat::Filter(e, Box::new(p));
                }
            }
            p
        }
        "union" => {
            // the second branch: same variables in the same positions (clean), or anything
            let second = if d.clean || g.r.chance(2, 3) {
                g.rename_consts(&base)
            } else {
                let mut u2: Vec<usize> = if g.r.chance(1, 2) { used.clone() } else { Vec::new() };
                let n2 = 1 + g.r.below(2) as usize;
                g.bgp(&mut u2, n2, false)
            };
            let mut p = Pat::Union(Box::new(base), Box::new(second));
            if g.r.chance(1, 4) {
                let mut u3 = vars_of(&p);
                let third = g.bgp(&mut u3, 1, false);
                p = Pat::Join(Box::new(p), Box::new(third));
            }
            if g.r.chance(1, 5) {
                let vs = vars_of(&p);
                if !vs.is_empty() {
                    let e = g.expr(&vs, 1);
                    p = Pat::Filter(e, Box::new(p));
                }
            }
            p
        }
        _ => {
            // "join": a group of two groups
            let mut u2 = used.clone();
            let n2 = 1 + g.r.below(2) as usize;
            let right = g.bgp(&mut u2, n2, false);
            Pat::Join(Box::new(base), Box::new(right))
        }
    };
    let mut q = Query { distinct: false, proj: Proj::Star, pat, order: vec![], offset: None, limit: None };
    let vs = vars_of(&q.pat);
    q.proj = if shape == "count" {
        Proj::Count
    } else if vs.is_empty() || g.r.chance(1, 3) {
        Proj::Star
    } else {
        Proj::Vars(pick_vars(g.r, &vs))
    };
    if shape == "distinct" || (shape != "count" && g.r.chance(1, 8)) {
        q.distinct = true;
        if let Proj::Star = q.proj {
            if !vs.is_empty() && g.r.chance(2, 3) { q.proj = Proj::Vars(pick_vars(g.r, &vs)); }
        }
    }
    if shape == "order" || (shape != "count" && !vs.is_empty() && g.r.chance(1, 8)) {
        // a total key: every projected variable is a key (in any order, any direction)
        let projected: Vec<usize> = match &q.proj { Proj::Vars(v) => v.clone(), _ => vs.clone() };
        let mut keys: Vec<usize> = Vec::new();
        for k in &projected { add_var(*k, &mut keys); }
        if g.r.chance(1, 2) { keys.reverse(); }
        if g.r.chance(1, 4) {
            // an extra leading key that is not projected
            if let Some(x) = vs.iter().find(|x| !projected.contains(x)) { keys.insert(0, *x); }
        }
        q.order = keys.into_iter().map(|k| (k, g.r.chance(1, 3))).collect();
        if !q.order.is_empty() {
            if g.r.chance(2, 3) { q.limit = Some(g.r.below(6) as usize); }
            if g.r.chance(1, 3) { q.offset = Some(g.r.below(4) as usize); }
        }
    }
    if shape == "count" && g.r.chance(1, 10) {
        q.limit = Some(g.r.below(2) as usize);
    }
    let n = g.nvars;
    (q, n)
}

struct Strs {
    v: Vec<String>,
}
impl Strs {
    fn idx(&mut self, s: &str) -> usize {
        if let Some(i) = self.v.iter().position(|x| x == s) {
            i
        } else {
            self.v.push(s.to_string());
            self.v.len() - 1
        }
    }
}

fn universe_for(d: &Data, extra: &[T]) -> Uni {
    let mut terms: Vec<T> = Vec::new();
    for (s, p, o) in &d.triples {
        for t in [s, p, o] {
            if !terms.contains(t) { terms.push(t.clone()); }
        }
    }
    for t in extra {
        if !terms.contains(t) { terms.push(t.clone()); }
    }
    Uni { terms }
}

fn load(d: &Data) -> GrafeoDB {
    let db = GrafeoDB::new_in_memory();
    for (s, p, o) in &d.triples {
        db.rdf_store().insert(Triple::new_unchecked(s.to_term(), p.to_term(), o.to_term()));
    }
    db
}
fn data_show(d: &Data) -> String {
    d.triples.iter().map(|(s, p, o)| format!("{} {} {}", s.show(), p.show(), o.show())).collect::<Vec<_>>().join(" . ")
}

fn run_select_case(r: &mut Rng, out: &mut Out, d: &Data, q: &Query, nvars: usize, tag: &str) {
    let mut consts = Vec::new();
    pat_consts(&q.pat, &mut consts);
    let u = universe_for(d, &consts);
    let text = query_sparql(q, r);
    let db = load(d);
    let order: Vec<(i64, i64, i64)> = db.rdf_store().triples().iter().map(|t| u.it_of(t)).collect();
    let db2 = std::panic::AssertUnwindSafe(&db);
    let t2 = text.clone();
    let res = catch(move || db2.execute_sparql(&t2));
    let mut strs = Strs { v: Vec::new() };
    let (obs, imp) = match &res {
        Err(m) => ("QErr".to_string(), format!("PANIC {}", m)),
        Ok(Err(e)) => ("QErr".to_string(), format!("error {:?}", e).chars().take(160).collect()),
        Ok(Ok(qr)) => {
            let cols: Vec<String> = qr
                .columns
                .iter()
                .map(|c| {
                    if c == "c" {
                        "1000".to_string()
                    } else if let Some(n) = c.strip_prefix('v').and_then(|x| x.parse::<usize>().ok()) {
                        n.to_string()
                    } else {
                        "(-1)".to_string()
                    }
                })
                .collect();
            let rows = coq::list(qr.rows.iter().map(|row| {
                coq::list(row.iter().map(|v| match v {
                    Value::Null => "XN".to_string(),
                    Value::String(s) => format!("XS {}", strs.idx(s.as_ref())),
                    Value::Int64(n) => format!("XI ({})", n),
                    other => format!("XS {}", strs.idx(&format!("?{:?}", other))),
                }))
            }));
            (
                format!("(QRows {} {})", coq::list(cols), rows),
                format!("cols={:?} rows={}", qr.columns, qr.rows.iter().take(12).map(|r| format!("{:?}", r)).collect::<Vec<_>>().join(" ")),
            )
        }
    };
    let panicked = res.is_err();
    let rows_tag = match &res {
        Ok(Ok(qr)) => match qr.rows.len() { 0 => "0", 1 => "1", 2..=5 => "2-5", 6..=20 => "6-20", _ => "21+" },
        Ok(Err(_)) => "error",
        Err(_) => "panic",
    };
    let ds = coq::list(d.triples.iter().map(|(s, p, o)| it_coq_i((u.idx(s), u.idx(p), u.idx(o)))));
    let args = format!(
        "{} U {} {} {} {} {}",
        coq::nat(nvars),
        coq::list(strs.v.iter().map(|s| coq::str_bytes(s))),
        ds,
        coq::list(order.into_iter().map(it_coq_i)),
        query_coq(q, &u),
        obs
    );
    let wrap = |f: &str| format!("let U := {} in {} {}", u.coq(), f, args);
    let nt = count_tps(&q.pat) >= 2 && shares_var(&q.pat);
    out.emit(&Case {
        kind: "select".into(),
        input: format!("data=[{}] query={}", data_show(d), text),
        coq: Some(wrap("chk_select")),
        show: Some(wrap("show_select")),
        oracle: if panicked { Oracle::Fail } else { Oracle::Na },
        msg: if panicked { "execute_sparql panicked".into() } else { String::new() },
        nontrivial: nt,
        imp,
        tags: vec![
            format!("sparql:{}", tag),
            format!("sparql:data={}", if d.clean { "clean" } else { "dirty" }),
            format!("sparql:patterns={}", count_tps(&q.pat).min(5)),
            format!("sparql:triples={}", match d.triples.len() { 0 => "0", 1 => "1", 2..=5 => "2-5", _ => "6-10" }),
            format!("sparql:rows={}", rows_tag),
        ],
        ..Default::default()
    });
}

fn case_select(r: &mut Rng, out: &mut Out, i: usize) {
    let clean = r.chance(3, 5);
    let d = gen_data(r, clean);
    let shapes = ["bgp", "join", "filter", "optional", "union", "distinct", "order", "count", "filter", "optional"];
    let shape = shapes[i % shapes.len()];
    let (q, n) = gen_query(r, &d, shape);
    run_select_case(r, out, &d, &q, n, shape);
}

fn run_update_case(out: &mut Out, d: &Data, ts: &[(T, T, T)], ins: bool, tag: &str) {
    let mut extra = Vec::new();
    for (s, p, o) in ts {
        extra.push(s.clone());
        extra.push(p.clone());
        extra.push(o.clone());
    }
    let mut u = universe_for(d, &extra);
    let text = format!(
        "{} DATA {{ {} }}",
        if ins { "INSERT" } else { "DELETE" },
        ts.iter().map(|(s, p, o)| format!("{} {} {}", s.sparql(), p.sparql(), o.sparql())).collect::<Vec<_>>().join(" . ")
    );
    let db = load(d);
    let db2 = std::panic::AssertUnwindSafe(&db);
    let t2 = text.clone();
    let res = catch(move || db2.execute_sparql(&t2));
    let ok = matches!(res, Ok(Ok(_)));
    let after = db.rdf_store().triples();
    // what the triples became in the store (lexical form kept, datatype/language possibly not)
    for t in &after {
        for x in [t.subject(), t.predicate(), t.object()] {
            let tt = T::from_term(x);
            if !u.terms.contains(&tt) { u.terms.push(tt); }
        }
    }
    let ds = coq::list(d.triples.iter().map(|(s, p, o)| it_coq_i((u.idx(s), u.idx(p), u.idx(o)))));
    let uts = coq::list(ts.iter().map(|(s, p, o)| it_coq_i((u.idx(s), u.idx(p), u.idx(o)))));
    let args = format!("{} {} {} {} {} {}", u.coq(), ds, uts, coq::b(ins), coq::b(ok), canon(&u, &after));
    out.emit(&Case {
        kind: "update".into(),
        input: format!("data=[{}] update={}", data_show(d), text),
        coq: Some(format!("chk_update {}", args)),
        oracle: if res.is_err() { Oracle::Fail } else { Oracle::Na },
        msg: if res.is_err() { "execute_sparql panicked".into() } else { String::new() },
        nontrivial: ts.iter().any(|t| d.triples.contains(t)) || ts.len() > 1,
        imp: format!("ok={} len={}", ok, after.len()),
        tags: vec![format!("sparql:update-{}", tag), format!("sparql:data={}", if d.clean { "clean" } else { "dirty" })],
        ..Default::default()
    });
}

fn case_update(r: &mut Rng, out: &mut Out) {
    let clean = r.chance(3, 5);
    let d = gen_data(r, clean);
    let ins = r.chance(1, 2);
    let n = 1 + r.below(3) as usize;
    let mut ts = Vec::new();
    for _ in 0..n {
        let t = if !d.triples.is_empty() && r.chance(1, 2) {
            r.pick(&d.triples).clone()
        } else {
            (r.pick(&d.subs).clone(), r.pick(&d.preds).clone(), r.pick(&d.objs).clone())
        };
        // blank nodes are legal in INSERT DATA only; kept out of the clean profile
        let has_blank = matches!(t.0, T::Blank(_)) || matches!(t.2, T::Blank(_));
        if has_blank && (!ins || d.clean) { continue; }
        ts.push(t);
    }
    if ts.is_empty() {
        ts.push((T::iri("a"), T::iri("p"), T::iri("b")));
    }
    run_update_case(out, &d, &ts, ins, if ins { "insert" } else { "delete" });
}

/// the witnesses of the listed findings (and well-behaved neighbours)
fn corpus_sparql(r: &mut Rng, out: &mut Out) {
    let a = T::iri("a");
    let b = T::iri("b");
    let c = T::iri("c");
    let p = T::iri("p");
    let q = T::iri("q");
    let n = T::iri("n");
    let v = |i: usize| Pos::Var(i);
    let k = |t: &T| Pos::Const(t.clone());
    let sel = |pat: Pat, proj: Proj| Query { distinct: false, proj, pat, order: vec![], offset: None, limit: None };
    let data = |ts: Vec<(T, T, T)>, clean: bool| Data {
        subs: vec![a.clone(), b.clone(), c.clone()],
        preds: vec![p.clone(), q.clone(), n.clone()],
        objs: vec![a.clone()],
        triples: ts,
        clean,
    };
    // S1 DISTINCT
    let d1 = data(vec![(a.clone(), p.clone(), b.clone()), (a.clone(), p.clone(), c.clone()), (b.clone(), p.clone(), c.clone())], true);
    let mut q1 = sel(Pat::Bgp(vec![Tp(v(0), k(&p), v(1))]), Proj::Vars(vec![0]));
    q1.distinct = true;
    run_select_case(r, out, &d1, &q1, 2, "corpus-S1-distinct");
    // a join on two shared variables (well-behaved): only (a, b) satisfies both patterns
    let dj = data(
        vec![(a.clone(), p.clone(), b.clone()), (a.clone(), q.clone(), b.clone()), (a.clone(), q.clone(), c.clone()), (c.clone(), p.clone(), b.clone())],
        true,
    );
    run_select_case(r, out, &dj, &sel(Pat::Bgp(vec![Tp(v(0), k(&p), v(1)), Tp(v(0), k(&q), v(1))]), Proj::Star), 2, "corpus-join2");
    run_select_case(
        r, out, &dj,
        &sel(Pat::Join(Box::new(Pat::Bgp(vec![Tp(v(0), k(&p), v(1))])), Box::new(Pat::Bgp(vec![Tp(v(1), k(&q), v(0))]))), Proj::Vars(vec![1, 0])),
        2, "corpus-join2",
    );
    // S2 repeated variable in one triple pattern
    let d2 = data(vec![(a.clone(), p.clone(), a.clone()), (a.clone(), p.clone(), b.clone())], true);
    run_select_case(r, out, &d2, &sel(Pat::Bgp(vec![Tp(v(0), k(&p), v(0))]), Proj::Star), 1, "corpus-S2-repvar");
    // S3 rendering: "x" joins "x"@en; a literal spelled like an IRI joins the IRI
    let d3 = data(
        vec![
            (a.clone(), q.clone(), T::plain("x")),
            (b.clone(), q.clone(), T::lang("x", "en")),
            (c.clone(), n.clone(), T::plain("http://e/a")),
            (a.clone(), p.clone(), b.clone()),
        ],
        false,
    );
    run_select_case(r, out, &d3, &sel(Pat::Bgp(vec![Tp(v(0), k(&q), v(1)), Tp(v(2), k(&q), v(1))]), Proj::Vars(vec![0, 2])), 3, "corpus-S3-render");
    run_select_case(r, out, &d3, &sel(Pat::Bgp(vec![Tp(v(0), k(&n), v(1)), Tp(v(1), k(&p), v(2))]), Proj::Star), 3, "corpus-S3-render");
    // S4 constants: "x"@en in a pattern finds the plain "x"
    run_select_case(r, out, &d3, &sel(Pat::Bgp(vec![Tp(v(0), k(&q), Pos::Const(T::lang("x", "en")))]), Proj::Star), 1, "corpus-S4-const");
    // S5 FILTER over strings: ?v = 7 never holds
    let d5 = data(vec![(a.clone(), n.clone(), T::int("7")), (b.clone(), n.clone(), T::int("12")), (c.clone(), n.clone(), T::int("5"))], true);
    let f = |op: &'static str, t: T| Pat::Filter(Ex::Cmp(op, Box::new(Ex::Var(1)), Box::new(Ex::Const(t))), Box::new(Pat::Bgp(vec![Tp(v(0), k(&n), v(1))])));
    run_select_case(r, out, &d5, &sel(f("=", T::int("7")), Proj::Star), 2, "corpus-S5-filter");
    run_select_case(r, out, &d5, &sel(f(">", T::int("6")), Proj::Star), 2, "corpus-filter-ok");
    // S6 UNION positional
    let d6 = data(vec![(a.clone(), p.clone(), b.clone()), (c.clone(), q.clone(), a.clone())], true);
    run_select_case(
        r, out, &d6,
        &sel(Pat::Union(Box::new(Pat::Bgp(vec![Tp(v(0), k(&p), v(1))])), Box::new(Pat::Bgp(vec![Tp(v(1), k(&q), v(0))]))), Proj::Vars(vec![0, 1])),
        2, "corpus-S6-union",
    );
    run_select_case(
        r, out, &d6,
        &sel(Pat::Union(Box::new(Pat::Bgp(vec![Tp(v(0), k(&p), v(1))])), Box::new(Pat::Bgp(vec![Tp(v(0), k(&q), v(1))]))), Proj::Vars(vec![0, 1])),
        2, "corpus-union-ok",
    );
    // S7 OPTIONAL: two unmatched rows
    let d7 = data(
        vec![(a.clone(), p.clone(), b.clone()), (b.clone(), p.clone(), c.clone()), (c.clone(), p.clone(), a.clone()), (b.clone(), n.clone(), T::int("5"))],
        true,
    );
    let opt = Pat::Opt(Box::new(Pat::Bgp(vec![Tp(v(0), k(&p), v(1))])), Box::new(Pat::Bgp(vec![Tp(v(0), k(&n), v(2))])), None);
    run_select_case(r, out, &d7, &sel(opt.clone(), Proj::Star), 3, "corpus-S7-null");
    run_select_case(r, out, &d7, &sel(Pat::Filter(Ex::Not(Box::new(Ex::Bound(2))), Box::new(opt.clone())), Proj::Star), 3, "corpus-S5-bound");
    // S8 ORDER BY on numbers
    let mut q8 = sel(Pat::Bgp(vec![Tp(v(0), k(&n), v(1))]), Proj::Vars(vec![1, 0]));
    q8.order = vec![(1, false), (0, false)];
    q8.limit = Some(2);
    run_select_case(r, out, &d5, &q8, 2, "corpus-S8-order");
    let mut q8b = sel(Pat::Bgp(vec![Tp(v(0), k(&p), v(1))]), Proj::Vars(vec![0, 1]));
    q8b.order = vec![(0, true), (1, false)];
    q8b.limit = Some(2);
    q8b.offset = Some(1);
    run_select_case(r, out, &d7, &q8b, 2, "corpus-order-ok");
    // S9 nested FILTER
    let inner = f(">", T::int("6"));
    run_select_case(
        r, out, &d5,
        &sel(Pat::Filter(Ex::Cmp("<", Box::new(Ex::Var(1)), Box::new(Ex::Const(T::int("9")))), Box::new(inner)), Proj::Star),
        2, "corpus-S9-refilter",
    );
    // COUNT
    run_select_case(r, out, &d7, &sel(Pat::Bgp(vec![Tp(v(0), k(&p), v(1))]), Proj::Count), 2, "corpus-count");
    run_select_case(r, out, &d7, &sel(Pat::Bgp(vec![Tp(v(0), k(&q), v(1))]), Proj::Count), 2, "corpus-count");
    // S10 updates
    run_update_case(out, &d3, &[(a.clone(), q.clone(), T::lang("z", "fr"))], true, "corpus-S10");
    run_update_case(out, &d3, &[(b.clone(), q.clone(), T::lang("x", "en"))], false, "corpus-S10");
    run_update_case(out, &d3, &[(a.clone(), q.clone(), T::int("007"))], true, "corpus-S10");
    run_update_case(out, &d3, &[(T::Blank("z".into()), p.clone(), a.clone())], true, "corpus-S10");
    run_update_case(out, &d1, &[(a.clone(), p.clone(), b.clone()), (c.clone(), p.clone(), a.clone())], true, "corpus-ok");
    run_update_case(out, &d1, &[(a.clone(), p.clone(), b.clone()), (c.clone(), p.clone(), a.clone())], false, "corpus-ok");
}

/// data sets larger than the scan chunk size (1024): the scan hands its rows over in two chunks
fn corpus_big(r: &mut Rng, out: &mut Out) {
    let p = T::Iri("u:p".into());
    let q = T::Iri("u:q".into());
    let subs: Vec<T> = (0..1050).map(|i| T::Iri(format!("u:s{}", i))).collect();
    let objs: Vec<T> = (0..7).map(|i| T::Iri(format!("u:o{}", i))).collect();
    let mut triples: Vec<(T, T, T)> = Vec::new();
    for (i, s) in subs.iter().enumerate() {
        triples.push((s.clone(), p.clone(), objs[i % 7].clone()));
    }
    triples.push((objs[3].clone(), q.clone(), T::Iri("u:z".into())));
    let d = Data { subs: subs.clone(), preds: vec![p.clone(), q.clone()], objs: objs.clone(), triples, clean: true };
    let v = |i: usize| Pos::Var(i);
    let k = |t: &T| Pos::Const(t.clone());
    let sel = |pat: Pat, proj: Proj| Query { distinct: false, proj, pat, order: vec![], offset: None, limit: None };
    run_select_case(r, out, &d, &sel(Pat::Bgp(vec![Tp(v(0), k(&p), v(1))]), Proj::Count), 2, "corpus-big-count");
    let mut q2 = sel(Pat::Bgp(vec![Tp(v(0), k(&p), v(1))]), Proj::Vars(vec![0]));
    q2.offset = Some(1020);
    q2.limit = Some(10);
    run_select_case(r, out, &d, &q2, 2, "corpus-big-slice");
    // a join whose left side arrives in two chunks
    run_select_case(
        r, out, &d,
        &sel(Pat::Bgp(vec![Tp(v(0), k(&p), v(1)), Tp(v(1), k(&q), v(2))]), Proj::Count),
        3, "corpus-big-join",
    );
}

fn main() {
    let a = parse_args();
    quiet_panics();
    let mut out = Out::create(a.out.as_deref());
    let mut r = Rng::new(a.seed);
    corpus_store(&mut r, &mut out);
    corpus_sparql(&mut r, &mut out);
    corpus_big(&mut r, &mut out);
    // a third of the budget for store traces (they are large), the rest for queries and updates
    for i in 0..a.cases {
        match i % 6 {
            0 | 3 => case_store(&mut r, &mut out),
            5 => case_update(&mut r, &mut out),
            _ => case_select(&mut r, &mut out, i),
        }
    }
    out.finish();
}
