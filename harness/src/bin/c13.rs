// temporary probe (replaced by the real harness)
use grafeo_core::graph::rdf::{Term, Triple};
use grafeo_engine::GrafeoDB;

fn show(db: &GrafeoDB, q: &str) {
    match db.execute_sparql(q) {
        Ok(r) => {
            println!("Q: {}\n   cols={:?} nrows={}", q, r.columns, r.rows.len());
            for row in &r.rows {
                println!("     {:?}", row);
            }
        }
        Err(e) => println!("Q: {}\n   ERR {:?}", q, e),
    }
}

fn main() {
    let db = GrafeoDB::new_in_memory();
    let st = db.rdf_store();
    let i = |s: &str| Term::iri(format!("http://e/{}", s));
    let ts = vec![
        Triple::new(i("a"), i("p"), i("b")),
        Triple::new(i("a"), i("p"), i("c")),
        Triple::new(i("b"), i("p"), i("c")),
        Triple::new(i("a"), i("q"), Term::literal("x")),
        Triple::new(i("b"), i("q"), Term::lang_literal("x", "en")),
        Triple::new(i("c"), i("q"), Term::typed_literal("5", "http://www.w3.org/2001/XMLSchema#integer")),
        Triple::new(i("a"), i("n"), Term::typed_literal("7", "http://www.w3.org/2001/XMLSchema#integer")),
        Triple::new(i("b"), i("n"), Term::typed_literal("10", "http://www.w3.org/2001/XMLSchema#integer")),
        Triple::new(i("c"), i("n"), Term::literal("5")),
        Triple::new(Term::blank("z"), i("p"), i("a")),
        Triple::new(i("a"), i("p"), i("a")),
        Triple::new(i("d"), i("r"), Term::literal("http://e/a")),
    ];
    for t in ts {
        st.insert(t);
    }
    let qs = [
        "SELECT ?s ?o ?v WHERE { ?s <http://e/p> ?o OPTIONAL { ?o <http://e/q> ?v } }",
        "SELECT ?s ?o ?v WHERE { ?s <http://e/p> ?o OPTIONAL { ?o <http://e/q> ?v } FILTER(!BOUND(?v)) }",
        "SELECT ?s ?o ?v WHERE { ?s <http://e/p> ?o OPTIONAL { ?o <http://e/q> ?v } FILTER(BOUND(?v)) }",
        "SELECT ?s ?o ?v WHERE { ?s <http://e/p> ?o OPTIONAL { ?o <http://e/q> ?v } FILTER(?v = \"x\") }",
        "SELECT ?s ?o ?v WHERE { ?s <http://e/p> ?o OPTIONAL { ?o <http://e/q> ?v FILTER(?v = \"x\") } }",
        "SELECT ?s ?o ?v WHERE { ?s <http://e/p> ?o OPTIONAL { ?o <http://e/q> ?v FILTER(?s = <http://e/a>) } }",
        "SELECT ?s ?o ?v WHERE { ?s <http://e/p> ?o OPTIONAL { ?o <http://e/q> ?v } } ORDER BY ?v ?s ?o",
        "SELECT ?s ?o ?v WHERE { ?s <http://e/p> ?o OPTIONAL { ?o <http://e/q> ?v } } ORDER BY DESC(?v) ?s DESC(?o)",
        "SELECT ?s ?o ?v ?w WHERE { ?s <http://e/p> ?o OPTIONAL { ?o <http://e/q> ?v } OPTIONAL { ?s <http://e/n> ?w } }",
        "SELECT ?s ?o ?v WHERE { ?s <http://e/p> ?o OPTIONAL { ?o <http://e/q> ?v } . ?s <http://e/q> ?v }",
        "SELECT ?s ?o ?v WHERE { ?s <http://e/p> ?o . ?s <http://e/q> ?v OPTIONAL { ?o <http://e/q> ?v } }",
        "SELECT * WHERE { ?s <http://e/p> ?o OPTIONAL { ?o <http://e/q> ?v } }",
        "SELECT * WHERE { { ?s <http://e/p> ?o } UNION { ?s <http://e/q> ?o . ?s <http://e/n> ?w } }",
        "SELECT * WHERE { { ?s <http://e/q> ?o . ?s <http://e/n> ?w } UNION { ?s <http://e/p> ?o } }",
        "SELECT ?s ?o WHERE { { ?s <http://e/q> ?o . ?s <http://e/n> ?w } UNION { ?s <http://e/p> ?o } }",
        "SELECT ?s WHERE { { ?s <http://e/p> ?o } UNION { ?s <http://e/q> ?o } UNION { ?s <http://e/n> ?o } }",
        "SELECT ?s ?o ?w WHERE { ?s <http://e/n> ?w { ?s <http://e/p> ?o } UNION { ?s <http://e/q> ?o } }",
        "SELECT ?s ?o ?w WHERE { { ?s <http://e/p> ?o } UNION { ?s <http://e/q> ?o } ?s <http://e/n> ?w }",
        "SELECT ?s ?o ?w WHERE { { ?s <http://e/p> ?o } { ?s <http://e/n> ?w } }",
        "SELECT ?s ?v WHERE { ?s <http://e/n> ?v FILTER(?v > 6 || ?s = <http://e/c>) }",
        "SELECT ?s ?v WHERE { ?s ?p ?v FILTER(?v > 6 || ?s = <http://e/c>) }",
        "SELECT ?s ?v WHERE { ?s ?p ?v FILTER(?v > 6 && ?s = <http://e/a>) }",
        "SELECT ?s ?v WHERE { ?s ?p ?v FILTER(!(?v > 6)) }",
        "SELECT ?s ?v WHERE { FILTER(?v > 6) ?s <http://e/n> ?v }",
        "SELECT ?s ?v WHERE { ?s <http://e/n> ?v FILTER(?v > 6) FILTER(?v < 9) }",
        "SELECT ?s ?v WHERE { ?s <http://e/q> ?v FILTER(?v = \"x\"@en) }",
        "SELECT ?s ?v WHERE { ?s <http://e/q> ?v FILTER(?v < \"y\") }",
        "SELECT ?s ?v WHERE { ?s ?p ?v FILTER(?v < \"y\") }",
        "SELECT ?s ?v WHERE { ?s ?p ?v FILTER(?v >= -3) }",
        "SELECT ?s ?v WHERE { ?s ?p ?v FILTER(?s < ?v) }",
        "SELECT ?s ?v ?z WHERE { ?s <http://e/n> ?v FILTER(?z > 6) }",
        "SELECT ?s ?zz WHERE { ?s <http://e/n> ?v }",
        "SELECT (COUNT(*) AS ?c) WHERE { ?s <http://e/p> ?o OPTIONAL { ?o <http://e/q> ?v } }",
        "SELECT (COUNT(?v) AS ?c) WHERE { ?s <http://e/p> ?o OPTIONAL { ?o <http://e/q> ?v } }",
        "SELECT DISTINCT (COUNT(*) AS ?c) WHERE { ?s <http://e/p> ?o }",
        "SELECT (COUNT(*) AS ?c) WHERE { ?s <http://e/p> ?o } LIMIT 0",
        "SELECT (COUNT(*) AS ?c) WHERE { { ?s <http://e/p> ?o } UNION { ?s <http://e/q> ?o } }",
        "SELECT (COUNT(*) AS ?c) WHERE { ?s <http://e/n> ?v FILTER(?v > 6) }",
        "SELECT ?s ?o WHERE { ?s <http://e/p> ?o } ORDER BY ?s LIMIT 2 OFFSET 4",
        "SELECT ?s ?o WHERE { ?s <http://e/p> ?o } ORDER BY ?s ?o OFFSET 9",
        "SELECT ?s ?o WHERE { ?s <http://e/p> ?o } ORDER BY ?o ?s",
        "SELECT ?o WHERE { ?s <http://e/p> ?o } ORDER BY ?s",
        "SELECT ?o WHERE { ?s <http://e/p> ?o } ORDER BY ?zz",
        "SELECT ?s ?v WHERE { ?s <http://e/n> ?v FILTER(?v = \"7\") }",
        "SELECT ?s ?v WHERE { ?s <http://e/n> ?v FILTER(7 = 7) }",
        "SELECT ?s ?v WHERE { ?s <http://e/n> ?v FILTER(?v = ?v) }",
        "SELECT ?s ?v ?t ?w WHERE { ?s <http://e/n> ?v . ?t <http://e/n> ?w FILTER(?v < ?w) }",
        "SELECT ?s ?v ?t ?w WHERE { ?s <http://e/n> ?v . ?t <http://e/q> ?w FILTER(?v = ?w) }",
    ];
    for q in qs {
        show(&db, q);
    }
    println!("-- updates");
    show(&db, "INSERT DATA { <http://e/u> <http://e/p> <http://e/v> . <http://e/u> <http://e/q> \"lit\"@fr . <http://e/u> <http://e/n> \"007\"^^<http://www.w3.org/2001/XMLSchema#integer> . <http://e/u> <http://e/d> \"2020-01-01\"^^<http://www.w3.org/2001/XMLSchema#date> }");
    for t in st.triples_with_subject(&i("u")) {
        println!("   stored: {}", t);
    }
    show(&db, "INSERT DATA { _:b1 <http://e/p> <http://e/v> }");
    show(&db, "DELETE DATA { <http://e/u> <http://e/p> <http://e/v> }");
    show(&db, "DELETE DATA { <http://e/b> <http://e/q> \"x\"@en }");
    for t in st.triples_with_subject(&i("u")) {
        println!("   stored: {}", t);
    }
    for t in st.triples_with_subject(&i("b")) {
        println!("   stored b: {}", t);
    }
    show(&db, "INSERT DATA { <http://e/u> <http://e/p> <http://e/v> } ; INSERT DATA { <http://e/u> <http://e/p> <http://e/w> }");
    println!("len={}", st.len());
}
