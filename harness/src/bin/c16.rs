//! C16 — values compare, hash, order and serialise consistently.
//!
//! Runs the real `Value` / `HashableValue` / `OrderableValue` impls, real bincode
//! (`bincode::serde::encode_to_vec(&v, bincode::config::standard())`, what the WAL and the
//! snapshot use), the spill serializer, `HashIndex`, `BTreeIndex`, DISTINCT and GROUP BY on a
//! value pool (all pairs, a sample of triples) and on generated values, and emits per case the
//! Coq term comparing the observation with the model (GV.Value.Run) plus the laws themselves
//! evaluated on the implementation (oracle).
use std::collections::BTreeMap;
use std::hash::{Hash, Hasher};
use std::sync::Arc;

use grafeo_common::types::{HashableValue, LogicalType, NodeId, OrderableValue, PropertyKey, Timestamp, Value};
use grafeo_core::execution::operators::{
    AggregateExpr, DistinctOperator, HashAggregateOperator, Operator, OperatorResult,
};
use grafeo_core::execution::spill::{deserialize_row, deserialize_value, serialize_row, serialize_value};
use grafeo_core::execution::{DataChunk, ValueVector};
use grafeo_core::index::{BTreeIndex, HashIndex};
use gv_harness::*;

// ------------------------------------------------------------------------------------------
// output: passing cases of the same kind are written `batch` at a time as one case whose Coq
// term is the conjunction (each coqc shard pays a fixed start-up cost per case file); failing
// cases (oracle = fail) are always written alone so that they are classified one by one.
// `--batch 1` switches batching off (use it to localise a correspondence mismatch).
struct Sink {
    out: Out,
    batch: usize,
    bufs: BTreeMap<String, Vec<Case>>,
}
impl Sink {
    fn emit(&mut self, c: &Case) {
        let mut c = c.clone();
        c.tags.push(format!("obs:{}", c.kind));
        let c = &c;
        if self.batch <= 1 || c.oracle == Oracle::Fail || c.coq.is_none() {
            self.out.emit(c);
            return;
        }
        let full = {
            let b = self.bufs.entry(c.kind.clone()).or_default();
            b.push(c.clone());
            b.len() >= self.batch
        };
        if full {
            self.flush_kind(&c.kind.clone());
        }
    }
    fn flush_kind(&mut self, kind: &str) {
        let Some(b) = self.bufs.remove(kind) else { return };
        if b.is_empty() {
            return;
        }
        if b.len() == 1 {
            self.out.emit(&b[0]);
            return;
        }
        let clip = |s: &str| -> String { s.chars().take(400).collect() };
        let mut tags = Vec::new();
        for c in &b {
            tags.extend(c.tags.iter().cloned());
        }
        tags.push(format!("batched:{}", kind));
        self.out.emit(&Case {
            kind: kind.to_string(),
            input: b.iter().map(|c| clip(&c.input)).collect::<Vec<_>>().join(" ;; "),
            coq: Some(b.iter().map(|c| format!("({})", c.coq.as_ref().unwrap())).collect::<Vec<_>>().join(" && ")),
            show: None,
            oracle: if b.iter().all(|c| c.oracle == Oracle::Na) { Oracle::Na } else { Oracle::Ok },
            nontrivial: b.iter().any(|c| c.nontrivial),
            imp: b.iter().map(|c| clip(&c.imp)).collect::<Vec<_>>().join(" ;; "),
            tags,
            ..Default::default()
        });
    }
    fn finish(mut self) {
        let kinds: Vec<String> = self.bufs.keys().cloned().collect();
        for k in kinds {
            self.flush_kind(&k);
        }
        self.out.finish();
    }
}

// ------------------------------------------------------------------------------------------
// recording hasher: every write_* call with its width and payload, as a Coq `hword`
// (write_str / write_length_prefix are unstable and cannot be overridden: their defaults
//  show up as write + write_u8(0xff) and write_usize)
#[derive(Default)]
struct Rec(Vec<String>);
impl Rec {
    fn other(&mut self, w: i32, v: i128) {
        self.0.push(format!("HOther {} {}", w, coq::z(v)));
    }
}
impl Hasher for Rec {
    fn finish(&self) -> u64 {
        0
    }
    fn write(&mut self, b: &[u8]) {
        self.0.push(format!("HBytes {}", coq::bytes(b)));
    }
    fn write_u8(&mut self, i: u8) {
        self.0.push(format!("HU8 {}", coq::z(i)));
    }
    fn write_u16(&mut self, i: u16) {
        self.other(16, i as i128);
    }
    fn write_u32(&mut self, i: u32) {
        self.0.push(format!("HU32 {}", coq::z(i)));
    }
    fn write_u64(&mut self, i: u64) {
        self.0.push(format!("HU64 {}", coq::zu(i)));
    }
    fn write_u128(&mut self, i: u128) {
        self.other(128, (i >> 1) as i128);
    }
    fn write_usize(&mut self, i: usize) {
        self.0.push(format!("HUsize {}", coq::zu(i as u64)));
    }
    fn write_i8(&mut self, i: i8) {
        self.other(-8, i as i128);
    }
    fn write_i16(&mut self, i: i16) {
        self.other(-16, i as i128);
    }
    fn write_i32(&mut self, i: i32) {
        self.other(-32, i as i128);
    }
    fn write_i64(&mut self, i: i64) {
        self.0.push(format!("HI64 {}", coq::z(i)));
    }
    fn write_i128(&mut self, i: i128) {
        self.other(-128, i);
    }
    fn write_isize(&mut self, i: isize) {
        self.0.push(format!("HIsize {}", coq::z(i as i64)));
    }
}
fn feed_of<T: Hash>(t: &T) -> Vec<String> {
    let mut r = Rec::default();
    t.hash(&mut r);
    r.0
}
fn feed_coq(f: &[String]) -> String {
    coq::list(f.iter().cloned())
}

// ------------------------------------------------------------------------------------------
// values as Coq terms, bit-level equality, constructors
fn cv(v: &Value) -> String {
    match v {
        Value::Null => "VNull".into(),
        Value::Bool(b) => format!("(VBool {})", coq::b(*b)),
        Value::Int64(i) => format!("(VInt {})", coq::z(*i)),
        Value::Float64(f) => format!("(VFloat {})", coq::zu(f.to_bits())),
        Value::String(s) => format!("(VStr {})", coq::bytes(s.as_bytes())),
        Value::Bytes(b) => format!("(VBytes {})", coq::bytes(b)),
        Value::Timestamp(t) => format!("(VTs {})", coq::z(t.as_micros())),
        Value::List(l) => format!("(VList {})", coq::list(l.iter().map(cv))),
        Value::Map(m) => format!(
            "(VMap {})",
            coq::list(m.iter().map(|(k, v)| format!("({}, {})", coq::bytes(k.as_str().as_bytes()), cv(v))))
        ),
        Value::Vector(x) => format!("(VVec {})", coq::list(x.iter().map(|f| coq::z(f.to_bits())))),
    }
}
fn co(o: &OrderableValue) -> String {
    match o {
        OrderableValue::Int64(i) => format!("(OInt {})", coq::z(*i)),
        OrderableValue::Float64(f) => format!("(OFloat {})", coq::zu(f.0.to_bits())),
        OrderableValue::String(s) => format!("(OStr {})", coq::bytes(s.as_bytes())),
        OrderableValue::Bool(b) => format!("(OBool {})", coq::b(*b)),
        OrderableValue::Timestamp(t) => format!("(OTs {})", coq::z(t.as_micros())),
    }
}
fn ccmp(c: std::cmp::Ordering) -> &'static str {
    match c {
        std::cmp::Ordering::Less => "Lt",
        std::cmp::Ordering::Equal => "Eq",
        std::cmp::Ordering::Greater => "Gt",
    }
}
/// bit-for-bit structural identity (independent of every impl under test)
fn bits_eq(a: &Value, b: &Value) -> bool {
    match (a, b) {
        (Value::Null, Value::Null) => true,
        (Value::Bool(x), Value::Bool(y)) => x == y,
        (Value::Int64(x), Value::Int64(y)) => x == y,
        (Value::Float64(x), Value::Float64(y)) => x.to_bits() == y.to_bits(),
        (Value::String(x), Value::String(y)) => x.as_bytes() == y.as_bytes(),
        (Value::Bytes(x), Value::Bytes(y)) => x[..] == y[..],
        (Value::Timestamp(x), Value::Timestamp(y)) => x.as_micros() == y.as_micros(),
        (Value::List(x), Value::List(y)) => x.len() == y.len() && x.iter().zip(y.iter()).all(|(p, q)| bits_eq(p, q)),
        (Value::Map(x), Value::Map(y)) => {
            x.len() == y.len()
                && x.iter().zip(y.iter()).all(|((k, p), (l, q))| k.as_str().as_bytes() == l.as_str().as_bytes() && bits_eq(p, q))
        }
        (Value::Vector(x), Value::Vector(y)) => x.len() == y.len() && x.iter().zip(y.iter()).all(|(p, q)| p.to_bits() == q.to_bits()),
        _ => false,
    }
}
fn vf(bits: u64) -> Value {
    Value::Float64(f64::from_bits(bits))
}
fn vs(s: &str) -> Value {
    Value::from(s)
}
fn vb(b: &[u8]) -> Value {
    Value::Bytes(Arc::from(b.to_vec()))
}
fn vl(l: Vec<Value>) -> Value {
    Value::List(Arc::from(l))
}
fn vm(m: Vec<(&str, Value)>) -> Value {
    let mut b = BTreeMap::new();
    for (k, v) in m {
        b.insert(PropertyKey::new(k), v);
    }
    Value::Map(Arc::new(b))
}
fn vv(x: &[u32]) -> Value {
    Value::Vector(Arc::from(x.iter().map(|b| f32::from_bits(*b)).collect::<Vec<f32>>()))
}
fn vt(t: i64) -> Value {
    Value::Timestamp(Timestamp::from_micros(t))
}
fn depth(v: &Value) -> usize {
    match v {
        Value::List(l) => 1 + l.iter().map(depth).max().unwrap_or(0),
        Value::Map(m) => 1 + m.values().map(depth).max().unwrap_or(0),
        _ => 0,
    }
}
fn variant(v: &Value) -> &'static str {
    match v {
        Value::Null => "null",
        Value::Bool(_) => "bool",
        Value::Int64(_) => "int",
        Value::Float64(_) => "float",
        Value::String(_) => "string",
        Value::Bytes(_) => "bytes",
        Value::Timestamp(_) => "timestamp",
        Value::List(_) => "list",
        Value::Map(_) => "map",
        Value::Vector(_) => "vector",
    }
}

const P53: i64 = 1 << 53;
const ONE_BITS: u64 = 0x3FF0_0000_0000_0000;
const QNAN: u64 = 0x7FF8_0000_0000_0000;

const F64_BOUND: [u64; 30] = [
    0,                     // +0.0
    1 << 63,               // -0.0
    1,                     // least subnormal
    0x000F_FFFF_FFFF_FFFF, // greatest subnormal
    0x8000_0000_0000_0001, // negative subnormal
    0x0010_0000_0000_0000, // least normal
    ONE_BITS,              // 1.0
    0xBFF0_0000_0000_0000, // -1.0
    0x3FE0_0000_0000_0000, // 0.5
    0x3FF8_0000_0000_0000, // 1.5
    0x4340_0000_0000_0000, // 2^53
    0x4340_0000_0000_0001, // 2^53 + 2
    0x433F_FFFF_FFFF_FFFF, // 2^53 - 1
    0xC340_0000_0000_0000, // -2^53
    0x43E0_0000_0000_0000, // 2^63
    0xC3E0_0000_0000_0000, // -2^63
    0x43DF_FFFF_FFFF_FFFF, // 2^63 - 1024
    0x7FEF_FFFF_FFFF_FFFF, // MAX
    0xFFEF_FFFF_FFFF_FFFF, // MIN
    0x7FF0_0000_0000_0000, // +inf
    0xFFF0_0000_0000_0000, // -inf
    QNAN,                  // quiet NaN
    QNAN | 1,              // quiet NaN, payload 1
    0x7FF0_0000_0000_0001, // signalling NaN
    0xFFF8_0000_0000_0000, // negative quiet NaN
    0x7FFF_FFFF_FFFF_FFFF, // NaN, all ones
    0xFFFF_FFFF_FFFF_FFFF, // negative NaN, all ones
    0x4000_0000_0000_0000, // 2.0
    0x4008_0000_0000_0000, // 3.0
    0x3FF0_0000_0000_0001, // 1.0 + ulp
];
const I64_BOUND: [i64; 24] = [
    0,
    1,
    -1,
    2,
    3,
    P53 - 1,
    P53,
    P53 + 1,
    P53 + 2,
    P53 + 3,
    -P53,
    -(P53 + 1),
    i64::MAX,
    i64::MAX - 1,
    i64::MIN,
    i64::MIN + 1,
    ONE_BITS as i64,         // the integer whose bits are those of 1.0 (DISTINCT / GROUP BY keys)
    -250,
    i64::MAX - 511,          // rounds up to 2^63 as f64
    i64::MAX - 512,          // tie: rounds to even
    1 << 62,
    (1 << 54) + 2,           // tie at 55 bits
    (1 << 54) + 6,           // tie at 55 bits, other parity
    250,
];
const F32_BOUND: [u32; 12] = [
    0,
    0x8000_0000,
    1,
    0x007F_FFFF,
    0x0080_0000,
    0x3F80_0000,
    0xBF80_0000,
    0x7F80_0000,
    0xFF80_0000,
    0x7FC0_0000,
    0x7FC0_0001,
    0xFFFF_FFFF,
];
const STRS: [&str; 14] = ["", "a", "b", "ab", "a\0", "é", "e\u{301}", "日本", "😀", "\u{7f}", "\u{80}", "\u{7ff}\u{800}\u{ffff}\u{10000}\u{10ffff}", "Null", "Int64(1)"];

/// the fixed value pool: every pair of it is compared
fn pool() -> Vec<Value> {
    let mut p = vec![Value::Null, Value::Bool(false), Value::Bool(true)];
    for i in [0, 1, -1, P53 - 1, P53, P53 + 1, P53 + 2, -P53, -(P53 + 1), i64::MAX, i64::MAX - 1, i64::MIN, i64::MIN + 1, ONE_BITS as i64, i64::MAX - 511] {
        p.push(Value::Int64(i));
    }
    for b in [
        0u64,
        1 << 63,
        1,
        0x000F_FFFF_FFFF_FFFF,
        0x8000_0000_0000_0001,
        ONE_BITS,
        0xBFF0_0000_0000_0000,
        0x4340_0000_0000_0000,
        0x4340_0000_0000_0001,
        0xC340_0000_0000_0000,
        0x43E0_0000_0000_0000,
        0xC3E0_0000_0000_0000,
        0x7FF0_0000_0000_0000,
        0xFFF0_0000_0000_0000,
        QNAN,
        QNAN | 1,
        0x7FF0_0000_0000_0001,
        0xFFF8_0000_0000_0000,
    ] {
        p.push(vf(b));
    }
    for s in ["", "a", "ab", "b", "é", "日本", "😀", "Null", "Bytes([1; 3 bytes])"] {
        p.push(vs(s));
    }
    for b in [&[][..], &[0], &[1, 2, 3], &[1, 9, 3], &[255], &[0xc3, 0x28]] {
        p.push(vb(b));
    }
    for t in [0, 1, -1, i64::MIN, i64::MAX] {
        p.push(vt(t));
    }
    for x in [&[][..], &[0], &[0x8000_0000], &[0x7FC0_0000], &[0x7FC0_0001], &[0x3F80_0000, 0x4000_0000], &[0x3F80_0000, 0x4040_0000], &[1, 0x7F80_0000]] {
        p.push(vv(x));
    }
    // lists
    p.push(vl(vec![]));
    p.push(vl(vec![Value::Null]));
    p.push(vl(vec![Value::Int64(1)]));
    p.push(vl(vec![vf(ONE_BITS)]));
    p.push(vl(vec![vf(0)]));
    p.push(vl(vec![vf(1 << 63)]));
    p.push(vl(vec![vf(QNAN)]));
    p.push(vl(vec![vf(QNAN | 1)]));
    p.push(vl(vec![Value::Int64(1), Value::Int64(2)]));
    p.push(vl(vec![Value::Int64(2), Value::Int64(1)]));
    p.push(vl(vec![vl(vec![])]));
    p.push(vl(vec![vl(vec![vl(vec![vl(vec![vf(QNAN)])])])]));
    p.push(vl(vec![vl(vec![vl(vec![vl(vec![vf(QNAN | 1)])])])]));
    p.push(vl(vec![vs("a"), vb(&[1]), vt(5), vv(&[0x3F80_0000])]));
    // maps
    p.push(vm(vec![]));
    p.push(vm(vec![("a", Value::Int64(1))]));
    p.push(vm(vec![("a", vf(ONE_BITS))]));
    p.push(vm(vec![("a", Value::Int64(1)), ("b", Value::Int64(2))]));
    p.push(vm(vec![("b", Value::Int64(2)), ("a", Value::Int64(1))]));
    p.push(vm(vec![("a", Value::Int64(2)), ("b", Value::Int64(1))]));
    p.push(vm(vec![("", Value::Null), ("a", Value::Null), ("ab", Value::Null), ("b", Value::Null)]));
    p.push(vm(vec![("é", vf(0)), ("日本", vf(1 << 63))]));
    p.push(vm(vec![("é", vf(1 << 63)), ("日本", vf(0))]));
    p.push(vm(vec![("k", vm(vec![("k", vm(vec![("k", vm(vec![("k", vf(QNAN))]))]))]))]));
    p.push(vm(vec![("k", vm(vec![("k", vm(vec![("k", vm(vec![("k", vf(QNAN | 1))]))]))]))]));
    p.push(vm(vec![("l", vl(vec![vm(vec![("x", vl(vec![Value::Int64(P53 + 1)]))])])), ("m", vm(vec![]))]));
    p
}

// ------------------------------------------------------------------------------------------
// generators
fn gen_i64(r: &mut Rng) -> i64 {
    match r.below(5) {
        0 | 1 => *r.pick(&I64_BOUND),
        2 => r.range(-300, 300),
        3 => {
            let w = r.below(64);
            let m = r.next() >> (63 - w);
            if r.chance(1, 2) { m as i64 } else { (m as i64).wrapping_neg() }
        }
        _ => r.next() as i64,
    }
}
fn gen_f64_bits(r: &mut Rng) -> u64 {
    match r.below(6) {
        0 | 1 => *r.pick(&F64_BOUND),
        2 => (gen_i64(r) as f64).to_bits(),
        3 => (r.range(-64, 64) as f64 / 8.0).to_bits(),
        4 => {
            // NaN with a random payload and sign
            0x7FF0_0000_0000_0000 | (r.next() & 0x800F_FFFF_FFFF_FFFF) | 1
        }
        _ => r.next(),
    }
}
fn gen_f32_bits(r: &mut Rng) -> u32 {
    match r.below(3) {
        0 => *r.pick(&F32_BOUND),
        1 => (r.range(-16, 16) as f32 / 4.0).to_bits(),
        _ => r.next() as u32,
    }
}
fn gen_str(r: &mut Rng) -> String {
    match r.below(4) {
        0 => (*r.pick(&STRS)).to_string(),
        1 => {
            let n = r.below(6);
            (0..n).map(|_| (b'a' + r.below(3) as u8) as char).collect()
        }
        2 => {
            let n = r.below(5);
            (0..n).map(|_| *r.pick(&['a', '\0', 'é', 'ß', '日', '😀', '\u{7f}', '\u{80}', '\u{d7ff}', '\u{e000}', '\u{10ffff}'])).collect()
        }
        _ => {
            // long: forces the 3-byte varint length
            let n = *r.pick(&[250usize, 251, 252, 300]);
            "x".repeat(n)
        }
    }
}
fn gen_bytes(r: &mut Rng) -> Vec<u8> {
    let n = match r.below(8) {
        0 => 0,
        1 => *r.pick(&[250usize, 251, 256]),
        _ => r.below(6) as usize,
    };
    (0..n).map(|_| if r.chance(1, 3) { *r.pick(&[0u8, 1, 127, 128, 250, 251, 252, 253, 254, 255]) } else { r.below(256) as u8 }).collect()
}
fn gen_scalar(r: &mut Rng) -> Value {
    match r.below(9) {
        0 => Value::Null,
        1 => Value::Bool(r.chance(1, 2)),
        2 | 3 => Value::Int64(gen_i64(r)),
        4 | 5 => vf(gen_f64_bits(r)),
        6 => Value::from(gen_str(r)),
        7 => {
            if r.chance(1, 2) {
                Value::Bytes(Arc::from(gen_bytes(r)))
            } else {
                vt(gen_i64(r))
            }
        }
        _ => {
            let n = r.below(5);
            let x: Vec<u32> = (0..n).map(|_| gen_f32_bits(r)).collect();
            vv(&x)
        }
    }
}
fn gen_value(r: &mut Rng, d: usize) -> Value {
    if d == 0 || r.chance(2, 5) {
        return gen_scalar(r);
    }
    if r.chance(1, 2) {
        let n = r.below(4);
        vl((0..n).map(|_| gen_value(r, d - 1)).collect())
    } else {
        let n = r.below(4);
        let mut b = BTreeMap::new();
        for _ in 0..n {
            b.insert(PropertyKey::new(gen_str(r)), gen_value(r, d - 1));
        }
        Value::Map(Arc::new(b))
    }
}
/// a copy of `v` with one leaf changed minimally (a near-equal value)
fn mutate_value(r: &mut Rng, v: &Value) -> Value {
    match v {
        Value::Null => Value::Bool(false),
        Value::Bool(b) => Value::Bool(!b),
        Value::Int64(i) => match r.below(3) {
            0 => Value::Int64(i.wrapping_add(1)),
            1 => vf((*i as f64).to_bits()),
            _ => vf(*i as u64),
        },
        Value::Float64(f) => match r.below(4) {
            0 => vf(f.to_bits() ^ (1 << r.below(64))),
            1 => vf(f.to_bits() ^ (1 << 63)),
            2 => Value::Int64(f.to_bits() as i64),
            _ => Value::Int64(*f as i64),
        },
        Value::String(s) => {
            if r.chance(1, 2) {
                Value::from(format!("{}a", s.as_str()))
            } else {
                Value::Bytes(Arc::from(s.as_bytes().to_vec()))
            }
        }
        Value::Bytes(b) => {
            let mut x = b.to_vec();
            if x.is_empty() || r.chance(1, 3) {
                x.push(0);
            } else {
                let i = x.len() - 1;
                x[i] ^= 1;
            }
            Value::Bytes(Arc::from(x))
        }
        Value::Timestamp(t) => {
            if r.chance(1, 2) {
                vt(t.as_micros().wrapping_add(1))
            } else {
                Value::Int64(t.as_micros())
            }
        }
        Value::List(l) => {
            let mut x = l.to_vec();
            if x.is_empty() || r.chance(1, 4) {
                x.push(Value::Null);
            } else {
                let i = r.below(x.len() as u64) as usize;
                x[i] = mutate_value(r, &x[i]);
            }
            vl(x)
        }
        Value::Map(m) => {
            let mut x: BTreeMap<PropertyKey, Value> = (**m).clone();
            if x.is_empty() || r.chance(1, 4) {
                x.insert(PropertyKey::new("zz"), Value::Null);
            } else {
                let i = r.below(x.len() as u64) as usize;
                let k = x.keys().nth(i).unwrap().clone();
                if r.chance(1, 4) {
                    let val = x.remove(&k).unwrap();
                    x.insert(PropertyKey::new(format!("{}a", k.as_str())), val);
                } else {
                    let nv = mutate_value(r, &x[&k]);
                    x.insert(k, nv);
                }
            }
            Value::Map(Arc::new(x))
        }
        Value::Vector(x) => {
            let mut y: Vec<u32> = x.iter().map(|f| f.to_bits()).collect();
            if y.is_empty() || r.chance(1, 4) {
                y.push(0);
            } else {
                let i = r.below(y.len() as u64) as usize;
                y[i] ^= 1 << r.below(32);
            }
            vv(&y)
        }
    }
}

// ------------------------------------------------------------------------------------------
// floats
fn case_f64_pair(a: u64, b: u64, out: &mut Sink) {
    let (x, y) = (f64::from_bits(a), f64::from_bits(b));
    let pc = x.partial_cmp(&y);
    // the IEEE laws on the implementation: == is symmetric, < is asymmetric, partial_cmp agrees with both
    let ok = (x == y) == (y == x) && !((x < y) && (y < x)) && (pc == Some(std::cmp::Ordering::Equal)) == (x == y) && (pc == Some(std::cmp::Ordering::Less)) == (x < y);
    out.emit(&Case {
        kind: "f64_pair".into(),
        input: format!("{:#018x} {:#018x}", a, b),
        coq: Some(format!(
            "chk_f64_pair {} {} {} {} {} {} {}",
            coq::zu(a),
            coq::zu(b),
            coq::b(x == y),
            coq::b(x < y),
            coq::b(x <= y),
            coq::opt(pc.map(|c| ccmp(c).to_string())),
            ccmp(x.total_cmp(&y))
        )),
        oracle: if ok { Oracle::Ok } else { Oracle::Fail },
        nontrivial: a != b,
        imp: format!("eq={} lt={} pc={:?}", x == y, x < y, pc),
        tags: vec![format!("f64:{}", fclass(a)), format!("f64:{}", fclass(b))],
        ..Default::default()
    });
}
fn fclass(a: u64) -> &'static str {
    let x = f64::from_bits(a);
    if x.is_nan() {
        "nan"
    } else if x.is_infinite() {
        "inf"
    } else if x == 0.0 {
        "zero"
    } else if x.is_subnormal() {
        "subnormal"
    } else {
        "normal"
    }
}
fn case_f64_class(a: u64, out: &mut Sink) {
    let x = f64::from_bits(a);
    out.emit(&Case {
        kind: "f64_class".into(),
        input: format!("{:#018x}", a),
        coq: Some(format!(
            "chk_f64_class {} {} {} {} {} {}",
            coq::zu(a),
            coq::b(x.is_nan()),
            coq::b(x.is_infinite()),
            coq::b(x == 0.0),
            coq::b(x.is_subnormal()),
            coq::b(x.is_sign_negative())
        )),
        oracle: if f64::from_bits(x.to_bits()).to_bits() == a { Oracle::Ok } else { Oracle::Fail },
        nontrivial: true,
        imp: fclass(a).into(),
        tags: vec![format!("f64:{}", fclass(a))],
        ..Default::default()
    });
}
fn case_f32(a: u32, b: u32, out: &mut Sink) {
    let (x, y) = (f32::from_bits(a), f32::from_bits(b));
    out.emit(&Case {
        kind: "f32_pair".into(),
        input: format!("{:#010x} {:#010x}", a, b),
        coq: Some(format!(
            "chk_f32_pair {} {} {} {} && chk_f32_class {} {} {} {} {}",
            coq::z(a),
            coq::z(b),
            coq::b(x == y),
            coq::opt(x.partial_cmp(&y).map(|c| ccmp(c).to_string())),
            coq::z(a),
            coq::b(x.is_nan()),
            coq::b(x.is_infinite()),
            coq::b(x == 0.0),
            coq::b(x.is_subnormal())
        )),
        oracle: Oracle::Na,
        nontrivial: a != b,
        imp: format!("eq={}", x == y),
        ..Default::default()
    });
}
fn case_of_i64(i: i64, out: &mut Sink) {
    let f = i as f64;
    // oracle: the conversion is monotone w.r.t. its neighbours and exact below 2^53
    let ok = (i == i64::MIN || ((i - 1) as f64) <= f) && (i == i64::MAX || f <= ((i + 1) as f64)) && (i.unsigned_abs() > (1 << 53) || f as i64 == i);
    out.emit(&Case {
        kind: "of_i64".into(),
        input: format!("{}", i),
        coq: Some(format!("chk_of_i64 {} {}", coq::z(i), coq::zu(f.to_bits()))),
        show: Some(format!("f64_of_i64 {}", coq::z(i))),
        oracle: if ok { Oracle::Ok } else { Oracle::Fail },
        nontrivial: i.unsigned_abs() > 1,
        imp: format!("{:#018x}", f.to_bits()),
        tags: vec![if i.unsigned_abs() > (1 << 53) { "of_i64:rounded".into() } else { "of_i64:exact".to_string() }],
        ..Default::default()
    });
}

// ------------------------------------------------------------------------------------------
// bincode primitives
fn bc<T: serde::Serialize>(t: &T) -> Vec<u8> {
    bincode::serde::encode_to_vec(t, bincode::config::standard()).expect("bincode encode")
}
fn case_bc_prims(r: &mut Rng, out: &mut Sink) {
    let u: u64 = match r.below(4) {
        0 => *r.pick(&[0u64, 1, 250, 251, 252, 255, 256, 65535, 65536, (1 << 32) - 1, 1 << 32, u64::MAX, 1 << 63]),
        1 => r.below(70000),
        2 => r.next() >> r.below(64),
        _ => r.next(),
    };
    let i = gen_i64(r);
    let u32v = (u & 0xffff_ffff) as u32;
    let (bu, bi, b32) = (bc(&u), bc(&i), bc(&u32v));
    let du: Result<(u64, usize), _> = bincode::serde::decode_from_slice(&bu, bincode::config::standard());
    let di: Result<(i64, usize), _> = bincode::serde::decode_from_slice(&bi, bincode::config::standard());
    let ok = matches!(du, Ok((x, n)) if x == u && n == bu.len()) && matches!(di, Ok((x, n)) if x == i && n == bi.len());
    out.emit(&Case {
        kind: "bc_int".into(),
        input: format!("u64={} i64={} u32={}", u, i, u32v),
        coq: Some(format!(
            "chk_bc_u64 {} {} && chk_bc_i64 {} {} && chk_bc_u32 {} {}",
            coq::zu(u),
            coq::bytes(&bu),
            coq::z(i),
            coq::bytes(&bi),
            coq::z(u32v),
            coq::bytes(&b32)
        )),
        oracle: if ok { Oracle::Ok } else { Oracle::Fail },
        nontrivial: u > 250 || !(-125..=125).contains(&i),
        imp: format!("{:?} {:?}", bu, bi),
        tags: vec![format!("varint:{}", bu.len()), format!("varint:{}", bi.len())],
        ..Default::default()
    });
    // decoding arbitrary bytes (non-minimal forms, reserved markers, short input)
    let n = r.below(11) as usize;
    let mut bs: Vec<u8> = (0..n).map(|_| r.below(256) as u8).collect();
    if !bs.is_empty() && r.chance(2, 3) {
        bs[0] = *r.pick(&[0u8, 250, 251, 252, 253, 254, 255]);
    }
    fn dec<T: serde::de::DeserializeOwned + Into<i128>>(bs: &[u8]) -> String {
        match bincode::serde::decode_from_slice::<T, _>(bs, bincode::config::standard()) {
            Ok((v, n)) => format!("(Some ({}, {}))", coq::z(v.into()), coq::z(n as i64)),
            Err(_) => "None".into(),
        }
    }
    out.emit(&Case {
        kind: "bc_dec_int".into(),
        input: format!("{:?}", bs),
        coq: Some(format!("chk_bc_dec_int {} {} {} {}", coq::bytes(&bs), dec::<u64>(&bs), dec::<u32>(&bs), dec::<i64>(&bs))),
        oracle: Oracle::Na,
        nontrivial: !bs.is_empty(),
        imp: dec::<u64>(&bs),
        tags: vec![format!("dec_int:{}", bs.first().map(|b| if *b <= 250 { "single".to_string() } else { b.to_string() }).unwrap_or("empty".into()))],
        ..Default::default()
    });
}

// ------------------------------------------------------------------------------------------
// one value: hash feed, bincode, spill, orderable
fn bc_decode(bs: &[u8]) -> Option<(Value, usize)> {
    bincode::serde::decode_from_slice::<Value, _>(bs, bincode::config::standard()).ok()
}
fn coq_dec(d: &Option<(Value, usize)>) -> String {
    match d {
        Some((v, n)) => format!("(Some ({}, {}))", cv(v), coq::z(*n as i64)),
        None => "None".into(),
    }
}
fn vtags(v: &Value, extra: &str) -> Vec<String> {
    vec![format!("variant:{}", variant(v)), format!("depth:{}", depth(v)), extra.to_string()]
}
fn nontrivial_value(v: &Value) -> bool {
    !matches!(v, Value::Null | Value::Bool(_))
}
fn case_value(v: &Value, src: &str, out: &mut Sink) {
    // hash feed
    let feed = feed_of(&HashableValue::new(v.clone()));
    out.emit(&Case {
        kind: "hfeed".into(),
        input: format!("{:?}", v),
        coq: Some(format!("chk_hfeed {} {}", cv(v), feed_coq(&feed))),
        show: Some(format!("hfeed {}", cv(v))),
        oracle: Oracle::Na,
        nontrivial: nontrivial_value(v),
        imp: format!("{} write calls", feed.len()),
        tags: vtags(v, src),
        ..Default::default()
    });
    // bincode: exactly the WAL's call
    let bytes = bc(v);
    let dec = bc_decode(&bytes);
    let ok = matches!(&dec, Some((w, n)) if bits_eq(w, v) && *n == bytes.len());
    out.emit(&Case {
        kind: "bincode".into(),
        input: format!("{:?}", v),
        coq: Some(format!("chk_bincode {} {} {}", cv(v), coq::bytes(&bytes), coq_dec(&dec))),
        show: Some(format!("enc_value {}", cv(v))),
        oracle: if ok { Oracle::Ok } else { Oracle::Fail },
        msg: if ok { String::new() } else { "bincode decode(encode(v)) differs from v bit for bit".into() },
        nontrivial: nontrivial_value(v),
        imp: format!("{} bytes {:?}", bytes.len(), &bytes[..bytes.len().min(24)]),
        tags: vtags(v, src),
        ..Default::default()
    });
    // spill
    let mut sb = Vec::new();
    let ret = serialize_value(v, &mut sb).expect("spill write");
    let mut cur = std::io::Cursor::new(&sb[..]);
    let sdec = deserialize_value(&mut cur).ok();
    let used = cur.position() as usize;
    let ok = matches!(&sdec, Some(w) if bits_eq(w, v)) && used == sb.len() && ret == sb.len();
    out.emit(&Case {
        kind: "spill".into(),
        input: format!("{:?}", v),
        coq: Some(format!(
            "chk_spill {} {} {} {}",
            cv(v),
            coq::bytes(&sb),
            coq::z(ret as i64),
            coq::opt(if used == sb.len() { sdec.as_ref().map(cv) } else { None })
        )),
        show: Some(format!("sp_enc {}", cv(v))),
        oracle: if ok { Oracle::Ok } else { Oracle::Fail },
        msg: if ok { String::new() } else { "spill deserialize(serialize(v)) differs from v bit for bit, or byte count wrong".into() },
        nontrivial: nontrivial_value(v),
        imp: format!("{} bytes ret={}", sb.len(), ret),
        tags: vtags(v, src),
        ..Default::default()
    });
    // orderable
    let o = OrderableValue::try_from(v);
    let obs = o.as_ref().map(|x| format!("({}, {}, {})", co(x), feed_coq(&feed_of(x)), cv(&x.clone().into_value())));
    let ok = match &o {
        Some(x) => bits_eq(&x.clone().into_value(), v),
        None => matches!(v, Value::Null | Value::Bytes(_) | Value::List(_) | Value::Map(_) | Value::Vector(_)),
    };
    out.emit(&Case {
        kind: "orderable".into(),
        input: format!("{:?}", v),
        coq: Some(format!("chk_orderable {} {}", cv(v), coq::opt(obs))),
        oracle: if ok { Oracle::Ok } else { Oracle::Fail },
        nontrivial: o.is_some(),
        imp: format!("{:?}", o),
        tags: vtags(v, src),
        ..Default::default()
    });
}

fn case_bincode_mut(r: &mut Rng, v: &Value, out: &mut Sink) {
    let mut bs = bc(v);
    let how = match r.below(6) {
        0 => {
            let n = r.below(bs.len() as u64 + 1) as usize;
            bs.truncate(n);
            "truncate"
        }
        1 => {
            let i = r.below(bs.len() as u64) as usize;
            bs[i] ^= 1 << r.below(8);
            "bitflip"
        }
        2 => {
            let i = r.below(bs.len() as u64) as usize;
            bs[i] = *r.pick(&[0u8, 1, 2, 9, 10, 250, 251, 252, 253, 254, 255, 0x80, 0xC0, 0xE0, 0xED, 0xF4, 0xF5]);
            "setbyte"
        }
        3 => {
            let i = r.below(bs.len() as u64 + 1) as usize;
            bs.insert(i, r.below(256) as u8);
            "insert"
        }
        4 => {
            bs.extend((0..r.below(4)).map(|_| r.below(256) as u8));
            "trailing"
        }
        _ => {
            bs = (0..r.below(12)).map(|_| if r.chance(1, 2) { r.below(11) as u8 } else { r.below(256) as u8 }).collect();
            "random"
        }
    };
    let dec = bc_decode(&bs);
    // oracle: whatever decodes re-encodes to a prefix-equal canonical form and decodes to itself again
    let ok = match &dec {
        Some((w, _)) => matches!(bc_decode(&bc(w)), Some((w2, _)) if bits_eq(&w2, w)),
        None => true,
    };
    out.emit(&Case {
        kind: "bincode_dec".into(),
        input: format!("{:?}", bs),
        coq: Some(format!("chk_bincode_dec {} {}", coq::bytes(&bs), coq_dec(&dec))),
        show: Some(format!("decode_from_slice {}", coq::bytes(&bs))),
        oracle: if ok { Oracle::Ok } else { Oracle::Fail },
        nontrivial: !bs.is_empty(),
        imp: format!("{:?}", dec.as_ref().map(|(w, n)| format!("{:?} used {}", w, n))),
        tags: vec![format!("mut:{}", how), format!("dec:{}", if dec.is_some() { "ok" } else { "err" })],
        ..Default::default()
    });
}

fn case_spill_mut(r: &mut Rng, v: &Value, out: &mut Sink) {
    // only mutations that keep every length field genuine (the reader allocates `len` bytes
    // before reading): truncation, and non-canonical bool bytes
    let mut sb = Vec::new();
    serialize_value(v, &mut sb).expect("spill write");
    let how = if let (Value::Bool(_), true) = (v, r.chance(1, 2)) {
        sb[1] = *r.pick(&[2u8, 255, 128]);
        "boolbyte"
    } else if r.chance(1, 4) {
        sb.extend((0..r.below(3)).map(|_| r.below(256) as u8));
        "trailing"
    } else {
        let n = r.below(sb.len() as u64 + 1) as usize;
        sb.truncate(n);
        "truncate"
    };
    let mut cur = std::io::Cursor::new(&sb[..]);
    let d = deserialize_value(&mut cur).ok();
    let used = cur.position() as usize;
    let obs = d.as_ref().map(|w| format!("({}, {})", cv(w), coq::z(used as i64)));
    out.emit(&Case {
        kind: "spill_dec".into(),
        input: format!("{:?}", sb),
        coq: Some(format!("chk_spill_dec {} {}", coq::bytes(&sb), coq::opt(obs))),
        oracle: Oracle::Na,
        nontrivial: !sb.is_empty(),
        imp: format!("{:?}", d),
        tags: vec![format!("spmut:{}", how), format!("spdec:{}", if d.is_some() { "ok" } else { "err" })],
        ..Default::default()
    });
}

fn case_spill_row(r: &mut Rng, out: &mut Sink) {
    let n = r.below(5) as usize;
    let row: Vec<Value> = (0..n).map(|_| gen_value(r, 2)).collect();
    let mut sb = Vec::new();
    let ret = serialize_row(&row, &mut sb).expect("row");
    let expected = match r.below(3) {
        0 => 0,
        1 => n,
        _ => n + 1,
    };
    let mut cur = std::io::Cursor::new(&sb[..]);
    let d = deserialize_row(&mut cur, expected).ok();
    let used = cur.position() as usize;
    let should = expected == 0 || expected == n;
    let ok = ret == sb.len()
        && match &d {
            Some(w) => should && used == sb.len() && w.len() == row.len() && w.iter().zip(row.iter()).all(|(a, b)| bits_eq(a, b)),
            None => !should,
        };
    out.emit(&Case {
        kind: "spill_row".into(),
        input: format!("{:?} expected={}", row, expected),
        coq: Some(format!(
            "chk_spill_row {} {} {} {} {}",
            coq::list(row.iter().map(cv)),
            coq::bytes(&sb),
            coq::z(ret as i64),
            coq::z(expected as i64),
            coq::opt(d.as_ref().map(|w| coq::list(w.iter().map(cv))))
        )),
        oracle: if ok { Oracle::Ok } else { Oracle::Fail },
        nontrivial: n > 0,
        imp: format!("{} bytes", sb.len()),
        tags: vec![format!("row:{}", n)],
        ..Default::default()
    });
}

// ------------------------------------------------------------------------------------------
// pairs
struct PairObs {
    h: bool,
    d: bool,
    o: Option<(bool, std::cmp::Ordering)>,
}
fn observe_pair(a: &Value, b: &Value) -> PairObs {
    let h = HashableValue::new(a.clone()) == HashableValue::new(b.clone());
    let d = a == b;
    let o = match (OrderableValue::try_from(a), OrderableValue::try_from(b)) {
        (Some(x), Some(y)) => Some((x == y, x.cmp(&y))),
        _ => None,
    };
    PairObs { h, d, o }
}
fn coq_pairobs(p: &PairObs) -> String {
    format!("{} {} {}", coq::b(p.h), coq::b(p.d), coq::opt(p.o.map(|(e, c)| format!("({}, {})", coq::b(e), ccmp(c)))))
}
fn pair_nontrivial(a: &Value, b: &Value) -> bool {
    fn boundary(v: &Value) -> bool {
        match v {
            Value::Int64(i) => i.unsigned_abs() >= (1 << 53) - 1,
            Value::Float64(f) => !f.is_normal() || f.abs() >= 9007199254740991.0,
            _ => false,
        }
    }
    variant(a) != variant(b) || boundary(a) || boundary(b)
}
fn case_pair(a: &Value, b: &Value, src: &str, out: &mut Sink) {
    let (ab, ba, aa, bb) = (observe_pair(a, b), observe_pair(b, a), observe_pair(a, a), observe_pair(b, b));
    let (fa, fb) = (feed_of(&HashableValue::new(a.clone())), feed_of(&HashableValue::new(b.clone())));
    // HashableValue laws on the implementation
    let h_ok = ab.h == ba.h && ab.h == bits_eq(a, b) && (!ab.h || fa == fb) && aa.h && bb.h;
    // additionally: heq <=> identical bincode bytes (an independent witness of bit-level identity)
    let enc_agree = (bc(a) == bc(b)) == ab.h;
    // OrderableValue laws on the implementation
    let (oa, ob) = (OrderableValue::try_from(a), OrderableValue::try_from(b));
    let olaws = match (&oa, &ob) {
        (Some(x), Some(y)) => {
            let (e, c) = ab.o.unwrap();
            let (e2, c2) = ba.o.unwrap();
            let pair_ok = c2 == c.reverse() && e == (c == std::cmp::Ordering::Equal) && e == e2;
            let hash_ok = (!e || feed_of(x) == feed_of(y)) && (!e2 || feed_of(y) == feed_of(x));
            Some((pair_ok, hash_ok))
        }
        _ => None,
    };
    let mut c = Case {
        kind: "pair".into(),
        input: format!("{:?} | {:?}", a, b),
        coq: Some(format!(
            "chk_pair2 {} {} {} {} {} {}",
            cv(a),
            cv(b),
            coq_pairobs(&ab),
            coq_pairobs(&ba),
            coq::b(h_ok),
            coq::opt(olaws.map(|(p, h)| format!("({}, {})", coq::b(p), coq::b(h))))
        )),
        oracle: Oracle::Ok,
        nontrivial: pair_nontrivial(a, b),
        imp: format!("heq={} veq={} ord={:?}", ab.h, ab.d, ab.o),
        tags: vec![format!("pair:{}", src), format!("pairv:{}/{}", variant(a), variant(b)), format!("heq:{}", ab.h)],
        ..Default::default()
    };
    if !h_ok || !enc_agree {
        c.oracle = Oracle::Fail;
        c.msg = "HashableValue: == is not symmetric / not bit-level identity / equal values feed the hasher differently".into();
    } else if let Some((pair_ok, hash_ok)) = olaws {
        if !pair_ok {
            c.oracle = Oracle::Fail;
            c.msg = "OrderableValue: cmp not antisymmetric, or == disagrees with cmp == Equal".into();
        } else if !hash_ok {
            c.oracle = Oracle::Fail;
            c.msg = "OrderableValue: equal values feed the hasher differently".into();
            c.kid = Some("C16-K2".into());
            c.kcoq = Some(format!("k_hash_v {} {}", cv(a), cv(b)));
        }
    }
    out.emit(&c);
}

// ------------------------------------------------------------------------------------------
// triples
fn perms3<T: Clone>(a: &T, b: &T, c: &T) -> [(T, T, T); 6] {
    [
        (a.clone(), b.clone(), c.clone()),
        (a.clone(), c.clone(), b.clone()),
        (b.clone(), a.clone(), c.clone()),
        (b.clone(), c.clone(), a.clone()),
        (c.clone(), a.clone(), b.clone()),
        (c.clone(), b.clone(), a.clone()),
    ]
}
fn case_otriple(a: &OrderableValue, b: &OrderableValue, c: &OrderableValue, src: &str, out: &mut Sink) {
    use std::cmp::Ordering::Greater;
    let mut trans_ok = true;
    for (x, y, z) in perms3(a, b, c) {
        if x.cmp(&y) != Greater && y.cmp(&z) != Greater && x.cmp(&z) == Greater {
            trans_ok = false;
        }
        if x == y && y == z && x != z {
            trans_ok = false;
        }
    }
    // a BTreeIndex keyed by the three values: its size must not depend on the insertion order
    let mut lens = Vec::new();
    let mut sorted_ok = true;
    for (x, y, z) in perms3(a, b, c) {
        let idx: BTreeIndex<OrderableValue, NodeId> = BTreeIndex::new();
        idx.insert(x, NodeId::new(1));
        idx.insert(y, NodeId::new(2));
        idx.insert(z, NodeId::new(3));
        lens.push(idx.len());
        let all = idx.range(..);
        if !all.windows(2).all(|w| w[0].0.cmp(&w[1].0) == std::cmp::Ordering::Less) {
            sorted_ok = false;
        }
        for k in [a, b, c] {
            if !idx.contains(k) {
                sorted_ok = false;
            }
        }
    }
    let btree_ok = lens.iter().all(|l| *l == lens[0]) && sorted_ok;
    let mixed = [a, b, c].iter().any(|v| matches!(v, OrderableValue::Int64(_))) && [a, b, c].iter().any(|v| matches!(v, OrderableValue::Float64(_)));
    let mut cs = Case {
        kind: "otriple".into(),
        input: format!("{:?} | {:?} | {:?}", a, b, c),
        coq: Some(format!("chk_triple {} {} {} {}", co(a), co(b), co(c), coq::b(trans_ok))),
        oracle: Oracle::Ok,
        nontrivial: mixed || [a, b, c].iter().any(|v| matches!(v, OrderableValue::Float64(f) if !f.0.is_normal())),
        imp: format!("transitive={} btree_lens={:?} btree_sorted={}", trans_ok, lens, sorted_ok),
        tags: vec![format!("otriple:{}", src), format!("otriple:mixed={}", mixed)],
        ..Default::default()
    };
    if !trans_ok || !btree_ok {
        cs.oracle = Oracle::Fail;
        cs.msg = format!("OrderableValue: cmp/== not transitive (transitive={}, BTreeIndex sizes by insertion order {:?})", trans_ok, lens);
        cs.kid = Some("C16-K1".into());
        cs.kcoq = Some(format!("k_trans {} {} {}", co(a), co(b), co(c)));
    }
    out.emit(&cs);
}
fn case_htriple(a: &Value, b: &Value, c: &Value, out: &mut Sink) {
    let h = |x: &Value, y: &Value| HashableValue::new(x.clone()) == HashableValue::new(y.clone());
    let mut ok = true;
    for (x, y, z) in perms3(a, b, c) {
        if h(&x, &y) && h(&y, &z) && !h(&x, &z) {
            ok = false;
        }
    }
    out.emit(&Case {
        kind: "htriple".into(),
        input: format!("{:?} | {:?} | {:?}", a, b, c),
        coq: Some(format!("chk_htriple {} {} {} {}", cv(a), cv(b), cv(c), coq::b(ok))),
        oracle: if ok { Oracle::Ok } else { Oracle::Fail },
        msg: if ok { String::new() } else { "HashableValue: == not transitive".into() },
        nontrivial: variant(a) != variant(b) || variant(b) != variant(c) || h(a, b) || h(b, c),
        imp: format!("transitive={}", ok),
        ..Default::default()
    });
}

// ------------------------------------------------------------------------------------------
// indexes and operators
struct OneChunk(Option<DataChunk>);
impl Operator for OneChunk {
    fn next(&mut self) -> OperatorResult {
        Ok(self.0.take())
    }
    fn reset(&mut self) {}
    fn name(&self) -> &'static str {
        "OneChunk"
    }
}
fn chunk_of(vals: &[Value]) -> DataChunk {
    DataChunk::new(vec![ValueVector::from_values(vals)])
}
fn distinct_rows(vals: &[Value]) -> usize {
    let mut op = DistinctOperator::new(Box::new(OneChunk(Some(chunk_of(vals)))), vec![LogicalType::Any]);
    let mut n = 0;
    while let Ok(Some(ch)) = op.next() {
        n += ch.row_count();
    }
    n
}
fn group_by(vals: &[Value]) -> Vec<(Value, i64)> {
    let mut op = HashAggregateOperator::new(
        Box::new(OneChunk(Some(chunk_of(vals)))),
        vec![0],
        vec![AggregateExpr::count_star()],
        vec![LogicalType::Any, LogicalType::Int64],
    );
    let mut res = Vec::new();
    while let Ok(Some(ch)) = op.next() {
        for row in ch.selected_indices() {
            let k = ch.column(0).and_then(|c| c.get_value(row)).unwrap_or(Value::Null);
            let n = ch.column(1).and_then(|c| c.get_int64(row)).unwrap_or(-1);
            res.push((k, n));
        }
    }
    res
}
fn case_rowkey(a: &Value, b: &Value, out: &mut Sink, only_if_interesting: bool) {
    let same = bits_eq(a, b);
    let d = distinct_rows(&[a.clone(), b.clone()]);
    let g = group_by(&[a.clone(), b.clone()]);
    let merged = d == 1;
    let gmerged = g.len() == 1;
    let ok = merged == same && gmerged == same;
    let simple = |v: &Value| matches!(v, Value::Null | Value::Bool(_) | Value::Int64(_) | Value::Float64(_) | Value::String(_));
    if only_if_interesting && ok && !(simple(a) && simple(b)) {
        return;
    }
    let mut c = Case {
        kind: "rowkey".into(),
        input: format!("{:?} | {:?}", a, b),
        coq: Some(format!("chk_rowkey2 {} {} {} {}", cv(a), cv(b), coq::b(merged), coq::b(gmerged))),
        oracle: Oracle::Ok,
        nontrivial: variant(a) != variant(b) || !simple(a),
        imp: format!("distinct_rows={} groups={:?}", d, g),
        tags: vec![format!("rowkey:merged={}", merged), format!("rowkey:same={}", same)],
        ..Default::default()
    };
    if !ok {
        c.oracle = Oracle::Fail;
        c.msg = format!("DISTINCT / GROUP BY {} two values that are {} (distinct rows {}, groups {})", if merged || gmerged { "merge" } else { "separate" }, if same { "identical" } else { "different" }, d, g.len());
        c.kid = Some("C16-K3".into());
        c.kcoq = Some(format!("k_rowkey_ne {} {}", cv(a), cv(b)));
    }
    out.emit(&c);
}
fn case_groupkey(v: &Value, out: &mut Sink) {
    // GROUP BY over a single row: the key column of the result must be the key that went in
    let g = group_by(&[v.clone()]);
    let ret = g.first().map(|(k, _)| k.clone()).unwrap_or(Value::Null);
    let ok = g.len() == 1 && bits_eq(&ret, v) && g[0].1 == 1;
    let mut c = Case {
        kind: "groupkey".into(),
        input: format!("{:?}", v),
        coq: Some(format!("chk_groupkey {} {}", cv(v), cv(&ret))),
        oracle: Oracle::Ok,
        nontrivial: nontrivial_value(v),
        imp: format!("{:?}", g),
        tags: vec![format!("groupkey:{}", variant(v))],
        ..Default::default()
    };
    if !ok {
        c.oracle = Oracle::Fail;
        c.msg = format!("GROUP BY returns the key {:?} for the input key {:?}", ret, v);
        c.kid = Some("C16-K3".into());
        c.kcoq = Some(format!("k_groupkey {}", cv(v)));
    }
    out.emit(&c);
}
fn case_hash_index(vals: &[Value], out: &mut Sink) {
    // HashIndex keyed by HashableValue: one entry per bit-level class, every value is found,
    // and it maps to the last inserted member of its class
    let idx: HashIndex<HashableValue, NodeId> = HashIndex::new();
    for (i, v) in vals.iter().enumerate() {
        idx.insert(HashableValue::new(v.clone()), NodeId::new(i as u64));
    }
    let mut classes: Vec<&Value> = Vec::new();
    for v in vals {
        if !classes.iter().any(|w| bits_eq(w, v)) {
            classes.push(v);
        }
    }
    let mut ok = idx.len() == classes.len();
    for v in vals {
        let last = vals.iter().rposition(|w| bits_eq(w, v)).unwrap();
        if idx.get(&HashableValue::new(v.clone())) != Some(NodeId::new(last as u64)) {
            ok = false;
        }
    }
    // same through std's HashSet (SipHash) — any hasher must agree
    let hs: std::collections::HashSet<HashableValue> = vals.iter().map(|v| HashableValue::new(v.clone())).collect();
    if hs.len() != classes.len() {
        ok = false;
    }
    out.emit(&Case {
        kind: "hash_index".into(),
        input: format!("{} values", vals.len()),
        coq: None,
        oracle: if ok { Oracle::Ok } else { Oracle::Fail },
        msg: if ok { String::new() } else { "HashIndex<HashableValue> separates identical values or merges different ones".into() },
        nontrivial: true,
        imp: format!("len={} classes={}", idx.len(), classes.len()),
        ..Default::default()
    });
}

/// the WAL's own use of bincode: log SetNodeProperty records through WalManager, read the file
/// back frame by frame (payload compared with the model), and recover them with WalRecovery
fn cases_wal(vals: &[Value], out: &mut Sink) {
    use grafeo_adapters::storage::wal::{WalManager, WalRecord, WalRecovery};
    use grafeo_common::types::TxId;
    let dir = std::path::PathBuf::from(format!("scratch/c16_wal_{}", std::process::id()));
    let _ = std::fs::remove_dir_all(&dir);
    std::fs::create_dir_all(&dir).expect("scratch dir");
    {
        let wal = WalManager::open(&dir).expect("wal open");
        for (i, v) in vals.iter().enumerate() {
            wal.log(&WalRecord::SetNodeProperty { id: NodeId::new(i as u64 * 97), key: format!("k{}é", i), value: v.clone() }).expect("wal log");
        }
        wal.log(&WalRecord::TxCommit { tx_id: TxId(7) }).expect("wal commit");
        wal.sync().expect("wal sync");
    }
    let mut files: Vec<_> = std::fs::read_dir(&dir).unwrap().flatten().map(|e| e.path()).filter(|p| p.extension().is_some_and(|x| x == "log")).collect();
    files.sort();
    let mut raw = Vec::new();
    for f in &files {
        raw.extend(std::fs::read(f).unwrap());
    }
    let recovered = WalRecovery::new(&dir).recover().unwrap_or_default();
    let mut pos = 0usize;
    for (i, v) in vals.iter().enumerate() {
        let mut payload = Vec::new();
        let mut frame_ok = false;
        if pos + 4 <= raw.len() {
            let len = u32::from_le_bytes(raw[pos..pos + 4].try_into().unwrap()) as usize;
            if pos + 4 + len + 4 <= raw.len() {
                payload = raw[pos + 4..pos + 4 + len].to_vec();
                let crc = u32::from_le_bytes(raw[pos + 4 + len..pos + 8 + len].try_into().unwrap());
                frame_ok = crc == crc32fast::hash(&payload);
                pos += 8 + len;
            }
        }
        let rec_ok = matches!(recovered.get(i), Some(WalRecord::SetNodeProperty { id, key, value }) if *id == NodeId::new(i as u64 * 97) && *key == format!("k{}é", i) && bits_eq(value, v));
        let ok = frame_ok && rec_ok;
        out.emit(&Case {
            kind: "wal_value".into(),
            input: format!("{:?}", v),
            coq: Some(format!("chk_wal_setprop {} {} {} {}", coq::zu(i as u64 * 97), coq::bytes(format!("k{}é", i).as_bytes()), cv(v), coq::bytes(&payload))),
            oracle: if ok { Oracle::Ok } else { Oracle::Fail },
            msg: if ok { String::new() } else { format!("WAL frame/recovery of a SetNodeProperty record loses the value (frame_ok={} recovered_ok={})", frame_ok, rec_ok) },
            nontrivial: nontrivial_value(v),
            imp: format!("{} payload bytes", payload.len()),
            tags: vtags(v, "wal"),
            ..Default::default()
        });
    }
    let _ = std::fs::remove_dir_all(&dir);
}

// ------------------------------------------------------------------------------------------
/// Long payloads: length prefixes above 2^16 (strings, byte strings, map keys, lists, vectors).  Oracle on
/// the implementation (bit-for-bit round trips through bincode and the spill format, reflexive
/// HashableValue equality, equal hash feeds of equal values).
fn cases_long(out: &mut Sink, thorough: bool) {
    let lens: &[usize] = if thorough { &[65_535, 65_536, 65_537, 70_001, 131_073, 300_000] } else { &[65_535, 65_536, 65_537, 70_001] };
    for &n in lens {
        let txt: String = (0..n).map(|i| (b'a' + (i % 23) as u8) as char).collect();
        let bytes: Vec<u8> = (0..n).map(|i| (i * 7 + i / 251) as u8).collect();
        let mut vals: Vec<(&str, Value)> = vec![
            ("string", vs(&txt)),
            ("bytes", vb(&bytes)),
            ("list", vl((0..n).map(|i| if i % 3 == 0 { Value::Null } else { Value::Int64(i as i64) }).collect())),
            ("vector", vv(&(0..n).map(|i| i as u32).collect::<Vec<_>>())),
        ];
        let mut m = BTreeMap::new();
        m.insert(grafeo_common::types::PropertyKey::new(txt.as_str()), Value::Int64(n as i64));
        m.insert(grafeo_common::types::PropertyKey::new("k"), vs(&txt[..n / 2]));
        vals.push(("mapkey", Value::Map(std::sync::Arc::new(m))));
        for (what, v) in vals {
            let bytes_bc = bc(&v);
            let dec = bc_decode(&bytes_bc);
            let ok_bc = matches!(&dec, Some((w, k)) if bits_eq(w, &v) && *k == bytes_bc.len());
            let mut sb = Vec::new();
            let ret = serialize_value(&v, &mut sb).expect("spill write");
            let mut cur = std::io::Cursor::new(&sb[..]);
            let sdec = deserialize_value(&mut cur).ok();
            let used = cur.position() as usize;
            let ok_sp = matches!(&sdec, Some(w) if bits_eq(w, &v)) && used == sb.len() && ret == sb.len();
            let h1 = HashableValue::new(v.clone());
            let h2 = HashableValue::new(v.clone());
            let ok_h = h1 == h2 && feed_of(&h1) == feed_of(&h2);
            let ok = ok_bc && ok_sp && ok_h;
            out.emit(&Case {
                kind: "long".into(),
                input: format!("{} of length {}", what, n),
                coq: None, // a 2^16-element list literal overflows coqc's stack: oracle on the implementation only
                oracle: if ok { Oracle::Ok } else { Oracle::Fail },
                msg: if ok { String::new() } else { format!("long payload does not survive: bincode ok={} spill ok={} (used {} of {} bytes, ret {}) hashable ok={}", ok_bc, ok_sp, used, sb.len(), ret, ok_h) },
                nontrivial: true,
                imp: format!("bincode {} bytes, spill {} bytes", bytes_bc.len(), sb.len()),
                tags: vec![format!("long:{}", what)],
                ..Default::default()
            });
        }
    }
}

fn main() {
    let a = parse_args();
    quiet_panics();
    let mut batch = 4usize;
    let mut it = a.rest.iter();
    while let Some(x) = it.next() {
        if x == "--batch" {
            batch = it.next().and_then(|v| v.parse().ok()).unwrap_or(4);
        }
    }
    let mut out = Sink { out: Out::create(a.out.as_deref()), batch, bufs: BTreeMap::new() };
    let mut r = Rng::new(a.seed);
    let thorough = a.tier == "thorough";
    let pool = pool();

    // ---- corpus: the witnesses of the findings (must keep failing on HEAD) and of the theorems
    let w = |i: i64| OrderableValue::Int64(i);
    let wf = |b: u64| OrderableValue::try_from(&vf(b)).unwrap();
    case_otriple(&w(P53 + 1), &wf(0x4340_0000_0000_0000), &w(P53), "corpus", &mut out);
    case_otriple(&w(i64::MAX), &wf(0x43E0_0000_0000_0000), &w(i64::MAX - 1), "corpus", &mut out);
    case_pair(&Value::Int64(1), &vf(ONE_BITS), "corpus", &mut out);
    case_pair(&vf(0), &vf(1 << 63), "corpus", &mut out);
    case_pair(&vf(QNAN), &vf(QNAN | 1), "corpus", &mut out);
    case_rowkey(&Value::Int64(ONE_BITS as i64), &vf(ONE_BITS), &mut out, false);
    case_rowkey(&vb(&[1, 2, 3]), &vb(&[1, 9, 3]), &mut out, false);

    // ---- long payloads (length prefixes above 2^16)
    cases_long(&mut out, thorough);

    // ---- floats
    for (i, &x) in F64_BOUND.iter().enumerate() {
        case_f64_class(x, &mut out);
        for &y in F64_BOUND.iter().skip(if thorough { 0 } else { i }) {
            case_f64_pair(x, y, &mut out);
        }
    }
    for &x in I64_BOUND.iter() {
        case_of_i64(x, &mut out);
    }
    for &x in F32_BOUND.iter() {
        for &y in F32_BOUND.iter() {
            case_f32(x, y, &mut out);
        }
    }
    let nf = if thorough { 2500 } else { 250 };
    for _ in 0..nf {
        let (x, y) = (gen_f64_bits(&mut r), gen_f64_bits(&mut r));
        case_f64_pair(x, y, &mut out);
        case_f64_class(x, &mut out);
        case_of_i64(gen_i64(&mut r), &mut out);
        // rounding boundaries: 54..63-bit integers around a tie
        let w = 54 + r.below(10);
        let base = (1i64 << (w - 1)) | ((r.next() as i64) & ((1i64 << (w - 1)) - 1));
        let sh = w - 53;
        let tie = (base >> sh << sh) | (1i64 << (sh - 1));
        let v = tie.wrapping_add(r.range(-1, 1));
        case_of_i64(if r.chance(1, 2) { v } else { v.wrapping_neg() }, &mut out);
        case_f32(gen_f32_bits(&mut r), gen_f32_bits(&mut r), &mut out);
        case_bc_prims(&mut r, &mut out);
    }

    // ---- every pool value, all unordered pairs (both directions are observed in one case)
    for v in &pool {
        case_value(v, "pool", &mut out);
        case_groupkey(v, &mut out);
    }
    for i in 0..pool.len() {
        for j in i..pool.len() {
            case_pair(&pool[i], &pool[j], "pool", &mut out);
            case_rowkey(&pool[i], &pool[j], &mut out, true);
        }
    }
    case_hash_index(&pool, &mut out);
    cases_wal(&pool, &mut out);

    // ---- triples: all triples of the numeric boundary set, a sample of the orderable pool
    let opool: Vec<OrderableValue> = pool.iter().filter_map(OrderableValue::try_from).collect();
    let numeric: Vec<OrderableValue> = vec![
        w(P53 - 1),
        w(P53),
        w(P53 + 1),
        w(P53 + 2),
        w(P53 + 3),
        wf(0x4340_0000_0000_0000),
        wf(0x4340_0000_0000_0001),
        wf(0x433F_FFFF_FFFF_FFFF),
        w(i64::MAX),
        w(i64::MAX - 1),
        wf(0x43E0_0000_0000_0000),
        w(0),
        wf(0),
        wf(1 << 63),
        wf(QNAN),
        wf(QNAN | 1),
    ];
    for i in 0..numeric.len() {
        for j in (i + 1)..numeric.len() {
            for k in (j + 1)..numeric.len() {
                case_otriple(&numeric[i], &numeric[j], &numeric[k], "numeric", &mut out);
            }
        }
    }
    let nt = if thorough { 10000 } else { 500 };
    for _ in 0..nt {
        let (x, y, z) = (r.pick(&opool).clone(), r.pick(&opool).clone(), r.pick(&opool).clone());
        case_otriple(&x, &y, &z, "pool", &mut out);
    }
    for _ in 0..nt {
        // generated numeric triples around a common magnitude (where Int/Float collisions live)
        let base = gen_i64(&mut r);
        let mut t = Vec::new();
        for _ in 0..3 {
            let i = base.wrapping_add(r.range(-3, 3));
            t.push(match r.below(3) {
                0 => w(i),
                1 => wf((i as f64).to_bits()),
                _ => wf(((i as f64).to_bits()).wrapping_add(r.range(-1, 1) as u64)),
            });
        }
        case_otriple(&t[0], &t[1], &t[2], "generated", &mut out);
    }
    for _ in 0..(nt / 2) {
        let x = r.pick(&pool).clone();
        let y = if r.chance(1, 2) { x.clone() } else { r.pick(&pool).clone() };
        let z = if r.chance(1, 2) { mutate_value(&mut r, &y) } else { r.pick(&pool).clone() };
        case_htriple(&x, &y, &z, &mut out);
    }

    // ---- generated values: per-value observations, near-equal pairs, mutated encodings
    for i in 0..a.cases {
        let v = gen_value(&mut r, 4);
        match i % 4 {
            0 => {
                case_value(&v, "generated", &mut out);
                case_groupkey(&gen_scalar(&mut r), &mut out);
            }
            1 => {
                let m = mutate_value(&mut r, &v);
                case_pair(&v, &m, "near-equal", &mut out);
                case_rowkey(&v, &m, &mut out, true);
                let s = gen_scalar(&mut r);
                let s2 = gen_scalar(&mut r);
                case_pair(&s, &s2, "scalars", &mut out);
            }
            2 => {
                case_bincode_mut(&mut r, &v, &mut out);
                case_spill_mut(&mut r, &v, &mut out);
            }
            _ => {
                case_spill_row(&mut r, &mut out);
                let vals: Vec<Value> = (0..8).map(|_| if r.chance(1, 2) { r.pick(&pool).clone() } else { gen_scalar(&mut r) }).collect();
                case_hash_index(&vals, &mut out);
            }
        }
    }
    out.finish();
}
