//! scratch probe 2 (will be replaced)
use grafeo_core::graph::lpg::LpgStore;
use grafeo_core::graph::Direction;
use grafeo_common::types::{NodeId, EdgeId, Value, TxId};
use grafeo_adapters::storage::wal::{WalManager, WalConfig, WalRecord, WalRecovery, DurabilityMode};
use std::sync::{Arc, Barrier};
use std::time::Instant;
fn main() {
    // edge create/delete race
    let t0 = Instant::now(); let mut torn = 0;
    for _ in 0..3000 {
        let st = Arc::new(LpgStore::new());
        let a = st.create_node(&["A"]); let b = st.create_node(&["A"]);
        let bar = Arc::new(Barrier::new(2));
        let (s1,b1) = (st.clone(), bar.clone());
        let h1 = std::thread::spawn(move || { b1.wait(); for _ in 0..4 { s1.create_edge(a, b, "R"); } });
        let (s2,b2) = (st.clone(), bar.clone());
        let h2 = std::thread::spawn(move || { b2.wait(); for e in 0..4 { for _ in 0..3 { s2.delete_edge(EdgeId::new(e)); } } });
        h1.join().unwrap(); h2.join().unwrap();
        let live: Vec<u64> = (0..4).filter(|e| st.get_edge(EdgeId::new(*e)).is_some()).collect();
        let mut adj: Vec<u64> = st.edges_from(a, Direction::Outgoing).map(|(_, e)| e.as_u64()).collect(); adj.sort();
        let mut adjin: Vec<u64> = st.edges_to(b).into_iter().map(|(_, e)| e.as_u64()).collect(); adjin.sort();
        if adj != live || adjin != live { torn += 1; }
    }
    println!("edge create/delete race: torn={} {:?}", torn, t0.elapsed());
    // add_label / remove_label same node same label
    let t0 = Instant::now(); let mut torn = 0;
    for _ in 0..3000 {
        let st = Arc::new(LpgStore::new());
        let ids: Vec<NodeId> = (0..4).map(|_| st.create_node(&["A"])).collect();
        let bar = Arc::new(Barrier::new(2));
        let (s1,b1,i1) = (st.clone(), bar.clone(), ids.clone());
        let h1 = std::thread::spawn(move || { b1.wait(); for n in &i1 { s1.add_label(*n, "B"); } });
        let (s2,b2,i2) = (st.clone(), bar.clone(), ids.clone());
        let h2 = std::thread::spawn(move || { b2.wait(); for n in &i2 { for _ in 0..3 { s2.remove_label(*n, "B"); } } });
        h1.join().unwrap(); h2.join().unwrap();
        let inb = st.nodes_by_label("B");
        let mut bad = false;
        for n in &ids { let has = st.get_node(*n).unwrap().has_label("B"); if has != inb.contains(n) { bad = true; } }
        if bad { torn += 1; }
    }
    println!("add/remove label race: torn={} {:?}", torn, t0.elapsed());
    // property index set/set race
    let t0 = Instant::now(); let mut torn = 0;
    for _ in 0..2000 {
        let st = Arc::new(LpgStore::new());
        st.create_property_index("k");
        let n = st.create_node(&["A"]);
        let bar = Arc::new(Barrier::new(2));
        let (s1,b1) = (st.clone(), bar.clone());
        let h1 = std::thread::spawn(move || { b1.wait(); for v in 0..4i64 { s1.set_node_property(n, "k", Value::from(v)); } });
        let (s2,b2) = (st.clone(), bar.clone());
        let h2 = std::thread::spawn(move || { b2.wait(); for v in 10..14i64 { s2.set_node_property(n, "k", Value::from(v)); } });
        h1.join().unwrap(); h2.join().unwrap();
        let cur = st.get_node_property(n, &"k".into()).unwrap();
        let mut hits = 0; for v in (0..4i64).chain(10..14) { if st.find_nodes_by_property("k", &Value::from(v)).contains(&n) { hits += 1; if Value::from(v) != cur { } } }
        if hits != 1 || !st.find_nodes_by_property("k", &cur).contains(&n) { torn += 1; }
    }
    println!("property index set/set race: torn={} {:?}", torn, t0.elapsed());
    // WAL rotation order
    let t0 = Instant::now(); let mut bad_order = 0; let mut lost = 0;
    for rep in 0..60 {
        let dir = tempfile::tempdir().unwrap();
        let cfg = WalConfig { durability: DurabilityMode::NoSync, max_log_size: 64, compression: false };
        let wal = Arc::new(WalManager::with_config(dir.path(), cfg).unwrap());
        let bar = Arc::new(Barrier::new(4));
        let hs: Vec<_> = (0..4u64).map(|t| { let w = wal.clone(); let b = bar.clone(); std::thread::spawn(move || { b.wait(); for k in 0..50u64 { w.log(&WalRecord::DeleteNode { id: NodeId::new(t*1000+k) }).unwrap(); } }) }).collect();
        for h in hs { h.join().unwrap(); }
        wal.log(&WalRecord::TxCommit { tx_id: TxId::new(7) }).unwrap(); wal.sync().unwrap();
        let recs = WalRecovery::new(dir.path()).recover().unwrap();
        let ids: Vec<u64> = recs.iter().filter_map(|r| if let WalRecord::DeleteNode { id } = r { Some(id.as_u64()) } else { None }).collect();
        if ids.len() != 200 { lost += 1; if lost <= 3 { println!("  rep {} recovered {} of 200", rep, ids.len()); } }
        for t in 0..4u64 { let mine: Vec<u64> = ids.iter().copied().filter(|x| x / 1000 == t).collect(); if mine.windows(2).any(|w| w[0] > w[1]) { bad_order += 1; break; } }
    }
    println!("wal rotation: lost={} bad_order={} {:?}", lost, bad_order, t0.elapsed());
}
