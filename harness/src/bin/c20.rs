//! C20 — concurrent use is safe.
//!
//! A deterministic scheduler drives real threads through the real code: every worker thread
//! blocks inside the `grafeo_common::verif` yield-point hook (commit 45dda10 of /repo) until the
//! driver grants it the next step of the schedule; a granted step runs from the current yield
//! point (or the start of the operation) to the next yield point (or the end of the operation) and
//! reports where it ended.  Per case the harness emits
//!   * the schedule, the yield site at which every step ended, the per-thread outputs and the
//!     post-quiescence observations, as the Coq term `(chk_*_sched …, orc_* …)` (GV.Conc.Run):
//!     first component = model on the same schedule == implementation (step by step: sites,
//!     outputs, final state), second = the property on the implementation's observation
//!     (cross-checks + equal to SOME sequential order);
//!   * the finding class predicate of the domain applied to the programs.
//! A watchdog turns a step that neither yields nor finishes into the observation "blocked".
//! Hook-free phases (real OS scheduling) hammer the same operations and check the properties on
//! the outcome (searched, not proved): ids, epochs, limit, accounting, log completeness,
//! consistency of disjoint-entity programs, deadlock.
use grafeo_adapters::storage::wal::{DurabilityMode, WalConfig, WalManager, WalRecord, WalRecovery};
use grafeo_common::memory::buffer::{BufferManager, BufferManagerConfig, MemoryGrant, MemoryRegion};
use grafeo_common::types::{EdgeId, NodeId, TxId, Value};
use grafeo_core::graph::Direction;
use grafeo_core::graph::lpg::LpgStore;
use grafeo_core::graph::rdf::{RdfStore, Term, Triple};
use grafeo_engine::transaction::TransactionManager;
use gv_harness::*;
use std::cell::RefCell;
use std::collections::{BTreeMap, BTreeSet, HashMap};
use std::fmt::Write as _;
use std::sync::atomic::{AtomicBool, AtomicU64, AtomicUsize, Ordering};
use std::sync::mpsc::{Receiver, RecvTimeoutError, Sender, channel};
use std::sync::{Arc, Barrier, Mutex};
use std::time::{Duration, Instant};

// ------------------------------------------------------------------------------------------------
// outputs of operations (Coq: Inductive out := OZ | OB | ONone)

#[derive(Clone, Debug, PartialEq, Eq)]
enum Outv {
    Z(i64),
    B(bool),
    None,
}
impl Outv {
    fn coq(&self) -> String {
        match self {
            Outv::Z(z) => format!("OZ {}", zi(*z)),
            Outv::B(b) => format!("OB {}", b),
            Outv::None => "ONone".into(),
        }
    }
}
fn zi(v: i64) -> String {
    if v < 0 { format!("({})", v) } else { format!("{}", v) }
}
fn zlist<I: IntoIterator<Item = i64>>(it: I) -> String {
    let mut s = String::from("[");
    for (i, x) in it.into_iter().enumerate() {
        if i > 0 {
            s.push_str("; ");
        }
        s.push_str(&zi(x));
    }
    s.push(']');
    s
}
fn natlist(xs: &[usize]) -> String {
    let mut s = String::from("[");
    for (i, x) in xs.iter().enumerate() {
        if i > 0 {
            s.push_str("; ");
        }
        let _ = write!(s, "{}", x);
    }
    s.push_str("]%nat");
    s
}
fn strlist(xs: &[String]) -> String {
    let mut s = String::from("[");
    for (i, x) in xs.iter().enumerate() {
        if i > 0 {
            s.push_str("; ");
        }
        let _ = write!(s, "\"{}\"%string", x);
    }
    s.push(']');
    s
}
fn list_of<I: IntoIterator<Item = String>>(it: I) -> String {
    let mut s = String::from("[");
    for (i, x) in it.into_iter().enumerate() {
        if i > 0 {
            s.push_str("; ");
        }
        s.push_str(&x);
    }
    s.push(']');
    s
}

// ------------------------------------------------------------------------------------------------
// the scheduler

enum Report {
    Yield(&'static str),
    Done(Outv),
    Panic(String),
}
enum Grant {
    Go,
    Abort,
}
struct WorkerCtx {
    tid: usize,
    to_driver: Sender<(usize, Report)>,
    grants: Receiver<Grant>,
    /// stop also at the yield points that lie INSIDE critical sections (sites "held:…")
    stop_held: bool,
}
thread_local! {
    static CTX: RefCell<Option<WorkerCtx>> = const { RefCell::new(None) };
}
/// payload of the unwinding that ends a worker whose case was given up by the watchdog
struct AbortCase;

/// mode of the hook for threads that are not scheduler workers: 0 = nothing, 1 = perturb
/// (yield_now / short spin, used by the stress phases to widen race windows)
static PERTURB: AtomicBool = AtomicBool::new(false);
static PERTURB_CTR: AtomicU64 = AtomicU64::new(0);

fn hook(site: &'static str) {
    let is_worker = CTX.with(|c| c.borrow().is_some());
    if !is_worker {
        if PERTURB.load(Ordering::Relaxed) && !site.starts_with("held:") {
            let n = PERTURB_CTR.fetch_add(0x9E37_79B9_7F4A_7C15, Ordering::Relaxed);
            match (n >> 60) & 3 {
                0 => std::thread::yield_now(),
                1 => {
                    for _ in 0..((n >> 50) & 255) {
                        std::hint::spin_loop();
                    }
                }
                _ => {}
            }
        }
        return;
    }
    let abort = CTX.with(|c| {
        let b = c.borrow();
        let ctx = b.as_ref().unwrap();
        if site.starts_with("held:") && !ctx.stop_held {
            return false;
        }
        if ctx.to_driver.send((ctx.tid, Report::Yield(site))).is_err() {
            return true;
        }
        !matches!(ctx.grants.recv(), Ok(Grant::Go))
    });
    if abort {
        CTX.with(|c| *c.borrow_mut() = None);
        std::panic::resume_unwind(Box::new(AbortCase));
    }
}

#[derive(Clone, Debug, PartialEq, Eq)]
enum Status {
    Finished,
    /// thread `tid` was granted step `step` and neither yielded nor finished within the watchdog time
    Blocked { tid: usize, step: usize },
    Panicked { tid: usize, step: usize, msg: String },
    /// (only with stops inside critical sections) every unfinished thread waits for a lock
    Deadlock { threads: Vec<usize> },
}
struct RunResult<L> {
    sched: Vec<usize>,
    events: Vec<String>,
    outs: Vec<Vec<Outv>>,
    status: Status,
    locals: Vec<Option<L>>,
}

static WATCHDOG_MS: AtomicU64 = AtomicU64::new(20_000);
static BLOCKED_SEEN: AtomicUsize = AtomicUsize::new(0);

/// Runs `progs` (one operation list per thread) under the schedule chosen step by step by
/// `choose(live threads) -> thread`; `after_step` is called by the driver after every step while
/// all workers are parked (it may read the shared state).
fn run_sched<Op, L>(
    progs: &[Vec<Op>],
    exec: Arc<dyn Fn(usize, &Op, &mut L) -> Outv + Send + Sync>,
    mk_local: fn() -> L,
    stop_held: bool,
    choose: &mut dyn FnMut(&[usize]) -> usize,
    after_step: &mut dyn FnMut(usize),
) -> RunResult<L>
where
    Op: Clone + Send + 'static,
    L: Send + 'static,
{
    let n = progs.len();
    let (to_driver, from_workers) = channel::<(usize, Report)>();
    let mut grant_tx: Vec<Sender<Grant>> = Vec::new();
    let mut handles = Vec::new();
    for (tid, prog) in progs.iter().enumerate() {
        let (gt, gr) = channel::<Grant>();
        grant_tx.push(gt);
        let prog = prog.clone();
        let exec = exec.clone();
        let to_driver = to_driver.clone();
        handles.push(std::thread::spawn(move || -> Option<L> {
            let mut local = mk_local();
            CTX.with(|c| *c.borrow_mut() = Some(WorkerCtx { tid, to_driver: to_driver.clone(), grants: gr, stop_held }));
            for op in &prog {
                // gate at the start of the operation
                let go = CTX.with(|c| matches!(c.borrow().as_ref().unwrap().grants.recv(), Ok(Grant::Go)));
                if !go {
                    CTX.with(|c| *c.borrow_mut() = None);
                    return Some(local);
                }
                let r = catch(std::panic::AssertUnwindSafe(|| exec(tid, op, &mut local)));
                match r {
                    Ok(o) => {
                        let _ = to_driver.send((tid, Report::Done(o)));
                    }
                    Err(m) => {
                        if CTX.with(|c| c.borrow().is_none()) {
                            // aborted by the watchdog (AbortCase)
                            return Some(local);
                        }
                        let _ = to_driver.send((tid, Report::Panic(m)));
                        CTX.with(|c| *c.borrow_mut() = None);
                        return Some(local);
                    }
                }
            }
            CTX.with(|c| *c.borrow_mut() = None);
            Some(local)
        }));
    }
    drop(to_driver);
    let mut remaining: Vec<usize> = progs.iter().map(|p| p.len()).collect();
    let mut res = RunResult { sched: vec![], events: vec![], outs: vec![vec![]; n], status: Status::Finished, locals: vec![] };
    // threads that did not come back from a granted step (they wait for a lock); with `stop_held`
    // the run goes on with the others, and a late report un-blocks them
    let mut blocked: BTreeSet<usize> = BTreeSet::new();
    let wd = Duration::from_millis(if stop_held { 1500 } else { WATCHDOG_MS.load(Ordering::Relaxed) });
    'outer: loop {
        let live: Vec<usize> = (0..n).filter(|&i| remaining[i] > 0 && !blocked.contains(&i)).collect();
        if live.is_empty() {
            if !blocked.is_empty() {
                // every unfinished thread waits for a lock: give late reports one more chance
                match from_workers.recv_timeout(wd * 2) {
                    Ok((tid, rep)) => {
                        blocked.remove(&tid);
                        match rep {
                            Report::Yield(s) => res.events.push(format!("late:{}:{}", tid, s)),
                            Report::Done(o) => {
                                res.events.push(format!("late:{}:ret", tid));
                                res.outs[tid].push(o);
                                remaining[tid] -= 1;
                            }
                            Report::Panic(m) => {
                                res.status = Status::Panicked { tid, step: res.sched.len(), msg: m };
                                break;
                            }
                        }
                        continue;
                    }
                    Err(_) => {
                        res.status = Status::Deadlock { threads: blocked.iter().copied().collect() };
                    }
                }
            }
            break;
        }
        let t = choose(&live);
        let step = res.sched.len();
        res.sched.push(t);
        let _ = grant_tx[t].send(Grant::Go);
        loop {
            match from_workers.recv_timeout(wd) {
                Ok((tid, rep)) if tid == t => {
                    match rep {
                        Report::Yield(s) => res.events.push(s.to_string()),
                        Report::Done(o) => {
                            res.events.push("ret".into());
                            res.outs[t].push(o);
                            remaining[t] -= 1;
                        }
                        Report::Panic(m) => {
                            res.events.push("panic".into());
                            res.status = Status::Panicked { tid: t, step, msg: m };
                            break 'outer;
                        }
                    }
                    break;
                }
                Ok((tid, rep)) => {
                    // a thread that was waiting for a lock got it and reached its next stop
                    blocked.remove(&tid);
                    match rep {
                        Report::Yield(s) => res.events.push(format!("late:{}:{}", tid, s)),
                        Report::Done(o) => {
                            res.events.push(format!("late:{}:ret", tid));
                            res.outs[tid].push(o);
                            remaining[tid] -= 1;
                        }
                        Report::Panic(m) => {
                            res.status = Status::Panicked { tid, step, msg: m };
                            break 'outer;
                        }
                    }
                }
                Err(_) => {
                    res.events.push("blocked".into());
                    blocked.insert(t);
                    if stop_held {
                        break;
                    }
                    BLOCKED_SEEN.fetch_add(1, Ordering::Relaxed);
                    res.status = Status::Blocked { tid: t, step };
                    break 'outer;
                }
            }
        }
        after_step(step);
    }
    // release everybody who is parked; a blocked thread is leaked (it sits in a lock of the code under test)
    for (i, g) in grant_tx.iter().enumerate() {
        if !blocked.contains(&i) {
            let _ = g.send(Grant::Abort);
        }
    }
    for (i, h) in handles.into_iter().enumerate() {
        if blocked.contains(&i) {
            res.locals.push(None);
            std::mem::forget(h);
        } else {
            res.locals.push(h.join().ok().flatten());
        }
    }
    res
}

/// Depth-first enumeration of all schedules (stateless: every schedule re-runs from scratch).
/// `run(choose)` performs one run; returns false to stop the enumeration.
fn enumerate_all(limit: usize, mut run: impl FnMut(&mut dyn FnMut(&[usize]) -> usize) -> bool) -> usize {
    let mut prefix: Vec<usize> = vec![];
    let mut count = 0;
    loop {
        let mut taken: Vec<(usize, usize)> = vec![];
        let cont = {
            let mut ch = |live: &[usize]| {
                let k = taken.len();
                let c = if k < prefix.len() { prefix[k] } else { 0 };
                let c = c.min(live.len() - 1);
                taken.push((c, live.len()));
                live[c]
            };
            run(&mut ch)
        };
        count += 1;
        if !cont || count >= limit {
            return count;
        }
        loop {
            match taken.pop() {
                None => return count,
                Some((c, n)) => {
                    if c + 1 < n {
                        prefix = taken.iter().map(|x| x.0).collect();
                        prefix.push(c + 1);
                        break;
                    }
                }
            }
        }
    }
}

fn status_text(s: &Status) -> String {
    match s {
        Status::Finished => "finished".into(),
        Status::Blocked { tid, step } => format!("BLOCKED: thread {} granted at step {} neither reached a yield point nor finished", tid, step),
        Status::Panicked { tid, step, msg } => format!("PANIC in thread {} at step {}: {}", tid, step, msg),
        Status::Deadlock { threads } => format!("DEADLOCK: threads {:?} all wait for a lock and nobody can run", threads),
    }
}

/// common case emission: `pair` = "(chk…, orc…)" evaluated in Coq by checks/c20.py
#[allow(clippy::too_many_arguments)]
fn emit_sched_case(
    out: &mut Out,
    kind: &str,
    input: String,
    status: &Status,
    pair: String,
    show: String,
    kcoq: Option<String>,
    kid: Option<&str>,
    nontrivial: bool,
    imp: String,
    mut tags: Vec<String>,
) {
    let mut c = Case { kind: kind.into(), input, nontrivial, imp, ..Default::default() };
    match status {
        Status::Finished => {
            c.msg = format!("ocoq={}", pair);
            c.show = Some(show);
            c.kcoq = kcoq;
            c.kid = kid.map(|s| s.to_string());
            c.oracle = Oracle::Na; // decided in Coq
        }
        _ => {
            // a deadlock, a blocked schedule or a panic is an observation that violates the property outright
            c.oracle = Oracle::Fail;
            c.msg = status_text(status);
            c.kcoq = kcoq;
            c.kid = kid.map(|s| s.to_string());
            tags.push(match status {
                Status::Blocked { .. } => "status:blocked".into(),
                Status::Deadlock { .. } => "status:deadlock".into(),
                _ => "status:panic".into(),
            });
        }
    }
    c.tags = tags;
    out.emit(&c);
}

include!("c20_lpg.in");
include!("c20_rdf.in");
include!("c20_misc.in");
include!("c20_stress.in");
include!("c20_main.in");
