//! scratch probe (will be replaced)
use grafeo_core::graph::lpg::LpgStore;
use grafeo_core::graph::rdf::{RdfStore, Term, Triple};
use grafeo_common::memory::buffer::{BufferManager, BufferManagerConfig, MemoryRegion};
use std::sync::{Arc, Barrier, mpsc};
use std::sync::atomic::{AtomicUsize, AtomicBool, Ordering};
use std::time::{Duration, Instant};
fn main() {
    let t0 = Instant::now();
    // label torn
    let mut hung = 0; let mut torn = 0; let mut reps = 0;
    for rep in 0..3000 {
        reps += 1;
        let store = Arc::new(LpgStore::new());
        let id = store.create_node(&["A"]);
        let bar = Arc::new(Barrier::new(2));
        let (tx, rx) = mpsc::channel::<u8>();
        let s1 = store.clone(); let b1 = bar.clone(); let tx1 = tx.clone();
        std::thread::spawn(move || { b1.wait(); s1.add_label(id, "B"); let _ = tx1.send(1); });
        let s2 = store.clone(); let b2 = bar.clone(); let tx2 = tx.clone();
        std::thread::spawn(move || { b2.wait(); s2.delete_node(id); let _ = tx2.send(2); });
        let mut done = 0;
        let dl = Instant::now() + Duration::from_millis(500);
        while done < 2 { match rx.recv_timeout(dl.saturating_duration_since(Instant::now())) { Ok(_) => done += 1, Err(_) => break } }
        if done < 2 { hung += 1; if hung > 20 {break;} continue; }
        let inb = store.nodes_by_label("B");
        if inb.iter().any(|i| store.get_node(*i).is_none()) { torn += 1; }
    }
    println!("label: reps={} hung={} torn={} elapsed={:?}", reps, hung, torn, t0.elapsed());
    // rdf torn
    let t1 = Instant::now();
    let mut rtorn = 0;
    for rep in 0..3000 {
        let st = Arc::new(RdfStore::new());
        let mk = |i: u32| Triple::new(Term::iri(format!("s{}", i % 2)), Term::iri("p"), Term::iri(format!("o{}", i)));
        let bar = Arc::new(Barrier::new(2));
        let s1 = st.clone(); let b1 = bar.clone();
        let h1 = std::thread::spawn(move || { b1.wait(); for i in 0..8 { s1.insert(mk(i)); } });
        let s2 = st.clone(); let b2 = bar.clone();
        let h2 = std::thread::spawn(move || { b2.wait(); for i in 0..8 { s2.remove(&mk(i)); } });
        h1.join().unwrap(); h2.join().unwrap();
        let mut bad = false;
        for i in 0..8 { let t = mk(i); let inp = st.contains(&t);
            let ins = st.triples_with_subject(t.subject()).iter().filter(|x| x.as_ref()==&t).count();
            let inpp = st.triples_with_predicate(t.predicate()).iter().filter(|x| x.as_ref()==&t).count();
            let ino = st.triples_with_object(t.object()).iter().filter(|x| x.as_ref()==&t).count();
            let e = if inp {1} else {0};
            if ins != e || inpp != e || ino != e { bad = true; } }
        if bad { rtorn += 1; }
    }
    println!("rdf: torn={} elapsed={:?}", rtorn, t1.elapsed());
    // resize over limit
    let t2 = Instant::now();
    let mut over = 0; let mut maxseen = 0usize;
    for rep in 0..300 {
        let mut cfg = BufferManagerConfig::with_budget(1000); cfg.hard_limit_fraction = 1.0; cfg.soft_limit_fraction=1.0; cfg.evict_limit_fraction=1.0;
        let bm = BufferManager::new(cfg);
        let stop = Arc::new(AtomicBool::new(false));
        let mx = Arc::new(AtomicUsize::new(0));
        let w = { let bm = bm.clone(); let stop = stop.clone(); let mx = mx.clone(); std::thread::spawn(move || { while !stop.load(Ordering::Relaxed) { let a = bm.allocated(); mx.fetch_max(a, Ordering::Relaxed); } }) };
        let bar = Arc::new(Barrier::new(4));
        let hs: Vec<_> = (0..4).map(|_| { let bm = bm.clone(); let bar = bar.clone(); let mx = mx.clone(); std::thread::spawn(move || {
            let mut g = bm.try_allocate(10, MemoryRegion::ExecutionBuffers).unwrap();
            bar.wait();
            for _ in 0..200 { if g.resize(400) { mx.fetch_max(bm.allocated(), Ordering::Relaxed); std::thread::yield_now(); } g.resize(10); }
        })}).collect();
        for h in hs { h.join().unwrap(); }
        stop.store(true, Ordering::Relaxed); w.join().unwrap();
        let m = mx.load(Ordering::Relaxed); if m > 1000 { over += 1; } maxseen = maxseen.max(m);
        assert_eq!(bm.allocated(), 0);
    }
    println!("resize: over={} maxseen={} elapsed={:?}", over, maxseen, t2.elapsed());
}
