//! probe (temporary)
use grafeo_common::types::{LogicalType, Value};
use grafeo_core::execution::operators::push::*;
use grafeo_core::execution::operators::{DistinctOperator, Operator, OperatorResult};
use grafeo_core::execution::parallel::{merge_sorted_runs, MergeableAccumulator, ParallelChunkSource, ParallelSource};
use grafeo_core::execution::spill::*;
use grafeo_core::execution::{DataChunk, ValueVector, Pipeline, Sink, Source, VectorSource, PushOperator};
use grafeo_core::execution::sink::CollectorSink;
use std::sync::Arc;

fn chunk1(vals: &[Value]) -> DataChunk {
    DataChunk::new(vec![ValueVector::from_values(vals)])
}
fn rows_of(chunks: &[DataChunk]) -> Vec<Vec<Value>> {
    let mut out = vec![];
    for c in chunks {
        for i in c.selected_indices() {
            out.push((0..c.column_count()).map(|k| c.column(k).and_then(|v| v.get_value(i)).unwrap_or(Value::Null)).collect());
        }
    }
    out
}
struct VecOp {
    chunks: Vec<DataChunk>,
    pos: usize,
}
impl Operator for VecOp {
    fn next(&mut self) -> OperatorResult {
        if self.pos < self.chunks.len() {
            self.pos += 1;
            Ok(Some(self.chunks[self.pos - 1].clone()))
        } else {
            Ok(None)
        }
    }
    fn reset(&mut self) {
        self.pos = 0
    }
    fn name(&self) -> &'static str {
        "VecOp"
    }
}

fn main() {
    // 1. merge stability
    let runs: Vec<Vec<Vec<Value>>> = (0..5).map(|i| vec![vec![Value::Int64(1), Value::Int64(i)], vec![Value::Int64(1), Value::Int64(i + 10)]]).collect();
    let r = merge_sorted_runs(runs, &[grafeo_core::execution::parallel::SortKey::ascending(0)]).unwrap();
    println!("1 merge ties: {:?}", r.iter().map(|x| x[1].clone()).collect::<Vec<_>>());
    // 2. accumulator mixed
    let vals = [Value::Int64(1), Value::Float64(0.5), Value::Int64(0)];
    let mut a = MergeableAccumulator::new();
    for v in &vals {
        a.add(v);
    }
    let mut b = MergeableAccumulator::new();
    b.add(&vals[0]);
    let mut c = MergeableAccumulator::new();
    c.add(&vals[1]);
    c.add(&vals[2]);
    b.merge(&c);
    println!("2 seq min {:?} par min {:?}", a.finalize_min(), b.finalize_min());
    // 3. chunk source with empty chunk
    let cs = ParallelChunkSource::new(vec![chunk1(&[Value::Int64(1), Value::Int64(2)]), chunk1(&[]), chunk1(&[Value::Int64(3), Value::Int64(4)])]);
    println!("3 total rows {:?}", cs.total_rows());
    let ms = cs.generate_morsels(1024, 0);
    let mut got = vec![];
    for m in &ms {
        let mut p = cs.create_partition(m);
        while let Some(c) = p.next_chunk(2048).unwrap() {
            got.extend(rows_of(&[c]));
        }
    }
    println!("3 chunk source rows {:?}", got);
    // 4. filter on 70000 rows
    let big: Vec<Value> = (0..70000).map(Value::Int64).collect();
    let mut f = FilterPushOperator::column_compare(0, CompareOp::Ge, Value::Int64(0));
    let mut sink = CollectorSink::new();
    let r = std::panic::catch_unwind(std::panic::AssertUnwindSafe(|| f.push(chunk1(&big), &mut sink)));
    let out = rows_of(sink.chunks());
    println!("4 filter 70000 -> {:?} rows {} row[65536]={:?}", r.is_ok(), out.len(), out.get(65536));
    // 5. pull distinct with 3000 unique
    let vals: Vec<Value> = (0..3000).map(Value::Int64).collect();
    let mut d = DistinctOperator::new(Box::new(VecOp { chunks: vec![chunk1(&vals)], pos: 0 }), vec![LogicalType::Int64]);
    let mut n = 0;
    while let Some(c) = d.next().unwrap() {
        n += c.row_count();
    }
    println!("5 pull distinct 3000 unique -> {}", n);
    // 6. limit then filter in a Pipeline
    let src = VectorSource::single_column((0..10).map(Value::Int64).collect());
    struct Shared(Arc<parking_lot::Mutex<Vec<DataChunk>>>);
    impl Sink for Shared {
        fn consume(&mut self, c: DataChunk) -> Result<bool, grafeo_core::execution::operators::OperatorError> {
            self.0.lock().push(c);
            Ok(true)
        }
        fn finalize(&mut self) -> Result<(), grafeo_core::execution::operators::OperatorError> {
            Ok(())
        }
        fn name(&self) -> &'static str {
            "S"
        }
    }
    let store = Arc::new(parking_lot::Mutex::new(vec![]));
    let mut p = Pipeline::new(
        Box::new(src),
        vec![Box::new(LimitPushOperator::new(1000)), Box::new(FilterPushOperator::column_compare(0, CompareOp::Ge, Value::Int64(0)))],
        Box::new(Shared(store.clone())),
    );
    p.execute().unwrap();
    println!("6a limit(1000)->filter over 10 rows: {}", rows_of(&store.lock()).len());
    let store = Arc::new(parking_lot::Mutex::new(vec![]));
    let src = VectorSource::single_column((0..10).map(Value::Int64).collect());
    let mut p = Pipeline::new(
        Box::new(src),
        vec![Box::new(LimitPushOperator::new(5)), Box::new(FilterPushOperator::column_compare(0, CompareOp::Ge, Value::Int64(0)))],
        Box::new(Shared(store.clone())),
    );
    p.execute().unwrap();
    println!("6b limit(5)->filter over 10 rows: {}", rows_of(&store.lock()).len());
    let store = Arc::new(parking_lot::Mutex::new(vec![]));
    let src = VectorSource::single_column((0..10).map(Value::Int64).collect());
    let mut p = Pipeline::new(
        Box::new(src),
        vec![Box::new(LimitPushOperator::new(10)), Box::new(FilterPushOperator::column_compare(0, CompareOp::Ge, Value::Int64(0)))],
        Box::new(Shared(store.clone())),
    );
    p.execute().unwrap();
    println!("6c limit(10)->filter over 10 rows: {}", rows_of(&store.lock()).len());
    // 7. sort with mixed types
    let mut s = SortPushOperator::ascending(0);
    let mut sink = CollectorSink::new();
    let mixed: Vec<Value> = (0..200).map(|i| if i % 3 == 0 { Value::String(format!("s{}", i).into()) } else { Value::Int64(200 - i) }).collect();
    let r = std::panic::catch_unwind(std::panic::AssertUnwindSafe(|| {
        s.push(chunk1(&mixed), &mut sink).unwrap();
        s.finalize(&mut sink).unwrap();
    }));
    println!("7 sort mixed types: ok={}", r.is_ok());
    // 8. limit > 65535
    let mut l = LimitPushOperator::new(66000);
    let mut sink = CollectorSink::new();
    let r = std::panic::catch_unwind(std::panic::AssertUnwindSafe(|| l.push(chunk1(&big), &mut sink)));
    println!("8 limit 66000 on 70000-row chunk ok={} rows={}", r.is_ok(), sink.row_count());
    // 9/10 spill files
    let dir = "/verif/.build/scratch/c17/probe";
    let _ = std::fs::remove_dir_all(dir);
    let mgr = Arc::new(SpillManager::new(dir).unwrap());
    {
        let mut es = ExternalSort::new(mgr.clone(), 1, vec![grafeo_core::execution::spill::SortKey::ascending(0)]);
        es.spill_sorted_run(vec![vec![Value::Int64(1)], vec![Value::Int64(3)]]).unwrap();
        es.spill_sorted_run(vec![vec![Value::Int64(2)]]).unwrap();
        println!("10 files during: {}", std::fs::read_dir(dir).unwrap().count());
        let r = es.merge_all(vec![vec![Value::Int64(0)]]).unwrap();
        println!("10 merged {:?} files after merge: {}", r, std::fs::read_dir(dir).unwrap().count());
    }
    println!("10 files after drop: {} active_file_count={} spilled_bytes={}", std::fs::read_dir(dir).unwrap().count(), mgr.active_file_count(), mgr.spilled_bytes());
    {
        let mut ps: PartitionedState<i64> = PartitionedState::new(
            mgr.clone(),
            4,
            |v: &i64, w: &mut dyn std::io::Write| w.write_all(&v.to_le_bytes()),
            |r: &mut dyn std::io::Read| {
                let mut b = [0u8; 8];
                r.read_exact(&mut b)?;
                Ok(i64::from_le_bytes(b))
            },
        );
        for i in 0..20 {
            ps.insert(vec![Value::Int64(i)], i).unwrap();
        }
        ps.spill_largest().unwrap();
        ps.spill_largest().unwrap();
        println!("9 files with 2 spilled partitions: {}", std::fs::read_dir(dir).unwrap().count());
        ps.cleanup();
        println!("9 files after PartitionedState::cleanup: {} bytes={}", std::fs::read_dir(dir).unwrap().count(), mgr.spilled_bytes());
        for i in 0..20 {
            ps.insert(vec![Value::Int64(i)], i).unwrap();
        }
        ps.spill_largest().unwrap();
    }
    println!("9 files after PartitionedState drop: {} bytes={}", std::fs::read_dir(dir).unwrap().count(), mgr.spilled_bytes());
    drop(mgr);
    println!("9 files after manager drop: {}", std::fs::read_dir(dir).unwrap().count());
    let _ = std::fs::remove_dir_all(dir);
}
