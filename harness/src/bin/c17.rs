//! C17 — parallel, push-based and spilling execution equal simple sequential execution.
//! Runs the real merge functions, morsel generator, accumulators, push operators (against their
//! pull twins), Pipeline, ParallelPipeline, ExternalSort / SpillableSortPushOperator and
//! PartitionedState on generated tables and emits, per case, the Coq term comparing the
//! observation with the model (GV.Par.Run) plus the oracle (single-threaded baseline).
use grafeo_common::memory::buffer::PressureLevel;
use grafeo_common::types::{LogicalType, Value};
use grafeo_core::execution::operators as pull;
use grafeo_core::execution::operators::push as pu;
use grafeo_core::execution::operators::{Operator, OperatorError, OperatorResult};
use grafeo_core::execution::parallel as par;
use grafeo_core::execution::parallel::ParallelSource;
use grafeo_core::execution::sink::CollectorSink;
use grafeo_core::execution::spill as sp;
use grafeo_core::execution::{DataChunk, Pipeline, PushOperator, Sink, Source, ValueVector, VectorSource};
use gv_harness::*;
use std::cmp::Ordering;
use std::sync::Arc;

/// scratch directory of the spill files; a tagged run (tools/seedtest.sh sets GV_OUT_TAG) gets its own
fn scratch() -> String {
    match std::env::var("GV_OUT_TAG") {
        Ok(t) if !t.is_empty() => format!("/verif/.build/scratch/c17-{}", t),
        _ => "/verif/.build/scratch/c17".to_string(),
    }
}

// ------------------------------------------------------------------------------------------ values
#[derive(Clone, Debug, PartialEq)]
enum V {
    Null,
    Bool(bool),
    Int(i64),
    Flt(i64),
    Str(i64),
}
type Row = Vec<V>;

impl V {
    fn val(&self) -> Value {
        match self {
            V::Null => Value::Null,
            V::Bool(b) => Value::Bool(*b),
            V::Int(i) => Value::Int64(*i),
            V::Flt(z) => Value::Float64(*z as f64),
            V::Str(z) => Value::String(format!("k{:07}", z).into()),
        }
    }
    fn coq(&self) -> String {
        match self {
            V::Null => "VNull".into(),
            V::Bool(b) => format!("(VBool {})", b),
            V::Int(i) => format!("(VInt {})", coq::z(*i)),
            V::Flt(i) => format!("(VFlt {})", coq::z(*i)),
            V::Str(i) => format!("(VStr {})", coq::z(*i)),
        }
    }
    fn kind(&self) -> u8 {
        match self {
            V::Null => 0,
            V::Bool(_) => 1,
            V::Int(_) => 2,
            V::Flt(_) => 3,
            V::Str(_) => 4,
        }
    }
}
fn from_value(v: &Value) -> V {
    match v {
        Value::Null => V::Null,
        Value::Bool(b) => V::Bool(*b),
        Value::Int64(i) => V::Int(*i),
        Value::Float64(f) => {
            if f.fract() == 0.0 && f.abs() < 9.0e15 {
                V::Flt(*f as i64)
            } else {
                V::Flt(i64::MIN + 7) // not representable in the model: makes the comparison fail
            }
        }
        Value::String(s) => match s.strip_prefix('k').and_then(|t| t.parse::<i64>().ok()) {
            Some(z) => V::Str(z),
            None => V::Str(-1),
        },
        _ => V::Str(-2),
    }
}
fn vrow(r: &Row) -> Vec<Value> {
    r.iter().map(V::val).collect()
}
fn from_vrow(r: &[Value]) -> Row {
    r.iter().map(from_value).collect()
}
fn coq_row(r: &Row) -> String {
    coq::list(r.iter().map(V::coq))
}
fn coq_rows(rs: &[Row]) -> String {
    coq::list(rs.iter().map(coq_row))
}
fn coq_chunks(cs: &[Vec<Row>]) -> String {
    coq::list(cs.iter().map(|c| coq_rows(c)))
}
fn coq_ochunks(o: &Option<Vec<Vec<Row>>>) -> String {
    match o {
        Some(c) => format!("(Some {})", coq_chunks(c)),
        None => "None".into(),
    }
}
fn to_chunk(rows: &[Row], ncols: usize) -> DataChunk {
    let cols: Vec<ValueVector> = (0..ncols)
        .map(|c| ValueVector::from_values(&rows.iter().map(|r| r[c].val()).collect::<Vec<_>>()))
        .collect();
    DataChunk::new(cols)
}
fn rows_of(c: &DataChunk) -> Vec<Row> {
    let mut out = vec![];
    for i in c.selected_indices() {
        out.push((0..c.column_count()).map(|k| from_value(&c.column(k).and_then(|v| v.get_value(i)).unwrap_or(Value::Null))).collect());
    }
    out
}
fn rows_of_chunks(cs: &[DataChunk]) -> Vec<Vec<Row>> {
    cs.iter().map(rows_of).collect()
}
fn flat(cs: &[Vec<Row>]) -> Vec<Row> {
    cs.iter().flatten().cloned().collect()
}

// ------------------------------------------------------------------- the code's hash functions
// (private in /repo; replicated verbatim: DefaultHasher::new() is SipHash-1-3 with zero keys)
fn hash_value(value: &Value) -> u64 {
    use std::collections::hash_map::DefaultHasher;
    use std::hash::{Hash, Hasher};
    let mut hasher = DefaultHasher::new();
    hash_tagged(value, &mut hasher);
    hasher.finish()
}
/// the kind of the value is part of the hash since /repo b5cd4ea (NULL and FALSE used to collide: C17-K8)
fn hash_tagged(value: &Value, hasher: &mut std::collections::hash_map::DefaultHasher) {
    use std::hash::Hash;
    match value {
        Value::Null => 0u8.hash(hasher),
        Value::Bool(b) => {
            1u8.hash(hasher);
            b.hash(hasher);
        }
        Value::Int64(i) => {
            2u8.hash(hasher);
            i.hash(hasher);
        }
        Value::Float64(f) => {
            3u8.hash(hasher);
            f.to_bits().hash(hasher);
        }
        Value::String(s) => {
            4u8.hash(hasher);
            s.hash(hasher);
        }
        _ => 9u8.hash(hasher),
    }
}
fn hash_row(row: &[Value]) -> u64 {
    use std::collections::hash_map::DefaultHasher;
    use std::hash::Hasher;
    let mut hasher = DefaultHasher::new();
    for value in row {
        hash_tagged(value, &mut hasher);
    }
    hasher.finish()
}
fn hash_key(key: &[Value]) -> u64 {
    use std::hash::{Hash, Hasher};
    let mut hasher = std::collections::hash_map::DefaultHasher::new();
    for value in key {
        match value {
            Value::Null => 0u8.hash(&mut hasher),
            Value::Bool(b) => {
                1u8.hash(&mut hasher);
                b.hash(&mut hasher);
            }
            Value::Int64(n) => {
                2u8.hash(&mut hasher);
                n.hash(&mut hasher);
            }
            Value::Float64(f) => {
                3u8.hash(&mut hasher);
                f.to_bits().hash(&mut hasher);
            }
            Value::String(s) => {
                4u8.hash(&mut hasher);
                s.hash(&mut hasher);
            }
            _ => 9u8.hash(&mut hasher),
        }
    }
    hasher.finish()
}
fn hashes_of(r: &Row) -> Vec<u64> {
    r.iter().map(|v| hash_value(&v.val())).collect()
}
fn coq_hrow(r: &Row) -> String {
    format!("({}, {})", coq::zlist_u64(&hashes_of(r)), coq_row(r))
}
fn coq_hrows(rs: &[Row]) -> String {
    coq::list(rs.iter().map(coq_hrow))
}
fn coq_hchunks(cs: &[Vec<Row>]) -> String {
    coq::list(cs.iter().map(|c| coq_hrows(c)))
}
/// premise of the DISTINCT model: the 64-bit hashes are injective on the values of this run.
/// 0 = injective, 1 = the only collision is NULL / FALSE (finding C17-K8), 2 = another collision
/// Row keys are compared column by column (RowKey = the vector of per-column hashes), so only a
/// collision between two values of the SAME column matters (Int64(0) and Float64(0.0) hash alike
/// but never share a column of a generated table).
fn hash_class(rows: &[Row]) -> u8 {
    let ncols = rows.iter().map(|r| r.len()).max().unwrap_or(0);
    let mut class = 0;
    for c in 0..ncols {
        let mut seen: std::collections::HashMap<u64, V> = std::collections::HashMap::new();
        for r in rows {
            let Some(v) = r.get(c) else { continue };
            let h = hash_value(&v.val());
            if let Some(w) = seen.get(&h) {
                if w != v {
                    let nf = matches!((w, v), (V::Null, V::Bool(false)) | (V::Bool(false), V::Null));
                    class = class.max(if nf { 1 } else { 2 });
                }
            } else {
                seen.insert(h, v.clone());
            }
        }
    }
    class
}
fn k8_term(rows: &[Row]) -> String {
    format!("k_null_and_false {}", coq_rows(rows))
}
fn hash_tag(c: u8) -> String {
    ["hash:injective", "hash:null=false", "hash:COLLISION"][c as usize].to_string()
}

// ------------------------------------------------------------------------------ sort keys (mirror)
#[derive(Clone, Debug)]
struct Key {
    col: usize,
    asc: bool,
    nf: bool,
}
fn coq_keys(ks: &[Key]) -> String {
    coq::list(ks.iter().map(|k| format!("(sk {} {} {})", coq::z(k.col as i64), k.asc, k.nf)))
}
fn cmp_vals(a: &V, b: &V) -> Ordering {
    match (a, b) {
        (V::Bool(x), V::Bool(y)) => x.cmp(y),
        (V::Int(x), V::Int(y)) | (V::Flt(x), V::Flt(y)) | (V::Str(x), V::Str(y)) => x.cmp(y),
        _ => Ordering::Equal,
    }
}
/// the harness's own row comparison (baseline): NULLs first/last, same-kind natural order
fn cmp_rows(keys: &[Key], a: &Row, b: &Row) -> Ordering {
    for k in keys {
        let (x, y) = (&a[k.col], &b[k.col]);
        let o = match (x, y) {
            (V::Null, V::Null) => Ordering::Equal,
            (V::Null, _) => {
                if k.nf {
                    Ordering::Less
                } else {
                    Ordering::Greater
                }
            }
            (_, V::Null) => {
                if k.nf {
                    Ordering::Greater
                } else {
                    Ordering::Less
                }
            }
            _ => cmp_vals(x, y),
        };
        let o = if k.asc { o } else { o.reverse() };
        if o != Ordering::Equal {
            return o;
        }
    }
    Ordering::Equal
}
fn stable_sorted(keys: &[Key], rows: &[Row]) -> Vec<Row> {
    let mut v = rows.to_vec();
    v.sort_by(|a, b| cmp_rows(keys, a, b));
    v
}
fn is_sorted(keys: &[Key], rows: &[Row]) -> bool {
    rows.windows(2).all(|w| cmp_rows(keys, &w[0], &w[1]) != Ordering::Greater)
}
fn canon(rows: &[Row]) -> Vec<String> {
    let mut v: Vec<String> = rows.iter().map(|r| format!("{:?}", r)).collect();
    v.sort();
    v
}
fn same_bag(a: &[Row], b: &[Row]) -> bool {
    canon(a) == canon(b)
}
fn par_keys(ks: &[Key]) -> Vec<par::SortKey> {
    ks.iter().map(|k| par::SortKey { column: k.col, ascending: k.asc, nulls_first: k.nf }).collect()
}
fn push_keys(ks: &[Key]) -> Vec<pu::SortKey> {
    ks.iter()
        .map(|k| pu::SortKey {
            column: k.col,
            direction: if k.asc { pu::SortDirection::Ascending } else { pu::SortDirection::Descending },
            null_order: if k.nf { pu::NullOrder::First } else { pu::NullOrder::Last },
        })
        .collect()
}
fn spill_keys(ks: &[Key]) -> Vec<sp::SortKey> {
    ks.iter()
        .map(|k| sp::SortKey {
            column: k.col,
            direction: if k.asc { sp::SortDirection::Ascending } else { sp::SortDirection::Descending },
            null_order: if k.nf { sp::NullOrder::First } else { sp::NullOrder::Last },
        })
        .collect()
}
fn pull_keys(ks: &[Key]) -> Vec<pull::SortKey> {
    ks.iter()
        .map(|k| pull::SortKey {
            column: k.col,
            direction: if k.asc { pull::SortDirection::Ascending } else { pull::SortDirection::Descending },
            null_order: if k.nf { pull::NullOrder::NullsFirst } else { pull::NullOrder::NullsLast },
        })
        .collect()
}

// ------------------------------------------------------------------------------------- generators
fn gen_val(r: &mut Rng, kind: u8, dom: u64, null_pct: u64) -> V {
    if r.below(100) < null_pct {
        return V::Null;
    }
    let z = r.below(dom.max(1)) as i64;
    match kind {
        1 => V::Bool(z % 2 == 1),
        2 => V::Int(z - (dom / 2) as i64),
        3 => V::Flt(z - (dom / 2) as i64),
        _ => V::Str(z),
    }
}
/// table with key column 0 (duplicates, NULLs), unique id column 1, second key column 2
fn gen_table(r: &mut Rng, n: usize) -> (Vec<Row>, u8) {
    let kind = 1 + r.below(4) as u8;
    let kind2 = 1 + r.below(4) as u8;
    let dom = *r.pick(&[1u64, 2, 3, 5, 8, 50]);
    let nullp = *r.pick(&[0u64, 0, 15, 40]);
    let rows = (0..n).map(|i| vec![gen_val(r, kind, dom, nullp), V::Int(i as i64), gen_val(r, kind2, 3, 10)]).collect();
    (rows, kind)
}
fn gen_keys(r: &mut Rng) -> Vec<Key> {
    let mut ks = vec![Key { col: 0, asc: r.chance(2, 3), nf: r.chance(1, 2) }];
    if r.chance(1, 4) {
        ks.push(Key { col: 2, asc: r.chance(1, 2), nf: r.chance(1, 2) });
    }
    if r.chance(1, 25) {
        ks.clear();
    }
    ks
}
fn gen_size(r: &mut Rng, max: usize) -> usize {
    match r.below(8) {
        0 => 0,
        1 => 1,
        2 => 2,
        _ => r.below(max as u64 + 1) as usize,
    }
}
/// random cut of rows into chunks (possibly with empty chunks)
fn gen_chunking(r: &mut Rng, rows: &[Row]) -> Vec<Vec<Row>> {
    let mut cs = vec![];
    let mut i = 0;
    let maxc = *r.pick(&[1usize, 2, 3, 5, 8, 100]);
    while i < rows.len() {
        if r.chance(1, 10) {
            cs.push(vec![]);
        }
        let l = 1 + r.below(maxc as u64) as usize;
        let e = (i + l).min(rows.len());
        cs.push(rows[i..e].to_vec());
        i = e;
    }
    if r.chance(1, 10) {
        cs.push(vec![]);
    }
    cs
}
fn has_dup_keys(keys: &[Key], rows: &[Row]) -> bool {
    let s = stable_sorted(keys, rows);
    s.windows(2).any(|w| cmp_rows(keys, &w[0], &w[1]) == Ordering::Equal)
}
fn ok_or(b: bool) -> Oracle {
    if b { Oracle::Ok } else { Oracle::Fail }
}

// ---------------------------------------------------------------------------------------- merge.rs
fn case_merge_runs(r: &mut Rng, out: &mut Out, forced: Option<(Vec<Key>, Vec<Vec<Row>>)>) {
    let corpus = forced.is_some();
    let (keys, runs) = match forced {
        Some(x) => x,
        None => {
            let keys = gen_keys(r);
            let k = *r.pick(&[0usize, 1, 2, 2, 3, 3, 4, 5, 8]);
            let total = r.below(30) as usize;
            let (rows, _) = gen_table(r, total);
            let mut runs: Vec<Vec<Row>> = vec![vec![]; k];
            if k > 0 {
                for row in rows {
                    let i = r.below(k as u64) as usize;
                    runs[i].push(row);
                }
            }
            (keys.clone(), runs.iter().map(|x| stable_sorted(&keys, x)).collect())
        }
    };
    let vruns: Vec<Vec<Vec<Value>>> = runs.iter().map(|x| x.iter().map(vrow).collect()).collect();
    let got: Vec<Row> = par::merge_sorted_runs(vruns, &par_keys(&keys)).unwrap().iter().map(|x| from_vrow(x)).collect();
    let all = flat(&runs);
    let stable = stable_sorted(&keys, &all);
    let ne = runs.iter().filter(|x| !x.is_empty()).count();
    let (oracle, msg, kid, kcoq) = if !runs.iter().all(|x| is_sorted(&keys, x)) {
        (Oracle::Na, "premise violated: a run is not sorted".to_string(), None, None)
    } else if got == stable {
        (Oracle::Ok, String::new(), None, None)
    } else if is_sorted(&keys, &got) && same_bag(&got, &all) {
        (
            Oracle::Fail,
            "merge output is sorted but rows with equal keys are not in run order (differs from the stable sort of the concatenation)".into(),
            Some("C17-K1".to_string()),
            Some(format!("k_merge_ties {} {}", coq_keys(&keys), coq_chunks(&runs))),
        )
    } else {
        (Oracle::Fail, "merge output is not a sorted permutation of the runs".into(), None, None)
    };
    out.emit(&Case {
        kind: "merge_runs".into(),
        input: format!("keys={:?} runs={:?}", keys, runs),
        coq: Some(format!("chk_merge_runs {} {} {}", coq_keys(&keys), coq_chunks(&runs), coq_rows(&got))),
        show: Some(format!("show_merge_runs {} {}", coq_keys(&keys), coq_chunks(&runs))),
        oracle,
        msg,
        kid,
        kcoq,
        nontrivial: ne >= 2 && has_dup_keys(&keys, &all),
        imp: format!("{:?}", got),
        tags: vec![format!("merge:k={}", runs.len().min(6)), if corpus { "corpus".into() } else { format!("merge:nkeys={}", keys.len()) }],
        ..Default::default()
    });
}

fn case_merge_chunks(r: &mut Rng, out: &mut Out) {
    let keys = gen_keys(r);
    let k = *r.pick(&[0usize, 1, 2, 3, 4]);
    let total = r.below(24) as usize;
    let (rows, _) = gen_table(r, total);
    let mut runs: Vec<Vec<Row>> = vec![vec![]; k];
    if k > 0 {
        for row in rows {
            let i = r.below(k as u64) as usize;
            runs[i].push(row);
        }
    }
    let runs: Vec<Vec<Vec<Row>>> = runs.iter().map(|x| gen_chunking(r, &stable_sorted(&keys, x))).collect();
    let cs = *r.pick(&[0usize, 1, 2, 3, 7, 2048]);
    let druns: Vec<Vec<DataChunk>> = runs.iter().map(|cs| cs.iter().map(|c| to_chunk(c, 3)).collect()).collect();
    let pk = par_keys(&keys);
    let got = catch(std::panic::AssertUnwindSafe(move || par::merge_sorted_chunks(druns, &pk, cs).unwrap())).ok().map(|c| rows_of_chunks(&c));
    let all: Vec<Row> = runs.iter().flat_map(|c| flat(c)).collect();
    let runs_flat: Vec<Vec<Row>> = runs.iter().map(|c| flat(c)).collect();
    let (oracle, msg, kid, kcoq) = match &got {
        None => (if cs == 0 && !all.is_empty() { Oracle::Na } else { Oracle::Fail }, "panic".to_string(), None, None),
        Some(g) => {
            let f = flat(g);
            let sizes_ok = g.iter().all(|c| !c.is_empty() && c.len() <= cs) && g.iter().rev().skip(1).all(|c| c.len() == cs);
            if !sizes_ok {
                (Oracle::Fail, "chunk sizes".to_string(), None, None)
            } else if f == stable_sorted(&keys, &all) {
                (Oracle::Ok, String::new(), None, None)
            } else if is_sorted(&keys, &f) && same_bag(&f, &all) {
                (Oracle::Fail, "ties not in run order".to_string(), Some("C17-K1".to_string()), Some(format!("k_merge_ties {} {}", coq_keys(&keys), coq_chunks(&runs_flat))))
            } else {
                (Oracle::Fail, "not a sorted permutation".to_string(), None, None)
            }
        }
    };
    out.emit(&Case {
        kind: "merge_chunks".into(),
        input: format!("keys={:?} chunk_size={} runs={:?}", keys, cs, runs),
        coq: Some(format!("chk_merge_chunks {} {} {} {}", coq_keys(&keys), coq::list(runs.iter().map(|c| coq_chunks(c))), coq::z(cs as i64), coq_ochunks(&got))),
        oracle,
        msg,
        kid,
        kcoq,
        nontrivial: k >= 2 && has_dup_keys(&keys, &all),
        imp: format!("{:?}", got),
        tags: vec![format!("chunk_size:{}", cs)],
        ..Default::default()
    });
}

fn gen_compact(cnt: i64, a: i64, b: i64, m: i64) -> Vec<Vec<Value>> {
    (0..cnt).map(|i| vec![Value::Int64(i), Value::Int64((a * i + b).rem_euclid(m))]).collect()
}

fn case_rows_to_chunks(r: &mut Rng, out: &mut Out, cnt: i64, cs: usize) {
    let (a, b, m) = (r.range(1, 50), r.range(0, 50), r.range(1, 20));
    let rows = gen_compact(cnt, a, b, m);
    let got = par::rows_to_chunks(rows, cs).unwrap();
    let lens: Vec<i64> = got.iter().map(|c| c.len() as i64).collect();
    let ids: Vec<i64> = got.iter().flat_map(|c| rows_of(c)).map(|r| if let V::Int(i) = r[0] { i } else { -1 }).collect();
    let good = ids == (0..cnt).collect::<Vec<_>>() && lens.iter().all(|&l| l > 0 && l <= cs as i64);
    out.emit(&Case {
        kind: "rows_to_chunks".into(),
        input: format!("cnt={} a={} b={} m={} chunk_size={}", cnt, a, b, m, cs),
        coq: Some(format!("chk_rows_to_chunks_gen {} {} {} {} {} {} {}", coq::z(cnt), coq::z(a), coq::z(b), coq::z(m), coq::z(cs as i64), coq::zlist_i64(&lens), coq::zlist_i64(&ids))),
        oracle: ok_or(good),
        nontrivial: cnt as usize > cs,
        imp: format!("lens={:?}", lens),
        tags: vec![format!("r2c:cnt={} cs={}", cnt, cs)],
        ..Default::default()
    });
}

fn gen_results(r: &mut Rng) -> Vec<Vec<Vec<Row>>> {
    let w = r.below(5) as usize;
    let kind = 1 + r.below(4) as u8;
    let dom = *r.pick(&[2u64, 3, 6]);
    (0..w)
        .map(|_| {
            let n = gen_size(r, 10);
            let rows: Vec<Row> = (0..n).map(|_| vec![gen_val(r, kind, dom, 15), gen_val(r, 2, 2, 10)]).collect();
            gen_chunking(r, &rows)
        })
        .collect()
}
fn dchunks(res: &[Vec<Vec<Row>>], ncols: usize) -> Vec<Vec<DataChunk>> {
    res.iter().map(|cs| cs.iter().map(|c| to_chunk(c, ncols)).collect()).collect()
}

fn case_concat(r: &mut Rng, out: &mut Out) {
    let res = gen_results(r);
    let got = rows_of_chunks(&par::concat_parallel_results(dchunks(&res, 2)));
    let all: Vec<Row> = res.iter().flat_map(|c| flat(c)).collect();
    out.emit(&Case {
        kind: "concat".into(),
        input: format!("{:?}", res),
        coq: Some(format!("chk_concat {} {}", coq::list(res.iter().map(|c| coq_chunks(c))), coq_chunks(&got))),
        oracle: ok_or(flat(&got) == all),
        nontrivial: res.len() >= 2,
        imp: format!("{:?}", got),
        ..Default::default()
    });
}

fn first_occurrences(rows: &[Row]) -> Vec<Row> {
    let mut seen: Vec<Row> = vec![];
    for r in rows {
        if !seen.contains(r) {
            seen.push(r.clone());
        }
    }
    seen
}

fn case_merge_distinct(r: &mut Rng, out: &mut Out) {
    let res = gen_results(r);
    let got = rows_of_chunks(&par::merge_distinct_results(dchunks(&res, 2)).unwrap());
    let all: Vec<Row> = res.iter().flat_map(|c| flat(c)).collect();
    // premise: hash_row injective on the rows of the run (NULL / FALSE collide: C17-K8)
    let mut class = 0u8;
    for a in &all {
        for b in &all {
            if a != b && hash_row(&vrow(a)) == hash_row(&vrow(b)) {
                let nf = a.iter().zip(b.iter()).all(|(x, y)| x == y || matches!((x, y), (V::Null, V::Bool(false)) | (V::Bool(false), V::Null)));
                class = class.max(if nf { 1 } else { 2 });
            }
        }
    }
    let good = flat(&got) == first_occurrences(&all);
    let hres = coq::list(res.iter().map(|cs| coq::list(cs.iter().map(|c| coq::list(c.iter().map(|row| format!("({}, {})", coq::zu(hash_row(&vrow(row))), coq_row(row))))))));
    out.emit(&Case {
        kind: "merge_distinct".into(),
        input: format!("{:?}", res),
        coq: Some(format!("chk_merge_distinct {} (Some {})", hres, coq_chunks(&got))),
        oracle: if class == 2 { Oracle::Na } else { ok_or(good) },
        msg: if good { String::new() } else { "merge_distinct_results drops a row that differs from all earlier rows (NULL and FALSE hash alike)".into() },
        kid: if !good && class == 1 { Some("C17-K8".into()) } else { None },
        kcoq: if !good && class == 1 { Some(k8_term(&all)) } else { None },
        nontrivial: res.len() >= 2 && first_occurrences(&all).len() < all.len(),
        imp: format!("{:?}", got),
        tags: vec![hash_tag(class)],
        ..Default::default()
    });
}

// --------------------------------------------------------------------------------------- morsel.rs
fn case_morsels(r: &mut Rng, out: &mut Out, forced: Option<(u64, u64)>) {
    let (total, size) = match forced {
        Some(x) => x,
        None => {
            let total = match r.below(4) {
                0 => *r.pick(&[0u64, 1, 2, 1023, 1024, 1025, 2047, 2048, 2049, 65535, 65536, 65537]),
                1 => r.below(40),
                _ => r.below(200000),
            };
            let size = match r.below(6) {
                0 => *r.pick(&[0u64, 1, 2, 1023, 1024, 1025, 2048, 16384, 32768, 65536]),
                1 => total.saturating_sub(1),
                2 => total,
                3 => total + 1 + r.below(3),
                4 => *r.pick(&[u64::MAX, u64::MAX - 1, u64::MAX - total, (u64::MAX - total).wrapping_add(1), 1 << 63]),
                _ => 1 + r.below(total.max(1) * 2),
            };
            // keep the printed list small
            let size = if size > 0 && total / size > 1500 { total / 1500 + 1 } else { size };
            (total, size)
        }
    };
    let src = r.below(4);
    let got = catch(move || par::generate_morsels(total as usize, size as usize, src as usize)).ok();
    let term = match &got {
        None => "None".to_string(),
        Some(ms) => format!("(Some {})", coq::list(ms.iter().map(|m| format!("(mkm {} {} {} {})", coq::zu(m.id as u64), coq::zu(m.source_id as u64), coq::zu(m.start_row as u64), coq::zu(m.end_row as u64))))),
    };
    // the property on the implementation's own output
    let oracle = match &got {
        None => {
            if (total as u128 + size as u128) < (1u128 << 64) { Oracle::Fail } else { Oracle::Na }
        }
        Some(ms) => {
            if total == 0 || size == 0 {
                ok_or(ms.is_empty())
            } else {
                let mut lo = 0usize;
                let mut good = true;
                for (i, m) in ms.iter().enumerate() {
                    good &= m.id == i && m.start_row == lo && m.end_row > lo && m.end_row - lo <= size as usize;
                    lo = m.end_row;
                }
                ok_or(good && lo == total as usize)
            }
        }
    };
    out.emit(&Case {
        kind: "morsels".into(),
        input: format!("total={} size={} src={}", total, size, src),
        coq: Some(format!("chk_morsels {} {} {} {}", coq::zu(total), coq::zu(size), coq::zu(src), term)),
        oracle,
        msg: if got.is_none() { "panic (usize overflow in total_rows + morsel_size)".into() } else { String::new() },
        nontrivial: size > 0 && total > size,
        imp: match &got {
            None => "panic".into(),
            Some(ms) => format!("{} morsels", ms.len()),
        },
        tags: vec![
            (if size == 0 { "morsel:size=0" } else if size < 1024 { "morsel:size<MIN" } else if size > total { "morsel:size>input" } else { "morsel:size-mid" }).to_string(),
            (if got.is_none() { "morsel:panic" } else { "morsel:ok" }).to_string(),
        ],
        ..Default::default()
    });
}

fn pressure(p: u64) -> PressureLevel {
    match p {
        0 => PressureLevel::Normal,
        1 => PressureLevel::Moderate,
        2 => PressureLevel::High,
        _ => PressureLevel::Critical,
    }
}

fn case_morsel_size(r: &mut Rng, out: &mut Out) {
    let p = r.below(4);
    let base = match r.below(3) {
        0 => *r.pick(&[0u64, 1, 1023, 1024, 1025, 2047, 2048, 4095, 4096, 4097, 65536]),
        1 => r.below(10000),
        _ => r.below(1 << 40),
    };
    let s = par::compute_morsel_size(pressure(p));
    let wb = par::compute_morsel_size_with_base(base as usize, pressure(p));
    let cfg = par::ParallelPipelineConfig { num_workers: 2, morsel_size: base as usize, chunk_size: 2048, preserve_order: false, pressure_level: pressure(p) };
    let eff = cfg.effective_morsel_size();
    out.emit(&Case {
        kind: "morsel_size".into(),
        input: format!("pressure={} base={}", p, base),
        coq: Some(format!("chk_morsel_size {} {} {} {} {}", coq::zu(p), coq::zu(base), coq::zu(s as u64), coq::zu(wb as u64), coq::zu(eff as u64))),
        oracle: Oracle::Na,
        nontrivial: p > 0,
        imp: format!("size={} with_base={} effective={}", s, wb, eff),
        ..Default::default()
    });
}

// ---------------------------------------------------------------------------- MergeableAccumulator
enum Tree {
    Leaf(Vec<V>),
    Node(Box<Tree>, Box<Tree>),
}
fn gen_tree(r: &mut Rng, vals: &[V], depth: u32) -> Tree {
    if depth > 5 || vals.len() <= 1 && r.chance(2, 3) || r.chance(1, 4) {
        return Tree::Leaf(vals.to_vec());
    }
    let cut = r.below(vals.len() as u64 + 1) as usize;
    Tree::Node(Box::new(gen_tree(r, &vals[..cut], depth + 1)), Box::new(gen_tree(r, &vals[cut..], depth + 1)))
}
fn tree_coq(t: &Tree) -> String {
    match t {
        Tree::Leaf(v) => format!("(Leaf {})", coq::list(v.iter().map(V::coq))),
        Tree::Node(l, rr) => format!("(Node {} {})", tree_coq(l), tree_coq(rr)),
    }
}
fn tree_eval(t: &Tree) -> par::MergeableAccumulator {
    match t {
        Tree::Leaf(v) => {
            let mut a = par::MergeableAccumulator::new();
            for x in v {
                a.add(&x.val());
            }
            a
        }
        Tree::Node(l, rr) => {
            let mut a = tree_eval(l);
            a.merge(&tree_eval(rr));
            a
        }
    }
}
fn tree_leaves(t: &Tree) -> usize {
    match t {
        Tree::Leaf(_) => 1,
        Tree::Node(l, r) => tree_leaves(l) + tree_leaves(r),
    }
}
fn f2z(f: f64) -> i64 {
    if f.fract() == 0.0 && f.abs() < 9.0e15 { f as i64 } else { i64::MIN + 7 }
}
fn oval(o: &Option<Value>) -> String {
    coq::opt(o.as_ref().map(|v| from_value(v).coq()))
}
fn acc_coq(a: &par::MergeableAccumulator) -> String {
    format!("(mkacc {} {} {} {} {} {})", coq::z(a.count), coq::z(f2z(a.sum)), coq::z(f2z(a.sum_squared)), oval(&a.min), oval(&a.max), oval(&a.first))
}

fn case_accum(r: &mut Rng, out: &mut Out, forced: Option<Vec<Vec<V>>>) {
    let (vals, tree) = match forced {
        Some(parts) => {
            let vals: Vec<V> = parts.iter().flatten().cloned().collect();
            let mut t = Tree::Leaf(parts[0].clone());
            for p in &parts[1..] {
                t = Tree::Node(Box::new(t), Box::new(Tree::Leaf(p.clone())));
            }
            (vals, t)
        }
        None => {
            let n = gen_size(r, 14);
            let mixed = r.chance(1, 6);
            let kind = 1 + r.below(4) as u8;
            let dom = *r.pick(&[2u64, 5, 1000]);
            let nullp = *r.pick(&[0u64, 20, 60]);
            let vals: Vec<V> = (0..n)
                .map(|_| {
                    let k = if mixed { 1 + r.below(4) as u8 } else { kind };
                    gen_val(r, k, dom, nullp)
                })
                .collect();
            let t = gen_tree(r, &vals, 0);
            (vals, t)
        }
    };
    let mut seq = par::MergeableAccumulator::new();
    for v in &vals {
        seq.add(&v.val());
    }
    let par_acc = tree_eval(&tree);
    let fins = |a: &par::MergeableAccumulator| {
        let avg = a.finalize_avg();
        let avg_s = match avg {
            Value::Null => "None".to_string(),
            Value::Float64(f) if f.to_bits() == (a.sum / a.count as f64).to_bits() => format!("(Some ({}, {}))", coq::z(f2z(a.sum)), coq::z(a.count)),
            _ => "(Some (0, 0))".to_string(),
        };
        (
            vec![from_value(&a.finalize_count()), from_value(&a.finalize_sum()), from_value(&a.finalize_min()), from_value(&a.finalize_max()), from_value(&a.finalize_first())],
            avg_s,
            avg,
        )
    };
    let (fs, _, avs) = fins(&seq);
    let (fp, avg_p, avp) = fins(&par_acc);
    let same = fs == fp && format!("{:?}", avs) == format!("{:?}", avp);
    let kinds: std::collections::BTreeSet<u8> = vals.iter().map(V::kind).filter(|&k| k != 0).collect();
    out.emit(&Case {
        kind: "accum".into(),
        input: format!("tree={}", tree_coq(&tree)),
        coq: Some(format!("chk_accum {} {} {} {} {} {} {} {} {}", tree_coq(&tree), acc_coq(&seq), acc_coq(&par_acc), fp[0].coq(), fp[1].coq(), fp[2].coq(), fp[3].coq(), fp[4].coq(), avg_p)),
        oracle: ok_or(same),
        msg: if same { String::new() } else { format!("sequential finalizers {:?} differ from merged {:?}", fs, fp) },
        kid: if same { None } else { Some("C17-K12".into()) },
        kcoq: if same { None } else { Some(format!("k_accum_mixed {}", tree_coq(&tree))) },
        nontrivial: tree_leaves(&tree) >= 2 && vals.len() >= 2,
        imp: format!("seq={:?} merged={:?}", fs, fp),
        tags: vec![format!("accum:kinds={}", kinds.len()), format!("accum:leaves={}", tree_leaves(&tree).min(5))],
        ..Default::default()
    });
}

// ---------------------------------------------------------------------------------- push operators
#[derive(Clone, Debug)]
enum Pred {
    Cmp(usize, u8, V), // op: 0 Eq 1 Ne 2 Lt 3 Le 4 Gt 5 Ge
    NotNull(usize),
    And(Box<Pred>, Box<Pred>),
    Or(Box<Pred>, Box<Pred>),
}
fn pred_coq(p: &Pred) -> String {
    match p {
        Pred::Cmp(c, op, v) => format!("(pcmp {} {} {})", coq::z(*c as i64), ["CEq", "CNe", "CLt", "CLe", "CGt", "CGe"][*op as usize], v.coq()),
        Pred::NotNull(c) => format!("(pnotnull {})", coq::z(*c as i64)),
        Pred::And(a, b) => format!("(PAnd {} {})", pred_coq(a), pred_coq(b)),
        Pred::Or(a, b) => format!("(POr {} {})", pred_coq(a), pred_coq(b)),
    }
}
/// harness baseline of the predicate semantics
fn pred_eval(p: &Pred, row: &Row) -> bool {
    match p {
        Pred::Cmp(c, op, v) => {
            let Some(x) = row.get(*c) else { return false };
            let cmp = if x.kind() == v.kind() && x.kind() != 0 { Some(cmp_vals(x, v)) } else { None };
            match op {
                0 => x == v,
                1 => x != v,
                2 => cmp == Some(Ordering::Less),
                3 => matches!(cmp, Some(Ordering::Less | Ordering::Equal)),
                4 => cmp == Some(Ordering::Greater),
                _ => matches!(cmp, Some(Ordering::Greater | Ordering::Equal)),
            }
        }
        Pred::NotNull(c) => row.get(*c).is_some_and(|x| *x != V::Null),
        Pred::And(a, b) => pred_eval(a, row) && pred_eval(b, row),
        Pred::Or(a, b) => pred_eval(a, row) || pred_eval(b, row),
    }
}
struct DynPred(Box<dyn pu::FilterPredicate>);
impl pu::FilterPredicate for DynPred {
    fn evaluate(&self, chunk: &DataChunk, row: usize) -> bool {
        self.0.evaluate(chunk, row)
    }
}
fn pred_real(p: &Pred) -> Box<dyn pu::FilterPredicate> {
    match p {
        Pred::Cmp(c, op, v) => Box::new(pu::ColumnPredicate {
            column: *c,
            op: [pu::CompareOp::Eq, pu::CompareOp::Ne, pu::CompareOp::Lt, pu::CompareOp::Le, pu::CompareOp::Gt, pu::CompareOp::Ge][*op as usize],
            value: v.val(),
        }),
        Pred::NotNull(c) => Box::new(pu::NotNullPredicate::new(*c)),
        Pred::And(a, b) => Box::new(pu::AndPredicate::new(DynPred(pred_real(a)), DynPred(pred_real(b)))),
        Pred::Or(a, b) => Box::new(pu::OrPredicate::new(DynPred(pred_real(a)), DynPred(pred_real(b)))),
    }
}
/// predicate for the pull FilterOperator: the same real push predicate evaluated per row
struct PullPred(Box<dyn pu::FilterPredicate>);
impl pull::Predicate for PullPred {
    fn evaluate(&self, chunk: &DataChunk, row: usize) -> bool {
        self.0.evaluate(chunk, row)
    }
}
fn gen_pred(r: &mut Rng, kind: u8, depth: u32) -> Pred {
    if depth < 2 && r.chance(1, 4) {
        let a = gen_pred(r, kind, depth + 1);
        let b = gen_pred(r, kind, depth + 1);
        return if r.chance(1, 2) { Pred::And(Box::new(a), Box::new(b)) } else { Pred::Or(Box::new(a), Box::new(b)) };
    }
    match r.below(10) {
        0 => Pred::NotNull(*r.pick(&[0usize, 2, 7])),
        1 => Pred::Cmp(1, r.below(6) as u8, V::Int(r.range(0, 30))),
        2 => {
            let k2 = 1 + r.below(4) as u8;
            Pred::Cmp(0, r.below(6) as u8, gen_val(r, k2, 4, 20))
        }
        _ => Pred::Cmp(0, r.below(6) as u8, gen_val(r, kind, 6, 5)),
    }
}

#[derive(Clone, Debug)]
enum Op {
    Filter(Pred),
    Limit(usize),
    Distinct(Option<Vec<usize>>),
    Sort(Vec<Key>),
    Project(Vec<usize>),
}
fn op_coq(o: &Op) -> String {
    match o {
        Op::Filter(p) => format!("(KFilter {})", pred_coq(p)),
        Op::Limit(n) => format!("(KLimit {})", coq::z(*n as i64)),
        Op::Distinct(None) => "kdistinct_all".into(),
        Op::Distinct(Some(c)) => format!("(kdistinct_on {})", coq::list(c.iter().map(|&x| coq::z(x as i64)))),
        Op::Sort(k) => format!("(KSort {})", coq_keys(k)),
        Op::Project(c) => format!("(kproject {} {})", coq::list(c.iter().map(|&x| coq::z(x as i64))), coq::zu(hash_value(&Value::Null))),
    }
}
fn ops_coq(os: &[Op]) -> String {
    coq::list(os.iter().map(op_coq))
}
fn op_real(o: &Op) -> Box<dyn PushOperator> {
    match o {
        Op::Filter(p) => Box::new(pu::FilterPushOperator::new(pred_real(p))),
        Op::Limit(n) => Box::new(pu::LimitPushOperator::new(*n)),
        Op::Distinct(None) => Box::new(pu::DistinctPushOperator::new()),
        Op::Distinct(Some(c)) => Box::new(pu::DistinctPushOperator::on_columns(c.clone())),
        Op::Sort(k) => Box::new(pu::SortPushOperator::new(push_keys(k))),
        Op::Project(c) => Box::new(pu::ProjectPushOperator::select_columns(c)),
    }
}
/// the simple list specification (harness baseline)
fn op_spec(o: &Op, rows: &[Row]) -> Vec<Row> {
    match o {
        Op::Filter(p) => rows.iter().filter(|r| pred_eval(p, r)).cloned().collect(),
        Op::Limit(n) => rows.iter().take(*n).cloned().collect(),
        Op::Distinct(cols) => {
            let mut seen: Vec<Vec<V>> = vec![];
            let mut out = vec![];
            for r in rows {
                let k: Vec<V> = match cols {
                    None => r.clone(),
                    Some(c) => c.iter().map(|&i| r.get(i).cloned().unwrap_or(V::Null)).collect(),
                };
                if !seen.contains(&k) {
                    seen.push(k);
                    out.push(r.clone());
                }
            }
            out
        }
        Op::Sort(k) => stable_sorted(k, rows),
        Op::Project(c) => rows.iter().map(|r| c.iter().map(|&i| r.get(i).cloned().unwrap_or(V::Null)).collect()).collect(),
    }
}
fn gen_op(r: &mut Rng, kind: u8, which: u64, nrows: usize) -> Op {
    match which {
        0 => Op::Filter(gen_pred(r, kind, 0)),
        1 => Op::Limit(match r.below(6) {
            0 => 0,
            1 => 1,
            2 => nrows,
            3 => nrows + 1,
            4 => nrows.saturating_sub(1),
            _ => r.below(nrows as u64 + 3) as usize,
        }),
        2 => Op::Distinct(match r.below(3) {
            0 => None,
            1 => Some(vec![0]),
            _ => Some(vec![0, 2]),
        }),
        3 => {
            let mut k = gen_keys(r);
            if k.is_empty() {
                k.push(Key { col: 0, asc: true, nf: false });
            }
            Op::Sort(k)
        }
        _ => Op::Project(r.pick(&[vec![0usize], vec![1, 0], vec![2, 2, 1], vec![0, 1, 2, 5]]).clone()),
    }
}

struct VecOp {
    chunks: Vec<DataChunk>,
    pos: usize,
}
impl Operator for VecOp {
    fn next(&mut self) -> OperatorResult {
        if self.pos < self.chunks.len() {
            self.pos += 1;
            Ok(Some(self.chunks[self.pos - 1].clone()))
        } else {
            Ok(None)
        }
    }
    fn reset(&mut self) {
        self.pos = 0
    }
    fn name(&self) -> &'static str {
        "VecOp"
    }
}
/// the pull twin of a push operator over the same chunks
fn pull_twin(o: &Op, chunks: &[DataChunk], ncols: usize) -> Option<Vec<Row>> {
    let child = Box::new(VecOp { chunks: chunks.to_vec(), pos: 0 });
    let schema = vec![LogicalType::Any; ncols];
    let mut op: Box<dyn Operator> = match o {
        Op::Filter(p) => Box::new(pull::FilterOperator::new(child, Box::new(PullPred(pred_real(p))))),
        Op::Limit(n) => Box::new(pull::LimitOperator::new(child, *n, schema)),
        Op::Distinct(None) => Box::new(pull::DistinctOperator::new(child, schema)),
        Op::Distinct(Some(c)) => Box::new(pull::DistinctOperator::on_columns(child, c.clone(), schema)),
        Op::Sort(k) => Box::new(pull::SortOperator::new(child, pull_keys(k), schema)),
        Op::Project(_) => return None,
    };
    let mut out = vec![];
    while let Some(c) = op.next().ok()? {
        out.extend(rows_of(&c));
    }
    Some(out)
}

fn case_push(r: &mut Rng, out: &mut Out, which: u64, forced: Option<(Op, Vec<Vec<Row>>)>) {
    let (op, cs) = match forced {
        Some(x) => x,
        None => {
            let n = gen_size(r, 24);
            let (rows, kind) = gen_table(r, n);
            (gen_op(r, kind, which, n), gen_chunking(r, &rows))
        }
    };
    let all = flat(&cs);
    let dchunks: Vec<DataChunk> = cs.iter().map(|c| to_chunk(c, 3)).collect();
    let mut real = op_real(&op);
    let mut obs: Vec<(Vec<Vec<Row>>, bool)> = vec![];
    for c in &dchunks {
        let mut sink = CollectorSink::new();
        let cont = real.push(c.clone(), &mut sink).unwrap();
        obs.push((rows_of_chunks(sink.chunks()), cont));
    }
    let mut sink = CollectorSink::new();
    real.finalize(&mut sink).unwrap();
    let fin = rows_of_chunks(sink.chunks());
    // Pipeline::execute semantics: stop pushing at the first false
    let mut driven: Vec<Row> = vec![];
    for (o, cont) in &obs {
        driven.extend(flat(o));
        if !*cont {
            break;
        }
    }
    driven.extend(flat(&fin));
    let spec = op_spec(&op, &all);
    let twin = pull_twin(&op, &dchunks, 3);
    let class = hash_class(&all);
    let good = driven == spec && twin.as_ref().is_none_or(|t| *t == spec);
    let k8 = !good && class == 1 && matches!(op, Op::Distinct(_));
    out.emit(&Case {
        kind: format!("push_{}", ["filter", "limit", "distinct", "sort", "project"][which as usize]),
        input: format!("op={:?} chunks={:?}", op, cs),
        coq: Some(format!(
            "chk_push {} {} {} {} && chk_spec {} {} {}",
            op_coq(&op),
            coq_hchunks(&cs),
            coq::list(obs.iter().map(|(o, c)| format!("({}, {})", coq_chunks(o), c))),
            coq_chunks(&fin),
            op_coq(&op),
            coq_hchunks(&cs),
            // with the NULL/FALSE hash collision the model's DISTINCT (on the supplied hashes) is the code's, not the baseline's
            if class == 1 && matches!(op, Op::Distinct(_)) { coq_rows(&driven) } else { coq_rows(&spec) }
        )),
        show: Some(format!("show_push {} {}", op_coq(&op), coq_hchunks(&cs))),
        oracle: if class == 2 { Oracle::Na } else { ok_or(good) },
        msg: if good { String::new() } else { format!("push={:?} pull={:?} spec={:?}", driven, twin, spec) },
        kid: if k8 { Some("C17-K8".into()) } else { None },
        kcoq: if k8 { Some(k8_term(&all)) } else { None },
        nontrivial: cs.iter().filter(|c| !c.is_empty()).count() >= 2 && has_dup_keys(&[Key { col: 0, asc: true, nf: true }], &all),
        imp: format!("{:?} fin={:?}", obs, fin),
        tags: vec![format!("chunks:{}", cs.len().min(6)), hash_tag(class)],
        ..Default::default()
    });
}

/// push operators fed with chunks that carry a selection vector (what a pull operator under an
/// OperatorSource hands over), against the model, the list specification on the selected rows and the pull twins
fn case_push_sel(r: &mut Rng, out: &mut Out, which: u64, forced: Option<(Op, Vec<(Vec<Row>, Vec<usize>)>)>) {
    let corpus = forced.is_some();
    let (op, cs) = match forced {
        Some(x) => x,
        None => {
            let nchunks = 1 + r.below(3) as usize;
            let n = 1 + r.below(10) as usize;
            let (rows, kind) = gen_table(r, n * nchunks);
            let op = gen_op(r, kind, which, n * nchunks / 2);
            let mut cs = vec![];
            for c in 0..nchunks {
                let phys = rows[c * n..(c + 1) * n].to_vec();
                let sel: Vec<usize> = match r.below(6) {
                    0 => (0..n).collect(),                             // everything selected
                    1 => (0..r.below(n as u64 + 1) as usize).collect(), // a prefix
                    2 => (r.below(n as u64 + 1) as usize..n).collect(), // a suffix
                    3 => vec![],
                    _ => {
                        let p = *r.pick(&[30u64, 50, 80]);
                        (0..n).filter(|_| r.below(100) < p).collect()
                    }
                };
                cs.push((phys, sel));
            }
            (op, cs)
        }
    };
    let mk = |phys: &Vec<Row>, sel: &Vec<usize>| {
        let mut c = to_chunk(phys, 3);
        c.set_selection(grafeo_core::execution::SelectionVector::from_predicate(phys.len(), |i| sel.contains(&i)));
        c
    };
    let dchunks: Vec<DataChunk> = cs.iter().map(|(p, s)| mk(p, s)).collect();
    let mut real = op_real(&op);
    let mut obs: Vec<(Vec<Vec<Row>>, bool)> = vec![];
    for c in &dchunks {
        let mut sink = CollectorSink::new();
        let cont = real.push(c.clone(), &mut sink).unwrap();
        obs.push((rows_of_chunks(sink.chunks()), cont));
    }
    let mut sink = CollectorSink::new();
    real.finalize(&mut sink).unwrap();
    let fin = rows_of_chunks(sink.chunks());
    let mut driven: Vec<Row> = vec![];
    for (o, cont) in &obs {
        driven.extend(flat(o));
        if !*cont {
            break;
        }
    }
    driven.extend(flat(&fin));
    let selected: Vec<Row> = cs.iter().flat_map(|(p, s)| s.iter().map(|&i| p[i].clone()).collect::<Vec<_>>()).collect();
    let spec = op_spec(&op, &selected);
    let twin = pull_twin(&op, &dchunks, 3);
    let class = hash_class(&selected);
    let push_ok = driven == spec;
    let pull_ok = twin.as_ref().is_none_or(|t| *t == spec);
    let prefix = cs.iter().all(|(_, s)| s.iter().enumerate().all(|(j, &i)| i == j));
    let cs_coq = coq::list(cs.iter().map(|(p, s)| format!("({}, {})", coq_hrows(p), coq::list(s.iter().map(|&i| coq::z(i as i64))))));
    // a failure of the push side with a non-prefix selection is finding C17-K9; anything else (pull twin, prefix selections) is not listed
    let k9 = !push_ok && pull_ok && !prefix;
    let distinct_k8 = class == 1 && matches!(op, Op::Distinct(_));
    out.emit(&Case {
        kind: format!("push_sel_{}", ["filter", "limit", "distinct", "sort", "project"][which as usize]),
        input: format!("op={:?} chunks(physical rows, selection)={:?}", op, cs),
        coq: Some(format!(
            "chk_push_sel {} {} {} {}",
            op_coq(&op),
            cs_coq,
            coq::list(obs.iter().map(|(o, c)| format!("({}, {})", coq_chunks(o), c))),
            coq_chunks(&fin)
        )),
        oracle: if class == 2 || distinct_k8 { Oracle::Na } else { ok_or(push_ok && pull_ok) },
        msg: if push_ok && pull_ok { String::new() } else { format!("selected rows {:?}: push={:?} pull={:?} spec={:?}", selected, driven, twin, spec) },
        kid: if k9 { Some("C17-K9".into()) } else { None },
        kcoq: if k9 { Some(format!("k_push_sel_not_prefix {}", cs_coq)) } else { None },
        nontrivial: !prefix && selected.len() >= 2,
        imp: format!("{:?} fin={:?}", obs, fin),
        tags: vec![
            format!("sel:chunks={}", cs.len()),
            (if prefix { "sel:prefix" } else { "sel:general" }).to_string(),
            if corpus { "corpus".into() } else { hash_tag(class) },
        ],
        ..Default::default()
    });
}

/// chunks above 65535 rows (SelectionVector indices are u16) and pull DISTINCT above 2048 uniques
fn case_big_chunk(out: &mut Out, which: u64) {
    let nrows = 70000usize;
    let vals: Vec<Value> = (0..nrows as i64).map(Value::Int64).collect();
    let chunk = DataChunk::new(vec![ValueVector::from_values(&vals)]);
    let (name, kid, kterm, good, imp): (&str, &str, String, bool, String) = match which {
        0 | 1 => {
            let mut op: Box<dyn PushOperator> = if which == 0 {
                Box::new(pu::FilterPushOperator::column_compare(0, pu::CompareOp::Ge, Value::Int64(0)))
            } else {
                Box::new(pu::DistinctPushOperator::new())
            };
            let mut sink = CollectorSink::new();
            let res = catch(std::panic::AssertUnwindSafe(|| op.push(chunk.clone(), &mut sink).is_ok()));
            let got: Vec<i64> = sink.chunks().iter().flat_map(|c| rows_of(c)).map(|r| if let V::Int(i) = r[0] { i } else { -1 }).collect();
            let good = res == Ok(true) && got == (0..nrows as i64).collect::<Vec<_>>();
            (
                if which == 0 { "big_chunk_filter" } else { "big_chunk_distinct" },
                "C17-K3",
                format!("k_chunk_over_u16 {}", coq::z(nrows as i64)),
                good,
                format!("rows={} row[65536]={:?}", got.len(), got.get(65536)),
            )
        }
        2 => {
            let mut op = pu::LimitPushOperator::new(66000);
            let mut sink = CollectorSink::new();
            let res = catch(std::panic::AssertUnwindSafe(|| op.push(chunk.clone(), &mut sink).is_ok()));
            ("big_chunk_limit", "C17-K3", format!("k_chunk_over_u16 {}", coq::z(nrows as i64)), res == Ok(true) && sink.row_count() == 66000, format!("{:?} rows={}", res, sink.row_count()))
        }
        _ => {
            let uniq = 3000usize;
            let c = DataChunk::new(vec![ValueVector::from_values(&vals[..uniq])]);
            let mut d = pull::DistinctOperator::new(Box::new(VecOp { chunks: vec![c.clone()], pos: 0 }), vec![LogicalType::Any]);
            let mut n = 0;
            while let Ok(Some(c)) = d.next() {
                n += c.row_count();
            }
            let mut p = pu::DistinctPushOperator::new();
            let mut sink = CollectorSink::new();
            p.push(c, &mut sink).unwrap();
            ("pull_distinct_3000", "C17-K4", format!("k_pull_distinct_over_2048 {}", coq::z(uniq as i64)), n == uniq && sink.row_count() == uniq, format!("pull={} push={}", n, sink.row_count()))
        }
    };
    out.emit(&Case {
        kind: name.into(),
        input: format!("one chunk, rows 0..{}", if which == 3 { 3000 } else { nrows }),
        oracle: ok_or(good),
        msg: if good { String::new() } else { format!("output differs from the specification: {}", imp) },
        kid: if good { None } else { Some(kid.into()) },
        kcoq: if good { None } else { Some(kterm) },
        nontrivial: true,
        imp,
        tags: vec!["corpus".into()],
        ..Default::default()
    });
}

// ------------------------------------------------------------------------------------------- sinks
/// LimitingSink / CountingSink / MaterializingSink fed chunk by chunk
fn case_sinks(r: &mut Rng, out: &mut Out, forced: Option<(usize, Vec<Vec<Row>>)>) {
    use grafeo_core::execution::{CountingSink, LimitingSink};
    let corpus = forced.is_some();
    let (limit, cs) = match forced {
        Some(x) => x,
        None => {
            let n = gen_size(r, 20);
            let (rows, _) = gen_table(r, n);
            let limit = match r.below(5) {
                0 => 0,
                1 => n,
                2 => n + 1,
                _ => r.below(n as u64 + 2) as usize,
            };
            (limit, gen_chunking(r, &rows))
        }
    };
    let all = flat(&cs);
    let mut sink = LimitingSink::new(limit);
    let mut count = CountingSink::new();
    let mut answers = vec![];
    for c in &cs {
        answers.push(sink.consume(to_chunk(c, 3)).unwrap());
        count.consume(to_chunk(c, 3)).unwrap();
    }
    let reported = sink.row_count();
    let kept = rows_of_chunks(sink.chunks());
    let want: Vec<Row> = all.iter().take(limit).cloned().collect();
    let good = flat(&kept) == want && reported == want.len() && count.count() == all.len();
    out.emit(&Case {
        kind: "limiting_sink".into(),
        input: format!("limit={} chunks={:?}", limit, cs),
        coq: Some(format!("chk_lsink {} {} {} {}", coq::z(limit as i64), coq_chunks(&cs), coq_chunks(&kept), coq::list(answers.iter().map(|b| b.to_string())))),
        oracle: ok_or(good),
        msg: if good { String::new() } else { format!("LimitingSink({}) kept {} rows (reports {}), expected the first {}", limit, flat(&kept).len(), reported, want.len()) },
        kid: if good { None } else { Some("C17-K10".into()) },
        kcoq: if good { None } else { Some(format!("k_lsink {} {}", coq::z(limit as i64), coq_chunks(&cs))) },
        nontrivial: cs.len() >= 2 && limit > 0 && limit < all.len(),
        imp: format!("kept={:?} answers={:?} reported={}", kept, answers, reported),
        tags: vec![if corpus { "corpus".into() } else { "generated".into() }],
        ..Default::default()
    });
}

// ---------------------------------------------------------------------------------------- Pipeline
struct CountingSource {
    inner: VectorSource,
    calls: usize,
}
impl Source for CountingSource {
    fn next_chunk(&mut self, chunk_size: usize) -> Result<Option<DataChunk>, OperatorError> {
        self.calls += 1;
        if self.calls > 20000 {
            return Err(OperatorError::Execution("diverge".into()));
        }
        self.inner.next_chunk(chunk_size)
    }
    fn reset(&mut self) {
        self.inner.reset()
    }
    fn name(&self) -> &'static str {
        "CountingSource"
    }
}
struct SharedSink(Arc<parking_lot::Mutex<Vec<DataChunk>>>);
impl Sink for SharedSink {
    fn consume(&mut self, c: DataChunk) -> Result<bool, OperatorError> {
        if !c.is_empty() {
            self.0.lock().push(c);
        }
        Ok(true)
    }
    fn finalize(&mut self) -> Result<(), OperatorError> {
        Ok(())
    }
    fn name(&self) -> &'static str {
        "SharedSink"
    }
}
fn columns_of(rows: &[Row], ncols: usize) -> Vec<Vec<Value>> {
    (0..ncols).map(|c| rows.iter().map(|r| r[c].val()).collect()).collect()
}

fn case_pipeline(r: &mut Rng, out: &mut Out, forced: Option<(Vec<Op>, Vec<Row>)>) {
    let corpus = forced.is_some();
    let (ops, rows) = match forced {
        Some(x) => x,
        None => {
            let n = gen_size(r, 40);
            let (rows, kind) = gen_table(r, n);
            let len = 1 + r.below(3) as usize;
            let mut ops = vec![];
            for i in 0..len {
                let last = i == len - 1;
                let w = if last { r.below(5) } else { r.below(4) };
                // a small limit somewhere makes the source cut the input into several chunks
                let mut o = gen_op(r, kind, w, n);
                if let Op::Limit(l) = &mut o {
                    if r.chance(1, 2) {
                        *l = 1 + r.below(6) as usize;
                    }
                }
                ops.push(o);
            }
            (ops, rows)
        }
    };
    let store = Arc::new(parking_lot::Mutex::new(vec![]));
    let src = CountingSource { inner: VectorSource::new(columns_of(&rows, 3)), calls: 0 };
    let mut p = Pipeline::new(Box::new(src), ops.iter().map(op_real).collect(), Box::new(SharedSink(store.clone())));
    let res = p.execute();
    let got = rows_of_chunks(&store.lock());
    let mut spec = rows.clone();
    for o in &ops {
        spec = op_spec(o, &spec);
    }
    let (obs, good) = match &res {
        Ok(()) => (format!("(ORows {})", coq_chunks(&got)), flat(&got) == spec),
        Err(_) => ("ODiverge".to_string(), false),
    };
    let class = hash_class(&rows);
    // mirror of k_inner_limit_hit: an inner LIMIT that the (upper bound of the) input reaches
    let mut bound = rows.len();
    let mut inner_limit = false;
    for o in &ops[..ops.len() - 1] {
        if let Op::Limit(l) = o {
            inner_limit |= *l > 0 && *l <= bound;
            bound = bound.min(*l);
        }
    }
    let (kid, kcoq) = if good {
        (None, None)
    } else if res.is_err() {
        (Some("C17-K7".to_string()), Some(format!("k_pipeline_zero_chunk {} {}", ops_coq(&ops), coq::z(rows.len() as i64))))
    } else if inner_limit {
        (Some("C17-K5".to_string()), Some(format!("k_pipeline_inner_limit {} {}", ops_coq(&ops), coq::z(rows.len() as i64))))
    } else if class == 1 && ops.iter().any(|o| matches!(o, Op::Distinct(_))) {
        (Some("C17-K8".to_string()), Some(k8_term(&rows)))
    } else {
        (None, None)
    };
    out.emit(&Case {
        kind: "pipeline".into(),
        input: format!("ops={:?} rows={:?}", ops, rows),
        coq: Some(format!("chk_pipeline {} {} {}", ops_coq(&ops), coq_hrows(&rows), obs)),
        show: Some(format!("show_pipeline {} {}", ops_coq(&ops), coq_hrows(&rows))),
        oracle: if class == 2 { Oracle::Na } else { ok_or(good) },
        msg: if good { String::new() } else if res.is_err() { "Pipeline::execute does not terminate (source asked for >20000 chunks of size 0)".into() } else { format!("pipeline output {:?} differs from the sequential specification {:?}", flat(&got), spec) },
        kid,
        kcoq,
        nontrivial: ops.len() >= 2 && rows.len() >= 2,
        imp: if res.is_ok() { format!("{:?}", got) } else { "diverges".into() },
        tags: vec![format!("pipeline:len={}", ops.len()), format!("pipeline:chunks={}", got.len().min(5)), if corpus { "corpus".into() } else { "generated".into() }],
        ..Default::default()
    });
}

// --------------------------------------------------------------- schedules played by the harness
fn coq_morsels(ms: &[par::Morsel]) -> String {
    coq::list(ms.iter().map(|m| format!("(mkm {} {} {} {})", coq::zu(m.id as u64), coq::zu(m.source_id as u64), coq::zu(m.start_row as u64), coq::zu(m.end_row as u64))))
}
fn gen_schedule(r: &mut Rng, nm: usize, workers: usize) -> Vec<Vec<usize>> {
    // a random global taking order, a random worker for every morsel, a random publication order
    let mut order: Vec<usize> = (0..nm).collect();
    if r.chance(3, 4) {
        for i in (1..nm).rev() {
            order.swap(i, r.below(i as u64 + 1) as usize);
        }
    }
    let mut per: Vec<Vec<usize>> = vec![vec![]; workers];
    for m in order {
        per[r.below(workers as u64) as usize].push(m);
    }
    for i in (1..workers).rev() {
        per.swap(i, r.below(i as u64 + 1) as usize);
    }
    per
}

fn case_sched(r: &mut Rng, out: &mut Out) {
    let n = match r.below(6) {
        0 => 0,
        1 => 1,
        _ => r.below(50) as usize,
    };
    let (rows, kind) = gen_table(r, n);
    let msize = 1 + r.below(12) as usize;
    let csize = 1 + r.below(6) as usize;
    let workers = 1 + r.below(16) as usize;
    let which = r.below(5);
    let op: Option<Op> = match which {
        0 => None,
        1 => Some(gen_op(r, kind, 0, n)),
        2 => Some(gen_op(r, kind, 2, n)),
        3 => Some(gen_op(r, kind, 3, n)),
        _ => Some(gen_op(r, kind, 4, n)),
    };
    let source = par::ParallelVectorSource::new(columns_of(&rows, 3));
    let ms = source.generate_morsels(msize, 0);
    let sch = gen_schedule(r, ms.len(), workers);
    // the workers, one after the other in publication order
    let mut per_worker: Vec<Vec<DataChunk>> = vec![];
    for mine in &sch {
        let mut real = op.as_ref().map(op_real);
        let mut sink = CollectorSink::new();
        for &mi in mine {
            let mut part = source.create_partition(&ms[mi]);
            while let Some(chunk) = part.next_chunk(csize).unwrap() {
                match &mut real {
                    Some(o) => {
                        let _ = o.push(chunk, &mut sink).unwrap();
                    }
                    None => {
                        sink.consume(chunk).unwrap();
                    }
                }
            }
        }
        if let Some(o) = &mut real {
            o.finalize(&mut sink).unwrap();
        }
        per_worker.push(sink.into_chunks());
    }
    let ops: Vec<Op> = op.iter().cloned().collect();
    let sch_coq = coq::list(sch.iter().map(|w| coq::list(w.iter().map(|&i| coq::z(i as i64)))));
    let class = hash_class(&rows);
    let spec = op.as_ref().map_or(rows.clone(), |o| op_spec(o, &rows));
    let args = format!("{} {} {} {}", coq::z(csize as i64), coq_hrows(&rows), coq_morsels(&ms), sch_coq);
    let tags = vec![format!("sched:workers={}", workers.min(17)), format!("sched:morsels={}", ms.len().min(8)), format!("sched:op={}", which)];
    let nt = ms.len() >= 2 && sch.iter().filter(|w| !w.is_empty()).count() >= 2;
    match &op {
        Some(Op::Sort(keys)) => {
            let ocs = *r.pick(&[1usize, 4, 2048]);
            let runs: Vec<Vec<DataChunk>> = per_worker.iter().flatten().map(|c| vec![c.clone()]).collect();
            let parts: Vec<Vec<Row>> = per_worker.iter().flatten().map(rows_of).collect();
            let merged = rows_of_chunks(&par::merge_sorted_chunks(runs, &par_keys(keys), ocs).unwrap());
            let f = flat(&merged);
            // the sequential counterpart of the MERGE is the stable sort of the runs as the workers produced them
            // (which rows tie inside one run follows the order in which that worker took its morsels: by design);
            // against the sequential sort of the input the result must be a sorted permutation
            let _ = &spec;
            let base = stable_sorted(keys, &flat(&parts));
            let (oracle, kid, kcoq, msg) = if f == base && is_sorted(keys, &f) && same_bag(&f, &rows) {
                (Oracle::Ok, None, None, String::new())
            } else if is_sorted(keys, &f) && same_bag(&f, &rows) {
                (Oracle::Fail, Some("C17-K1".to_string()), Some(format!("k_sched_sort_ties {} {}", coq_keys(keys), args)), "per-worker sorted runs merged: ties not in the sequential order".to_string())
            } else {
                (Oracle::Fail, None, None, "merged result is not the sorted input".to_string())
            };
            out.emit(&Case {
                kind: "sched_sort".into(),
                input: format!("keys={:?} morsel={} chunk={} rows={:?} schedule={:?}", keys, msize, csize, rows, sch),
                coq: Some(format!("chk_sched_sort {} {} {} (Some {})", coq_keys(keys), args, coq::z(ocs as i64), coq_chunks(&merged))),
                oracle,
                kid,
                kcoq,
                msg,
                nontrivial: nt && has_dup_keys(keys, &rows),
                imp: format!("runs={:?} merged={:?}", parts, merged),
                tags,
                ..Default::default()
            });
        }
        _ => {
            let is_distinct = matches!(op, Some(Op::Distinct(_)));
            let got = rows_of_chunks(&par::concat_parallel_results(per_worker.clone()));
            let f = flat(&got);
            // per-worker DISTINCT needs the merge phase; with distinct on all columns merge_distinct_results finishes it
            let good = if let Some(Op::Distinct(cols)) = &op {
                if cols.is_none() {
                    let m = flat(&rows_of_chunks(&par::merge_distinct_results(vec![per_worker.iter().flatten().cloned().collect()]).unwrap()));
                    same_bag(&m, &spec)
                } else {
                    // one representative per key, whichever worker saw it first
                    let k = cols.clone().unwrap();
                    let keyset = |x: &[Row]| {
                        let mut s: Vec<String> = x.iter().map(|r| format!("{:?}", k.iter().map(|&i| r[i].clone()).collect::<Vec<_>>())).collect();
                        s.sort();
                        s.dedup();
                        s
                    };
                    keyset(&f) == keyset(&spec) && f.iter().all(|x| rows.contains(x))
                }
            } else {
                same_bag(&f, &spec)
            };
            out.emit(&Case {
                kind: if is_distinct { "sched_distinct".into() } else { "sched".into() },
                input: format!("op={:?} morsel={} chunk={} rows={:?} schedule={:?}", op, msize, csize, rows, sch),
                coq: Some(format!("chk_sched {} {} {}", ops_coq(&ops), args, coq_chunks(&got))),
                show: Some(format!("show_sched {} {}", ops_coq(&ops), args)),
                oracle: if class == 2 { Oracle::Na } else { ok_or(good) },
                msg: if good { String::new() } else { "bag of the scheduled run differs from the sequential result".into() },
                kid: if !good && class == 1 && is_distinct { Some("C17-K8".into()) } else { None },
                kcoq: if !good && class == 1 && is_distinct { Some(k8_term(&rows)) } else { None },
                nontrivial: nt,
                imp: format!("{:?}", got),
                tags,
                ..Default::default()
            });
        }
    }
}

/// ParallelPipelineConfig::preserve_order = true: a pass-through operator that is slow on the morsel holding row 0
struct SlowOnZero;
impl PushOperator for SlowOnZero {
    fn push(&mut self, chunk: DataChunk, sink: &mut dyn Sink) -> Result<bool, OperatorError> {
        if chunk.selected_indices().any(|i| chunk.column(0).and_then(|c| c.get_value(i)) == Some(Value::Int64(0))) {
            std::thread::sleep(std::time::Duration::from_millis(400));
        }
        sink.consume(chunk)
    }
    fn finalize(&mut self, _sink: &mut dyn Sink) -> Result<(), OperatorError> {
        Ok(())
    }
    fn name(&self) -> &'static str {
        "SlowOnZero"
    }
}
fn case_preserve_order(out: &mut Out, workers: usize) {
    let cnt = 2048i64;
    let ids: Vec<Value> = (0..cnt).map(Value::Int64).collect();
    let source: Arc<dyn par::ParallelSource> = Arc::new(par::ParallelVectorSource::new(vec![ids]));
    let factory = par::CloneableOperatorFactory::new().with_operator(|| Box::new(SlowOnZero) as Box<dyn PushOperator>);
    let config = par::ParallelPipelineConfig { num_workers: workers, morsel_size: 1024, chunk_size: 512, preserve_order: true, pressure_level: PressureLevel::Critical };
    let msize = config.effective_morsel_size();
    let res = par::ParallelPipeline::new(source, Arc::new(factory), config).execute().unwrap();
    let got: Vec<i64> = res.chunks.iter().flat_map(rows_of).map(|x| if let V::Int(i) = x[0] { i } else { -1 }).collect();
    let nm = (cnt as usize + msize - 1) / msize;
    let mut sorted = got.clone();
    sorted.sort();
    let complete = sorted == (0..cnt).collect::<Vec<_>>();
    let in_order = got == (0..cnt).collect::<Vec<_>>();
    out.emit(&Case {
        kind: "preserve_order".into(),
        input: format!("rows 0..{} workers={} morsel_size={} preserve_order=true, the operator sleeps on the chunk holding row 0", cnt, workers, msize),
        oracle: ok_or(complete && in_order),
        msg: if in_order { String::new() } else { format!("preserve_order = true, but the output starts with row {:?} (complete: {})", got.first(), complete) },
        kid: if complete && !in_order { Some("C17-K11".into()) } else { None },
        kcoq: if complete && !in_order { Some(format!("k_preserve_order_ignored {} {}", coq::z(workers as i64), coq::z(nm as i64))) } else { None },
        nontrivial: workers >= 2,
        imp: format!("first={:?} last={:?}", got.first(), got.last()),
        tags: vec!["corpus".into(), format!("preserve_order:workers={}", workers)],
        ..Default::default()
    });
}

// --------------------------------------------------------------------------- the real ParallelPipeline
fn case_parallel(r: &mut Rng, out: &mut Out, cnt: i64, which: u64) {
    let (a, b, m) = (r.range(1, 50), r.range(0, 50), r.range(2, 40));
    let workers = if which == 8 || r.chance(1, 5) { 1 } else { 1 + r.below(16) as usize };
    let p = r.below(4);
    let chunk_size = *r.pick(&[1usize, 7, 100, 1024, 2048, 5000]);
    let chunk_size = if cnt > 5000 && chunk_size < 100 { 100 } else { chunk_size };
    let rows = gen_compact(cnt, a, b, m);
    let vrows: Vec<Row> = rows.iter().map(|x| from_vrow(x)).collect();
    let thr = r.range(0, m);
    let filt = Op::Filter(Pred::Cmp(1, r.below(6) as u8, V::Int(thr)));
    let ops: Vec<Op> = match which {
        0 => vec![],
        1 => vec![filt.clone()],
        2 => vec![filt.clone(), Op::Project(vec![0])],
        3 => vec![Op::Distinct(Some(vec![1]))],
        4 => vec![Op::Sort(vec![Key { col: 1, asc: r.chance(1, 2), nf: false }, Key { col: 0, asc: true, nf: false }])],
        // chains with a pipeline breaker inside (finalize_chain / push_through_from_index)
        6 => vec![Op::Sort(vec![Key { col: 1, asc: r.chance(1, 2), nf: false }, Key { col: 0, asc: true, nf: false }]), filt.clone()],
        7 => vec![filt.clone(), Op::Sort(vec![Key { col: 1, asc: r.chance(1, 2), nf: false }, Key { col: 0, asc: true, nf: false }]), Op::Project(vec![0, 1])],
        // a LIMIT inside the chain (ParallelPipeline::push_through_chain): one worker, so the result is the sequential one
        8 => vec![Op::Limit(1 + r.below(cnt.max(1) as u64) as usize), Op::Filter(Pred::Cmp(0, 5, V::Int(0)))],
        _ => vec![Op::Limit(r.below(cnt.max(1) as u64 + 5) as usize)],
    };
    let cols: Vec<Vec<Value>> = (0..2).map(|c| rows.iter().map(|x| x[c].clone()).collect()).collect();
    let use_chunks = r.chance(1, 3);
    let mut use_triples = false;
    let source: Arc<dyn par::ParallelSource> = if use_chunks {
        // ParallelChunkSource over a random chunking with empty chunks in between
        let mut cs = vec![];
        let mut i = 0usize;
        while i < vrows.len() {
            if r.chance(1, 5) {
                cs.push(to_chunk(&[], 2));
            }
            let l = 1 + r.below(3000) as usize;
            let e = (i + l).min(vrows.len());
            cs.push(to_chunk(&vrows[i..e], 2));
            i = e;
        }
        Arc::new(par::ParallelChunkSource::new(cs))
    } else if r.chance(1, 4) {
        // ParallelTripleScanSource: (subject, predicate, object) = (id, key, 7)
        use_triples = true;
        Arc::new(par::ParallelTripleScanSource::new(rows.iter().map(|x| (x[0].clone(), x[1].clone(), Value::Int64(7))).collect(), vec!["s".into(), "p".into(), "o".into()]))
    } else {
        Arc::new(par::ParallelVectorSource::new(cols))
    };
    // the triple source has a third column
    let vrows: Vec<Row> = if use_triples { vrows.iter().map(|x| vec![x[0].clone(), x[1].clone(), V::Int(7)]).collect() } else { vrows };
    let mut factory = par::CloneableOperatorFactory::new();
    for o in &ops {
        let o = o.clone();
        factory = factory.with_operator(move || op_real(&o));
    }
    let config = par::ParallelPipelineConfig { num_workers: workers, morsel_size: 17, chunk_size, preserve_order: false, pressure_level: pressure(p) };
    let msize = config.effective_morsel_size();
    let res = par::ParallelPipeline::new(source, Arc::new(factory), config).execute().unwrap();
    let nm = if cnt == 0 { 0 } else { (cnt as usize + msize - 1) / msize };
    let got: Vec<Row> = res.chunks.iter().flat_map(rows_of).collect();
    let mut spec = vrows.clone();
    for o in &ops {
        spec = op_spec(o, &spec);
    }
    let tags = vec![
        format!("par:workers={}", workers),
        format!("par:morsel={}", msize),
        format!("par:morsels={}", nm.min(5)),
        format!("par:chain={}", which),
        (if use_chunks { "par:chunk-source" } else if use_triples { "par:triple-source" } else { "par:vector-source" }).to_string(),
    ];
    let base = res.morsels_processed == nm && res.rows_processed == cnt as usize;
    // one worker takes the morsels in order: the real pipeline against the model's run of that schedule, chunk by chunk
    let exact_term = if workers == 1 && !use_chunks && !use_triples && cnt <= 2100 {
        let ms = par::generate_morsels(cnt as usize, msize, 0);
        Some(format!(
            "chk_sched {} {} {} {} {} {}",
            ops_coq(&ops),
            coq::z(chunk_size as i64),
            coq_hrows(&vrows),
            coq_morsels(&ms),
            coq::list(vec![coq::list((0..ms.len()).map(|i| coq::z(i as i64)))].into_iter()),
            coq_chunks(&res.chunks.iter().map(rows_of).collect::<Vec<_>>())
        ))
    } else {
        None
    };
    let id = |x: &Row| if let V::Int(i) = x[0] { i } else { -1 };
    let (coq_term, good, imp): (Option<String>, bool, String) = match which {
        0 | 1 | 2 => {
            let mut ids: Vec<i64> = got.iter().map(id).collect();
            ids.sort();
            let good = base && ids == spec.iter().map(id).collect::<Vec<_>>() && same_bag(&got, &spec);
            let term = if cnt <= 3000 {
                format!("chk_par_ids {} {} {} {} {} {}", ops_coq(&ops), coq::z(cnt), coq::z(a), coq::z(b), coq::z(m), coq::zlist_i64(&ids))
            } else {
                let sum: i128 = ids.iter().map(|&x| x as i128).sum();
                let sq: i128 = ids.iter().map(|&x| (x as i128) * (x as i128)).sum();
                format!("chk_par_sig {} {} {} {} {} {} ({})%Z ({})%Z", ops_coq(&ops), coq::z(cnt), coq::z(a), coq::z(b), coq::z(m), coq::z(ids.len() as i64), sum, sq)
            };
            (Some(term), good, format!("{} rows", got.len()))
        }
        3 => {
            // per-worker DISTINCT ON(col 1); the distinct key values must be those of the input
            let mut ks: Vec<i64> = got.iter().map(|x| if let V::Int(i) = x[1] { i } else { -1 }).collect();
            ks.sort();
            ks.dedup();
            let mut want: Vec<i64> = spec.iter().map(|x| if let V::Int(i) = x[1] { i } else { -1 }).collect();
            want.sort();
            (None, base && ks == want && got.iter().all(|x| vrows[id(x) as usize] == *x) && got.len() <= want.len() * workers.max(1), format!("{} rows, {} keys", got.len(), ks.len()))
        }
        4 | 6 | 7 => {
            // one sorted chunk per worker: merge them with the real merge
            let Some(Op::Sort(keys)) = ops.iter().find(|o| matches!(o, Op::Sort(_))) else { unreachable!() };
            let runs: Vec<Vec<DataChunk>> = res.chunks.iter().map(|c| vec![c.clone()]).collect();
            let each_sorted = res.chunks.iter().all(|c| is_sorted(keys, &rows_of(c)));
            let merged = flat(&rows_of_chunks(&par::merge_sorted_chunks(runs, &par_keys(keys), 2048).unwrap()));
            (None, base && each_sorted && merged == spec, format!("{} runs", res.chunks.len()))
        }
        8 => {
            // one worker: exactly the sequential result
            (None, base && got == spec, format!("{} rows, expected {}", got.len(), spec.len()))
        }
        _ => {
            let Op::Limit(n) = &ops[0] else { unreachable!() };
            // LIMIT is per worker: at most workers*n rows, all from the input, at least min(n, cnt)
            let good = base && got.len() <= workers * n && got.len() >= (*n).min(cnt as usize) && got.iter().all(|x| vrows[id(x) as usize] == *x);
            (None, good, format!("{} rows for limit {}", got.len(), n))
        }
    };
    out.emit(&Case {
        kind: "parallel".into(),
        input: format!("cnt={} a={} b={} m={} ops={:?} workers={} pressure={} chunk_size={} chunk_source={}", cnt, a, b, m, ops, workers, p, chunk_size, use_chunks),
        coq: match (exact_term, coq_term) {
            (Some(e), Some(t)) => Some(format!("({}) && ({})", e, t)),
            (Some(e), None) => Some(e),
            (None, t) => t,
        },
        kid: if !good && which == 8 { Some("C17-K5".into()) } else { None },
        kcoq: if !good && which == 8 { Some(format!("k_pipeline_inner_limit {} {}", ops_coq(&ops), coq::z(cnt))) } else { None },
        oracle: ok_or(good),
        msg: if good { String::new() } else { format!("parallel result differs from the sequential baseline ({}; morsels {} rows {})", imp, res.morsels_processed, res.rows_processed) },
        nontrivial: nm >= 2 && workers >= 2,
        imp,
        tags,
        ..Default::default()
    });
}

// ----------------------------------------------------------------------------------- external sort
fn dir_count(dir: &str) -> usize {
    std::fs::read_dir(dir).map(|d| d.count()).unwrap_or(0)
}
fn fresh_dir(name: &str) -> String {
    let d = format!("{}/{}", scratch(), name);
    let _ = std::fs::remove_dir_all(&d);
    std::fs::create_dir_all(&d).unwrap();
    d
}

fn case_merge_all(r: &mut Rng, out: &mut Out, dir: &str, forced: Option<(Vec<Key>, Vec<Vec<Row>>, Vec<Row>)>) {
    let (keys, runs, mem) = match forced {
        Some(x) => x,
        None => {
            let keys = gen_keys(r);
            let total = r.below(30) as usize;
            let (rows, _) = gen_table(r, total);
            // budgets from "every row its own run" to "everything in memory"
            let k = match r.below(5) {
                0 => total,
                1 => 0,
                2 => 1,
                _ => r.below(7) as usize,
            };
            let mut runs: Vec<Vec<Row>> = vec![vec![]; k];
            let mut mem = vec![];
            let memp = *r.pick(&[0u64, 0, 20, 50]);
            for (i, row) in rows.into_iter().enumerate() {
                if k == 0 || r.below(100) < memp {
                    mem.push(row);
                } else if k == total {
                    runs[i].push(row);
                } else {
                    runs[r.below(k as u64) as usize].push(row);
                }
            }
            let runs: Vec<Vec<Row>> = runs.iter().filter(|x| !x.is_empty()).map(|x| stable_sorted(&keys, x)).collect();
            (keys, runs, mem)
        }
    };
    let mgr = Arc::new(sp::SpillManager::new(dir).unwrap());
    let before = dir_count(dir);
    let (got, during) = {
        let mut es = sp::ExternalSort::new(mgr.clone(), 3, spill_keys(&keys));
        for run in &runs {
            es.spill_sorted_run(run.iter().map(vrow).collect()).unwrap();
        }
        let during = dir_count(dir);
        let got: Vec<Row> = es.merge_all(mem.iter().map(vrow).collect()).unwrap().iter().map(|x| from_vrow(x)).collect();
        (got, during)
    };
    let after = dir_count(dir);
    drop(mgr);
    let all: Vec<Row> = runs.iter().flatten().chain(mem.iter()).cloned().collect();
    let stable = stable_sorted(&keys, &all);
    let files_ok = before == 0 && during == runs.len() && after == 0;
    let (oracle, msg, kid, kcoq) = if !files_ok {
        (Oracle::Fail, format!("spill files: before={} during={} (runs={}) after drop={}", before, during, runs.len(), after), None, None)
    } else if got == stable {
        (Oracle::Ok, String::new(), None, None)
    } else if is_sorted(&keys, &got) && same_bag(&got, &all) {
        (
            Oracle::Fail,
            "external sort output is sorted but differs from the in-memory (stable) sort in the order of rows with equal keys".into(),
            Some("C17-K1".to_string()),
            Some(format!("k_merge_all_ties {} {} {}", coq_keys(&keys), coq_chunks(&runs), coq_rows(&stable_sorted(&keys, &mem)))),
        )
    } else {
        (Oracle::Fail, "external sort output is not a sorted permutation of the input".into(), None, None)
    };
    out.emit(&Case {
        kind: "merge_all".into(),
        input: format!("keys={:?} runs={:?} mem={:?}", keys, runs, mem),
        coq: Some(format!("chk_merge_all {} {} {} {}", coq_keys(&keys), coq_chunks(&runs), coq_rows(&mem), coq_rows(&got))),
        oracle,
        msg,
        kid,
        kcoq,
        nontrivial: runs.len() + (!mem.is_empty()) as usize >= 2 && has_dup_keys(&keys, &all),
        imp: format!("{:?} files {}/{}/{}", got, before, during, after),
        tags: vec![format!("extsort:runs={}", runs.len().min(8)), format!("extsort:mem={}", (!mem.is_empty()) as u8)],
        ..Default::default()
    });
}

fn case_spill_sort(r: &mut Rng, out: &mut Out, dir: &str) {
    let mut keys = gen_keys(r);
    if keys.is_empty() {
        keys.push(Key { col: 0, asc: true, nf: false });
    }
    let total = r.below(30) as usize;
    let (rows, _) = gen_table(r, total);
    let cs = gen_chunking(r, &rows);
    let threshold = match r.below(6) {
        0 => 0,
        1 => 1,
        2 => total,
        3 => total + 1,
        4 => 100000,
        _ => r.below(total as u64 + 2) as usize,
    };
    let mgr = Arc::new(sp::SpillManager::new(dir).unwrap());
    let (got, during) = {
        let mut op = pu::SpillableSortPushOperator::with_spilling(push_keys(&keys), mgr.clone(), threshold);
        let mut sink = CollectorSink::new();
        for c in &cs {
            op.push(to_chunk(c, 3), &mut sink).unwrap();
        }
        let during = dir_count(dir);
        op.finalize(&mut sink).unwrap();
        (flat(&rows_of_chunks(sink.chunks())), during)
    };
    let after = dir_count(dir);
    drop(mgr);
    let stable = stable_sorted(&keys, &rows);
    // the in-memory twin: the same operator without a spill manager, and the plain SortPushOperator
    let mut plain = pu::SortPushOperator::new(push_keys(&keys));
    let mut sink = CollectorSink::new();
    for c in &cs {
        plain.push(to_chunk(c, 3), &mut sink).unwrap();
    }
    plain.finalize(&mut sink).unwrap();
    let inmem = flat(&rows_of_chunks(sink.chunks()));
    let cs_coq = coq_chunks(&cs);
    let (oracle, msg, kid, kcoq) = if after != 0 {
        (Oracle::Fail, format!("{} spill files left after the operator was dropped", after), None, None)
    } else if inmem != stable {
        (Oracle::Fail, "in-memory SortPushOperator differs from the stable sort".into(), None, None)
    } else if got == inmem {
        (Oracle::Ok, String::new(), None, None)
    } else if is_sorted(&keys, &got) && same_bag(&got, &rows) {
        (
            Oracle::Fail,
            "spilling sort differs from the in-memory sort in the order of rows with equal keys".into(),
            Some("C17-K1".to_string()),
            Some(format!("k_spill_sort_ties {} {} {}", coq_keys(&keys), coq::z(threshold as i64), cs_coq)),
        )
    } else {
        (Oracle::Fail, "spilling sort output is not a sorted permutation of the input".into(), None, None)
    };
    out.emit(&Case {
        kind: "spill_sort".into(),
        input: format!("keys={:?} threshold={} chunks={:?}", keys, threshold, cs),
        coq: Some(format!("chk_spill_sort {} {} {} {}", coq_keys(&keys), coq::z(threshold as i64), cs_coq, coq_rows(&got))),
        show: Some(format!("show_spill_sort {} {} {}", coq_keys(&keys), coq::z(threshold as i64), cs_coq)),
        oracle,
        msg,
        kid,
        kcoq,
        nontrivial: during >= 2 && has_dup_keys(&keys, &rows),
        imp: format!("{:?} runs_on_disk={}", got, during),
        tags: vec![format!("spill:runs={}", during.min(8)), (if threshold == 0 { "spill:threshold=0" } else if threshold > total { "spill:unlimited" } else { "spill:threshold-mid" }).to_string()],
        ..Default::default()
    });
}

// ------------------------------------------------------------------------------------- spill files
fn i64_ser(v: &i64, w: &mut dyn std::io::Write) -> std::io::Result<()> {
    w.write_all(&v.to_le_bytes())
}
fn i64_de(r: &mut dyn std::io::Read) -> std::io::Result<i64> {
    let mut b = [0u8; 8];
    r.read_exact(&mut b)?;
    Ok(i64::from_le_bytes(b))
}

fn case_files(r: &mut Rng, out: &mut Out, dir: &str, forced: Option<Vec<u8>>) {
    // ops: 0 SpillRun 1 SortDrop 2 PartSpill 3 PartReload 4 PartDrain 5 PartCleanup 6 MgrCleanup
    let corpus = forced.is_some();
    let script: Vec<u8> = forced.unwrap_or_else(|| (0..1 + r.below(10)).map(|_| r.below(7) as u8).collect());
    let mgr = Arc::new(sp::SpillManager::new(dir).unwrap());
    let mut es = sp::ExternalSort::new(mgr.clone(), 1, vec![sp::SortKey::ascending(0)]);
    let nparts = 4usize;
    let mut ps: sp::PartitionedState<i64> = sp::PartitionedState::new(mgr.clone(), nparts, i64_ser, i64_de);
    for i in 0..40 {
        ps.insert(vec![Value::Int64(i)], i).unwrap();
    }
    let mut spilled: Vec<usize> = vec![]; // partitions on disk, oldest first
    let mut done = vec![];
    let mut obs = vec![];
    for &o in &script {
        let applied = match o {
            0 => {
                es.spill_sorted_run(vec![vec![Value::Int64(1)], vec![Value::Int64(2)]]).unwrap();
                true
            }
            1 => {
                es.cleanup();
                true
            }
            2 => match (0..nparts).find(|i| !spilled.contains(i)) {
                Some(i) => {
                    ps.spill_partition(i).unwrap();
                    spilled.push(i);
                    true
                }
                None => false,
            },
            3 => {
                if spilled.is_empty() {
                    false
                } else {
                    let i = spilled.remove(0);
                    // a key of partition i: touching it reloads the partition
                    let k = (0..40).find(|&k| ps.partition_for(&[Value::Int64(k)]) == i).unwrap();
                    let _ = ps.get(&[Value::Int64(k)]).unwrap();
                    true
                }
            }
            4 => {
                let _ = ps.drain_all().unwrap();
                spilled.clear();
                for i in 0..40 {
                    ps.insert(vec![Value::Int64(i)], i).unwrap();
                }
                true
            }
            5 => {
                ps.cleanup();
                spilled.clear();
                for i in 0..40 {
                    ps.insert(vec![Value::Int64(i)], i).unwrap();
                }
                true
            }
            _ => {
                // SpillManager::cleanup removes every listed file; only done while no partition is on
                // disk (a later reload of a removed partition file would be an I/O error, not a spill-file question)
                if spilled.is_empty() {
                    mgr.cleanup().unwrap();
                    true
                } else {
                    false
                }
            }
        };
        if applied {
            done.push(o);
            obs.push((dir_count(dir) as i64, mgr.active_file_count() as i64));
        }
    }
    drop(ps);
    drop(es);
    let left_before_mgr_drop = dir_count(dir);
    drop(mgr);
    let left = dir_count(dir);
    let names = ["FSpillRun", "FSortDrop", "FPartSpill", "FPartReload", "FPartDrain", "FPartCleanup", "FMgrCleanup"];
    let ops_coq = coq::list(done.iter().map(|&o| names[o as usize].to_string()));
    // property: once the operators are gone (dropped) no spill file is left, without waiting for the manager
    let good = left_before_mgr_drop == 0 && left == 0;
    // the script with the final drops of the partitioned state and of the sort appended, for the class predicate
    let full = coq::list(done.iter().map(|&o| names[o as usize].to_string()).chain(["FPartCleanup".to_string(), "FSortDrop".to_string()]));
    out.emit(&Case {
        kind: "files".into(),
        input: format!("{:?}", done.iter().map(|&o| names[o as usize]).collect::<Vec<_>>()),
        coq: Some(format!("chk_files {} {}", ops_coq, coq::list(obs.iter().map(|(a, b)| format!("({}, {})", coq::z(*a), coq::z(*b)))))),
        oracle: ok_or(good),
        msg: if good { String::new() } else { format!("{} spill files still on disk after ExternalSort and PartitionedState were dropped (gone only after the SpillManager was dropped: {})", left_before_mgr_drop, left) },
        kid: if good { None } else { Some("C17-K6".into()) },
        kcoq: if good { None } else { Some(format!("k_files_part_cleanup {}", full)) },
        nontrivial: done.len() >= 2,
        imp: format!("{:?} left={} then {}", obs, left_before_mgr_drop, left),
        tags: vec![if corpus { "corpus".into() } else { "generated".into() }],
        ..Default::default()
    });
}

// --------------------------------------------------------------------------------- hash partitions
fn case_partition(r: &mut Rng, out: &mut Out, dir: &str) {
    let nparts = *r.pick(&[1usize, 2, 3, 8, 256]);
    let kind = 1 + r.below(4) as u8;
    let n = gen_size(r, 30);
    let dom = *r.pick(&[3u64, 10, 1000]);
    let kvs: Vec<(Row, i64)> = (0..n).map(|i| (vec![gen_val(r, kind, dom, 10), gen_val(r, 2, 2, 0)], i as i64)).collect();
    let mgr = Arc::new(sp::SpillManager::new(dir).unwrap());
    let mut ps: sp::PartitionedState<i64> = sp::PartitionedState::new(mgr.clone(), nparts, i64_ser, i64_de);
    let mut hash_ok = true;
    let mut spills = 0;
    for (k, v) in &kvs {
        let key = vrow(k);
        hash_ok &= ps.partition_for(&key) == (hash_key(&key) as usize % nparts);
        ps.insert(key, *v).unwrap();
        match r.below(6) {
            0 => spills += (ps.spill_largest().unwrap() > 0) as usize,
            1 => spills += (ps.spill_lru().unwrap() > 0) as usize,
            2 => spills += (ps.spill_partition(r.below(nparts as u64) as usize).unwrap() > 0) as usize,
            _ => {}
        }
    }
    let sizes: Vec<i64> = if nparts <= 8 { (0..nparts).map(|i| ps.partition_size(i) as i64).collect() } else { vec![] };
    let it = ps.iter_all().unwrap();
    let dr = ps.drain_all().unwrap();
    let left = dir_count(dir);
    drop(ps);
    drop(mgr);
    let norm = |x: &[(Vec<Value>, i64)]| {
        let mut v: Vec<String> = x.iter().map(|(k, v)| format!("{:?}={}", from_vrow(k), v)).collect();
        v.sort();
        v
    };
    // baseline: last value per key
    let mut base: Vec<(Row, i64)> = vec![];
    for (k, v) in &kvs {
        if let Some(e) = base.iter_mut().find(|e| e.0 == *k) {
            e.1 = *v;
        } else {
            base.push((k.clone(), *v));
        }
    }
    let mut bn: Vec<String> = base.iter().map(|(k, v)| format!("{:?}={}", k, v)).collect();
    bn.sort();
    let good = hash_ok && norm(&it) == bn && norm(&dr) == bn && left == 0;
    let kv_coq = |k: &Row, v: i64| format!("(({}, {}), {})", coq::zu(hash_key(&vrow(k))), coq_row(k), coq::z(v));
    let coq_term = if nparts <= 8 {
        Some(format!(
            "chk_partition {} {} {} {}",
            coq::z(nparts as i64),
            coq::list(kvs.iter().map(|(k, v)| kv_coq(k, *v))),
            coq::zlist_i64(&sizes),
            coq::list(dr.iter().map(|(k, v)| kv_coq(&from_vrow(k), *v)))
        ))
    } else {
        None
    };
    out.emit(&Case {
        kind: "partition".into(),
        input: format!("nparts={} kvs={:?}", nparts, kvs),
        coq: coq_term,
        oracle: ok_or(good),
        msg: if good { String::new() } else { format!("partitioned state lost or duplicated entries (hash_ok={} files left={})", hash_ok, left) },
        nontrivial: spills >= 1 && base.len() < kvs.len(),
        imp: format!("sizes={:?} drained={}", sizes, dr.len()),
        tags: vec![format!("part:n={}", nparts), format!("part:spills={}", spills.min(4))],
        ..Default::default()
    });
}

/// GROUP BY / global aggregates: the in-memory AggregatePushOperator and the spilling
/// SpillableAggregatePushOperator against the model (Accum.group_by / global_agg) and against each other
fn case_spill_agg(r: &mut Rng, out: &mut Out, dir: &str) {
    let n = gen_size(r, 60);
    let kind = 1 + r.below(4) as u8;
    let dom = *r.pick(&[2u64, 6, 40]);
    let vkind = *r.pick(&[2u8, 2, 3, 4]);
    let rows: Vec<Row> = (0..n).map(|_| vec![gen_val(r, kind, dom, 10), gen_val(r, vkind, 20, 15), gen_val(r, 2, 3, 20)]).collect();
    let cs = gen_chunking(r, &rows);
    let threshold = *r.pick(&[0usize, 1, 2, 5, 1000]);
    // group columns: none (global aggregate), one or two
    let gcols: Vec<usize> = match r.below(6) {
        0 => vec![],
        1 => vec![0, 2],
        _ => vec![0],
    };
    // aggregate list: COUNT(*), COUNT, SUM, MIN, MAX, AVG over column 1 (fixed positions, AVG needs SUM and COUNT), sometimes FIRST
    let with_first = r.chance(1, 3);
    let aggs = || {
        let mut v = vec![pu::AggregateExpr::count_star(), pu::AggregateExpr::count(1), pu::AggregateExpr::sum(1), pu::AggregateExpr::min(1), pu::AggregateExpr::max(1), pu::AggregateExpr::avg(1)];
        if with_first {
            v.push(pu::AggregateExpr { function: pu::AggregateFunction::First, column: Some(1), distinct: false });
        }
        v
    };
    let ng = gcols.len();
    // output row -> model row: the AVG cell becomes the exact fraction (SUM cell, COUNT cell) when the float is their quotient
    let canon = |vals: &[Value]| -> Row {
        let mut row: Row = vec![];
        for (i, v) in vals.iter().enumerate() {
            if i == ng + 5 {
                match (v, &vals[ng + 2], &vals[ng + 1]) {
                    (Value::Null, _, _) => row.push(V::Null),
                    (Value::Float64(a), Value::Float64(sm), Value::Int64(c)) if a.to_bits() == (sm / *c as f64).to_bits() => {
                        row.push(from_value(&Value::Float64(*sm)));
                        row.push(V::Int(*c));
                    }
                    _ => row.push(V::Str(-3)),
                }
            } else {
                row.push(from_value(v));
            }
        }
        row
    };
    let run = |op: &mut dyn PushOperator| {
        let mut sink = CollectorSink::new();
        for c in &cs {
            op.push(to_chunk(c, 3), &mut sink).unwrap();
        }
        op.finalize(&mut sink).unwrap();
        let rows: Vec<Row> = sink
            .chunks()
            .iter()
            .flat_map(|c| c.selected_indices().map(|i| canon(&(0..c.column_count()).map(|k| c.column(k).unwrap().get_value(i).unwrap_or(Value::Null)).collect::<Vec<_>>())).collect::<Vec<_>>())
            .collect();
        rows
    };
    let mgr = Arc::new(sp::SpillManager::new(dir).unwrap());
    let spilled = {
        let mut op = pu::SpillableAggregatePushOperator::with_spilling(gcols.clone(), aggs(), mgr.clone(), threshold);
        run(&mut op)
    };
    let left = dir_count(dir);
    drop(mgr);
    let mut mem = pu::AggregatePushOperator::new(gcols.clone(), aggs());
    let inmem = run(&mut mem);
    let good = same_bag(&spilled, &inmem) && left == 0;
    let keyrows: Vec<Row> = rows.iter().map(|x| gcols.iter().map(|&c| x[c].clone()).collect()).collect();
    let class = hash_class(&keyrows);
    let k8 = !good && left == 0 && class == 1;
    let mut agg_terms = vec!["(mkagg ACount (-1))".to_string(), "(mkagg ACount 1)".into(), "(mkagg ASum 1)".into(), "(mkagg AMin 1)".into(), "(mkagg AMax 1)".into(), "(mkagg AAvg 1)".into()];
    if with_first {
        agg_terms.push("(mkagg AFirst 1)".into());
    }
    let args = format!("{} {} {}", coq::list(gcols.iter().map(|&c| coq::z(c as i64))), coq::list(agg_terms.into_iter()), coq_hrows(&rows));
    out.emit(&Case {
        kind: if gcols.is_empty() { "agg_global".into() } else { "spill_agg".into() },
        kid: if k8 { Some("C17-K8".into()) } else { None },
        kcoq: if k8 { Some(k8_term(&keyrows)) } else { None },
        input: format!("group_by={:?} first={} threshold={} chunks={:?}", gcols, with_first, threshold, cs),
        coq: Some(format!("chk_agg {} {} {}", args, coq_rows(&inmem), coq_rows(&spilled))),
        show: Some(format!("show_agg {}", args)),
        oracle: if class == 2 { Oracle::Na } else { ok_or(good) },
        msg: if good { String::new() } else { format!("spilling GROUP BY differs from the in-memory one or leaves files ({}): {:?} vs {:?}", left, spilled, inmem) },
        nontrivial: inmem.len() >= 2 && inmem.len() < n,
        imp: format!("mem={:?} spill={:?}", inmem, spilled),
        tags: vec![format!("spill_agg:threshold={}", threshold), format!("agg:group_cols={}", gcols.len()), format!("agg:value_kind={}", vkind), hash_tag(class)],
        ..Default::default()
    });
}

// -------------------------------------------------------------------------------------------- main
fn main() {
    quiet_panics();
    let args = parse_args();
    let mut r = Rng::new(args.seed);
    let mut out = Out::create(args.out.as_deref());
    let thorough = args.tier == "thorough";
    let scale = |n: usize| (n * args.cases / 2000).max(1);
    let _ = std::fs::remove_dir_all(scratch());
    std::fs::create_dir_all(scratch()).unwrap();

    // ---- corpus: the witnesses of the _refuted theorems and the boundary tables
    let i = |k: i64, p: i64| vec![V::Int(k), V::Int(p), V::Null];
    let k0 = vec![Key { col: 0, asc: true, nf: false }];
    // C17-K1: five runs, all keys equal
    case_merge_runs(&mut r, &mut out, Some((k0.clone(), (0..5).map(|j| vec![i(1, j), i(1, j + 10)]).collect())));
    case_merge_runs(&mut r, &mut out, Some((k0.clone(), (0..4).map(|j| vec![i(1, j)]).collect())));
    case_merge_runs(&mut r, &mut out, Some((k0.clone(), vec![])));
    case_merge_runs(&mut r, &mut out, Some((k0.clone(), vec![vec![i(3, 0), i(1, 1)]]))); // one (unsorted) run: identity
    let d = fresh_dir("corpus");
    case_merge_all(&mut r, &mut out, &d, Some((k0.clone(), (0..4).map(|j| vec![i(1, j)]).collect(), vec![])));
    case_merge_all(&mut r, &mut out, &d, Some((k0.clone(), vec![vec![i(1, 0)]], vec![i(1, 1), i(0, 2)])));
    // C17-K2 (fixed by e7fe7cd): MIN over a column mixing Int64 and Float64; C17-K12: numbers mixed with strings
    case_accum(&mut r, &mut out, Some(vec![vec![V::Int(1)], vec![V::Flt(0), V::Int(0)]]));
    case_accum(&mut r, &mut out, Some(vec![vec![V::Int(1)], vec![V::Str(0), V::Int(0)]]));
    case_accum(&mut r, &mut out, Some(vec![vec![V::Int(1), V::Int(5)], vec![V::Int(0), V::Null]]));
    // C17-K3 / K4
    for w in 0..4 {
        case_big_chunk(&mut out, w);
    }
    // C17-K5: LIMIT followed by another operator; C17-K7: LIMIT 0 behind another operator
    let t10: Vec<Row> = (0..10).map(|j| i(j, j)).collect();
    let ge0 = Op::Filter(Pred::Cmp(0, 5, V::Int(0)));
    case_pipeline(&mut r, &mut out, Some((vec![Op::Limit(5), ge0.clone()], t10.clone())));
    case_pipeline(&mut r, &mut out, Some((vec![Op::Limit(10), ge0.clone()], t10.clone())));
    case_pipeline(&mut r, &mut out, Some((vec![Op::Limit(1000), ge0.clone()], t10.clone())));
    case_pipeline(&mut r, &mut out, Some((vec![ge0.clone(), Op::Limit(0)], t10.clone())));
    case_pipeline(&mut r, &mut out, Some((vec![Op::Limit(0), ge0.clone()], t10.clone())));
    case_pipeline(&mut r, &mut out, Some((vec![ge0.clone(), Op::Limit(3)], t10.clone())));
    // C17-K9: a chunk with a selection vector that is not a prefix: rows 0..10, rows 5..9 selected
    let sel59: Vec<usize> = (5..10).collect();
    case_push_sel(&mut r, &mut out, 0, Some((ge0.clone(), vec![(t10.clone(), sel59.clone())])));
    case_push_sel(&mut r, &mut out, 1, Some((Op::Limit(2), vec![(t10.clone(), sel59.clone())])));
    case_push_sel(&mut r, &mut out, 2, Some((Op::Distinct(None), vec![(t10.clone(), sel59.clone())])));
    case_push_sel(&mut r, &mut out, 3, Some((Op::Sort(k0.clone()), vec![(t10.clone(), sel59.clone())])));
    case_push_sel(&mut r, &mut out, 4, Some((Op::Project(vec![1, 0]), vec![(t10.clone(), sel59.clone())])));
    case_push_sel(&mut r, &mut out, 0, Some((ge0.clone(), vec![(t10.clone(), (0..5).collect())])));
    // C17-K10: LimitingSink(3) over chunks of 2 + 2 rows keeps 4 rows
    case_sinks(&mut r, &mut out, Some((3, vec![t10[0..2].to_vec(), t10[2..4].to_vec(), t10[4..6].to_vec()])));
    case_sinks(&mut r, &mut out, Some((4, vec![t10[0..2].to_vec(), t10[2..4].to_vec(), t10[4..6].to_vec()])));
    // C17-K11: preserve_order is ignored (2 workers, 2 morsels); one worker keeps the order
    case_preserve_order(&mut out, 2);
    case_preserve_order(&mut out, 1);
    // C17-K6: PartitionedState cleanup / drop with partitions on disk
    case_files(&mut r, &mut out, &d, Some(vec![2, 2, 5]));
    case_files(&mut r, &mut out, &d, Some(vec![2]));
    case_files(&mut r, &mut out, &d, Some(vec![0, 0, 1, 2, 3, 2, 4]));
    // morsel boundaries
    for &(t, s) in &[(0u64, 0u64), (0, 5), (5, 0), (1, 1), (1000, 300), (1000, 250), (1024, 1024), (1025, 1024), (2048, 1024), (2049, 1024), (65537, 65536), (10, u64::MAX), (10, u64::MAX - 10), (10, u64::MAX - 9)] {
        case_morsels(&mut r, &mut out, Some((t, s)));
    }
    for &(cnt, cs) in &[(0i64, 2048usize), (1, 2048), (2047, 2048), (2048, 2048), (2049, 2048), (4096, 2048), (4097, 2048), (10, 3), (10, 1), (7, 100)] {
        case_rows_to_chunks(&mut r, &mut out, cnt, cs);
    }

    // ---- generated
    for _ in 0..scale(330) {
        case_merge_runs(&mut r, &mut out, None);
    }
    for _ in 0..scale(120) {
        case_merge_chunks(&mut r, &mut out);
    }
    for _ in 0..scale(30) {
        case_concat(&mut r, &mut out);
    }
    for _ in 0..scale(110) {
        case_merge_distinct(&mut r, &mut out);
    }
    for _ in 0..scale(230) {
        case_morsels(&mut r, &mut out, None);
    }
    for _ in 0..scale(30) {
        case_morsel_size(&mut r, &mut out);
    }
    for _ in 0..scale(220) {
        case_accum(&mut r, &mut out, None);
    }
    for w in 0..5 {
        for _ in 0..scale(70) {
            case_push(&mut r, &mut out, w, None);
        }
    }
    for w in 0..5 {
        for _ in 0..scale(40) {
            case_push_sel(&mut r, &mut out, w, None);
        }
    }
    for _ in 0..scale(40) {
        case_sinks(&mut r, &mut out, None);
    }
    for _ in 0..scale(200) {
        case_pipeline(&mut r, &mut out, None);
    }
    for _ in 0..scale(170) {
        case_sched(&mut r, &mut out);
    }
    let d = fresh_dir("extsort");
    for _ in 0..scale(130) {
        case_merge_all(&mut r, &mut out, &d, None);
    }
    for _ in 0..scale(110) {
        case_spill_sort(&mut r, &mut out, &d);
    }
    let d = fresh_dir("files");
    for _ in 0..scale(30) {
        case_files(&mut r, &mut out, &d, None);
    }
    let d = fresh_dir("partition");
    for _ in 0..scale(60) {
        case_partition(&mut r, &mut out, &d);
    }
    for _ in 0..scale(90) {
        case_spill_agg(&mut r, &mut out, &d);
    }
    // the real ParallelPipeline: sizes around 0, 1, the chunk size and the morsel sizes (1024 .. 65536)
    let mut sizes: Vec<i64> = vec![0, 1, 2, 1023, 1024, 1025, 2047, 2048, 2049, 3000, 4100];
    if thorough {
        sizes.extend([16383, 16384, 16385, 32768, 40000, 65535, 65536, 65537, 70000]);
    } else {
        sizes.extend([16385, 65537]);
    }
    for (j, &cnt) in sizes.iter().enumerate() {
        let reps = if thorough { 18 } else { 9 };
        for k in 0..reps {
            let mut which = ((j + k) % 9) as u64;
            // a sort hands ONE chunk with all its rows to the next operator: keep it below the u16 limit (C17-K3)
            if which == 6 && cnt > 60000 {
                which = 7;
            }
            case_parallel(&mut r, &mut out, cnt, which);
        }
    }
    // the spill directories must be empty at the end
    let mut left = 0;
    for sub in ["corpus", "extsort", "files", "partition"] {
        left += dir_count(&format!("{}/{}", scratch(), sub));
    }
    out.emit(&Case {
        kind: "scratch_listing".into(),
        input: scratch(),
        oracle: ok_or(left == 0),
        msg: if left == 0 { String::new() } else { format!("{} spill files left under {}", left, scratch()) },
        nontrivial: false,
        imp: format!("{} files", left),
        ..Default::default()
    });
    out.finish();
}
