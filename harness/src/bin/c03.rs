//! C03 / C04 — transaction manager: drives the real `TransactionManager` (and, at the session
//! level, two or three `GrafeoDB::session()`s) with generated operation sequences and emits, per
//! case, the Coq terms that (a) compare every answer and read-back with the model
//! (GV.Tm.Run.chk_run / chk_session), (b) evaluate the property oracle on the implementation's
//! answers (oracle_c03 / oracle_c04 / oracle_sess_*), (c) classify a failure (k_*).
//!
//!   c03 --prop C03|C04 --seed S --cases N --tier quick|thorough --out FILE
use grafeo_common::types::{EdgeId, NodeId, TxId, Value};
use grafeo_common::utils::error::{Error, TransactionError};
use grafeo_engine::GrafeoDB;
use grafeo_engine::transaction::{EntityId, IsolationLevel, TransactionManager, TxState};
use gv_harness::*;
use std::collections::{BTreeMap, BTreeSet};

// ------------------------------------------------------------------------------- vocabulary

#[derive(Clone, Copy, PartialEq, Eq, Debug, PartialOrd, Ord)]
enum Iso {
    Rc,
    Si,
    Ser,
}
impl Iso {
    fn real(self) -> IsolationLevel {
        match self {
            Iso::Rc => IsolationLevel::ReadCommitted,
            Iso::Si => IsolationLevel::SnapshotIsolation,
            Iso::Ser => IsolationLevel::Serializable,
        }
    }
    fn of(l: IsolationLevel) -> Iso {
        match l {
            IsolationLevel::ReadCommitted => Iso::Rc,
            IsolationLevel::SnapshotIsolation => Iso::Si,
            IsolationLevel::Serializable => Iso::Ser,
        }
    }
    fn coq(self) -> &'static str {
        match self {
            Iso::Rc => "ReadCommitted",
            Iso::Si => "SnapshotIsolation",
            Iso::Ser => "Serializable",
        }
    }
}

#[derive(Clone, Copy, PartialEq, Eq, Debug, PartialOrd, Ord, Hash)]
enum Ent {
    Node(u64),
    Edge(u64),
}
impl Ent {
    fn real(self) -> EntityId {
        match self {
            Ent::Node(i) => EntityId::Node(NodeId::new(i)),
            Ent::Edge(i) => EntityId::Edge(EdgeId::new(i)),
        }
    }
    fn of(e: &EntityId) -> Ent {
        match e {
            EntityId::Node(n) => Ent::Node(n.as_u64()),
            EntityId::Edge(n) => Ent::Edge(n.as_u64()),
        }
    }
    fn coq(self) -> String {
        match self {
            Ent::Node(i) => format!("(ENode {})", zn(i)),
            Ent::Edge(i) => format!("(EEdge {})", zn(i)),
        }
    }
    fn txt(self) -> String {
        match self {
            Ent::Node(i) => format!("n{}", i),
            Ent::Edge(i) => format!("e{}", i),
        }
    }
}

#[derive(Clone, Copy, PartialEq, Eq, Debug)]
enum Op {
    Begin(Iso),
    Write(u64, Ent),
    Read(u64, Ent),
    Commit(u64),
    Abort(u64),
    Gc,
    AbortAll,
}
impl Op {
    fn coq(&self) -> String {
        match self {
            Op::Begin(i) => format!("Begin {}", i.coq()),
            Op::Write(t, e) => format!("Write {} {}", zn(*t), e.coq()),
            Op::Read(t, e) => format!("Read {} {}", zn(*t), e.coq()),
            Op::Commit(t) => format!("Commit {}", zn(*t)),
            Op::Abort(t) => format!("Abort {}", zn(*t)),
            Op::Gc => "Gc".into(),
            Op::AbortAll => "AbortAll".into(),
        }
    }
    fn txt(&self) -> String {
        match self {
            Op::Begin(i) => format!("B{}", match i { Iso::Rc => "rc", Iso::Si => "si", Iso::Ser => "ser" }),
            Op::Write(t, e) => format!("W{}{}", t, e.txt()),
            Op::Read(t, e) => format!("R{}{}", t, e.txt()),
            Op::Commit(t) => format!("C{}", t),
            Op::Abort(t) => format!("A{}", t),
            Op::Gc => "GC".into(),
            Op::AbortAll => "AA".into(),
        }
    }
}

#[derive(Clone, Copy, PartialEq, Eq, Debug)]
enum ErrK {
    Invalid,
    WriteConflict,
    Serialization,
    Other,
}
impl ErrK {
    fn coq(self) -> &'static str {
        match self {
            ErrK::Invalid => "InvalidState",
            ErrK::WriteConflict => "WriteConflict",
            ErrK::Serialization => "SerializationFailure",
            // an error kind the model does not know: printed as a term that cannot be equal
            ErrK::Other => "InvalidState",
        }
    }
}
#[derive(Clone, Copy, PartialEq, Eq, Debug)]
enum Out {
    Tx(u64),
    Unit,
    Epoch(u64),
    Count(u64),
    Err(ErrK),
    Panic,
}
impl Out {
    fn coq(&self) -> String {
        match self {
            Out::Tx(t) => format!("OkTx {}", zn(*t)),
            Out::Unit => "OkUnit".into(),
            Out::Epoch(c) => format!("OkEpoch {}", zn(*c)),
            Out::Count(c) => format!("OkCount {}", zn(*c)),
            Out::Err(k) => format!("Err {}", k.coq()),
            // a panic or an unknown error kind is never what the model answers: OkCount (-1)
            Out::Panic => "OkCount (-1)%Z".into(),
        }
    }
    fn txt(&self) -> String {
        match self {
            Out::Tx(t) => format!("tx{}", t),
            Out::Unit => "ok".into(),
            Out::Epoch(c) => format!("@{}", c),
            Out::Count(c) => format!("#{}", c),
            Out::Err(ErrK::Invalid) => "!inv".into(),
            Out::Err(ErrK::WriteConflict) => "!wc".into(),
            Out::Err(ErrK::Serialization) => "!sf".into(),
            Out::Err(ErrK::Other) => "!other".into(),
            Out::Panic => "!PANIC".into(),
        }
    }
}
fn zn(v: u64) -> String {
    format!("{}", v)
}
fn errk(e: &Error) -> ErrK {
    match e {
        Error::Transaction(TransactionError::InvalidState(_)) => ErrK::Invalid,
        Error::Transaction(TransactionError::WriteConflict(_)) => ErrK::WriteConflict,
        Error::Transaction(TransactionError::SerializationFailure(_)) => ErrK::Serialization,
        _ => ErrK::Other,
    }
}
fn out_coq(o: &Out) -> String {
    match o {
        Out::Err(ErrK::Other) => "OkCount (-2)%Z".into(),
        _ => o.coq(),
    }
}

// ------------------------------------------------------------------------------- implementation

fn apply(m: &TransactionManager, op: &Op) -> Out {
    let m = std::panic::AssertUnwindSafe(m);
    let op = *op;
    match catch(move || match op {
        Op::Begin(i) => Out::Tx(m.begin_with_isolation(i.real()).as_u64()),
        Op::Write(t, e) => match m.record_write(TxId::new(t), e.real()) {
            Ok(()) => Out::Unit,
            Err(e) => Out::Err(errk(&e)),
        },
        Op::Read(t, e) => match m.record_read(TxId::new(t), e.real()) {
            Ok(()) => Out::Unit,
            Err(e) => Out::Err(errk(&e)),
        },
        Op::Commit(t) => match m.commit(TxId::new(t)) {
            Ok(c) => Out::Epoch(c.as_u64()),
            Err(e) => Out::Err(errk(&e)),
        },
        Op::Abort(t) => match m.abort(TxId::new(t)) {
            Ok(()) => Out::Unit,
            Err(e) => Out::Err(errk(&e)),
        },
        Op::Gc => Out::Count(m.gc() as u64),
        Op::AbortAll => {
            m.abort_all_active();
            Out::Unit
        }
    }) {
        Ok(o) => o,
        Err(_) => Out::Panic,
    }
}

/// read-back through the public observers, printed as a `Dump` term and as text
fn dump(m: &TransactionManager, at: usize, ids: &[u64]) -> (String, String) {
    let mut ents = Vec::new();
    let mut txt = String::new();
    for &t in ids {
        let id = TxId::new(t);
        let st = m.state(id);
        match st {
            None => ents.push(format!("EntryNone {}", zn(t))),
            Some(s) => {
                let start = m.start_epoch(id).map(|e| e.as_u64()).unwrap_or(u64::MAX);
                let lvl = m.isolation_level(id).map(Iso::of).unwrap_or(Iso::Rc);
                let mut ws: Vec<Ent> = m.get_write_set(id).map(|s| s.iter().map(Ent::of).collect()).unwrap_or_default();
                ws.sort();
                let sc = match s {
                    TxState::Active => "Active",
                    TxState::Committed => "Committed",
                    TxState::Aborted => "Aborted",
                };
                txt.push_str(&format!(" {}:{}@{}{:?}", t, &sc[..2], start, ws.iter().map(|e| e.txt()).collect::<Vec<_>>()));
                ents.push(format!("EntrySome {} {} {} {} {}", zn(t), sc, zn(start), lvl.coq(), coq::list(ws.iter().map(|e| e.coq()))));
            }
        }
    }
    let cur = m.current_epoch().as_u64();
    let act = m.active_count() as u64;
    let mn = m.min_active_epoch().as_u64();
    (
        format!("Dump {} {} {} {} {}", format!("{}", at), zn(cur), zn(act), zn(mn), coq::list(ents)),
        format!("[after {}: epoch={} active={} min_active={}{}]", at, cur, act, mn, txt),
    )
}

fn run_impl(ops: &[Op], dump_at: &[usize]) -> (Vec<Out>, Vec<String>, Vec<String>) {
    let m = TransactionManager::new();
    let mut outs = Vec::new();
    let mut dumps = Vec::new();
    let mut dtxt = Vec::new();
    let mut nbegin = 0u64;
    let nops = ops.len();
    let probe_at = |nb: u64, at: usize| -> Vec<u64> {
        let mut v: Vec<u64> = Vec::new();
        if at == nops {
            v.extend([0, 1]);
        }
        v.extend(2..(2 + nb + 1));
        if at == nops {
            v.push(1u64 << 40);
        }
        v
    };
    if dump_at.contains(&0) {
        let (d, t) = dump(&m, 0, &probe_at(0, 0));
        dumps.push(d);
        dtxt.push(t);
    }
    for (i, op) in ops.iter().enumerate() {
        let o = apply(&m, op);
        if let Op::Begin(_) = op {
            nbegin += 1;
        }
        outs.push(o);
        if dump_at.contains(&(i + 1)) {
            let (d, t) = dump(&m, i + 1, &probe_at(nbegin, i + 1));
            dumps.push(d);
            dtxt.push(t);
        }
    }
    (outs, dumps, dtxt)
}

// ------------------------------------------------------------------------------- native spec machine
// A Rust transliteration of Tm/Spec.v (history + abstract commit rule).  Used for the
// non-triviality flags, the input distribution and the exhaustive small-scope sweep (support);
// the deciding comparison and oracle are the Coq terms.

#[derive(Clone, Debug, PartialEq, Eq)]
enum End {
    Active,
    Committed(u64),
    Aborted,
}
#[derive(Clone, Debug)]
struct Rec {
    iso: Iso,
    start: u64,
    ws: BTreeSet<Ent>,
    rs: BTreeSet<Ent>,
    end: End,
}
#[derive(Clone, Default)]
struct Hist {
    recs: BTreeMap<u64, Rec>,
    ncommitted: u64,
    nbegun: u64,
}
impl Hist {
    fn conf(&self, t: u64, sel: &BTreeSet<Ent>, start: u64) -> bool {
        self.recs.iter().any(|(o, r)| *o != t && matches!(r.end, End::Committed(c) if c > start) && r.ws.iter().any(|e| sel.contains(e)))
    }
    /// spec_out (None for Gc: unspecified) followed by hstep
    fn step(&mut self, op: &Op) -> Option<Out> {
        match *op {
            Op::Begin(i) => {
                let t = 2 + self.nbegun;
                self.nbegun += 1;
                self.recs.insert(t, Rec { iso: i, start: self.ncommitted, ws: BTreeSet::new(), rs: BTreeSet::new(), end: End::Active });
                Some(Out::Tx(t))
            }
            Op::Write(t, e) => match self.recs.get_mut(&t) {
                Some(r) if r.end == End::Active => {
                    r.ws.insert(e);
                    Some(Out::Unit)
                }
                _ => Some(Out::Err(ErrK::Invalid)),
            },
            Op::Read(t, e) => match self.recs.get_mut(&t) {
                Some(r) if r.end == End::Active => {
                    r.rs.insert(e);
                    Some(Out::Unit)
                }
                _ => Some(Out::Err(ErrK::Invalid)),
            },
            Op::Abort(t) => match self.recs.get_mut(&t) {
                Some(r) if r.end == End::Active => {
                    r.end = End::Aborted;
                    Some(Out::Unit)
                }
                _ => Some(Out::Err(ErrK::Invalid)),
            },
            Op::Commit(t) => {
                let r = match self.recs.get(&t) {
                    Some(r) if r.end == End::Active => r.clone(),
                    _ => return Some(Out::Err(ErrK::Invalid)),
                };
                if self.conf(t, &r.ws, r.start) {
                    return Some(Out::Err(ErrK::WriteConflict));
                }
                if r.iso == Iso::Ser && !r.rs.is_empty() && self.conf(t, &r.rs, r.start) {
                    return Some(Out::Err(ErrK::Serialization));
                }
                self.ncommitted += 1;
                let c = self.ncommitted;
                self.recs.get_mut(&t).unwrap().end = End::Committed(c);
                Some(Out::Epoch(c))
            }
            Op::Gc => None,
            Op::AbortAll => {
                for r in self.recs.values_mut() {
                    if r.end == End::Active {
                        r.end = End::Aborted;
                    }
                }
                Some(Out::Unit)
            }
        }
    }
    /// C03 non-triviality: two transactions wrote a common entity and somebody committed
    fn nt_c03(&self) -> bool {
        self.ncommitted >= 1
            && self.recs.iter().any(|(a, ra)| self.recs.iter().any(|(b, rb)| a != b && ra.ws.iter().any(|e| rb.ws.contains(e))))
    }
    /// C04 non-triviality: a transaction read an entity that an overlapping transaction wrote
    /// (rw-antidependency between transactions whose lifetimes overlap; the writer committed)
    fn nt_c04(&self) -> bool {
        self.recs.iter().any(|(a, ra)| {
            self.recs.iter().any(|(b, rb)| {
                a != b && matches!(rb.end, End::Committed(c) if c > ra.start) && ra.rs.iter().any(|e| rb.ws.contains(e))
            })
        })
    }
    /// first committer wins on the history
    fn fcw_ok(&self) -> bool {
        for (a, ra) in &self.recs {
            for (b, rb) in &self.recs {
                if a < b {
                    if let (End::Committed(ca), End::Committed(cb)) = (&ra.end, &rb.end) {
                        if rb.start < *ca && ra.start < *cb && ra.ws.iter().any(|e| rb.ws.contains(e)) {
                            return false;
                        }
                    }
                }
            }
        }
        true
    }
}

// ------------------------------------------------------------------------------- generators

struct Gen {
    ntx: u64,
    ents: Vec<Ent>,
    len: usize,
    p_gc: u64,       // per mille
    p_bad: u64,      // per mille: op on an unknown / finished id
    p_abortall: u64, // per mille
    levels: Vec<Iso>,
    pinned: bool,
    read_heavy: bool,
}

fn gen_case(r: &mut Rng, prop: &str) -> (Vec<Op>, Vec<String>) {
    let ntx = 2 + r.below(5);
    let nent = 1 + r.below(4);
    let mut ents = Vec::new();
    for i in 0..nent {
        // node and edge ids overlap on purpose: Node(1) and Edge(1) are different entities
        ents.push(if r.chance(2, 3) { Ent::Node(i / 2 + 1) } else { Ent::Edge(i / 2 + 1) });
    }
    ents.dedup();
    let shape = r.below(10);
    let levels = match r.below(6) {
        0 => vec![Iso::Ser],
        1 => vec![Iso::Si],
        2 => vec![Iso::Rc, Iso::Si, Iso::Ser],
        3 => vec![Iso::Ser, Iso::Ser, Iso::Si],
        _ => if prop == "C04" { vec![Iso::Ser] } else { vec![Iso::Si, Iso::Ser, Iso::Rc] },
    };
    let g = Gen {
        ntx,
        ents,
        len: match r.below(5) { 0 => 4 + r.below(6) as usize, 1 | 2 => 10 + r.below(14) as usize, _ => 20 + r.below(25) as usize },
        p_gc: *r.pick(&[0u64, 40, 120, 250]),
        p_bad: *r.pick(&[0u64, 30, 30, 120]),
        p_abortall: *r.pick(&[0u64, 0, 10, 30]),
        levels,
        pinned: shape < 3,
        read_heavy: prop == "C04" || r.chance(1, 3),
    };
    let mut tags = vec![format!("ntx={}", g.ntx), format!("nent={}", g.ents.len())];
    if g.pinned {
        tags.push("pinned-reader".into());
    }
    let mut ops: Vec<Op> = Vec::new();
    // the native specification machine tracks which transactions are really still Active
    // (a refused commit leaves its transaction Active: it may retry, write more, or abort)
    let mut h = Hist::default();
    let push = |ops: &mut Vec<Op>, h: &mut Hist, op: Op| {
        h.step(&op);
        ops.push(op);
    };
    let mut pinned_id = None;
    if g.pinned {
        // a long-lived reader that begins first and stays open until (nearly) the end
        let lvl = *r.pick(&g.levels);
        push(&mut ops, &mut h, Op::Begin(lvl));
        pinned_id = Some(2u64);
        if r.chance(1, 2) {
            push(&mut ops, &mut h, Op::Read(2, *r.pick(&g.ents)));
        }
    }
    while ops.len() < g.len {
        let next = 2 + h.nbegun;
        let active: Vec<u64> = h.recs.iter().filter(|(t, rec)| rec.end == End::Active && Some(**t) != pinned_id).map(|(t, _)| *t).collect();
        let finished: Vec<u64> = h.recs.iter().filter(|(_, rec)| rec.end != End::Active).map(|(t, _)| *t).collect();
        let roll = r.below(1000);
        if roll < g.p_gc {
            push(&mut ops, &mut h, Op::Gc);
            continue;
        }
        if roll < g.p_gc + g.p_abortall {
            push(&mut ops, &mut h, Op::AbortAll);
            pinned_id = None;
            continue;
        }
        if roll < g.p_gc + g.p_abortall + g.p_bad {
            // malformed: unknown id (0, 1, not yet begun, huge) or a finished one
            let t = match r.below(4) {
                0 => *r.pick(&[0u64, 1, next, next + 1, u64::MAX, 1 << 33]),
                _ => if finished.is_empty() { next + r.below(3) } else { *r.pick(&finished) },
            };
            let e = *r.pick(&g.ents);
            let op = match r.below(4) {
                0 => Op::Write(t, e),
                1 => Op::Read(t, e),
                2 => Op::Commit(t),
                _ => Op::Abort(t),
            };
            push(&mut ops, &mut h, op);
            continue;
        }
        let can_begin = h.nbegun < g.ntx;
        if active.is_empty() || (can_begin && r.chance(1, 4)) {
            if can_begin {
                push(&mut ops, &mut h, Op::Begin(*r.pick(&g.levels)));
                continue;
            } else if active.is_empty() {
                // everything finished: clean up, or stop
                if r.chance(1, 2) {
                    break;
                }
                push(&mut ops, &mut h, Op::Gc);
                continue;
            }
        }
        let t = *r.pick(&active);
        let e = *r.pick(&g.ents);
        let k = r.below(100);
        let (w_hi, r_hi, c_hi) = if g.read_heavy { (30, 62, 90) } else { (45, 60, 90) };
        if k < w_hi {
            push(&mut ops, &mut h, Op::Write(t, e));
        } else if k < r_hi {
            push(&mut ops, &mut h, Op::Read(t, e));
        } else if k < c_hi {
            push(&mut ops, &mut h, Op::Commit(t));
            if r.chance(1, 6) {
                push(&mut ops, &mut h, Op::Commit(t)); // second commit (or retry of a refused one)
            }
        } else {
            push(&mut ops, &mut h, Op::Abort(t));
            if r.chance(1, 6) {
                push(&mut ops, &mut h, Op::Abort(t));
            }
        }
        if let Some(p) = pinned_id {
            if r.chance(1, 12) {
                let op = if r.chance(1, 2) { Op::Read(p, *r.pick(&g.ents)) } else { Op::Write(p, *r.pick(&g.ents)) };
                push(&mut ops, &mut h, op);
            }
        }
    }
    if let Some(p) = pinned_id {
        if r.chance(3, 4) {
            push(&mut ops, &mut h, Op::Commit(p));
        }
        if r.chance(1, 2) {
            push(&mut ops, &mut h, Op::Gc);
        }
    }
    if r.chance(1, 3) {
        push(&mut ops, &mut h, Op::Gc);
    }
    (ops, tags)
}

/// directed shapes: two writers of one entity / reader + overlapping writer, with the commit
/// order, the begin order relative to the other's commit, the levels and clean-up points varied
fn gen_directed(r: &mut Rng, prop: &str) -> (Vec<Op>, Vec<String>) {
    let e = if r.chance(1, 2) { Ent::Node(1) } else { Ent::Edge(1) };
    let e2 = if r.chance(1, 2) { Ent::Node(2) } else { Ent::Edge(1 + r.below(2)) };
    let lv = |r: &mut Rng| *r.pick(&[Iso::Si, Iso::Ser, Iso::Rc, Iso::Ser]);
    let mut ops = Vec::new();
    let gc = |r: &mut Rng, ops: &mut Vec<Op>| {
        if r.chance(1, 3) {
            ops.push(Op::Gc);
        }
    };
    let tag;
    match r.below(if prop == "C04" { 8 } else { 5 }) {
        4 if prop != "C04" => {
            // late writer: the entity is first touched after the other writer committed and gc ran
            tag = "directed:late-writer";
            ops.push(Op::Begin(lv(r)));
            ops.push(Op::Begin(lv(r)));
            if r.chance(1, 2) { ops.push(Op::Write(2, e2)); }
            ops.push(Op::Write(3, e));
            ops.push(Op::Commit(3));
            ops.push(Op::Gc);
            ops.push(Op::Write(2, e));
            gc(r, &mut ops);
            ops.push(Op::Commit(2));
            gc(r, &mut ops);
            ops.push(Op::Commit(2));
        }
        6 | 7 => {
            // late reader: a Serializable transaction first reads the entity after its overlapping
            // writer committed and gc ran (what gc keeps of the writer must still refuse it)
            tag = "directed:late-reader";
            let (x, y) = (Ent::Node(1), Ent::Node(2));
            ops.push(Op::Begin(if r.chance(3, 4) { Iso::Ser } else { lv(r) }));
            ops.push(Op::Begin(if r.chance(1, 2) { Iso::Ser } else { lv(r) }));
            if r.chance(1, 2) { ops.push(Op::Read(3, x)); ops.push(Op::Read(3, y)); }
            ops.push(Op::Write(3, x));
            ops.push(Op::Commit(3));
            ops.push(Op::Gc);
            ops.push(Op::Read(2, x));
            if r.chance(1, 2) { ops.push(Op::Read(2, y)); }
            ops.push(Op::Write(2, if r.chance(1, 3) { x } else { y }));
            gc(r, &mut ops);
            ops.push(Op::Commit(2));
            gc(r, &mut ops);
            ops.push(Op::Commit(2));
        }
        0 => {
            // overlapping writers, both commit attempts
            tag = "directed:ww-overlap";
            ops.push(Op::Begin(lv(r)));
            ops.push(Op::Begin(lv(r)));
            ops.push(Op::Write(2, e));
            gc(r, &mut ops);
            ops.push(Op::Write(3, e));
            if r.chance(1, 2) { ops.push(Op::Write(3, e2)); }
            let (a, b) = if r.chance(1, 2) { (2, 3) } else { (3, 2) };
            ops.push(Op::Commit(a));
            gc(r, &mut ops);
            ops.push(Op::Commit(b));
            gc(r, &mut ops);
            ops.push(Op::Commit(b));
        }
        1 => {
            // the second writer begins after the first committed (must be accepted)
            tag = "directed:ww-sequential";
            ops.push(Op::Begin(lv(r)));
            ops.push(Op::Write(2, e));
            ops.push(Op::Commit(2));
            gc(r, &mut ops);
            ops.push(Op::Begin(lv(r)));
            ops.push(Op::Write(3, e));
            gc(r, &mut ops);
            ops.push(Op::Commit(3));
        }
        2 => {
            // pinned old reader + committed writer + later writer of the same entity + gc everywhere
            tag = "directed:pinned+gc";
            ops.push(Op::Begin(lv(r)));
            ops.push(Op::Begin(lv(r)));
            ops.push(Op::Write(3, e));
            ops.push(Op::Commit(3));
            ops.push(Op::Gc);
            ops.push(Op::Begin(lv(r)));
            ops.push(Op::Write(4, e));
            ops.push(Op::Gc);
            ops.push(Op::Commit(4));
            ops.push(Op::Gc);
            ops.push(Op::Write(2, e));
            ops.push(Op::Commit(2));
            ops.push(Op::Gc);
            ops.push(Op::Abort(2));
            ops.push(Op::Gc);
        }
        3 => {
            // commit epoch equal to a later start epoch (boundary of "overlaps")
            tag = "directed:boundary-epoch";
            ops.push(Op::Begin(lv(r)));
            ops.push(Op::Write(2, e));
            ops.push(Op::Begin(lv(r)));
            ops.push(Op::Commit(2));
            ops.push(Op::Begin(lv(r)));
            ops.push(Op::Write(3, e));
            ops.push(Op::Write(4, e));
            gc(r, &mut ops);
            ops.push(Op::Commit(4));
            ops.push(Op::Commit(3));
        }
        4 => {
            // stale reader
            tag = "directed:stale-reader";
            let l1 = if r.chance(2, 3) { Iso::Ser } else { lv(r) };
            ops.push(Op::Begin(l1));
            ops.push(Op::Begin(lv(r)));
            ops.push(Op::Read(2, e));
            ops.push(Op::Write(3, e));
            if r.chance(1, 2) { ops.push(Op::Write(2, e2)); }
            ops.push(Op::Commit(3));
            gc(r, &mut ops);
            ops.push(Op::Commit(2));
        }
        _ => {
            // write skew
            tag = "directed:write-skew";
            let (x, y) = (Ent::Node(1), Ent::Node(2));
            ops.push(Op::Begin(if r.chance(2, 3) { Iso::Ser } else { lv(r) }));
            ops.push(Op::Begin(if r.chance(2, 3) { Iso::Ser } else { lv(r) }));
            for t in [2u64, 3] {
                ops.push(Op::Read(t, x));
                ops.push(Op::Read(t, y));
            }
            ops.push(Op::Write(2, x));
            ops.push(Op::Write(3, y));
            let (a, b) = if r.chance(1, 2) { (2, 3) } else { (3, 2) };
            ops.push(Op::Commit(a));
            gc(r, &mut ops);
            ops.push(Op::Commit(b));
        }
    }
    (ops, vec![tag.to_string()])
}

fn corpus() -> Vec<(&'static str, Vec<Op>)> {
    use Op::*;
    let n = Ent::Node;
    vec![
        // witnesses of the repaired defect b5dad36 (must now pass)
        ("corpus:pre-b5dad36-spurious", vec![Begin(Iso::Si), Write(2, n(1)), Commit(2), Begin(Iso::Si), Write(3, n(1)), Commit(3)]),
        ("corpus:pre-b5dad36-gc", vec![Begin(Iso::Si), Write(2, n(1)), Commit(2), Gc, Begin(Iso::Si), Write(3, n(1)), Commit(3)]),
        // witness of the open finding C04-K1
        ("corpus:ro-refused", vec![Begin(Iso::Ser), Begin(Iso::Si), Read(2, n(42)), Write(3, n(42)), Commit(3), Commit(2)]),
        // write skew: Serializable x2, mixed
        ("corpus:write-skew-ser", vec![Begin(Iso::Ser), Begin(Iso::Ser), Read(2, n(0)), Read(2, n(1)), Read(3, n(0)), Read(3, n(1)), Write(2, n(0)), Write(3, n(1)), Commit(3), Commit(2)]),
        ("corpus:write-skew-mixed", vec![Begin(Iso::Si), Begin(Iso::Ser), Read(2, n(0)), Read(2, n(1)), Read(3, n(0)), Read(3, n(1)), Write(2, n(0)), Write(3, n(1)), Commit(3), Commit(2)]),
        // node / edge with the same number are different entities
        ("corpus:node-vs-edge", vec![Begin(Iso::Si), Begin(Iso::Si), Write(2, n(7)), Write(3, Ent::Edge(7)), Commit(2), Commit(3)]),
        // the Coq non-vacuity run
        ("corpus:nv-run", vec![Begin(Iso::Si), Begin(Iso::Si), Begin(Iso::Rc), Write(2, n(7)), Write(3, n(7)), Write(4, Ent::Edge(7)), Write(3, Ent::Edge(1)), Commit(2), Gc, Commit(3), Commit(4), Gc, Commit(2), Abort(9), Abort(3), Gc]),
        // malformed stream
        ("corpus:malformed", vec![Commit(2), Abort(0), Write(1, n(1)), Begin(Iso::Ser), Commit(2), Commit(2), Abort(2), Read(2, n(1)), Gc, Commit(2), AbortAll, Gc]),
        // abort_all_active then gc
        ("corpus:abort-all", vec![Begin(Iso::Si), Begin(Iso::Ser), Write(2, n(1)), Write(3, n(1)), Commit(2), AbortAll, Commit(3), Gc, Begin(Iso::Si), Write(4, n(1)), Commit(4)]),
    ]
}

// ------------------------------------------------------------------------------- TM-level case

fn ops_coq(ops: &[Op]) -> String {
    coq::list(ops.iter().map(|o| o.coq()))
}
fn outs_coq(xs: &[Out]) -> String {
    coq::list(xs.iter().map(out_coq))
}

fn tm_case(prop: &str, kind: &str, ops: &[Op], mut tags: Vec<String>, r: &mut Rng) -> Case {
    // read-backs: at the end and at up to two interior points
    let mut dump_at = vec![ops.len()];
    if ops.len() > 2 {
        // half of the time right after a Gc (what gc keeps is observable through get_write_set)
        let after_gc: Vec<usize> = ops.iter().enumerate().filter(|(_, o)| **o == Op::Gc).map(|(i, _)| i + 1).collect();
        if !after_gc.is_empty() && r.chance(1, 2) {
            dump_at.push(*r.pick(&after_gc));
        }
        dump_at.push(1 + r.below(ops.len() as u64 - 1) as usize);
        if r.chance(1, 4) {
            dump_at.push(1 + r.below(ops.len() as u64 - 1) as usize);
        }
    }
    dump_at.sort();
    dump_at.dedup();
    let (xs, dumps, dtxt) = run_impl(ops, &dump_at);
    // the same operations with every Gc removed
    let nogc: Vec<Op> = ops.iter().copied().filter(|o| *o != Op::Gc).collect();
    let (xs_nogc, _, _) = run_impl(&nogc, &[]);
    // native spec machine: flags, distribution, cross-check
    let mut h = Hist::default();
    let mut native_ok = true;
    let mut ro_refused = false;
    for (op, x) in ops.iter().zip(xs.iter()) {
        if let Op::Commit(t) = op {
            if let Some(rec) = h.recs.get(t) {
                if rec.end == End::Active && rec.ws.is_empty() && matches!(x, Out::Err(ErrK::Serialization) | Out::Err(ErrK::WriteConflict)) {
                    ro_refused = true;
                }
            }
        }
        if let Some(want) = h.step(op) {
            if want != *x {
                native_ok = false;
            }
        }
    }
    let ocoq = ops_coq(ops);
    let xcoq = outs_coq(&xs);
    let mut c = Case::default();
    c.kind = kind.to_string();
    c.input = ops.iter().map(|o| o.txt()).collect::<Vec<_>>().join(" ");
    c.imp = format!("{} {}", xs.iter().map(|o| o.txt()).collect::<Vec<_>>().join(" "), dtxt.join(" "));
    let dcoq = coq::list(dumps);
    c.coq = Some(format!("chk_run {} {} {}", ocoq, xcoq, dcoq));
    c.show = Some(format!("show_run {}", ocoq));
    // correspondence and property oracle as ONE Coq term (the op list is parsed once); the
    // check evaluates it: (model == implementation, oracle on the implementation's answers)
    if prop == "C03" {
        c.msg = format!("ocoq=let o := {} in let x := {} in (chk_run o x {}, oracle_c03 o x {})", ocoq, xcoq, dcoq, outs_coq(&xs_nogc));
        c.nontrivial = h.nt_c03();
    } else {
        c.msg = format!("ocoq=let o := {} in let x := {} in (chk_run o x {}, oracle_c04 o x)", ocoq, xcoq, dcoq);
        c.kcoq = Some(format!("k_c04_ro {} {}", ocoq, xcoq));
        c.kid = Some("C04-K1".into());
        c.nontrivial = h.nt_c04();
    }
    c.oracle = Oracle::Na;
    // distribution
    tags.push(format!("len={}", match ops.len() { 0..=8 => "<=8", 9..=16 => "9-16", 17..=32 => "17-32", _ => ">32" }));
    if ops.contains(&Op::Gc) { tags.push("has-gc".into()); }
    if ops.contains(&Op::AbortAll) { tags.push("has-abort-all".into()); }
    for (nm, k) in [("wc", ErrK::WriteConflict), ("sf", ErrK::Serialization), ("invalid", ErrK::Invalid)] {
        if xs.contains(&Out::Err(k)) { tags.push(format!("err:{}", nm)); }
    }
    if xs.iter().filter(|x| matches!(x, Out::Epoch(_))).count() >= 2 { tags.push("commits>=2".into()); }
    if xs.iter().any(|x| matches!(x, Out::Count(n) if *n > 0)) { tags.push("gc-removed>0".into()); }
    if ro_refused { tags.push("ro-refused".into()); }
    if !native_ok { tags.push("native-spec-mismatch".into()); }
    if !h.fcw_ok() { tags.push("native-fcw-violated".into()); }
    if h.nt_c03() { tags.push("nt:c03".into()); }
    if h.nt_c04() { tags.push("nt:c04".into()); }
    let lv: BTreeSet<Iso> = h.recs.values().map(|r| r.iso).collect();
    tags.push(format!("levels={}", lv.iter().map(|l| match l { Iso::Rc => "rc", Iso::Si => "si", Iso::Ser => "ser" }).collect::<Vec<_>>().join("+")));
    c.tags = tags;
    c
}

// ------------------------------------------------------------------------------- session level

#[derive(Clone, Copy, Debug)]
enum SOp {
    Begin(usize, Iso), // session index
    Set(usize, u64, i64), // session, account id, value
    Get(usize, u64),
    Commit(usize),
    Rollback(usize),
}

/// Runs the session-level script on a fresh in-memory database with `naccts` nodes
/// (:Acct {id, bal}); returns the result kinds, the tx id each session's transaction got
/// (ids are handed out in begin order: 2, 3, ...), and the final balances.
fn run_sessions(script: &[SOp], nsess: usize, naccts: u64) -> (Vec<Result<(), ErrK>>, Vec<String>, Vec<Option<i64>>, Vec<NodeId>) {
    let db = GrafeoDB::new_in_memory();
    let mut nodes = Vec::new();
    for i in 0..naccts {
        let n = db.create_node(&["Acct"]);
        db.set_node_property(n, "id", Value::Int64(i as i64));
        db.set_node_property(n, "bal", Value::Int64(100));
        nodes.push(n);
    }
    let mut sessions: Vec<_> = (0..nsess).map(|_| db.session()).collect();
    let mut res = Vec::new();
    let mut notes = Vec::new();
    for op in script {
        let r: Result<(), ErrK> = match *op {
            SOp::Begin(s, i) => sessions[s].begin_tx_with_isolation(i.real()).map_err(|e| errk(&e)),
            SOp::Set(s, a, v) => {
                let q = format!("MATCH (n:Acct) WHERE n.id = {} SET n.bal = {}", a, v);
                match sessions[s].execute(&q) {
                    Ok(_) => Ok(()),
                    Err(e) => {
                        notes.push(format!("SET failed: {}", e));
                        Err(errk(&e))
                    }
                }
            }
            SOp::Get(s, a) => {
                let q = format!("MATCH (n:Acct) WHERE n.id = {} RETURN n.bal", a);
                match sessions[s].execute(&q) {
                    Ok(qr) => {
                        notes.push(format!("s{} read acct{} -> {:?}", s, a, qr.rows.first().and_then(|r| r.first()).cloned()));
                        Ok(())
                    }
                    Err(e) => {
                        notes.push(format!("GET failed: {}", e));
                        Err(errk(&e))
                    }
                }
            }
            SOp::Commit(s) => sessions[s].commit().map_err(|e| errk(&e)),
            SOp::Rollback(s) => sessions[s].rollback().map_err(|e| errk(&e)),
        };
        res.push(r);
    }
    let finals = nodes
        .iter()
        .map(|n| db.get_node(*n).and_then(|nd| match nd.get_property("bal") { Some(Value::Int64(v)) => Some(*v), _ => None }))
        .collect();
    (res, notes, finals, nodes)
}

fn session_case(prop: &str, name: &str, script: &[SOp], nsess: usize, naccts: u64) -> Case {
    let (res, notes, finals, nodes) = run_sessions(script, nsess, naccts);
    // tx ids: begin order
    let mut cur: Vec<Option<u64>> = vec![None; nsess];
    let mut next = 2u64;
    let mut sops = Vec::new();
    let mut kinds = Vec::new();
    let mut txt = Vec::new();
    for (op, r) in script.iter().zip(res.iter()) {
        let ent = |a: u64| Ent::Node(nodes[a as usize].as_u64());
        let (term, t) = match *op {
            SOp::Begin(s, i) => {
                if cur[s].is_some() {
                    ("SRefused".to_string(), format!("s{}:begin({}) while open", s, i.coq()))
                } else {
                    if r.is_ok() {
                        cur[s] = Some(next);
                        next += 1;
                    }
                    (format!("SBegin {}", i.coq()), format!("s{}:begin({})", s, i.coq()))
                }
            }
            SOp::Set(s, a, v) => (format!("SSet {} {}", zn(cur[s].unwrap_or(0)), ent(a).coq()), format!("s{}:SET acct{}={}", s, a, v)),
            SOp::Get(s, a) => (format!("SGet {} {}", zn(cur[s].unwrap_or(0)), ent(a).coq()), format!("s{}:GET acct{}", s, a)),
            SOp::Commit(s) => match cur[s].take() {
                Some(t) => (format!("SCommit {}", zn(t)), format!("s{}:commit", s)),
                None => ("SRefused".to_string(), format!("s{}:commit while idle", s)),
            },
            SOp::Rollback(s) => match cur[s].take() {
                Some(t) => (format!("SRollback {}", zn(t)), format!("s{}:rollback", s)),
                None => ("SRefused".to_string(), format!("s{}:rollback while idle", s)),
            },
        };
        sops.push(term);
        txt.push(t);
        kinds.push(match r {
            Ok(()) => "SOk".to_string(),
            Err(ErrK::Other) => "SOther".to_string(),
            Err(k) => format!("(SErr {})", k.coq()),
        });
    }
    let s_coq = coq::list(sops);
    let k_coq = coq::list(kinds);
    let mut c = Case::default();
    c.kind = "session".into();
    c.input = txt.join("; ");
    c.imp = format!(
        "{} | final balances {:?} | {}",
        res.iter().map(|r| match r { Ok(()) => "ok".to_string(), Err(k) => format!("{:?}", k) }).collect::<Vec<_>>().join(" "),
        finals,
        notes.join("; ")
    );
    c.coq = Some(format!("chk_session {} {}", s_coq, k_coq));
    c.show = Some(format!("show_session {}", s_coq));
    if prop == "C03" {
        c.msg = format!("ocoq=let o := {} in let x := {} in (chk_session o x, oracle_sess_c03 o x)", s_coq, k_coq);
        c.kcoq = Some(format!("k_sess_c03 {} {}", s_coq, k_coq));
        c.kid = Some("C03-K2".into());
    } else {
        c.msg = format!("ocoq=let o := {} in let x := {} in (chk_session o x, oracle_sess_c04 o x)", s_coq, k_coq);
        c.kcoq = Some(format!("k_sess_c04 {} {}", s_coq, k_coq));
        c.kid = Some("C04-K2".into());
    }
    c.oracle = Oracle::Na;
    c.nontrivial = true;
    c.tags = vec![format!("session:{}", name)];
    c
}

fn session_scripts(r: &mut Rng, prop: &str, n_random: usize) -> Vec<(String, Vec<SOp>, usize, u64)> {
    use SOp::*;
    let mut v: Vec<(String, Vec<SOp>, usize, u64)> = Vec::new();
    for lvl in [Iso::Si, Iso::Ser, Iso::Rc] {
        // lost update: both sessions SET the same account inside overlapping transactions
        v.push((format!("lost-update-{}", lvl.coq()), vec![Begin(0, lvl), Begin(1, lvl), Get(0, 0), Get(1, 0), Set(0, 0, 110), Set(1, 0, 120), Commit(0), Commit(1)], 2, 1));
    }
    // sequential writers (must both commit, and do)
    v.push(("sequential".into(), vec![Begin(0, Iso::Si), Set(0, 0, 1), Commit(0), Begin(1, Iso::Si), Set(1, 0, 2), Commit(1)], 2, 1));
    // write skew through two Serializable sessions
    v.push(("write-skew-ser".into(), vec![Begin(0, Iso::Ser), Begin(1, Iso::Ser), Get(0, 0), Get(0, 1), Get(1, 0), Get(1, 1), Set(0, 0, 0), Set(1, 1, 0), Commit(0), Commit(1)], 2, 2));
    // rollback of one of two writers; API misuse (commit without begin, double begin)
    v.push(("rollback".into(), vec![Begin(0, Iso::Si), Begin(1, Iso::Si), Set(0, 0, 5), Set(1, 0, 6), Rollback(0), Commit(1), Commit(0), Begin(1, Iso::Si), Begin(1, Iso::Ser), Rollback(1), Rollback(1)], 2, 1));
    for i in 0..n_random {
        let nsess = 2 + r.below(2) as usize;
        let naccts = 1 + r.below(3);
        let lvl = if prop == "C04" && r.chance(2, 3) { Iso::Ser } else { *r.pick(&[Iso::Si, Iso::Ser, Iso::Rc]) };
        let mut s = Vec::new();
        let mut open = vec![false; nsess];
        for _ in 0..(6 + r.below(10)) {
            let k = r.below(nsess as u64) as usize;
            if !open[k] {
                s.push(Begin(k, if r.chance(3, 4) { lvl } else { *r.pick(&[Iso::Si, Iso::Ser, Iso::Rc]) }));
                open[k] = true;
            } else {
                match r.below(10) {
                    0..=3 => s.push(Set(k, r.below(naccts), r.range(0, 99))),
                    4..=6 => s.push(Get(k, r.below(naccts))),
                    7 | 8 => {
                        s.push(Commit(k));
                        open[k] = false;
                    }
                    _ => {
                        s.push(Rollback(k));
                        open[k] = false;
                    }
                }
            }
        }
        for k in 0..nsess {
            if open[k] {
                s.push(Commit(k));
            }
        }
        v.push((format!("random{}", i % 4), s, nsess, naccts));
    }
    v
}

// ------------------------------------------------------------------------------- exhaustive sweep

/// All operation sequences up to `maxlen` over at most 3 transactions x 2 entities
/// (alphabet: Begin SI | Begin Ser | Write/Read t e | Commit t | Abort t | Gc, with t among the
/// transactions begun so far).  Every sequence is run on a fresh real manager and compared with
/// the native transliteration of the specification machine; every `sample`-th one is also
/// emitted as a case for the Coq comparison.  SUPPORT ONLY (bounded, native comparison).
fn exhaustive(prop: &str, maxlen: usize, sample: u64, out: &mut gv_harness::Out, r: &mut Rng) -> Case {
    let ents = [Ent::Node(1), Ent::Edge(1)];
    let mut seq: Vec<Op> = Vec::new();
    let mut count = 0u64;
    let mut mism = 0u64;
    let mut fcw_bad = 0u64;
    let mut first_bad: Option<String> = None;
    let mut nt = 0u64;
    // iterative DFS over the alphabet
    fn alphabet(begun: u64, ents: &[Ent]) -> Vec<Op> {
        let mut a = Vec::new();
        if begun < 3 {
            a.push(Op::Begin(Iso::Si));
            a.push(Op::Begin(Iso::Ser));
        }
        for t in 2..(2 + begun) {
            for e in ents {
                a.push(Op::Write(t, *e));
                a.push(Op::Read(t, *e));
            }
            a.push(Op::Commit(t));
            a.push(Op::Abort(t));
        }
        a.push(Op::Gc);
        a
    }
    fn rec(
        seq: &mut Vec<Op>, maxlen: usize, ents: &[Ent], prop: &str, sample: u64, count: &mut u64, mism: &mut u64, fcw_bad: &mut u64, nt: &mut u64,
        first_bad: &mut Option<String>, out: &mut gv_harness::Out, r: &mut Rng,
    ) {
        if !seq.is_empty() {
            // run the whole sequence on a fresh manager (the manager cannot be cloned)
            let m = TransactionManager::new();
            let mut h = Hist::default();
            let mut ok = true;
            for op in seq.iter() {
                let x = apply(&m, op);
                if let Some(w) = h.step(op) {
                    if w != x {
                        ok = false;
                    }
                }
            }
            *count += 1;
            if !ok {
                *mism += 1;
            }
            if !h.fcw_ok() {
                *fcw_bad += 1;
            }
            let is_nt = if prop == "C03" { h.nt_c03() } else { h.nt_c04() };
            if is_nt {
                *nt += 1;
            }
            if (!ok || !h.fcw_ok()) && first_bad.is_none() {
                *first_bad = Some(seq.iter().map(|o| o.txt()).collect::<Vec<_>>().join(" "));
            }
            // failing sequences and a sample of the others go through Coq as ordinary cases
            if !ok || !h.fcw_ok() || (*count % sample == 0) {
                let c = tm_case(prop, "tm-exhaustive-sample", seq, vec!["exhaustive-sample".into()], r);
                out.emit(&c);
            }
        }
        if seq.len() >= maxlen {
            return;
        }
        let begun = seq.iter().filter(|o| matches!(o, Op::Begin(_))).count() as u64;
        // prune: a trailing Gc Gc is the same as one Gc (gc is idempotent when nothing happened between)
        for op in alphabet(begun, ents) {
            if op == Op::Gc && seq.last() == Some(&Op::Gc) {
                continue;
            }
            seq.push(op);
            rec(seq, maxlen, ents, prop, sample, count, mism, fcw_bad, nt, first_bad, out, r);
            seq.pop();
        }
    }
    rec(&mut seq, maxlen, &ents, prop, sample, &mut count, &mut mism, &mut fcw_bad, &mut nt, &mut first_bad, out, r);
    let mut c = Case::default();
    c.kind = "exhaustive-summary".into();
    c.input = format!("all op sequences of length <= {} over <= 3 transactions x 2 entities (Begin SI|Ser, Write/Read/Commit/Abort on begun ids, Gc)", maxlen);
    c.imp = format!("sequences={} native-spec-mismatches={} fcw-violations={} nontrivial={} first-bad={:?}", count, mism, fcw_bad, nt, first_bad);
    c.oracle = if mism == 0 && fcw_bad == 0 { Oracle::Ok } else { Oracle::Fail };
    c.msg = "support: native comparison with the Rust transliteration of Tm/Spec.v".into();
    c.nontrivial = false;
    c.tags = vec![format!("exhaustive:len<={}:{}seqs", maxlen, count)];
    c
}

// ------------------------------------------------------------------------------- concurrent commits

/// Two threads commit the two halves of a conflicting pair at the same instant (released by a
/// barrier), round after round, on one manager that carries `ballast` aborted, uncollected records
/// (they lengthen validation).  Even rounds: both wrote the same entity under SnapshotIsolation
/// (C03: at most one may commit); odd rounds: a write-skew pair under Serializable (C04: at most one
/// may commit).  In every round exactly one of the two must commit (validation and publication
/// are one critical section), and all commit epochs of the run are distinct.  SUPPORT ONLY: real
/// threads, OS schedule; the theorems treat `commit` as atomic, this is what checks that it is.
fn conc_commit_case(prop: &str, rounds: usize, ballast: usize) -> Case {
    use std::sync::{Arc, Barrier};
    let m = Arc::new(TransactionManager::new());
    for _ in 0..ballast {
        let t = m.begin();
        let _ = m.abort(t);
    }
    let (mut both, mut none, mut panics) = (0usize, 0usize, 0usize);
    let mut epochs: Vec<u64> = Vec::new();
    let mut first_bad: Option<String> = None;
    for r in 0..rounds {
        let skew = if prop == "C04" { r % 4 != 0 } else { r % 4 == 0 };
        let a = EntityId::Node(NodeId::new(10_000 + 2 * r as u64));
        let b = EntityId::Node(NodeId::new(10_001 + 2 * r as u64));
        let iso = if skew { IsolationLevel::Serializable } else { IsolationLevel::SnapshotIsolation };
        let t1 = m.begin_with_isolation(iso);
        let t2 = m.begin_with_isolation(iso);
        if skew {
            for t in [t1, t2] {
                let _ = m.record_read(t, a);
                let _ = m.record_read(t, b);
            }
            let _ = m.record_write(t1, a);
            let _ = m.record_write(t2, b);
        } else {
            let _ = m.record_write(t1, a);
            let _ = m.record_write(t2, a);
        }
        let bar = Arc::new(Barrier::new(2));
        let rs: Vec<Option<Result<u64, ErrK>>> = std::thread::scope(|sc| {
            let hs: Vec<_> = [t1, t2]
                .into_iter()
                .map(|t| {
                    let m = Arc::clone(&m);
                    let bar = Arc::clone(&bar);
                    sc.spawn(move || {
                        bar.wait();
                        m.commit(t).map(|e| e.as_u64()).map_err(|e| errk(&e))
                    })
                })
                .collect();
            hs.into_iter().map(|h| h.join().ok()).collect()
        });
        let oks: Vec<u64> = rs.iter().filter_map(|x| x.as_ref().and_then(|y| y.as_ref().ok().copied())).collect();
        if rs.iter().any(|x| x.is_none()) {
            panics += 1;
        }
        epochs.extend(oks.iter().copied());
        if oks.len() == 2 {
            both += 1;
        }
        if oks.is_empty() {
            none += 1;
        }
        if (oks.len() != 1) && first_bad.is_none() {
            first_bad = Some(format!("round {} ({}): answers {:?}", r, if skew { "write skew pair, Serializable" } else { "same entity, SnapshotIsolation" }, rs));
        }
        for (t, x) in [t1, t2].into_iter().zip(rs.iter()) {
            if !matches!(x, Some(Ok(_))) {
                let _ = m.abort(t);
            }
        }
    }
    let mut sorted = epochs.clone();
    sorted.sort_unstable();
    sorted.dedup();
    let dup = epochs.len() - sorted.len();
    let mut c = Case::default();
    c.kind = "conc-commit".into();
    c.input = format!("{} rounds of two threads committing a conflicting pair at once (ballast {} aborted records)", rounds, ballast);
    c.imp = format!("both-committed={} none-committed={} panics={} duplicate-epochs={} first-bad={:?}", both, none, panics, dup, first_bad);
    c.oracle = if both == 0 && none == 0 && panics == 0 && dup == 0 { Oracle::Ok } else { Oracle::Fail };
    c.msg = "support: real threads; exactly one of two simultaneous conflicting commits is accepted and epochs are unique".into();
    c.nontrivial = false;
    c.tags = vec![format!("conc-commit:{}rounds", rounds)];
    c
}

// ------------------------------------------------------------------------------- replay

fn extract_json_string(txt: &str, key: &str) -> Option<String> {
    let pat = format!("\"{}\":", key);
    let i = txt.find(&pat)? + pat.len();
    let rest = txt[i..].trim_start();
    let rest = rest.strip_prefix('"')?;
    let mut out = String::new();
    let mut esc = false;
    for ch in rest.chars() {
        if esc {
            out.push(ch);
            esc = false;
        } else if ch == '\\' {
            esc = true;
        } else if ch == '"' {
            return Some(out);
        } else {
            out.push(ch);
        }
    }
    None
}

/// inverse of `Op::txt`: "Bsi W2n1 R3e2 C2 A3 GC AA"
fn parse_ops(s: &str) -> Option<Vec<Op>> {
    let mut v = Vec::new();
    for tok in s.split_whitespace() {
        let op = match tok {
            "Brc" => Op::Begin(Iso::Rc),
            "Bsi" => Op::Begin(Iso::Si),
            "Bser" => Op::Begin(Iso::Ser),
            "GC" => Op::Gc,
            "AA" => Op::AbortAll,
            _ => {
                let (k, rest) = tok.split_at(1);
                let digits: String = rest.chars().take_while(|c| c.is_ascii_digit()).collect();
                let t: u64 = digits.parse().ok()?;
                let tail = &rest[digits.len()..];
                match k {
                    "C" if tail.is_empty() => Op::Commit(t),
                    "A" if tail.is_empty() => Op::Abort(t),
                    "W" | "R" => {
                        let (ek, eid) = tail.split_at(1);
                        let id: u64 = eid.parse().ok()?;
                        let e = match ek {
                            "n" => Ent::Node(id),
                            "e" => Ent::Edge(id),
                            _ => return None,
                        };
                        if k == "W" { Op::Write(t, e) } else { Op::Read(t, e) }
                    }
                    _ => return None,
                }
            }
        };
        v.push(op);
    }
    if v.is_empty() { None } else { Some(v) }
}

// ------------------------------------------------------------------------------- main

fn main() {
    quiet_panics();
    let a = parse_args();
    let mut prop = "C03".to_string();
    let mut it = a.rest.iter();
    let mut only_session = false;
    while let Some(x) = it.next() {
        match x.as_str() {
            "--prop" => prop = it.next().cloned().unwrap_or(prop),
            "--only-session" => only_session = true,
            _ => {}
        }
    }
    let mut out = gv_harness::Out::create(a.out.as_deref());
    if let Some(path) = &a.replay {
        // re-run one TM-level trace: the replay file's "input" is the op text of the failing case
        let txt = std::fs::read_to_string(path).expect("read replay file");
        let input = extract_json_string(&txt, "input").unwrap_or_default();
        let mut r = Rng::new(a.seed);
        match parse_ops(&input) {
            Some(ops) => {
                let c = tm_case(&prop, "tm-replay", &ops, vec!["replay".into()], &mut r);
                out.emit(&c);
            }
            None => eprintln!("replay: the input is not a TM-level op text (session cases are replayed by the full run): {}", input),
        }
        out.finish();
        return;
    }
    let mut r = Rng::new(a.seed ^ if prop == "C04" { 0x0404_0404 } else { 0x0303_0303 });
    let thorough = a.tier == "thorough";
    if !only_session {
        for (name, ops) in corpus() {
            let c = tm_case(&prop, "tm-corpus", &ops, vec![name.to_string()], &mut r);
            out.emit(&c);
        }
    }
    // session level
    let nrand = if thorough { 60 } else { 12 };
    let mut rs = r.fork();
    for (name, script, nsess, naccts) in session_scripts(&mut rs, &prop, nrand) {
        let c = session_case(&prop, &name, &script, nsess, naccts);
        out.emit(&c);
    }
    if only_session {
        out.finish();
        return;
    }
    // generated TM-level cases
    for i in 0..a.cases {
        let (ops, tags) = if i % 4 == 0 { gen_directed(&mut r, &prop) } else { gen_case(&mut r, &prop) };
        let kind = if i % 4 == 0 { "tm-directed" } else { "tm-random" };
        let c = tm_case(&prop, kind, &ops, tags, &mut r);
        out.emit(&c);
    }
    // concurrent commits (support: real threads)
    let c = conc_commit_case(&prop, if thorough { 4000 } else { 600 }, if thorough { 60_000 } else { 20_000 });
    out.emit(&c);
    // exhaustive small scope (support)
    let (maxlen, sample) = if thorough { (8, 600_000) } else { (6, 10_000) };
    let mut re = r.fork();
    let c = exhaustive(&prop, maxlen, sample, &mut out, &mut re);
    out.emit(&c);
    out.finish();
}
