//! C14 — every access path to the property graph tells the same story.
//!
//! Drives a real `LpgStore` (with and without backward adjacency) or a `GrafeoDB` (through its
//! non-transactional wrappers) with generated operation sequences, observes every accessor of the
//! property's `observe_at` list, and emits per trace
//!   * the Coq term `chk_trace backward [items]` (GV.Lpg.Run): model == implementation on every
//!     return value and every observation,
//!   * the property oracle evaluated on the implementation's own outputs (cross-checks between
//!     access paths); every oracle failure becomes a separate case carrying the finding class
//!     predicate applied to the history.
//!
//! `LpgStore` never compacts its adjacency lists (no call of compact / compact_if_needed /
//! freeze_all exists in the store or the engine), so the chunk/compaction/compression thresholds
//! are crossed on two shadow `ChunkedAdjacency` objects that receive exactly the calls the store
//! makes on its own (add_edge / mark_deleted) plus the compaction operations; the model's
//! adjacency is compared with the shadows in exact iteration order and with the store as multisets.
use grafeo_common::types::{EdgeId, NodeId, PropertyKey, Timestamp, Value};
use grafeo_core::graph::Direction;
use grafeo_core::graph::lpg::{CompareOp, LpgStore};
use grafeo_core::index::ChunkedAdjacency;
use grafeo_engine::GrafeoDB;
use gv_harness::*;
use std::collections::{BTreeMap, BTreeSet};
use std::fmt::Write as _;
use std::sync::Arc;

// ------------------------------------------------------------------------------------------------
// tokens

const N_LABELS: i64 = 5; // L0..L4 used, L5 never used
const N_TYPES: i64 = 3;
const N_KEYS: i64 = 4;

fn label(t: i64) -> String {
    format!("L{}", t)
}
fn etype(t: i64) -> String {
    format!("T{}", t)
}
fn key(t: i64) -> String {
    format!("k{}", t)
}
fn tok(s: &str) -> i64 {
    s[1..].parse().expect("token")
}

// ------------------------------------------------------------------------------------------------
// Coq printing (the whole term is wrapped in `( … )%Z`, numerals are printed plainly)

fn zi(v: i64) -> String {
    if v < 0 { format!("({})", v) } else { format!("{}", v) }
}
fn zu(v: u64) -> String {
    format!("{}", v)
}
fn zlist<I: IntoIterator<Item = i64>>(it: I) -> String {
    let mut s = String::from("[");
    for (i, x) in it.into_iter().enumerate() {
        if i > 0 {
            s.push(';');
        }
        s.push_str(&zi(x));
    }
    s.push(']');
    s
}
fn ulist<I: IntoIterator<Item = u64>>(it: I) -> String {
    let mut s = String::from("[");
    for (i, x) in it.into_iter().enumerate() {
        if i > 0 {
            s.push(';');
        }
        let _ = write!(s, "{}", x);
    }
    s.push(']');
    s
}
fn plist(ps: &[(u64, u64)]) -> String {
    let mut s = String::from("[");
    for (i, (a, b)) in ps.iter().enumerate() {
        if i > 0 {
            s.push(';');
        }
        let _ = write!(s, "({},{})", a, b);
    }
    s.push(']');
    s
}
const HMOD: u128 = 2305843009213693951;
fn hstep(h: u128, x: u64) -> u128 {
    (h * 1000003 + x as u128 + 1) % HMOD
}
const LONG: usize = 12;
const SEG: usize = 120;
static LIGHT: std::sync::atomic::AtomicBool = std::sync::atomic::AtomicBool::new(false);
/// a sorted id list: in full when short, as (length, hash) when long
fn zs(v: &[u64]) -> String {
    if v.len() <= LONG {
        format!("(ZL {})", ulist(v.iter().copied()))
    } else {
        let h = v.iter().fold(0u128, |h, &x| hstep(h, x));
        format!("(ZH {} {})", v.len(), h)
    }
}
fn ps(v: &[(u64, u64)]) -> String {
    if v.len() <= LONG {
        format!("(PL {})", plist(v))
    } else {
        let h = v.iter().fold(0u128, |h, &(a, b)| hstep(hstep(h, a), b));
        format!("(PH {} {})", v.len(), h)
    }
}
fn blist(b: &[u8]) -> String {
    ulist(b.iter().map(|&x| x as u64))
}
fn cb(b: bool) -> &'static str {
    if b { "true" } else { "false" }
}

fn cv(v: &Value) -> String {
    match v {
        Value::Null => "VNull".into(),
        Value::Bool(b) => format!("(VBool {})", cb(*b)),
        Value::Int64(i) => format!("(VInt {})", zi(*i)),
        Value::Float64(f) => format!("(VFloat {})", f.to_bits()),
        Value::String(s) => format!("(VStr {})", blist(s.as_bytes())),
        Value::Bytes(b) => format!("(VBytes {})", blist(b)),
        Value::Timestamp(t) => format!("(VTs {})", zi(t.as_micros())),
        Value::List(l) => {
            let mut s = String::from("(VList [");
            for (i, x) in l.iter().enumerate() {
                if i > 0 {
                    s.push(';');
                }
                s.push_str(&cv(x));
            }
            s.push_str("])");
            s
        }
        Value::Map(m) => {
            let mut s = String::from("(VMap [");
            for (i, (k, x)) in m.iter().enumerate() {
                if i > 0 {
                    s.push(';');
                }
                let _ = write!(s, "({},{})", blist(k.as_str().as_bytes()), cv(x));
            }
            s.push_str("])");
            s
        }
        Value::Vector(v) => format!("(VVec {})", ulist(v.iter().map(|f| f.to_bits() as u64))),
    }
}
fn cov(v: &Option<Value>) -> String {
    match v {
        Some(x) => format!("(Some {})", cv(x)),
        None => "None".into(),
    }
}
fn cprops(ps: &BTreeMap<PropertyKey, Value>) -> String {
    let mut v: Vec<(i64, &Value)> = ps.iter().map(|(k, x)| (tok(k.as_str()), x)).collect();
    v.sort_by_key(|(k, _)| *k);
    let mut s = String::from("[");
    for (i, (k, x)) in v.iter().enumerate() {
        if i > 0 {
            s.push(';');
        }
        let _ = write!(s, "({},{})", k, cv(x));
    }
    s.push(']');
    s
}

// ------------------------------------------------------------------------------------------------
// operations

#[derive(Clone, Debug)]
enum Op {
    CreateNode(Vec<i64>),
    DeleteNode(u64),
    DeleteNodeEdges(u64),
    CreateEdge(u64, u64, i64),
    DeleteEdge(u64),
    SetNodeProp(u64, i64, Value),
    RemoveNodeProp(u64, i64),
    SetEdgeProp(u64, i64, Value),
    RemoveEdgeProp(u64, i64),
    AddLabel(u64, i64),
    RemoveLabel(u64, i64),
    CreateIndex(i64),
    DropIndex(i64),
    Compact,
    CompactIfNeeded,
    FreezeAll,
    RefreshStats,
    NewEpoch,
}

impl Op {
    fn coq(&self) -> String {
        match self {
            Op::CreateNode(ls) => format!("(CreateNode {})", zlist(ls.iter().copied())),
            Op::DeleteNode(n) => format!("(DeleteNode {})", n),
            Op::DeleteNodeEdges(n) => format!("(DeleteNodeEdges {})", n),
            Op::CreateEdge(a, b, t) => format!("(CreateEdge {} {} {})", a, b, t),
            Op::DeleteEdge(e) => format!("(DeleteEdge {})", e),
            Op::SetNodeProp(n, k, v) => format!("(SetNodeProp {} {} {})", n, k, cv(v)),
            Op::RemoveNodeProp(n, k) => format!("(RemoveNodeProp {} {})", n, k),
            Op::SetEdgeProp(e, k, v) => format!("(SetEdgeProp {} {} {})", e, k, cv(v)),
            Op::RemoveEdgeProp(e, k) => format!("(RemoveEdgeProp {} {})", e, k),
            Op::AddLabel(n, l) => format!("(AddLabel {} {})", n, l),
            Op::RemoveLabel(n, l) => format!("(RemoveLabel {} {})", n, l),
            Op::CreateIndex(k) => format!("(CreateIndex {})", k),
            Op::DropIndex(k) => format!("(DropIndex {})", k),
            Op::Compact => "Compact".into(),
            Op::CompactIfNeeded => "CompactIfNeeded".into(),
            Op::FreezeAll => "FreezeAll".into(),
            Op::RefreshStats => "RefreshStats".into(),
            Op::NewEpoch => "NewEpoch".into(),
        }
    }
    fn short(&self) -> String {
        match self {
            Op::CreateNode(ls) => format!("N{:?}", ls),
            Op::DeleteNode(n) => format!("dn{}", n),
            Op::DeleteNodeEdges(n) => format!("dne{}", n),
            Op::CreateEdge(a, b, t) => format!("E{}>{}:{}", a, b, t),
            Op::DeleteEdge(e) => format!("de{}", e),
            Op::SetNodeProp(n, k, v) => format!("sp{}.{}={:?}", n, k, v),
            Op::RemoveNodeProp(n, k) => format!("rp{}.{}", n, k),
            Op::SetEdgeProp(e, k, v) => format!("sep{}.{}={:?}", e, k, v),
            Op::RemoveEdgeProp(e, k) => format!("rep{}.{}", e, k),
            Op::AddLabel(n, l) => format!("al{}:{}", n, l),
            Op::RemoveLabel(n, l) => format!("rl{}:{}", n, l),
            Op::CreateIndex(k) => format!("ci{}", k),
            Op::DropIndex(k) => format!("di{}", k),
            Op::Compact => "compact".into(),
            Op::CompactIfNeeded => "compact?".into(),
            Op::FreezeAll => "freeze".into(),
            Op::RefreshStats => "stats".into(),
            Op::NewEpoch => "epoch".into(),
        }
    }
    fn is_delete(&self) -> bool {
        matches!(self, Op::DeleteNode(_) | Op::DeleteEdge(_) | Op::DeleteNodeEdges(_))
    }
    fn is_label(&self) -> bool {
        matches!(self, Op::AddLabel(..) | Op::RemoveLabel(..)) || matches!(self, Op::CreateNode(l) if !l.is_empty())
    }
    fn is_edge(&self) -> bool {
        matches!(self, Op::CreateEdge(..))
    }
    fn is_prop(&self) -> bool {
        matches!(self, Op::SetNodeProp(..) | Op::SetEdgeProp(..) | Op::RemoveNodeProp(..))
    }
}

// ------------------------------------------------------------------------------------------------
// system under test

#[derive(Clone, Copy, PartialEq, Eq, Debug)]
enum Mode {
    StoreBackward,
    StoreForwardOnly,
    Db,
}

/// `LpgStoreConfig` is a public struct in a private module and is re-exported nowhere: it cannot be
/// named from outside the crate.  Its fields are public, so a generic helper can still build one.
fn with_cfg<C: Default>(mk: impl FnOnce(C) -> LpgStore, tweak: impl FnOnce(&mut C)) -> LpgStore {
    let mut c = C::default();
    tweak(&mut c);
    mk(c)
}

struct Sut {
    mode: Mode,
    store: Arc<LpgStore>,
    db: Option<GrafeoDB>,
    sh_fwd: ChunkedAdjacency,
    sh_bwd: ChunkedAdjacency,
    // bookkeeping of the harness (not an oracle): what was created
    n_nodes: u64,
    edges: Vec<(u64, u64)>, // (src, dst) by edge id
    values_seen: Vec<Vec<Value>>, // per node key
    evalues_seen: Vec<Vec<Value>>,
    phantom: BTreeSet<u64>,
    /// probe values that every observation of this trace uses in addition to the random ones
    forced: Vec<(i64, Value)>,
    /// range lookups that every observation of this trace performs in addition to the random ones
    forced_ranges: Vec<(i64, Option<Value>, Option<Value>, bool, bool)>,
}

impl Sut {
    fn new(mode: Mode) -> Self {
        let (store, db) = match mode {
            Mode::StoreBackward => (Arc::new(LpgStore::new()), None),
            Mode::StoreForwardOnly => (Arc::new(with_cfg(LpgStore::with_config, |c| c.backward_edges = false)), None),
            Mode::Db => {
                let db = GrafeoDB::new_in_memory();
                (db.store().clone(), Some(db))
            }
        };
        Sut {
            mode,
            store,
            db,
            sh_fwd: ChunkedAdjacency::new(),
            sh_bwd: ChunkedAdjacency::new(),
            n_nodes: 0,
            edges: vec![],
            values_seen: vec![vec![]; N_KEYS as usize],
            evalues_seen: vec![vec![]; N_KEYS as usize],
            phantom: BTreeSet::new(),
            forced: vec![],
            forced_ranges: vec![],
        }
    }
    fn backward(&self) -> bool {
        self.mode != Mode::StoreForwardOnly
    }

    /// applies the operation to the implementation, returns the Coq `ret` term
    fn apply(&mut self, op: &Op) -> String {
        let st = self.store.clone();
        match op {
            Op::CreateNode(ls) => {
                let names: Vec<String> = ls.iter().map(|&l| label(l)).collect();
                let refs: Vec<&str> = names.iter().map(|s| s.as_str()).collect();
                let id = match &self.db {
                    Some(db) => db.create_node(&refs),
                    None => st.create_node(&refs),
                };
                self.n_nodes = self.n_nodes.max(id.as_u64() + 1);
                format!("(RId {})", id.as_u64())
            }
            Op::DeleteNode(n) => {
                let b = match &self.db {
                    Some(db) => {
                        // GrafeoDB::delete_node detaches (109e5bf): the shadows receive the mark_deleted calls
                        // the store makes for the incident edges of a live node
                        let mut ids: Vec<u64> = Vec::new();
                        if st.get_node(NodeId::new(*n)).is_some() {
                            ids.extend(st.edges_from(NodeId::new(*n), Direction::Outgoing).map(|(_, e)| e.as_u64()));
                            ids.extend(st.edges_to(NodeId::new(*n)).into_iter().map(|(_, e)| e.as_u64()));
                        }
                        let b = db.delete_node(NodeId::new(*n));
                        let mut seen = BTreeSet::new();
                        for e in ids {
                            if seen.insert(e) && st.get_edge(EdgeId::new(e)).is_none() {
                                let (a, d) = self.edges[e as usize];
                                self.sh_fwd.mark_deleted(NodeId::new(a), EdgeId::new(e));
                                self.sh_bwd.mark_deleted(NodeId::new(d), EdgeId::new(e));
                            }
                        }
                        b
                    }
                    None => st.delete_node(NodeId::new(*n)),
                };
                format!("(RBool {})", cb(b))
            }
            Op::DeleteNodeEdges(n) => {
                // which edges the store is going to delete (for the shadows)
                let mut ids: Vec<u64> = st.edges_from(NodeId::new(*n), Direction::Outgoing).map(|(_, e)| e.as_u64()).collect();
                ids.extend(st.edges_to(NodeId::new(*n)).into_iter().map(|(_, e)| e.as_u64()));
                st.delete_node_edges(NodeId::new(*n));
                let mut seen = BTreeSet::new();
                for e in ids {
                    if seen.insert(e) {
                        let (a, b) = self.edges[e as usize];
                        self.sh_fwd.mark_deleted(NodeId::new(a), EdgeId::new(e));
                        if self.backward() {
                            self.sh_bwd.mark_deleted(NodeId::new(b), EdgeId::new(e));
                        }
                    }
                }
                "RUnit".into()
            }
            Op::CreateEdge(a, b, t) => {
                let id = match &self.db {
                    Some(db) => db.create_edge(NodeId::new(*a), NodeId::new(*b), &etype(*t)),
                    None => st.create_edge(NodeId::new(*a), NodeId::new(*b), &etype(*t)),
                };
                assert_eq!(id.as_u64() as usize, self.edges.len(), "edge ids are dense");
                self.edges.push((*a, *b));
                self.sh_fwd.add_edge(NodeId::new(*a), NodeId::new(*b), id);
                if self.backward() {
                    self.sh_bwd.add_edge(NodeId::new(*b), NodeId::new(*a), id);
                }
                for x in [*a, *b] {
                    if x >= self.n_nodes {
                        self.phantom.insert(x);
                    }
                }
                format!("(RId {})", id.as_u64())
            }
            Op::DeleteEdge(e) => {
                let b = match &self.db {
                    Some(db) => db.delete_edge(EdgeId::new(*e)),
                    None => st.delete_edge(EdgeId::new(*e)),
                };
                if b {
                    let (a, d) = self.edges[*e as usize];
                    self.sh_fwd.mark_deleted(NodeId::new(a), EdgeId::new(*e));
                    if self.backward() {
                        self.sh_bwd.mark_deleted(NodeId::new(d), EdgeId::new(*e));
                    }
                }
                format!("(RBool {})", cb(b))
            }
            Op::SetNodeProp(n, k, v) => {
                match &self.db {
                    Some(db) => db.set_node_property(NodeId::new(*n), &key(*k), v.clone()),
                    None => st.set_node_property(NodeId::new(*n), &key(*k), v.clone()),
                }
                self.values_seen[*k as usize].push(v.clone());
                "RUnit".into()
            }
            Op::RemoveNodeProp(n, k) => {
                let old = match &self.db {
                    Some(db) => {
                        let before = st.get_node_property(NodeId::new(*n), &PropertyKey::new(key(*k)));
                        let b = db.remove_node_property(NodeId::new(*n), &key(*k));
                        if b != before.is_some() {
                            // make the mismatch visible to the correspondence check
                            return "(RBool false)".into();
                        }
                        before
                    }
                    None => st.remove_node_property(NodeId::new(*n), &key(*k)),
                };
                format!("(ROptV {})", cov(&old))
            }
            Op::SetEdgeProp(e, k, v) => {
                match &self.db {
                    Some(db) => db.set_edge_property(EdgeId::new(*e), &key(*k), v.clone()),
                    None => st.set_edge_property(EdgeId::new(*e), &key(*k), v.clone()),
                }
                self.evalues_seen[*k as usize].push(v.clone());
                "RUnit".into()
            }
            Op::RemoveEdgeProp(e, k) => {
                let old = match &self.db {
                    Some(db) => {
                        let before = st.get_edge_property(EdgeId::new(*e), &PropertyKey::new(key(*k)));
                        let b = db.remove_edge_property(EdgeId::new(*e), &key(*k));
                        if b != before.is_some() {
                            return "(RBool false)".into();
                        }
                        before
                    }
                    None => st.remove_edge_property(EdgeId::new(*e), &key(*k)),
                };
                format!("(ROptV {})", cov(&old))
            }
            Op::AddLabel(n, l) => {
                let b = match &self.db {
                    Some(db) => db.add_node_label(NodeId::new(*n), &label(*l)),
                    None => st.add_label(NodeId::new(*n), &label(*l)),
                };
                format!("(RBool {})", cb(b))
            }
            Op::RemoveLabel(n, l) => {
                let b = match &self.db {
                    Some(db) => db.remove_node_label(NodeId::new(*n), &label(*l)),
                    None => st.remove_label(NodeId::new(*n), &label(*l)),
                };
                format!("(RBool {})", cb(b))
            }
            Op::CreateIndex(k) => {
                match &self.db {
                    Some(db) => db.create_property_index(&key(*k)),
                    None => st.create_property_index(&key(*k)),
                }
                "RUnit".into()
            }
            Op::DropIndex(k) => {
                let b = match &self.db {
                    Some(db) => db.drop_property_index(&key(*k)),
                    None => st.drop_property_index(&key(*k)),
                };
                format!("(RBool {})", cb(b))
            }
            Op::Compact => {
                self.sh_fwd.compact();
                self.sh_bwd.compact();
                "RUnit".into()
            }
            Op::CompactIfNeeded => {
                self.sh_fwd.compact_if_needed();
                self.sh_bwd.compact_if_needed();
                "RUnit".into()
            }
            Op::FreezeAll => {
                self.sh_fwd.freeze_all();
                self.sh_bwd.freeze_all();
                "RUnit".into()
            }
            Op::RefreshStats => {
                st.ensure_statistics_fresh();
                "RUnit".into()
            }
            Op::NewEpoch => {
                let e = st.new_epoch();
                format!("(RId {})", e.as_u64())
            }
        }
    }
}

// ------------------------------------------------------------------------------------------------
// value semantics of the store's scans, re-stated on the implementation's own values (oracle side)

fn range_cmp(a: &Value, b: &Value) -> Option<std::cmp::Ordering> {
    match (a, b) {
        (Value::Int64(a), Value::Int64(b)) => Some(a.cmp(b)),
        (Value::Float64(a), Value::Float64(b)) => a.partial_cmp(b),
        (Value::String(a), Value::String(b)) => Some(a.cmp(b)),
        (Value::Bool(a), Value::Bool(b)) => Some(a.cmp(b)),
        _ => None,
    }
}
fn sat(op: CompareOp, x: &Value, q: &Value) -> bool {
    use std::cmp::Ordering::*;
    match op {
        CompareOp::Eq => x == q,
        CompareOp::Ne => !x.is_null() && x != q,
        CompareOp::Lt => range_cmp(x, q) == Some(Less),
        CompareOp::Le => matches!(range_cmp(x, q), Some(Less) | Some(Equal)),
        CompareOp::Gt => range_cmp(x, q) == Some(Greater),
        CompareOp::Ge => matches!(range_cmp(x, q), Some(Greater) | Some(Equal)),
    }
}
fn in_range(x: &Value, lo: &Option<Value>, hi: &Option<Value>, li: bool, hi_i: bool) -> bool {
    use std::cmp::Ordering::*;
    if let Some(l) = lo {
        match range_cmp(x, l) {
            Some(Less) | None => return false,
            Some(Equal) if !li => return false,
            _ => {}
        }
    }
    if let Some(h) = hi {
        match range_cmp(x, h) {
            Some(Greater) | None => return false,
            Some(Equal) if !hi_i => return false,
            _ => {}
        }
    }
    true
}
/// the value contains a float NaN or a float zero (the values on which Value::eq and HashableValue::eq differ)
fn special(v: &Value) -> bool {
    match v {
        Value::Float64(f) => f.is_nan() || *f == 0.0,
        Value::List(l) => l.iter().any(special),
        Value::Map(m) => m.values().any(special),
        Value::Vector(x) => x.iter().any(|f| f.is_nan() || *f == 0.0),
        _ => false,
    }
}
const OPS6: [(CompareOp, &str); 6] = [
    (CompareOp::Eq, "OpEq"),
    (CompareOp::Ne, "OpNe"),
    (CompareOp::Lt, "OpLt"),
    (CompareOp::Le, "OpLe"),
    (CompareOp::Gt, "OpGt"),
    (CompareOp::Ge, "OpGe"),
];

// ------------------------------------------------------------------------------------------------
// observation + oracle

#[derive(Clone)]
struct Failure {
    class: &'static str, // finding id the harness believes applies ("" = none known)
    what: String,
    kcoq: Option<String>, // class predicate, `{OPS}` stands for the op list of the prefix
}

/// name of the class predicate of a failure (failures are kept once per finding and predicate)
fn kname(k: &Option<String>) -> String {
    k.as_ref().map(|s| s.split(' ').next().unwrap_or("").to_string()).unwrap_or_default()
}

fn dir_coq(d: Direction) -> &'static str {
    match d {
        Direction::Outgoing => "Outgoing",
        Direction::Incoming => "Incoming",
        Direction::Both => "Both",
    }
}
fn sorted_pairs(v: Vec<(NodeId, EdgeId)>) -> Vec<(u64, u64)> {
    let mut r: Vec<(u64, u64)> = v.into_iter().map(|(a, b)| (a.as_u64(), b.as_u64())).collect();
    r.sort();
    r
}

fn probe_values(r: &mut Rng, seen: &[Value], n: usize) -> Vec<Value> {
    let mut out: Vec<Value> = Vec::new();
    let specials = [
        Value::Null,
        Value::Int64(1),
        Value::Float64(1.0),
        Value::Float64(f64::NAN),
        Value::Float64(0.0),
        Value::Float64(-0.0),
        Value::Int64((1 << 53) + 1),
        Value::Float64(9007199254740992.0),
        Value::String("a".into()),
        Value::Bool(true),
    ];
    for _ in 0..n {
        if !seen.is_empty() && r.chance(3, 4) {
            out.push(r.pick(seen).clone());
        } else {
            out.push(r.pick(&specials).clone());
        }
    }
    out
}

struct Obs {
    items: Vec<String>,
    fails: Vec<Failure>,
}

#[allow(clippy::too_many_lines)]
fn observe(sut: &Sut, r: &mut Rng, heavy: bool, after_refresh: bool, light: bool) -> Obs {
    let st = &sut.store;
    let mut items: Vec<String> = Vec::new();
    let mut fails: Vec<Failure> = Vec::new();
    let mut fail = |class: &'static str, what: String, kcoq: Option<String>| {
        if !fails.iter().any(|f: &Failure| f.class == class && kname(&f.kcoq) == kname(&kcoq)) {
            fails.push(Failure { class, what, kcoq });
        }
    };

    // ---- enumerations and counts
    let node_ids: Vec<u64> = st.node_ids().iter().map(|n| n.as_u64()).collect();
    let live: BTreeSet<u64> = node_ids.iter().copied().collect();
    items.push(format!("O(ONodeIds {})", zs(&node_ids)));
    let nc = st.node_count();
    let ec = st.edge_count();
    items.push(format!("O(OCounts {} {})", nc, ec));
    let mut all_nodes: Vec<u64> = st.all_nodes().map(|n| n.id.as_u64()).collect();
    all_nodes.sort();
    items.push(format!("O(OAllNodes {})", zs(&all_nodes)));
    let mut all_edges: Vec<(u64, u64, u64, i64)> =
        st.all_edges().map(|e| (e.id.as_u64(), e.src.as_u64(), e.dst.as_u64(), tok(&e.edge_type))).collect();
    all_edges.sort();
    if all_edges.len() <= LONG {
        let mut s = String::from("O(OAllEdges (QL [");
        for (i, (id, a, b, t)) in all_edges.iter().enumerate() {
            if i > 0 {
                s.push(';');
            }
            let _ = write!(s, "({},{},{},{})", id, a, b, t);
        }
        s.push_str("]))");
        items.push(s);
    } else {
        let h = all_edges.iter().fold(0u128, |h, &(id, a, b, t)| hstep(hstep(hstep(hstep(h, id), a), b), t as u64));
        items.push(format!("O(OAllEdges (QH {} {}))", all_edges.len(), h));
    }
    items.push(format!("O(OCatalog {} {})", st.label_count(), st.edge_type_count()));
    // oracle: counts equal enumerations
    if nc != node_ids.len() || nc != all_nodes.len() || all_nodes != node_ids {
        fail("", format!("node_count {} / node_ids {} / all_nodes {} disagree", nc, node_ids.len(), all_nodes.len()), None);
    }
    if ec != all_edges.len() {
        fail("", format!("edge_count {} != |all_edges| {}", ec, all_edges.len()), None);
    }
    // oracle: deleted entities appear nowhere (endpoints of live edges are live nodes)
    for (id, a, b, _) in &all_edges {
        if !live.contains(a) || !live.contains(b) {
            fail(
                "C14-K8",
                format!("live edge {} ({}->{}) has an endpoint that is not a live node", id, a, b),
                Some("k_dangling BW {OPS}".into()),
            );
        }
    }

    // ---- labels
    let mut by_label: Vec<Vec<u64>> = Vec::new();
    for l in 0..=N_LABELS {
        let ids: Vec<u64> = st.nodes_by_label(&label(l)).iter().map(|n| n.as_u64()).collect();
        items.push(format!("O(OByLabel {} {})", l, zs(&ids)));
        by_label.push(ids);
    }
    // oracle: label lookup == live nodes carrying the label, once each
    let mut labels_of: BTreeMap<u64, Vec<i64>> = BTreeMap::new();
    for &n in &node_ids {
        if let Some(node) = st.get_node(NodeId::new(n)) {
            let mut ls: Vec<i64> = node.labels.iter().map(|s| tok(s)).collect();
            ls.sort();
            labels_of.insert(n, ls);
        } else {
            fail("", format!("node {} is in node_ids() but get_node() is None", n), None);
        }
    }
    for l in 0..=N_LABELS {
        let expect: Vec<u64> = node_ids.iter().copied().filter(|n| labels_of.get(n).is_some_and(|ls| ls.contains(&l))).collect();
        if by_label[l as usize] != expect {
            fail("", format!("nodes_by_label(L{}) = {:?} but the live nodes carrying it are {:?}", l, by_label[l as usize], expect), None);
        }
    }

    // ---- per node: get_node, adjacency
    let mut sample: Vec<u64> = Vec::new();
    let total = sut.n_nodes;
    if total <= 10 {
        sample.extend(0..total);
    } else {
        // node 0/1 (the hubs of the hub traces) and a random handful
        sample.extend(0..2);
        for _ in 0..(if light { 2 } else if heavy { 5 } else { 6 }) {
            sample.push(r.below(total));
        }
    }
    sample.push(total); // never created
    if !light {
        sample.push(total + 7);
    }
    sample.extend(sut.phantom.iter().copied().take(if light { 1 } else { 3 }));
    sample.sort();
    sample.dedup();
    for &n in &sample {
        let nid = NodeId::new(n);
        match st.get_node(nid) {
            Some(node) => {
                let mut ls: Vec<i64> = node.labels.iter().map(|s| tok(s)).collect();
                ls.sort();
                items.push(format!("O(OGetNode {} (Some ({},{})))", n, zlist(ls), cprops(&node.properties)));
                if !live.contains(&n) {
                    fail("", format!("get_node({}) is Some but the id is not in node_ids()", n), None);
                }
            }
            None => {
                items.push(format!("O(OGetNode {} None)", n));
                if live.contains(&n) {
                    fail("", format!("get_node({}) is None but the id is in node_ids()", n), None);
                }
            }
        }
        let out = sorted_pairs(st.edges_from(nid, Direction::Outgoing).collect());
        let inc = sorted_pairs(st.edges_from(nid, Direction::Incoming).collect());
        let both = sorted_pairs(st.edges_from(nid, Direction::Both).collect());
        let to = sorted_pairs(st.edges_to(nid));
        items.push(format!("O(OEdgesFrom {} Outgoing {})", n, ps(&out)));
        items.push(format!("O(OEdgesFrom {} Incoming {})", n, ps(&inc)));
        items.push(format!("O(OEdgesFrom {} Both {})", n, ps(&both)));
        items.push(format!("O(OEdgesTo {} {})", n, ps(&to)));
        let mut neigh: Vec<Vec<u64>> = Vec::new();
        for d in [Direction::Outgoing, Direction::Incoming, Direction::Both] {
            let mut ns: Vec<u64> = st.neighbors(nid, d).map(|x| x.as_u64()).collect();
            ns.sort();
            items.push(format!("O(ONeighbors {} {} {})", n, dir_coq(d), zs(&ns)));
            neigh.push(ns);
        }
        let od = st.out_degree(nid);
        let id = st.in_degree(nid);
        items.push(format!("O(ODegrees {} {} {})", n, od, id));
        // shadows, exact order
        let sf: Vec<(u64, u64)> = sut.sh_fwd.edges_from(nid).into_iter().map(|(a, b)| (a.as_u64(), b.as_u64())).collect();
        items.push(format!("O(OShadow true {} {})", n, ps(&sf)));
        if sut.backward() {
            let sb: Vec<(u64, u64)> = sut.sh_bwd.edges_from(nid).into_iter().map(|(a, b)| (a.as_u64(), b.as_u64())).collect();
            items.push(format!("O(OShadow false {} {})", n, ps(&sb)));
            let mut sbs = sb.clone();
            sbs.sort();
            if sbs != to {
                fail("", format!("compacted backward adjacency of {} differs from the store's uncompacted one", n), None);
            }
        }
        let mut sfs = sf.clone();
        sfs.sort();
        if sfs != out {
            fail("", format!("compacted forward adjacency of {} = {:?} differs from the store's uncompacted one {:?}", n, sfs, out), None);
        }
        // oracle: neighbour lists and degrees == live edge set
        let mut exp_out: Vec<(u64, u64)> = all_edges.iter().filter(|e| e.1 == n).map(|e| (e.2, e.0)).collect();
        exp_out.sort();
        let mut exp_in: Vec<(u64, u64)> = all_edges.iter().filter(|e| e.2 == n).map(|e| (e.1, e.0)).collect();
        exp_in.sort();
        if out != exp_out {
            fail("", format!("edges_from({}, Out) = {:?} but the live edges leaving it are {:?}", n, out, exp_out), None);
        }
        if to != exp_in {
            fail("", format!("edges_to({}) = {:?} but the live edges entering it are {:?}", n, to, exp_in), None);
        }
        if sut.backward() && inc != exp_in {
            fail("", format!("edges_from({}, In) = {:?} but the live edges entering it are {:?}", n, inc, exp_in), None);
        }
        if sut.backward() {
            let mut exp_both = exp_out.clone();
            exp_both.extend(exp_in.iter().copied());
            exp_both.sort();
            if both != exp_both {
                fail("", format!("edges_from({}, Both) differs from Out ++ In", n), None);
            }
        }
        if od != exp_out.len() || id != exp_in.len() {
            fail("", format!("degrees of {}: out {} in {} but live edges say {} / {}", n, od, id, exp_out.len(), exp_in.len()), None);
        }
        let mut e0: Vec<u64> = out.iter().map(|p| p.0).collect();
        e0.sort();
        if neigh[0] != e0 {
            fail("", format!("neighbors({}, Out) is not the projection of edges_from", n), None);
        }
        // oracle: deleted entities appear nowhere
        for x in neigh[2].iter().chain(to.iter().map(|p| &p.0)) {
            if !live.contains(x) {
                fail(
                    "C14-K8",
                    format!("node {} is not live but is listed as a neighbour of {}", x, n),
                    Some("k_dangling BW {OPS}".into()),
                );
            }
        }
    }
    // ---- edges
    let n_edges = sut.edges.len() as u64;
    let mut esample: Vec<u64> = Vec::new();
    if n_edges <= 30 {
        esample.extend(0..n_edges);
    } else {
        for _ in 0..(if light { 4 } else { 12 }) {
            esample.push(r.below(n_edges));
        }
    }
    esample.push(n_edges);
    esample.sort();
    esample.dedup();
    for &e in &esample {
        match st.get_edge(EdgeId::new(e)) {
            Some(ed) => {
                items.push(format!(
                    "O(OGetEdge {} (Some ({},{},{},{})))",
                    e,
                    ed.src.as_u64(),
                    ed.dst.as_u64(),
                    tok(&ed.edge_type),
                    cprops(&ed.properties)
                ));
                if !all_edges.iter().any(|x| x.0 == e) {
                    fail("", format!("get_edge({}) is Some but all_edges() does not list it", e), None);
                }
            }
            None => {
                items.push(format!("O(OGetEdge {} None)", e));
                if all_edges.iter().any(|x| x.0 == e) {
                    fail("", format!("get_edge({}) is None but all_edges() lists it", e), None);
                }
            }
        }
    }
    // shadow memory statistics (hot / cold split)
    let ms = sut.sh_fwd.memory_stats();
    items.push(format!("O(OShadowMem true {} {} {})", ms.hot_entries, ms.cold_entries, ms.node_count));
    if sut.backward() {
        let ms = sut.sh_bwd.memory_stats();
        items.push(format!("O(OShadowMem false {} {} {})", ms.hot_entries, ms.cold_entries, ms.node_count));
    }

    // ---- properties: index vs scan, ranges, zone maps
    for k in 0..N_KEYS {
        let pk = PropertyKey::new(key(k));
        let has_ix = st.has_property_index(&key(k));
        items.push(format!("O(OHasIndex {} {})", k, cb(has_ix)));
        let z = st.node_property_zone_map(&pk);
        match &z {
            Some(z) => items.push(format!("O(OZone {} (Some ({},{},{},{})))", k, cov(&z.min), cov(&z.max), z.null_count, z.row_count)),
            None => items.push(format!("O(OZone {} None)", k)),
        }
        // everything stored in the column, reachable through the public accessor (incl. ids that are not live)
        let stored: Vec<(u64, Value)> = (0..sut.n_nodes + 2).filter_map(|n| st.get_node_property(NodeId::new(n), &pk).map(|v| (n, v))).collect();
        let nprobe = if light { 1 } else if heavy { 3 } else { 5 };
        let mut probes = probe_values(r, &sut.values_seen[k as usize], nprobe);
        probes.extend(sut.forced.iter().filter(|(fk, _)| *fk == k).map(|(_, v)| v.clone()));
        for q in probes {
            // find_nodes_by_property
            let mut found: Vec<u64> = st.find_nodes_by_property(&key(k), &q).iter().map(|n| n.as_u64()).collect();
            found.sort();
            items.push(format!("O(OFind {} {} {})", k, cv(&q), zs(&found)));
            let scan: Vec<u64> = node_ids
                .iter()
                .copied()
                .filter(|&n| st.get_node_property(NodeId::new(n), &pk).is_some_and(|v| v == q))
                .collect();
            if found != scan {
                // since c82f983 values with a float NaN / zero are scanned; what can still differ is a
                // property written to an id that was not a live node (K6)
                fail(
                    "C14-K6",
                    format!("index lookup k{} = {:?} returns {:?} but the scan over the live nodes finds {:?}", k, q, found, scan),
                    Some(format!("k_index_dead BW {{OPS}} {} {}", k, cv(&q))),
                );
            }
            // might_match, all six operators
            let mut bs: Vec<&str> = Vec::new();
            for (op, opn) in OPS6 {
                let mm = st.node_property_might_match(&pk, op, &q);
                bs.push(cb(mm));
                if !mm {
                    if let Some((n, x)) = stored.iter().find(|(_, x)| sat(op, x, &q)) {
                        // K4 (c5e300e) and K5 (1879631) are repaired: no class, a failure is a violation
                        let _ = opn;
                        fail("", format!("might_match(k{}, {:?}, {:?}) = false but node {} stores {:?}", k, op, q, n, x), None);
                    }
                }
            }
            items.push(format!("O(OMight true {} {} [{}])", k, cv(&q), bs.join(";")));
        }
        // find_nodes_in_range
        let mut ranges: Vec<(Option<Value>, Option<Value>, bool, bool)> = Vec::new();
        for _ in 0..(if heavy || light { 1 } else { 2 }) {
            let pv = probe_values(r, &sut.values_seen[k as usize], 2);
            let lo = if r.chance(2, 3) { Some(pv[0].clone()) } else { None };
            let hi = if r.chance(2, 3) { Some(pv[1].clone()) } else { None };
            ranges.push((lo, hi, r.chance(1, 2), r.chance(1, 2)));
        }
        ranges.extend(sut.forced_ranges.iter().filter(|f| f.0 == k).map(|f| (f.1.clone(), f.2.clone(), f.3, f.4)));
        for (lo, hi, li, hi_i) in ranges {
            let mut got: Vec<u64> = st.find_nodes_in_range(&key(k), lo.as_ref(), hi.as_ref(), li, hi_i).iter().map(|n| n.as_u64()).collect();
            got.sort();
            items.push(format!("O(OFindRange {} {} {} {} {} {})", k, cov(&lo), cov(&hi), cb(li), cb(hi_i), zs(&got)));
            let scan: Vec<u64> = node_ids
                .iter()
                .copied()
                .filter(|&n| st.get_node_property(NodeId::new(n), &pk).is_some_and(|v| in_range(&v, &lo, &hi, li, hi_i)))
                .collect();
            if got != scan {
                fail("", format!("find_nodes_in_range(k{}, {:?}, {:?}, {}, {}) = {:?} but the scan finds {:?}", k, lo, hi, li, hi_i, got, scan), None);
            }
        }
        // edge columns: zone maps only
        let n_eprobe = if light && r.chance(1, 2) { 0 } else { 1 };
        for q in probe_values(r, &sut.evalues_seen[k as usize], n_eprobe) {
            let stored_e: Vec<(u64, Value)> = (0..n_edges + 1).filter_map(|e| st.get_edge_property(EdgeId::new(e), &pk).map(|v| (e, v))).collect();
            let mut bs: Vec<&str> = Vec::new();
            for (op, opn) in OPS6 {
                let mm = st.edge_property_might_match(&pk, op, &q);
                bs.push(cb(mm));
                if !mm {
                    if let Some((e, x)) = stored_e.iter().find(|(_, x)| sat(op, x, &q)) {
                        let _ = opn;
                        fail("", format!("edge might_match(k{}, {:?}, {:?}) = false but edge {} stores {:?}", k, op, q, e, x), None);
                    }
                }
            }
            items.push(format!("O(OMight false {} {} [{}])", k, cv(&q), bs.join(";")));
        }
    }

    // ---- find_nodes_by_properties (conjunction of equalities; uses the indexes when there are any)
    for _ in 0..(if light { 1 } else { 2 }) {
        let mut conds: Vec<(i64, Value)> = Vec::new();
        if !node_ids.is_empty() && r.chance(1, 2) {
            // the values of a live node: a conjunction that has a match
            let n = *r.pick(&node_ids);
            for k in 0..N_KEYS {
                if conds.len() < 2 && r.chance(2, 3) {
                    if let Some(v) = st.get_node_property(NodeId::new(n), &PropertyKey::new(key(k))) {
                        conds.push((k, v));
                    }
                }
            }
        } else {
            for _ in 0..r.below(3) {
                let k = r.below(N_KEYS as u64) as i64;
                let v = probe_values(r, &sut.values_seen[k as usize], 1).remove(0);
                conds.push((k, v));
            }
        }
        let names: Vec<(String, Value)> = conds.iter().map(|(k, v)| (key(*k), v.clone())).collect();
        let refs: Vec<(&str, Value)> = names.iter().map(|(k, v)| (k.as_str(), v.clone())).collect();
        let mut got: Vec<u64> = st.find_nodes_by_properties(&refs).iter().map(|n| n.as_u64()).collect();
        got.sort();
        let cl = format!("[{}]", conds.iter().map(|(k, v)| format!("({},{})", k, cv(v))).collect::<Vec<_>>().join(";"));
        items.push(format!("O(OFindAll {} {})", cl, zs(&got)));
        let scan: Vec<u64> = node_ids
            .iter()
            .copied()
            .filter(|&n| conds.iter().all(|(k, v)| st.get_node_property(NodeId::new(n), &PropertyKey::new(key(*k))).is_some_and(|x| x == *v)))
            .collect();
        if got != scan {
            fail(
                "C14-K6",
                format!("find_nodes_by_properties({:?}) = {:?} but the scan over the live nodes finds {:?}", conds, got, scan),
                Some(format!("k_props BW {{OPS}} {}", cl)),
            );
        }
    }

    // ---- statistics
    let stats = st.statistics();
    let mut ls: Vec<(u64, u64)> = stats.labels.iter().map(|(k, v)| (tok(k) as u64, v.node_count)).collect();
    ls.sort();
    let mut ts: Vec<(u64, u64)> = stats.edge_types.iter().map(|(k, v)| (tok(k) as u64, v.edge_count)).collect();
    ts.sort();
    items.push(format!("O(OStats {} {} {} {})", stats.total_nodes, stats.total_edges, plist(&ls), plist(&ts)));
    if after_refresh {
        // oracle: statistics after refresh == actual cardinalities
        let mut exp_l: Vec<(u64, u64)> = Vec::new();
        for l in 0..=N_LABELS {
            if !by_label[l as usize].is_empty() {
                exp_l.push((l as u64, by_label[l as usize].len() as u64));
            }
        }
        let mut tc: BTreeMap<u64, u64> = BTreeMap::new();
        for e in &all_edges {
            *tc.entry(e.3 as u64).or_default() += 1;
        }
        let exp_t: Vec<(u64, u64)> = tc.into_iter().collect();
        if stats.total_nodes != nc as u64 || stats.total_edges != ec as u64 || ts != exp_t {
            fail("", format!("statistics after refresh: totals {} / {} types {:?}, actual {} / {} {:?}", stats.total_nodes, stats.total_edges, ts, nc, ec, exp_t), None);
        }
        if ls != exp_l {
            // K7 is repaired (2e121d0): no class
            fail("", format!("statistics after refresh: label cardinalities {:?}, actual {:?}", ls, exp_l), None);
        }
    }
    // ---- validate()
    if let Some(db) = &sut.db {
        let v = db.validate();
        let mut errs: Vec<(u64, u64)> = v
            .errors
            .iter()
            .map(|e| {
                let code = if e.code == "DANGLING_SRC" { 0 } else { 1 };
                let id: u64 = e.context.as_ref().and_then(|c| c.strip_prefix("edge:")).and_then(|x| x.parse().ok()).unwrap_or(u64::MAX);
                (code, id)
            })
            .collect();
        errs.sort();
        items.push(format!("O(OValidate {})", plist(&errs)));
        if !errs.is_empty() {
            fail("C14-K8", format!("validate() reports {} dangling edge reference(s): {:?}", errs.len(), errs), Some("k_dangling BW {OPS}".into()));
        }
    }
    Obs { items, fails }
}

// ------------------------------------------------------------------------------------------------
// generators

fn gen_value(r: &mut Rng, k: i64, depth: u32) -> Value {
    // keys are biased: k0 integers, k1 numeric mixed, k2 strings, k3 anything
    let pick = match k {
        0 => *r.pick(&[0u64, 0, 0, 0, 1, 2, 9]),
        1 => *r.pick(&[0u64, 0, 1, 2, 2, 3, 3, 9]),
        2 => *r.pick(&[4u64, 4, 4, 4, 5, 9]),
        _ => r.below(12),
    };
    match pick {
        0 => Value::Int64(r.range(-3, 4)),
        1 => Value::Int64(*r.pick(&[
            1i64 << 53,
            (1 << 53) + 1,
            (1 << 53) - 1,
            (1 << 53) + 2,
            -(1 << 53),
            -(1 << 53) - 1,
            i64::MAX,
            i64::MIN,
            i64::MAX - 1,
            (1 << 54) + 2,
            (1 << 62) + 1,
        ])),
        2 => Value::Float64(*r.pick(&[0.0, -0.0, 1.0, -1.0, 2.5, -1.5, 3.0, 1e300, 5e-324, 0.1])),
        3 => Value::Float64(*r.pick(&[
            f64::NAN,
            f64::from_bits(0xFFF8_0000_0000_0001),
            f64::INFINITY,
            f64::NEG_INFINITY,
            9007199254740992.0,
            9007199254740994.0,
            -9007199254740992.0,
            9.223372036854775807e18,
            18014398509481984.0,
        ])),
        4 => Value::String((*r.pick(&["", "a", "b", "ab", "é", "A", "aa"])).into()),
        5 => Value::Null,
        6 => Value::Bool(r.chance(1, 2)),
        7 => Value::Bytes(Arc::from(&[r.below(3) as u8, 255][..r.below(3) as usize])),
        8 => Value::Timestamp(Timestamp::from_micros(r.range(-2, 2))),
        9 => {
            if depth >= 2 {
                Value::Null
            } else {
                match r.below(4) {
                    0 => Value::List((0..r.below(3)).map(|_| gen_value(r, 3, depth + 1)).collect::<Vec<_>>().into()),
                    1 => {
                        let mut m = BTreeMap::new();
                        for _ in 0..r.below(3) {
                            m.insert(PropertyKey::new(*r.pick(&["x", "y"])), gen_value(r, 1, depth + 1));
                        }
                        Value::Map(Arc::new(m))
                    }
                    2 => Value::Vector((0..r.below(3)).map(|_| *r.pick(&[0.0f32, -0.0, 1.0, f32::NAN])).collect::<Vec<_>>().into()),
                    _ => Value::Bool(r.chance(1, 2)),
                }
            }
        }
        10 => Value::Bool(r.chance(1, 2)),
        _ => Value::Null,
    }
}

struct Gen {
    n_nodes: u64,
    n_edges: u64,
    live_nodes: Vec<u64>, // the generator's guess (used to aim, never as an oracle)
    live_edges: Vec<u64>,
    detach_bias: u64, // chance (in 10) that a node delete is preceded by DeleteNodeEdges
    malformed: bool,
}

impl Gen {
    fn node(&self, r: &mut Rng) -> u64 {
        if self.malformed && r.chance(1, 12) {
            return self.n_nodes + r.below(3);
        }
        if !self.live_nodes.is_empty() && r.chance(9, 10) {
            *r.pick(&self.live_nodes)
        } else if self.n_nodes > 0 {
            r.below(self.n_nodes)
        } else {
            0
        }
    }
    fn edge(&self, r: &mut Rng) -> u64 {
        if self.malformed && r.chance(1, 12) {
            return self.n_edges + r.below(2);
        }
        if !self.live_edges.is_empty() && r.chance(9, 10) {
            *r.pick(&self.live_edges)
        } else if self.n_edges > 0 {
            r.below(self.n_edges)
        } else {
            0
        }
    }
    fn note(&mut self, op: &Op) {
        match op {
            Op::CreateNode(_) => {
                self.live_nodes.push(self.n_nodes);
                self.n_nodes += 1;
            }
            Op::DeleteNode(n) => self.live_nodes.retain(|x| x != n),
            Op::CreateEdge(..) => {
                self.live_edges.push(self.n_edges);
                self.n_edges += 1;
            }
            Op::DeleteEdge(e) => self.live_edges.retain(|x| x != e),
            _ => {}
        }
    }
    fn next(&mut self, r: &mut Rng, adj_ops: bool) -> Vec<Op> {
        let w = r.below(100);
        let ops: Vec<Op> = if self.n_nodes == 0 || w < 14 {
            let nl = *r.pick(&[0u64, 1, 1, 1, 2, 2, 3]);
            vec![Op::CreateNode((0..nl).map(|_| r.below(N_LABELS as u64) as i64).collect())]
        } else if w < 36 {
            let a = self.node(r);
            let b = if r.chance(1, 8) { a } else { self.node(r) };
            vec![Op::CreateEdge(a, b, r.below(N_TYPES as u64) as i64)]
        } else if w < 42 {
            vec![Op::DeleteEdge(self.edge(r))]
        } else if w < 48 {
            let n = self.node(r);
            if r.below(10) < self.detach_bias {
                vec![Op::DeleteNodeEdges(n), Op::DeleteNode(n)]
            } else {
                vec![Op::DeleteNode(n)]
            }
        } else if w < 50 {
            vec![Op::DeleteNodeEdges(self.node(r))]
        } else if w < 66 {
            let k = r.below(N_KEYS as u64) as i64;
            vec![Op::SetNodeProp(self.node(r), k, gen_value(r, k, 0))]
        } else if w < 71 {
            vec![Op::RemoveNodeProp(self.node(r), r.below(N_KEYS as u64) as i64)]
        } else if w < 76 {
            let k = r.below(N_KEYS as u64) as i64;
            vec![Op::SetEdgeProp(self.edge(r), k, gen_value(r, k, 0))]
        } else if w < 78 {
            vec![Op::RemoveEdgeProp(self.edge(r), r.below(N_KEYS as u64) as i64)]
        } else if w < 84 {
            vec![Op::AddLabel(self.node(r), r.below(N_LABELS as u64 + if self.malformed { 1 } else { 0 }) as i64)]
        } else if w < 88 {
            vec![Op::RemoveLabel(self.node(r), r.below(N_LABELS as u64 + 1) as i64)]
        } else if w < 91 {
            vec![Op::CreateIndex(r.below(N_KEYS as u64) as i64)]
        } else if w < 93 {
            vec![Op::DropIndex(r.below(N_KEYS as u64) as i64)]
        } else if w < 96 {
            vec![Op::RefreshStats]
        } else if w < 97 {
            vec![Op::NewEpoch]
        } else if adj_ops {
            vec![r.pick(&[Op::Compact, Op::CompactIfNeeded, Op::FreezeAll, Op::Compact]).clone()]
        } else {
            vec![Op::RefreshStats]
        };
        for o in &ops {
            self.note(o);
        }
        ops
    }
}

fn gen_ops(r: &mut Rng, len: usize) -> Vec<Op> {
    let mut g = Gen {
        n_nodes: 0,
        n_edges: 0,
        live_nodes: vec![],
        live_edges: vec![],
        detach_bias: *r.pick(&[10u64, 10, 10, 10, 8, 5, 0]),
        malformed: r.chance(1, 3),
    };
    let mut ops = Vec::new();
    while ops.len() < len {
        ops.extend(g.next(r, true));
    }
    ops
}

/// long histories concentrating >= 300 edges on one source node so that every adjacency
/// threshold (chunk fill, delta compaction, cold compression) is crossed, with deletes in the
/// middle, self-loops, parallel edges and destination 0
fn gen_hub_ops(r: &mut Rng, len: usize) -> Vec<Op> {
    let mut g = Gen { n_nodes: 0, n_edges: 0, live_nodes: vec![], live_edges: vec![], detach_bias: 10, malformed: false };
    let mut ops: Vec<Op> = Vec::new();
    let n0 = 6 + r.below(8);
    for _ in 0..n0 {
        let o = Op::CreateNode((0..r.below(3)).map(|_| r.below(N_LABELS as u64) as i64).collect());
        g.note(&o);
        ops.push(o);
    }
    let hub = r.below(2); // 0 or 1
    let style = r.below(3); // how compaction is driven
    let mut hub_edges = 0u64;
    let target = 300 + r.below(60);
    while ops.len() < len {
        let w = r.below(100);
        if w < 62 || hub_edges < target && w < 80 {
            let dst = match r.below(8) {
                0 => hub,
                1 => 0,
                2 | 3 => r.below(3),
                _ => g.node(r),
            };
            let o = if r.chance(1, 10) && hub_edges > 20 { Op::CreateEdge(dst, hub, r.below(N_TYPES as u64) as i64) } else { Op::CreateEdge(hub, dst, r.below(N_TYPES as u64) as i64) };
            g.note(&o);
            ops.push(o);
            hub_edges += 1;
            match style {
                0 => ops.push(Op::CompactIfNeeded),
                1 => {
                    if matches!(hub_edges, 1 | 63 | 64 | 65 | 128 | 129 | 256 | 257 | 320 | 321) || r.chance(1, 40) {
                        ops.push(Op::Compact);
                    }
                }
                _ => {
                    if r.chance(1, 25) {
                        ops.push(r.pick(&[Op::Compact, Op::CompactIfNeeded, Op::FreezeAll]).clone());
                    }
                }
            }
        } else if w < 88 {
            let o = Op::DeleteEdge(g.edge(r));
            g.note(&o);
            ops.push(o);
        } else if w < 92 {
            let k = r.below(N_KEYS as u64) as i64;
            ops.push(Op::SetNodeProp(g.node(r), k, gen_value(r, k, 0)));
        } else if w < 94 {
            ops.push(Op::AddLabel(g.node(r), r.below(N_LABELS as u64) as i64));
        } else if w < 95 {
            let n = g.node(r);
            if n != hub {
                for o in [Op::DeleteNodeEdges(n), Op::DeleteNode(n)] {
                    g.note(&o);
                    ops.push(o);
                }
            }
        } else if w < 96 {
            let o = Op::CreateNode(vec![r.below(N_LABELS as u64) as i64]);
            g.note(&o);
            ops.push(o);
        } else if w < 97 {
            ops.push(Op::RefreshStats);
        } else if w < 98 {
            ops.push(Op::CreateIndex(r.below(N_KEYS as u64) as i64));
        } else {
            ops.push(r.pick(&[Op::Compact, Op::FreezeAll, Op::CompactIfNeeded]).clone());
        }
    }
    ops.truncate(len.max(ops.len().min(len)));
    ops
}

// ------------------------------------------------------------------------------------------------
// one trace

fn run_trace(out: &mut Out, r: &mut Rng, mode: Mode, ops: &[Op], obs_every: usize, tag: &str, heavy: bool) {
    run_trace_pr(out, r, mode, ops, obs_every, tag, heavy, &[], &[])
}

#[allow(clippy::too_many_arguments)]
fn run_trace_p(out: &mut Out, r: &mut Rng, mode: Mode, ops: &[Op], obs_every: usize, tag: &str, heavy: bool, forced: &[(i64, Value)]) {
    run_trace_pr(out, r, mode, ops, obs_every, tag, heavy, forced, &[])
}

#[allow(clippy::too_many_arguments)]
fn run_trace_pr(
    out: &mut Out,
    r: &mut Rng,
    mode: Mode,
    ops: &[Op],
    obs_every: usize,
    tag: &str,
    heavy: bool,
    forced: &[(i64, Value)],
    forced_ranges: &[(i64, Option<Value>, Option<Value>, bool, bool)],
) {
    let mut sut = Sut::new(mode);
    sut.forced = forced.to_vec();
    sut.forced_ranges = forced_ranges.to_vec();
    let mut items: Vec<String> = Vec::new();
    let mut opcoq: Vec<String> = Vec::new();
    let mut fails: Vec<(usize, Failure)> = Vec::new();
    let bw = cb(sut.backward());
    for (i, op) in ops.iter().enumerate() {
        let ret = sut.apply(op);
        // GrafeoDB::delete_node is its own model step (it detaches since 109e5bf); everything else is the
        // store operation.  The histories handed to the class predicates are GrafeoDB-level (`dop`).
        match (mode, op) {
            (Mode::Db, Op::DeleteNode(n)) => {
                items.push(format!("D {} {}", n, ret));
                opcoq.push(format!("(DbDeleteNode {})", n));
            }
            _ => {
                items.push(format!("E {} {}", op.coq(), ret));
                opcoq.push(format!("(Basic {})", op.coq()));
            }
        }
        let refreshed = matches!(op, Op::RefreshStats);
        if refreshed || (i + 1) % obs_every == 0 || i + 1 == ops.len() {
            // in the quick tier the observations in the middle of a long trace are light (fewer sampled
            // nodes, edges and probe values); the one at the end and those after a refresh are full
            let light = LIGHT.load(std::sync::atomic::Ordering::Relaxed) && heavy && !refreshed && i + 1 != ops.len();
            let o = observe(&sut, r, heavy, refreshed, light);
            items.extend(o.items);
            for f in o.fails {
                if !fails.iter().any(|(_, g)| g.class == f.class && kname(&g.kcoq) == kname(&f.kcoq)) {
                    fails.push((i + 1, f));
                }
            }
        }
    }
    let kinds = ops.iter().map(|o| o.short()).collect::<Vec<_>>().join(" ");
    let input = format!("{:?} {}", mode, kinds);
    let nontrivial = ops.iter().any(|o| o.is_delete()) && ops.iter().any(|o| o.is_label()) && ops.iter().any(|o| o.is_edge()) && ops.iter().any(|o| o.is_prop());
    let mut tags = vec![format!("mode:{:?}", mode), format!("gen:{}", tag), format!("len:{}", len_bucket(ops.len()))];
    let max_deg = (0..sut.n_nodes).map(|n| sut.sh_fwd.edges_from(NodeId::new(n)).len()).max().unwrap_or(0);
    tags.push(format!("maxdeg:{}", deg_bucket(max_deg)));
    if sut.sh_fwd.memory_stats().cold_entries > 0 {
        tags.push("cold-chunks".into());
    }
    for (name, f) in [
        ("has:compact", ops.iter().any(|o| matches!(o, Op::Compact | Op::CompactIfNeeded | Op::FreezeAll))),
        ("has:index", ops.iter().any(|o| matches!(o, Op::CreateIndex(_)))),
        ("has:delete-node", ops.iter().any(|o| matches!(o, Op::DeleteNode(_)))),
        ("has:self-loop", ops.iter().any(|o| matches!(o, Op::CreateEdge(a, b, _) if a == b))),
        ("has:epoch", ops.iter().any(|o| matches!(o, Op::NewEpoch))),
    ] {
        if f {
            tags.push(name.into());
        }
    }
    for (_, f) in &fails {
        tags.push(format!("oracle-fail:{}", if f.class.is_empty() { "unlisted" } else { f.class }));
    }
    // segments of SEG items: Coq's parser is quadratic in the length of one bracketed list
    let segs = items.chunks(SEG).map(|c| format!("[{}]", c.join(";"))).collect::<Vec<_>>().join(";");
    let term = format!("(chk_segs {} [{}])%Z", bw, segs);
    let show = format!("(diag_segs {} [{}])%Z", bw, segs);
    out.emit(&Case {
        kind: format!("trace:{:?}", mode),
        input: input.clone(),
        coq: Some(term),
        show: Some(show),
        oracle: if fails.is_empty() { Oracle::Ok } else { Oracle::Na },
        msg: String::new(),
        nontrivial,
        imp: format!("{} ops, {} items, {} nodes, {} edges", ops.len(), items.len(), sut.n_nodes, sut.edges.len()),
        tags,
        ..Default::default()
    });
    // every oracle failure is its own case: classified by the finding's class predicate in Coq
    for (upto, f) in fails {
        let opl = format!("[{}]", opcoq[..upto].join(";"));
        out.emit(&Case {
            kind: format!("oracle:{}", if f.class.is_empty() { "unlisted" } else { f.class }),
            input: format!("{:?} {}", mode, ops[..upto].iter().map(|o| o.short()).collect::<Vec<_>>().join(" ")),
            coq: None,
            oracle: Oracle::Fail,
            msg: f.what.clone(),
            kcoq: f.kcoq.as_ref().map(|k| format!("({})%Z", k.replace("BW", bw).replace("{OPS}", &opl))),
            kid: if f.class.is_empty() { None } else { Some(f.class.to_string()) },
            nontrivial,
            imp: f.what,
            tags: vec![],
            ..Default::default()
        });
    }
}

fn len_bucket(n: usize) -> &'static str {
    match n {
        0..=5 => "1-5",
        6..=20 => "6-20",
        21..=60 => "21-60",
        61..=200 => "61-200",
        _ => "201-600",
    }
}
fn deg_bucket(n: usize) -> &'static str {
    match n {
        0..=15 => "0-15",
        16..=63 => "16-63",
        64..=255 => "64-255",
        _ => "256+",
    }
}

// ------------------------------------------------------------------------------------------------
// the constants of adjacency.rs, measured through the public API of ChunkedAdjacency

fn measure_constants() -> (u64, u64, u64) {
    // delta compaction threshold: smallest k such that compact_if_needed() moves k delta entries
    // into a chunk (freeze_all() only freezes chunks, so cold_entries tells)
    let mut delta = 0;
    for k in 1..=300u64 {
        let a = ChunkedAdjacency::new();
        for i in 0..k {
            a.add_edge(NodeId::new(0), NodeId::new(1000 - i), EdgeId::new(i));
        }
        a.compact_if_needed();
        a.freeze_all();
        if a.memory_stats().cold_entries > 0 {
            delta = k;
            break;
        }
    }
    // chunk capacity: after compact()+freeze_all() of descending destinations every cold chunk is
    // sorted ascending: the length of the first ascending run is the chunk capacity
    let a = ChunkedAdjacency::new();
    for i in 0..1000u64 {
        a.add_edge(NodeId::new(0), NodeId::new(5000 - i), EdgeId::new(i));
    }
    a.compact();
    let cold_after_compact = a.memory_stats().cold_entries as u64;
    a.freeze_all();
    let es = a.edges_from(NodeId::new(0));
    let mut chunk = 1u64;
    while (chunk as usize) < es.len() && es[chunk as usize].0.as_u64() > es[chunk as usize - 1].0.as_u64() {
        chunk += 1;
    }
    // hot chunks kept: 1000 entries = ceil(1000/chunk) chunks; compact() leaves `kept` of them hot
    let nchunks = 1000u64.div_ceil(chunk);
    let cold_chunks = cold_after_compact / chunk;
    (chunk, delta, nchunks - cold_chunks)
}

// ------------------------------------------------------------------------------------------------
// corpus: the witnesses of the findings (fixed and open) and hand-made boundary histories

fn corpus(out: &mut Out, r: &mut Rng) {
    use Op::*;
    let i = |x: i64| Value::Int64(x);
    let f = |x: f64| Value::Float64(x);
    let all = [Mode::StoreBackward, Mode::StoreForwardOnly, Mode::Db];
    // C14-K1 (fixed by ebcbf15): delete_node left the node in the property index
    for m in all {
        run_trace_p(out, r, m, &[CreateNode(vec![0]), SetNodeProp(0, 1, i(5)), CreateIndex(1), DeleteNode(0)], 1, "corpus:K1", false, &[(1, i(5))]);
        run_trace_p(
            out,
            r,
            m,
            &[CreateIndex(0), CreateNode(vec![0, 1]), CreateNode(vec![]), SetNodeProp(0, 0, i(7)), SetNodeProp(1, 0, i(7)), DeleteNode(1), CreateNode(vec![1]), SetNodeProp(2, 0, i(7))],
            1,
            "corpus:K1",
            false,
            &[(0, i(7))],
        );
    }
    // C14-K2: non-detach delete_node leaves live edges pointing at a deleted node
    for m in all {
        run_trace(out, r, m, &[CreateNode(vec![0]), CreateNode(vec![1]), CreateEdge(0, 1, 0), DeleteNode(1)], 1, "corpus:K2", false);
        run_trace(out, r, m, &[CreateNode(vec![0]), CreateEdge(0, 0, 0), DeleteNode(0), RefreshStats], 1, "corpus:K2", false);
        // an edge created towards an id that never existed
        run_trace(out, r, m, &[CreateNode(vec![]), CreateEdge(0, 9, 1)], 1, "corpus:K2", false);
        // the detaching way is clean
        run_trace(out, r, m, &[CreateNode(vec![0]), CreateNode(vec![1]), CreateEdge(0, 1, 0), CreateEdge(1, 1, 2), DeleteNodeEdges(1), DeleteNode(1)], 1, "corpus:detach", false);
    }
    // C14-K3: index lookup (bit equality) vs scan (IEEE equality)
    let fl = [(1, f(f64::NAN)), (1, f(0.0)), (1, f(-0.0))];
    run_trace_p(out, r, Mode::StoreBackward, &[CreateNode(vec![]), SetNodeProp(0, 1, f(f64::NAN)), CreateIndex(1)], 1, "corpus:K3", false, &fl);
    run_trace_p(out, r, Mode::StoreBackward, &[CreateNode(vec![]), SetNodeProp(0, 1, f(0.0)), CreateIndex(1), CreateNode(vec![]), SetNodeProp(1, 1, f(-0.0))], 1, "corpus:K3", false, &fl);
    // C14-K4: Float 2^53 becomes the minimum, Int 2^53 compares Equal to it, query < Int 2^53+1
    run_trace_pr(
        out,
        r,
        Mode::StoreBackward,
        &[CreateNode(vec![]), CreateNode(vec![]), SetNodeProp(0, 1, f(9007199254740992.0)), SetNodeProp(1, 1, i(1 << 53))],
        1,
        "corpus:K4",
        false,
        &[(1, i((1 << 53) + 1)), (1, i(1 << 53))],
        &[(1, None, Some(i((1 << 53) + 1)), false, false), (1, None, Some(i((1 << 53) + 1)), false, true), (1, Some(i(1 << 53)), None, true, false)],
    );
    run_trace_p(
        out,
        r,
        Mode::Db,
        &[CreateNode(vec![]), CreateNode(vec![]), SetNodeProp(0, 1, f(-9007199254740992.0)), SetNodeProp(1, 1, i(-(1 << 53)))],
        1,
        "corpus:K4",
        false,
        &[(1, i(-(1 << 53) - 1))],
    );
    // mixed Int/Float below 2^53 is pruned correctly
    run_trace_p(
        out,
        r,
        Mode::StoreBackward,
        &[CreateNode(vec![]), CreateNode(vec![]), CreateNode(vec![]), SetNodeProp(0, 1, f(2.5)), SetNodeProp(1, 1, i(2)), SetNodeProp(2, 1, i(3))],
        1,
        "corpus:mixed-small",
        false,
        &[(1, i(2)), (1, i(3)), (1, f(2.5)), (1, f(3.0)), (1, i(4)), (1, f(1.5))],
    );
    // C14-K5 (repaired by 1879631: these traces must pass without an oracle failure): Ne pruning with a
    // second type / NaN in the column
    run_trace_p(out, r, Mode::StoreBackward, &[CreateNode(vec![]), CreateNode(vec![]), SetNodeProp(0, 1, i(1)), SetNodeProp(1, 1, f(f64::NAN))], 1, "corpus:K5", false, &[(1, i(1))]);
    run_trace_p(
        out,
        r,
        Mode::StoreBackward,
        &[CreateNode(vec![]), CreateNode(vec![]), SetNodeProp(0, 2, Value::String("a".into())), SetNodeProp(1, 2, i(1))],
        1,
        "corpus:K5",
        false,
        &[(2, Value::String("a".into()))],
    );
    // C14-K6: a property set on an id that is not a live node enters the index
    run_trace_p(out, r, Mode::StoreBackward, &[CreateIndex(0), CreateNode(vec![]), DeleteNode(0), SetNodeProp(0, 0, i(1)), SetNodeProp(5, 0, i(1))], 1, "corpus:K6", false, &[(0, i(1))]);
    // C14-K7: label change after a refresh is not seen by the next refresh
    for m in all {
        run_trace(out, r, m, &[CreateNode(vec![0]), RefreshStats, AddLabel(0, 1), RefreshStats, RemoveLabel(0, 0), RefreshStats, CreateNode(vec![]), RefreshStats], 1, "corpus:K7", false);
    }
    // adjacency: a one-entry cold chunk for destination 0 (the C15 DeltaBitPacked [0] case), exact
    // chunk boundaries, tombstones across hot/cold/delta
    let mut ops = vec![CreateNode(vec![]), CreateNode(vec![]), CreateEdge(1, 0, 0), Compact, FreezeAll, CreateEdge(1, 0, 1), CreateEdge(1, 1, 2), DeleteEdge(0), Compact, FreezeAll];
    run_trace(out, r, Mode::StoreBackward, &ops, 1, "corpus:cold0", false);
    ops = vec![CreateNode(vec![2]), CreateNode(vec![])];
    for k in 0..64 {
        ops.push(CreateEdge(0, (k % 2) as u64, 0));
    }
    ops.push(Compact);
    ops.push(CreateEdge(0, 1, 1)); // chunk is full: goes to delta
    ops.push(Compact);
    ops.push(CreateEdge(0, 0, 1)); // last chunk has room: goes into the chunk
    ops.push(DeleteEdge(3));
    ops.push(DeleteEdge(64));
    ops.push(DeleteEdge(65));
    ops.push(FreezeAll);
    ops.push(CreateEdge(0, 1, 2));
    run_trace(out, r, Mode::StoreBackward, &ops, 8, "corpus:chunk64", true);
    // epochs: a node deleted at a later epoch, labels re-added
    run_trace(out, r, Mode::StoreBackward, &[CreateNode(vec![0]), NewEpoch, CreateNode(vec![0]), DeleteNode(0), NewEpoch, AddLabel(0, 1), AddLabel(1, 1), RemoveLabel(1, 0), DeleteNode(0)], 1, "corpus:epoch", false);
}

fn main() {
    let a = parse_args();
    quiet_panics();
    let mut out = Out::create(a.out.as_deref());
    let mut r = Rng::new(a.seed);
    // constants
    let (chunk, delta, kept) = measure_constants();
    out.emit(&Case {
        kind: "constants".into(),
        input: "adjacency.rs constants measured through ChunkedAdjacency".into(),
        coq: Some(format!("(chk_constants {} {} {})%Z", chunk, delta, kept)),
        oracle: Oracle::Ok,
        nontrivial: false,
        imp: format!("chunk_capacity={} delta_compaction_threshold={} hot_chunks_kept={}", chunk, delta, kept),
        tags: vec![format!("chunk:{}", chunk), format!("delta:{}", delta), format!("hot-kept:{}", kept)],
        ..Default::default()
    });
    corpus(&mut out, &mut r);
    let thorough = a.tier == "thorough";
    LIGHT.store(!thorough, std::sync::atomic::Ordering::Relaxed);
    for c in 0..a.cases {
        let mode = match r.below(20) {
            0..=8 => Mode::StoreBackward,
            9..=14 => Mode::StoreForwardOnly,
            _ => Mode::Db,
        };
        let w = r.below(100);
        // one trace in 16 is a hub trace (deterministically, so that every run has them)
        if c % 16 == 3 {
            // hub trace
            let len = 330 + r.below(271) as usize;
            let ops = gen_hub_ops(&mut r, len);
            let every = if thorough { 4 + 4 * (c % 2) } else { 32 };
            run_trace(&mut out, &mut r, mode, &ops, every as usize, "hub", true);
        } else {
            let len = if w < 40 {
                1 + r.below(12) as usize
            } else if w < 80 {
                10 + r.below(40) as usize
            } else {
                50 + r.below(150) as usize
            };
            let ops = gen_ops(&mut r, len);
            let every = if len <= 12 {
                1
            } else if thorough {
                if len <= 30 { 1 } else { 3 }
            } else if len <= 60 {
                8
            } else {
                16
            };
            run_trace(&mut out, &mut r, mode, &ops, every, "mixed", len > 60);
        }
    }
    out.finish();
}
