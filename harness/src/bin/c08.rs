//! C08 / C10 — read queries against the graph-pattern semantics, and physical configurations.
//!
//! Builds generated graphs through the public API, renders generated abstract core queries in
//! GQL / Cypher / Gremlin / GraphQL, runs them through `Session::execute*`, dumps the optimized
//! logical plan each front end produced (translate -> bind -> optimize, the same calls as
//! session.rs) as a Coq term of `GV.Query.Pattern.lop`, and emits per execution
//!   coq  : chk_run   (physical model of the dumped plan == engine rows)        correspondence
//!   orc  : orc_answer (engine rows == declarative answer of the abstract query) C08 oracle
//!          orc_same   (two executions of one text agree)                        C10 oracle
//!   ks   : candidate finding classes [[id, coq term], ...] (decided in Coq by the check)
use grafeo_common::types::{EdgeId, NodeId, Value};
use grafeo_engine::query::plan::*;
use grafeo_engine::query::{binder::Binder, optimizer::Optimizer};
use grafeo_engine::{Config, GrafeoDB};
use gv_harness::*;
use std::collections::{BTreeMap, BTreeSet};
use std::fmt::Write as _;
use std::io::Write as _;

// ------------------------------------------------------------------------------------------ values
#[derive(Clone, Debug, PartialEq)]
enum V {
    Null,
    Bool(bool),
    Int(i64),
    /// halves: value = h / 2 (exact in f64)
    Half(i64),
    Str(String),
}
impl V {
    fn to_value(&self) -> Value {
        match self {
            V::Null => Value::Null,
            V::Bool(b) => Value::Bool(*b),
            V::Int(i) => Value::Int64(*i),
            V::Half(h) => Value::Float64(*h as f64 / 2.0),
            V::Str(s) => Value::String(s.as_str().into()),
        }
    }
    fn coq(&self) -> String {
        value_coq(&self.to_value()).unwrap()
    }
    /// literal in GQL / Cypher text
    fn lit(&self) -> String {
        match self {
            V::Null => "null".into(),
            V::Bool(b) => format!("{b}"),
            V::Int(i) => format!("{i}"),
            V::Half(h) => format!("{:.1}", *h as f64 / 2.0),
            V::Str(s) => format!("'{s}'"),
        }
    }
}
fn cstr(s: &str) -> Option<String> {
    if s.chars().all(|c| c.is_ascii_alphanumeric() || "_.()* -".contains(c)) {
        Some(format!("\"{s}\"%string"))
    } else {
        None
    }
}
fn cs(s: &str) -> String {
    cstr(s).unwrap_or_else(|| "\"?\"%string".into())
}
/// exact rational of a finite f64: (n, d) with d = 2^k, lowest terms
fn f64_ratio(f: f64) -> Option<(i128, i128)> {
    if !f.is_finite() {
        return None;
    }
    if f == 0.0 {
        return Some((0, 1));
    }
    let bits = f.to_bits();
    let sign: i128 = if bits >> 63 == 1 { -1 } else { 1 };
    let exp = ((bits >> 52) & 0x7ff) as i64;
    let frac = (bits & ((1u64 << 52) - 1)) as i128;
    let (mut m, mut e) = if exp == 0 { (frac, -1074i64) } else { (frac | (1i128 << 52), exp - 1075) };
    while m % 2 == 0 && e < 0 {
        m /= 2;
        e += 1;
    }
    if e >= 0 {
        if e > 60 {
            return None;
        }
        Some((sign * (m << e), 1))
    } else {
        if -e > 100 {
            return None;
        }
        Some((sign * m, 1i128 << (-e)))
    }
}
fn value_coq(v: &Value) -> Option<String> {
    Some(match v {
        Value::Null => "VNull".into(),
        Value::Bool(b) => format!("(VBool {b})"),
        Value::Int64(i) => format!("(VInt ({i}))"),
        Value::Float64(f) => {
            let (n, d) = f64_ratio(*f)?;
            format!("(VFlt ({n}) ({d}))")
        }
        Value::String(s) => format!("(VStr {})", cstr(s.as_str())?),
        Value::List(l) => {
            let mut items = vec![];
            for x in l.iter() {
                items.push(value_coq(x)?);
            }
            format!("(VList {})", coq::list(items))
        }
        _ => return None,
    })
}
fn opt_s(o: &Option<String>) -> String {
    match o {
        Some(s) => format!("(Some {})", cs(s)),
        None => "None".into(),
    }
}

// ------------------------------------------------------------------------------------------ world
#[derive(Clone, Debug)]
struct GNode {
    id: u64,
    labels: Vec<String>,
    props: BTreeMap<String, V>,
}
#[derive(Clone, Debug)]
struct GEdge {
    id: u64,
    src: u64,
    dst: u64,
    ty: String,
    props: BTreeMap<String, V>,
}
/// a build script: replayable on a fresh database (equal graphs under different configurations)
#[derive(Clone, Debug)]
enum Op {
    Node(Vec<String>, Vec<(String, V)>),
    Edge(usize, usize, String, Vec<(String, V)>), // indexes into the node list of the script
    SetNode(usize, String, V),
    DelEdge(usize),
    DelNode(usize), // detach: incident edges are deleted first
    Index(String),
    DropIndex(String),
}
struct World {
    db: GrafeoDB,
    factorized: bool,
    nids: Vec<NodeId>,
    eids: Vec<EdgeId>,
    nodes: BTreeMap<u64, GNode>,
    edges: BTreeMap<u64, GEdge>,
    indexed: BTreeSet<String>,
    zcols: BTreeMap<String, (Vec<V>, bool)>,
}
impl World {
    fn new(factorized: bool) -> World {
        let db = if factorized {
            GrafeoDB::new_in_memory()
        } else {
            GrafeoDB::with_config(Config::in_memory().without_factorized_execution()).expect("db")
        };
        World {
            db,
            factorized,
            nids: vec![],
            eids: vec![],
            nodes: BTreeMap::new(),
            edges: BTreeMap::new(),
            indexed: BTreeSet::new(),
            zcols: BTreeMap::new(),
        }
    }
    fn build(factorized: bool, ops: &[Op]) -> World {
        let mut w = World::new(factorized);
        for o in ops {
            w.apply(o);
        }
        w
    }
    fn set_node(&mut self, id: NodeId, k: &str, v: &V) {
        self.db.set_node_property(id, k, v.to_value());
        self.nodes.get_mut(&id.0).unwrap().props.insert(k.to_string(), v.clone());
        self.zcols.entry(k.to_string()).or_insert((vec![], false)).0.push(v.clone());
    }
    fn del_edge_id(&mut self, e: EdgeId) {
        if self.edges.remove(&e.0).is_some() {
            self.db.delete_edge(e);
        }
    }
    fn apply(&mut self, o: &Op) {
        match o {
            Op::Node(labels, props) => {
                let ls: Vec<&str> = labels.iter().map(|s| s.as_str()).collect();
                let id = self.db.create_node(&ls);
                self.nids.push(id);
                self.nodes.insert(id.0, GNode { id: id.0, labels: labels.clone(), props: BTreeMap::new() });
                for (k, v) in props {
                    self.set_node(id, k, v);
                }
            }
            Op::Edge(s, d, ty, props) => {
                let (s, d) = (self.nids[*s], self.nids[*d]);
                if !self.nodes.contains_key(&s.0) || !self.nodes.contains_key(&d.0) {
                    return;
                }
                let id = self.db.create_edge(s, d, ty);
                self.eids.push(id);
                let mut pm = BTreeMap::new();
                for (k, v) in props {
                    self.db.set_edge_property(id, k, v.to_value());
                    pm.insert(k.clone(), v.clone());
                }
                self.edges.insert(id.0, GEdge { id: id.0, src: s.0, dst: d.0, ty: ty.clone(), props: pm });
            }
            Op::SetNode(i, k, v) => {
                let id = self.nids[*i];
                if self.nodes.contains_key(&id.0) {
                    self.set_node(id, k, v);
                }
            }
            Op::DelEdge(i) => {
                if let Some(e) = self.eids.get(*i).copied() {
                    self.del_edge_id(e);
                }
            }
            Op::DelNode(i) => {
                let id = self.nids[*i];
                if !self.nodes.contains_key(&id.0) {
                    return;
                }
                let inc: Vec<u64> =
                    self.edges.values().filter(|e| e.src == id.0 || e.dst == id.0).map(|e| e.id).collect();
                for e in inc {
                    self.del_edge_id(EdgeId(e));
                }
                let n = self.nodes.remove(&id.0).unwrap();
                for k in n.props.keys() {
                    if let Some(z) = self.zcols.get_mut(k) {
                        z.1 = true;
                    }
                }
                self.db.delete_node(id);
            }
            Op::Index(k) => {
                self.db.create_property_index(k);
                self.indexed.insert(k.clone());
            }
            Op::DropIndex(k) => {
                self.db.drop_property_index(k);
                self.indexed.remove(k);
            }
        }
    }
    fn store_coq(&self) -> String {
        let props = |p: &BTreeMap<String, V>| coq::list(p.iter().map(|(k, v)| format!("({}, {})", cs(k), v.coq())));
        let ns = coq::list(self.nodes.values().map(|n| {
            format!("mkNode ({}) {} {}", n.id, coq::list(n.labels.iter().map(|l| cs(l))), props(&n.props))
        }));
        let es = coq::list(self.edges.values().map(|e| {
            format!("mkEdge ({}) ({}) ({}) {} {}", e.id, e.src, e.dst, cs(&e.ty), props(&e.props))
        }));
        let ix = coq::list(self.indexed.iter().map(|k| cs(k)));
        let zc = coq::list(self.zcols.iter().map(|(k, (h, d))| {
            format!("({}, mkZcol {} {})", cs(k), coq::list(h.iter().map(|v| v.coq())), d)
        }));
        format!("(mkStore {ns} {es} {ix} {zc})")
    }
    fn describe(&self) -> String {
        let mut s = String::new();
        for n in self.nodes.values() {
            let _ = write!(s, "n{}:{}{:?} ", n.id, n.labels.join(":"), n.props);
        }
        for e in self.edges.values() {
            let _ = write!(s, "e{}:{}-{}->{}{:?} ", e.id, e.src, e.ty, e.dst, e.props);
        }
        if !self.indexed.is_empty() {
            let _ = write!(s, "idx{:?} ", self.indexed);
        }
        let _ = write!(s, "fact={}", self.factorized);
        s
    }
    fn has_selfloop_or_parallel(&self) -> bool {
        let mut seen = BTreeSet::new();
        for e in self.edges.values() {
            if e.src == e.dst || !seen.insert((e.src, e.dst)) {
                return true;
            }
        }
        false
    }
    fn acyclic_forward(&self) -> bool {
        self.edges.values().all(|e| e.src < e.dst)
    }
}

// ------------------------------------------------------------------------------------------ plan dump
fn expr_coq(e: &LogicalExpression) -> Option<String> {
    Some(match e {
        LogicalExpression::Literal(v) => format!("(ELit {})", value_coq(v)?),
        LogicalExpression::Variable(x) => format!("(EVar {})", cstr(x)?),
        LogicalExpression::Property { variable, property } => format!("(EProp {} {})", cstr(variable)?, cstr(property)?),
        LogicalExpression::Binary { left, op, right } => {
            if let (BinaryOp::In, LogicalExpression::Literal(Value::String(l)), LogicalExpression::Labels(x)) =
                (op, left.as_ref(), right.as_ref())
            {
                return Some(format!("(ELabelIn {} {})", cstr(l.as_str())?, cstr(x)?));
            }
            let (a, b) = (expr_coq(left)?, expr_coq(right)?);
            match op {
                BinaryOp::Eq => format!("(ECmp OEq {a} {b})"),
                BinaryOp::Ne => format!("(ECmp ONe {a} {b})"),
                BinaryOp::Lt => format!("(ECmp OLt {a} {b})"),
                BinaryOp::Le => format!("(ECmp OLe {a} {b})"),
                BinaryOp::Gt => format!("(ECmp OGt {a} {b})"),
                BinaryOp::Ge => format!("(ECmp OGe {a} {b})"),
                BinaryOp::And => format!("(EAnd {a} {b})"),
                BinaryOp::Or => format!("(EOr {a} {b})"),
                _ => return None,
            }
        }
        LogicalExpression::Unary { op, operand } => {
            let a = expr_coq(operand)?;
            match op {
                UnaryOp::Not => format!("(ENot {a})"),
                UnaryOp::IsNull => format!("(EIsNull {a})"),
                UnaryOp::IsNotNull => format!("(EIsNotNull {a})"),
                _ => return None,
            }
        }
        LogicalExpression::FunctionCall { name, args, .. } => {
            if name.eq_ignore_ascii_case("haslabel") && args.len() == 2 {
                if let (LogicalExpression::Variable(x), LogicalExpression::Literal(Value::String(l))) = (&args[0], &args[1]) {
                    return Some(format!("(EHasLabel {} {})", cstr(x)?, cstr(l.as_str())?));
                }
            }
            return None;
        }
        _ => return None,
    })
}
fn items_coq<'a, I: Iterator<Item = (&'a LogicalExpression, &'a Option<String>)>>(it: I) -> Option<String> {
    let mut v = vec![];
    for (e, a) in it {
        if let Some(a) = a {
            cstr(a)?;
        }
        v.push(format!("({}, {})", expr_coq(e)?, opt_s(a)));
    }
    Some(coq::list(v))
}
fn plan_coq(p: &LogicalOperator) -> Option<String> {
    Some(match p {
        LogicalOperator::NodeScan(s) => {
            if s.input.is_some() {
                return None;
            }
            if let Some(l) = &s.label {
                cstr(l)?;
            }
            format!("(LScan {} {})", cstr(&s.variable)?, opt_s(&s.label))
        }
        LogicalOperator::Expand(x) => {
            if x.path_alias.is_some() {
                return None;
            }
            let d = match x.direction {
                ExpandDirection::Outgoing => "Out",
                ExpandDirection::Incoming => "In",
                ExpandDirection::Both => "Both",
            };
            if x.min_hops > 50 || x.max_hops.is_some_and(|m| m > 50) {
                return None;
            }
            let mx = match x.max_hops {
                Some(m) => format!("(Some {}%nat)", m),
                None => "None".into(),
            };
            if let Some(t) = &x.edge_type {
                cstr(t)?;
            }
            if let Some(t) = &x.edge_variable {
                cstr(t)?;
            }
            format!(
                "(LExpand {} {} {} {} {} {}%nat {} {})",
                cstr(&x.from_variable)?,
                cstr(&x.to_variable)?,
                opt_s(&x.edge_variable),
                d,
                opt_s(&x.edge_type),
                x.min_hops,
                mx,
                plan_coq(&x.input)?
            )
        }
        LogicalOperator::Filter(f) => format!("(LFilter {} {})", expr_coq(&f.predicate)?, plan_coq(&f.input)?),
        LogicalOperator::Return(r) => format!(
            "(LReturn {} {} {})",
            items_coq(r.items.iter().map(|i| (&i.expression, &i.alias)))?,
            r.distinct,
            plan_coq(&r.input)?
        ),
        LogicalOperator::Project(r) => format!(
            "(LProject {} {})",
            items_coq(r.projections.iter().map(|i| (&i.expression, &i.alias)))?,
            plan_coq(&r.input)?
        ),
        LogicalOperator::Sort(s) => {
            let mut ks = vec![];
            for k in &s.keys {
                ks.push(format!("({}, {})", expr_coq(&k.expression)?, k.order == SortOrder::Descending));
            }
            format!("(LSort {} {})", coq::list(ks), plan_coq(&s.input)?)
        }
        LogicalOperator::Skip(s) => {
            if s.count > 4000 {
                return None;
            }
            format!("(LSkip {}%nat {})", s.count, plan_coq(&s.input)?)
        }
        LogicalOperator::Limit(s) => {
            if s.count > 4000 {
                return None;
            }
            format!("(LLimit {}%nat {})", s.count, plan_coq(&s.input)?)
        }
        LogicalOperator::Distinct(d) => {
            if d.columns.is_some() {
                return None;
            }
            format!("(LDistinct {})", plan_coq(&d.input)?)
        }
        LogicalOperator::Aggregate(a) => {
            if a.having.is_some() {
                return None;
            }
            let mut gb = vec![];
            for g in &a.group_by {
                gb.push(expr_coq(g)?);
            }
            let mut ags = vec![];
            for x in &a.aggregates {
                let f = match x.function {
                    AggregateFunction::Count => "ACount",
                    AggregateFunction::CountNonNull => "ACountNN",
                    AggregateFunction::Sum => "ASum",
                    AggregateFunction::Avg => "AAvg",
                    AggregateFunction::Min => "AMin",
                    AggregateFunction::Max => "AMax",
                    AggregateFunction::Collect => "ACollect",
                    _ => return None,
                };
                let arg = match &x.expression {
                    Some(e) => format!("(Some {})", expr_coq(e)?),
                    None => "None".into(),
                };
                if let Some(a) = &x.alias {
                    cstr(a)?;
                }
                ags.push(format!("(mkAgg {f} {arg} {} {})", x.distinct, opt_s(&x.alias)));
            }
            format!("(LAggregate {} {} {})", coq::list(gb), coq::list(ags), plan_coq(&a.input)?)
        }
        _ => return None,
    })
}

// ------------------------------------------------------------------------------------------ abstract queries
#[derive(Clone, Copy, Debug, PartialEq)]
enum Dir {
    Out,
    In,
    Both,
}
#[derive(Clone, Debug)]
struct NPat {
    var: String,
    labels: Vec<String>,
}
#[derive(Clone, Debug, PartialEq)]
enum HLen {
    One,
    Var(u32, Option<u32>),
}
#[derive(Clone, Debug)]
struct Hop {
    dir: Dir,
    ty: Option<String>,
    evar: Option<String>,
    len: HLen,
    to: NPat,
}
#[derive(Clone, Copy, Debug, PartialEq)]
enum Cmp {
    Eq,
    Ne,
    Lt,
    Le,
    Gt,
    Ge,
}
#[derive(Clone, Debug)]
enum Ex {
    Lit(V),
    Var(String),
    Prop(String, String),
    Cmp(Cmp, Box<Ex>, Box<Ex>),
    And(Box<Ex>, Box<Ex>),
    Or(Box<Ex>, Box<Ex>),
    Not(Box<Ex>),
    IsNull(Box<Ex>),
    IsNotNull(Box<Ex>),
}
#[derive(Clone, Copy, Debug, PartialEq)]
enum AggFn {
    Count,
    Sum,
    Avg,
    Min,
    Max,
    Collect,
}
#[derive(Clone, Debug)]
struct Agg {
    f: AggFn,
    arg: Ex,
}
#[derive(Clone, Debug)]
enum Ret {
    Plain(Vec<Ex>, bool),
    Agg(Vec<Ex>, Vec<Agg>),
}
#[derive(Clone, Debug)]
struct Query {
    start: NPat,
    hops: Vec<Hop>,
    wher: Option<Ex>,
    ret: Ret,
    order: Vec<(Ex, bool)>, // OEnv keys (expression over pattern variables, descending?)
    skip: Option<usize>,
    limit: Option<usize>,
}
impl Cmp {
    fn coq(self) -> &'static str {
        match self {
            Cmp::Eq => "OEq",
            Cmp::Ne => "ONe",
            Cmp::Lt => "OLt",
            Cmp::Le => "OLe",
            Cmp::Gt => "OGt",
            Cmp::Ge => "OGe",
        }
    }
    fn text(self) -> &'static str {
        match self {
            Cmp::Eq => "=",
            Cmp::Ne => "<>",
            Cmp::Lt => "<",
            Cmp::Le => "<=",
            Cmp::Gt => ">",
            Cmp::Ge => ">=",
        }
    }
}
impl Ex {
    fn coq(&self) -> String {
        match self {
            Ex::Lit(v) => format!("(ELit {})", v.coq()),
            Ex::Var(x) => format!("(EVar {})", cs(x)),
            Ex::Prop(x, k) => format!("(EProp {} {})", cs(x), cs(k)),
            Ex::Cmp(o, a, b) => format!("(ECmp {} {} {})", o.coq(), a.coq(), b.coq()),
            Ex::And(a, b) => format!("(EAnd {} {})", a.coq(), b.coq()),
            Ex::Or(a, b) => format!("(EOr {} {})", a.coq(), b.coq()),
            Ex::Not(a) => format!("(ENot {})", a.coq()),
            Ex::IsNull(a) => format!("(EIsNull {})", a.coq()),
            Ex::IsNotNull(a) => format!("(EIsNotNull {})", a.coq()),
        }
    }
    /// GQL / Cypher text
    fn text(&self) -> String {
        match self {
            Ex::Lit(v) => v.lit(),
            Ex::Var(x) => x.clone(),
            Ex::Prop(x, k) => format!("{x}.{k}"),
            Ex::Cmp(o, a, b) => format!("{} {} {}", a.text(), o.text(), b.text()),
            Ex::And(a, b) => format!("({} AND {})", a.text(), b.text()),
            Ex::Or(a, b) => format!("({} OR {})", a.text(), b.text()),
            Ex::Not(a) => format!("NOT ({})", a.text()),
            Ex::IsNull(a) => format!("{} IS NULL", a.text()),
            Ex::IsNotNull(a) => format!("{} IS NOT NULL", a.text()),
        }
    }
    fn has_isnull(&self) -> bool {
        match self {
            Ex::IsNull(_) | Ex::IsNotNull(_) => true,
            Ex::Cmp(_, a, b) | Ex::And(a, b) | Ex::Or(a, b) => a.has_isnull() || b.has_isnull(),
            Ex::Not(a) => a.has_isnull(),
            _ => false,
        }
    }
}
impl NPat {
    fn coq(&self) -> String {
        format!("(mkNP {} {})", cs(&self.var), coq::list(self.labels.iter().map(|l| cs(l))))
    }
    fn text(&self) -> String {
        let mut s = format!("({}", self.var);
        for l in &self.labels {
            let _ = write!(s, ":{l}");
        }
        s.push(')');
        s
    }
}
impl Query {
    fn coq(&self) -> String {
        let hops = coq::list(self.hops.iter().map(|h| {
            let d = match h.dir {
                Dir::Out => "Out",
                Dir::In => "In",
                Dir::Both => "Both",
            };
            let len = match &h.len {
                HLen::One => "HOne".to_string(),
                HLen::Var(a, Some(b)) => format!("(HVar {a}%nat (Some {b}%nat))"),
                HLen::Var(a, None) => format!("(HVar {a}%nat None)"),
            };
            format!("mkHop {d} {} {} {len} {}", opt_s(&h.ty), opt_s(&h.evar), h.to.coq())
        }));
        let w = match &self.wher {
            Some(e) => format!("(Some {})", e.coq()),
            None => "None".into(),
        };
        let ret = match &self.ret {
            Ret::Plain(items, d) => format!("(RPlain {} {d})", coq::list(items.iter().map(|e| e.coq()))),
            Ret::Agg(keys, aggs) => format!(
                "(RAgg {} {})",
                coq::list(keys.iter().map(|e| e.coq())),
                coq::list(aggs.iter().map(|a| {
                    let f = match a.f {
                        AggFn::Count => "ACountNN",
                        AggFn::Sum => "ASum",
                        AggFn::Avg => "AAvg",
                        AggFn::Min => "AMin",
                        AggFn::Max => "AMax",
                        AggFn::Collect => "ACollect",
                    };
                    format!("mkAgg {f} (Some {}) false None", a.arg.coq())
                }))
            ),
        };
        let ord = coq::list(self.order.iter().map(|(e, d)| format!("OEnv {} {d}", e.coq())));
        let on = |o: &Option<usize>| match o {
            Some(n) => format!("(Some {n}%nat)"),
            None => "None".into(),
        };
        format!(
            "(mkQ (mkPat {} {hops}) {w} {ret} {ord} {} {})",
            self.start.coq(),
            on(&self.skip),
            on(&self.limit)
        )
    }
    fn pattern_text(&self) -> String {
        let mut s = self.start.text();
        for h in &self.hops {
            let mut inner = String::new();
            if let Some(r) = &h.evar {
                inner.push_str(r);
            }
            if let Some(t) = &h.ty {
                let _ = write!(inner, ":{t}");
            }
            match &h.len {
                HLen::One => {}
                HLen::Var(a, Some(b)) => {
                    let _ = write!(inner, "*{a}..{b}");
                }
                HLen::Var(1, None) => inner.push('*'),
                HLen::Var(a, None) => {
                    let _ = write!(inner, "*{a}..");
                }
            }
            let (l, r) = match h.dir {
                Dir::Out => ("-", "->"),
                Dir::In => ("<-", "-"),
                Dir::Both => ("-", "-"),
            };
            let _ = write!(s, "{l}[{inner}]{r}{}", h.to.text());
        }
        s
    }
    /// GQL and Cypher share this text (ORDER BY on expressions over the pattern variables)
    fn gql_text(&self) -> String {
        let mut s = format!("MATCH {}", self.pattern_text());
        if let Some(w) = &self.wher {
            let _ = write!(s, " WHERE {}", w.text());
        }
        s.push_str(" RETURN ");
        match &self.ret {
            Ret::Plain(items, d) => {
                if *d {
                    s.push_str("DISTINCT ");
                }
                s.push_str(&items.iter().map(|e| e.text()).collect::<Vec<_>>().join(", "));
            }
            Ret::Agg(keys, aggs) => {
                let mut parts: Vec<String> = keys.iter().map(|e| e.text()).collect();
                for a in aggs {
                    let f = match a.f {
                        AggFn::Count => "count",
                        AggFn::Sum => "sum",
                        AggFn::Avg => "avg",
                        AggFn::Min => "min",
                        AggFn::Max => "max",
                        AggFn::Collect => "collect",
                    };
                    parts.push(format!("{f}({})", a.arg.text()));
                }
                s.push_str(&parts.join(", "));
            }
        }
        if !self.order.is_empty() {
            let ks: Vec<String> =
                self.order.iter().map(|(e, d)| format!("{}{}", e.text(), if *d { " DESC" } else { "" })).collect();
            let _ = write!(s, " ORDER BY {}", ks.join(", "));
        }
        if let Some(n) = self.skip {
            let _ = write!(s, " SKIP {n}");
        }
        if let Some(n) = self.limit {
            let _ = write!(s, " LIMIT {n}");
        }
        s
    }
    fn vars_node(&self) -> Vec<String> {
        let mut v = vec![self.start.var.clone()];
        v.extend(self.hops.iter().map(|h| h.to.var.clone()));
        v
    }
    fn has_expand(&self) -> bool {
        !self.hops.is_empty()
    }
}

// ------------------------------------------------------------------------------------------ execution
#[derive(Clone, Copy, Debug, PartialEq)]
enum Lang {
    Gql,
    Cypher,
    Gremlin,
    Graphql,
}
impl Lang {
    fn name(self) -> &'static str {
        match self {
            Lang::Gql => "gql",
            Lang::Cypher => "cypher",
            Lang::Gremlin => "gremlin",
            Lang::Graphql => "graphql",
        }
    }
    fn coq(self) -> &'static str {
        match self {
            Lang::Gql => "LGql",
            Lang::Cypher => "LCypher",
            Lang::Gremlin => "LGremlin",
            Lang::Graphql => "LGraphql",
        }
    }
}
#[derive(Clone)]
struct Obs {
    rows: Option<(Vec<String>, Vec<Vec<Value>>)>,
    err: String,
}
impl Obs {
    fn coq(&self) -> Option<String> {
        match &self.rows {
            None => Some("ObsErr".into()),
            Some((cols, rows)) => {
                let mut rs = vec![];
                for r in rows {
                    let mut vs = vec![];
                    for v in r {
                        vs.push(value_coq(v)?);
                    }
                    rs.push(coq::list(vs));
                }
                Some(format!("(ObsRows {} {})", coq::list(cols.iter().map(|c| cs(c))), coq::list(rs)))
            }
        }
    }
    fn brief(&self) -> String {
        match &self.rows {
            None => format!("ERR {}", self.err.lines().next().unwrap_or("")),
            Some((c, r)) => {
                let mut s = format!("{:?} {} rows:", c, r.len());
                for row in r.iter().take(12) {
                    let _ = write!(s, " {:?}", row);
                }
                s
            }
        }
    }
}
/// translate -> bind -> optimize exactly as session.rs does on a cache miss
fn compile(w: &World, lang: Lang, text: &str) -> Result<LogicalPlan, String> {
    let r = catch(std::panic::AssertUnwindSafe(|| -> Result<LogicalPlan, String> {
        let lp = match lang {
            Lang::Gql => grafeo_engine::query::gql_translator::translate(text),
            Lang::Cypher => grafeo_engine::query::cypher_translator::translate(text),
            Lang::Gremlin => grafeo_engine::query::gremlin_translator::translate(text),
            Lang::Graphql => grafeo_engine::query::graphql_translator::translate(text),
        }
        .map_err(|e| e.to_string())?;
        let mut b = Binder::new();
        b.bind(&lp).map_err(|e| e.to_string())?;
        Optimizer::from_store(w.db.store()).optimize(lp).map_err(|e| e.to_string())
    }));
    match r {
        Ok(x) => x,
        Err(p) => Err(format!("PANIC {p}")),
    }
}
fn execute(w: &World, lang: Lang, text: &str) -> Obs {
    let s = w.db.session();
    let r = catch(std::panic::AssertUnwindSafe(|| match lang {
        Lang::Gql => s.execute(text),
        Lang::Cypher => s.execute_cypher(text),
        Lang::Gremlin => s.execute_gremlin(text),
        Lang::Graphql => s.execute_graphql(text),
    }));
    match r {
        Ok(Ok(q)) => Obs { rows: Some((q.columns.clone(), q.rows.clone())), err: String::new() },
        Ok(Err(e)) => Obs { rows: None, err: e.to_string() },
        Err(p) => Obs { rows: None, err: format!("PANIC {p}") },
    }
}
fn opts_coq(w: &World) -> String {
    format!("(opts_engine {})", w.factorized)
}

/// which physical paths the planner takes for this plan on this store (for the evidence tags)
fn path_tags(w: &World, p: &LogicalOperator, tags: &mut Vec<String>) {
    fn chain_len(p: &LogicalOperator) -> usize {
        match p {
            LogicalOperator::Expand(x) if x.min_hops == 1 && x.max_hops == Some(1) => 1 + chain_len(&x.input),
            _ => 0,
        }
    }
    fn eq_keys(e: &LogicalExpression, x: &str, out: &mut Vec<String>) {
        if let LogicalExpression::Binary { left, op, right } = e {
            match op {
                BinaryOp::And => {
                    eq_keys(left, x, out);
                    eq_keys(right, x, out);
                }
                BinaryOp::Eq => match (left.as_ref(), right.as_ref()) {
                    (LogicalExpression::Property { variable, property }, LogicalExpression::Literal(_))
                    | (LogicalExpression::Literal(_), LogicalExpression::Property { variable, property })
                        if variable == x =>
                    {
                        out.push(property.clone())
                    }
                    _ => {}
                },
                _ => {}
            }
        }
    }
    fn is_range(e: &LogicalExpression) -> bool {
        match e {
            LogicalExpression::Binary { left, op, right } => match op {
                BinaryOp::Lt | BinaryOp::Le | BinaryOp::Gt | BinaryOp::Ge => matches!(
                    (left.as_ref(), right.as_ref()),
                    (LogicalExpression::Property { .. }, LogicalExpression::Literal(_))
                        | (LogicalExpression::Literal(_), LogicalExpression::Property { .. })
                ),
                BinaryOp::And => is_range(left) && is_range(right),
                _ => false,
            },
            _ => false,
        }
    }
    match p {
        LogicalOperator::Expand(x) => {
            let c = chain_len(p);
            if c >= 2 {
                tags.push(if w.factorized { "path:factorized-chain".into() } else { "path:flat-chain".into() });
            } else if c == 0 {
                tags.push("path:varlen-expand".into());
            } else {
                tags.push("path:expand".into());
            }
            let mut q: &LogicalOperator = p;
            while let LogicalOperator::Expand(y) = q {
                if !(y.min_hops == 1 && y.max_hops == Some(1)) {
                    break;
                }
                q = &y.input;
            }
            if c >= 2 {
                path_tags(w, q, tags);
            } else {
                path_tags(w, &x.input, tags);
            }
        }
        LogicalOperator::Filter(f) => {
            if let LogicalOperator::NodeScan(s) = f.input.as_ref() {
                let mut ks = vec![];
                eq_keys(&f.predicate, &s.variable, &mut ks);
                if ks.iter().any(|k| w.indexed.contains(k)) {
                    tags.push("path:index".into());
                } else if is_range(&f.predicate) {
                    tags.push("path:range".into());
                } else {
                    tags.push("path:scan-filter".into());
                }
            } else {
                tags.push("path:filter".into());
            }
            path_tags(w, &f.input, tags);
        }
        LogicalOperator::Aggregate(a) => {
            if w.factorized && a.group_by.is_empty() && chain_len(&a.input) >= 2 {
                tags.push("path:factorized-aggregate?".into());
            }
            path_tags(w, &a.input, tags);
        }
        LogicalOperator::Return(r) => path_tags(w, &r.input, tags),
        LogicalOperator::Project(r) => path_tags(w, &r.input, tags),
        LogicalOperator::Sort(r) => path_tags(w, &r.input, tags),
        LogicalOperator::Skip(r) => path_tags(w, &r.input, tags),
        LogicalOperator::Limit(r) => path_tags(w, &r.input, tags),
        LogicalOperator::Distinct(r) => path_tags(w, &r.input, tags),
        _ => {}
    }
}

// ------------------------------------------------------------------------------------------ emission
#[derive(Default)]
struct Rec {
    k: String,
    input: String,
    coq: Option<String>,
    show: Option<String>,
    orc: Option<String>,
    ks: Vec<(String, String)>,
    nt: bool,
    imp: String,
    tags: Vec<String>,
    msg: String,
}
struct Sink {
    w: std::io::BufWriter<Box<dyn std::io::Write>>,
    n: usize,
}
impl Sink {
    fn emit(&mut self, r: &Rec) {
        let mut s = String::new();
        let _ = write!(s, "{{\"k\":\"{}\",\"in\":\"{}\"", json_escape(&r.k), json_escape(&r.input));
        if let Some(q) = &r.coq {
            let _ = write!(s, ",\"coq\":\"{}\"", json_escape(q));
        }
        if let Some(q) = &r.show {
            let _ = write!(s, ",\"show\":\"{}\"", json_escape(q));
        }
        if let Some(q) = &r.orc {
            let _ = write!(s, ",\"orc\":\"{}\"", json_escape(q));
        }
        let _ = write!(s, ",\"oracle\":\"na\"");
        if !r.msg.is_empty() {
            let _ = write!(s, ",\"msg\":\"{}\"", json_escape(&r.msg));
        }
        s.push_str(",\"ks\":[");
        for (i, (id, t)) in r.ks.iter().enumerate() {
            if i > 0 {
                s.push(',');
            }
            let _ = write!(s, "[\"{}\",\"{}\"]", json_escape(id), json_escape(t));
        }
        s.push(']');
        let _ = write!(s, ",\"nt\":{},\"impl\":\"{}\",\"tags\":[", r.nt, json_escape(&r.imp));
        for (i, t) in r.tags.iter().enumerate() {
            if i > 0 {
                s.push(',');
            }
            let _ = write!(s, "\"{}\"", json_escape(t));
        }
        s.push_str("]}");
        writeln!(self.w, "{}", s).expect("write");
        self.n += 1;
    }
}

fn c08_ks(st: &str, q: &str, lang: Lang, plan: Option<&str>) -> Vec<(String, String)> {
    let mut ks = vec![
        ("C08-K1".to_string(), format!("k1_unbounded {q}")),
        ("C08-K2".to_string(), format!("k2_type_case {st} {q}")),
        ("C08-K3".to_string(), format!("k3_both_selfloop {st} {q}")),
        ("C08-K4".to_string(), format!("k4_zero_hops {q}")),
        ("C08-K5".to_string(), format!("k5_return_distinct {q}")),
        ("C08-K6".to_string(), format!("k6_gql_limit_first {} {q}", lang.coq())),
        ("C08-K7".to_string(), format!("k7_multi_label {q}")),
        ("C08-K10".to_string(), format!("k10_edge_prop_materialised {q}")),
    ];
    if let Some(p) = plan {
        ks.push(("C08-K8".to_string(), format!("k_c10_any {st} {p}")));
    }
    ks
}
fn c10_ks(st: &str, plan: &str) -> Vec<(String, String)> {
    vec![
        ("C10-K1".to_string(), format!("k_zone_edge {st} {plan}")),
        ("C10-K2".to_string(), format!("k_index_residual {st} {plan}")),
        ("C10-K3".to_string(), format!("k_index_num {st} {plan}")),
        ("C10-K4".to_string(), format!("k_range_num {st} {plan}")),
        ("C10-K5".to_string(), format!("k_fact_missing_level {st} {plan}")),
        ("C10-K6".to_string(), format!("k_fact_type_case {st} {plan}")),
    ]
}

/// one execution of `text` on `w`: correspondence record (+ the C08 oracle when `q` is given)
struct Run {
    obs: Obs,
    obs_coq: Option<String>,
    plan_coq: Option<String>,
    st_coq: String,
    tags: Vec<String>,
}
fn run_one(w: &World, lang: Lang, text: &str, cached_plan: Option<&LogicalPlan>) -> (Run, Option<LogicalPlan>) {
    let st_coq = w.store_coq();
    let compiled = match cached_plan {
        Some(p) => Ok(p.clone()),
        None => compile(w, lang, text),
    };
    let obs = execute(w, lang, text);
    let mut tags = vec![format!("lang:{}", lang.name())];
    let plan_coq = match &compiled {
        Ok(p) => {
            path_tags(w, &p.root, &mut tags);
            let c = plan_coq(&p.root);
            if c.is_none() {
                tags.push("plan:outside-modelled-fragment".into());
            }
            c
        }
        Err(_) => {
            tags.push("front-end:rejected".into());
            None
        }
    };
    if obs.rows.is_none() && compiled.is_ok() {
        tags.push("engine:error".into());
    }
    let obs_coq = obs.coq();
    (Run { obs, obs_coq, plan_coq, st_coq, tags }, compiled.ok())
}
